// Fork-per-case worker pool shared by the C03 and C08 harnesses: every case runs in a forked
// child (the real code may abort), up to `par` children at a time; results come back through a
// per-case file and are absorbed in case order so that ops.txt / impl.txt stay aligned.
#pragma once
#include <fcntl.h>
#include <sys/stat.h>

#include "common/circuit.hpp"

namespace fp {

inline int &childTimeoutSec() {
  static int t = 300;
  return t;
}


struct ChildOut {
  int fd;  // failures are written immediately
  std::ostringstream buf;
  explicit ChildOut(int f) : fd(f) {}
  void raw(const std::string &s) {
    size_t off = 0;
    while (off < s.size()) {
      ssize_t w = ::write(fd, s.data() + off, s.size() - off);
      if (w <= 0) break;
      off += w;
    }
  }
  static std::string oneLine(std::string s) {
    for (char &c : s)
      if (c == '\n') c = '|';
      else if (c == '\t') c = ' ';
    return s;
  }
  void fail(const std::string &what, const std::string &input) { raw("F " + oneLine(what) + "\t" + oneLine(input) + "\n"); }
  void op(const std::string &s) { buf << "O " << s << "\n"; }
  void opCircuit(const coloquinte::Circuit &c) {
    std::istringstream is(vc::circuitString(c));
    std::string l;
    while (std::getline(is, l)) op(l);
  }
  void impl(const std::string &s) { buf << "I " << s << "\n"; }
  void count(const std::string &k, long long n = 1) { buf << "C " << k << " " << n << "\n"; }
  void nontrivial(uint64_t h) { buf << "N " << h << "\n"; }
  void sample(const std::string &s) { buf << "S " << oneLine(s) << "\n"; }
  void eval() { buf << "E\n"; }
  void done() { raw(buf.str() + "D\n"); }
};


struct Job;
struct ChildOut;
using CaseFn = std::function<void(ChildOut &, const struct Job &)>;

struct Job {
  std::string id;
  char stream;
  uint64_t seed;
  long long k;
  pid_t pid = -1;
  std::string file;
};

inline void runChild(const Job &j, const CaseFn &body) {
  int fd = open(j.file.c_str(), O_WRONLY | O_CREAT | O_TRUNC, 0644);
  if (fd < 0) _exit(3);
  // the library reports progress on stdout
  int nul = open("/dev/null", O_WRONLY);
  dup2(nul, 1);
  int efd = open((j.file + ".err").c_str(), O_WRONLY | O_CREAT | O_TRUNC, 0644);
  if (efd >= 0) dup2(efd, 2);
  alarm(childTimeoutSec());
  ChildOut co(fd);
  body(co, j);
  co.done();
  close(fd);
  _exit(0);
}

inline void absorb(vh::Out &out, const Job &j, int status) {
  std::vector<std::string> lines = vh::readLines(j.file);
  std::vector<std::string> errs = vh::readLines(j.file + ".err");
  unlink(j.file.c_str());
  unlink((j.file + ".err").c_str());
  bool done = !lines.empty() && lines.back() == "D";
  // a ThreadSanitizer report of the child is a failure of the case (data race), also when the child went on
  for (size_t i = 0; i < errs.size(); ++i)
    if (errs[i].find("WARNING: ThreadSanitizer") != std::string::npos) {
      std::string rep;
      for (size_t k = i; k < errs.size() && k < i + 14; ++k) rep += errs[k] + "|";
      out.fail(j.id, rep.substr(0, 1500), "");
      out.count("tsan_reports");
      break;
    }
  for (const std::string &l : lines) {
    if (l.empty()) continue;
    std::string body = l.size() > 2 ? l.substr(2) : "";
    if (l[0] == 'F') {
      size_t t = body.find('\t');
      out.fail(j.id, body.substr(0, t), t == std::string::npos ? "" : body.substr(t + 1));
    }
    if (!done) continue;
    if (l[0] == 'O') out.ops << body << "\n";
    else if (l[0] == 'I') out.impl << body << "\n";
    else if (l[0] == 'C') {
      size_t sp = body.rfind(' ');
      out.count(body.substr(0, sp), atoll(body.c_str() + sp + 1));
    } else if (l[0] == 'N') out.nontrivial(strtoull(body.c_str(), nullptr, 10));
    else if (l[0] == 'S') out.sample(body);
    else if (l[0] == 'E') out.evaluations++;
  }
  if (!done) {
    std::string how = "unknown";
    if (WIFEXITED(status)) how = "exit" + std::to_string(WEXITSTATUS(status));
    if (WIFSIGNALED(status)) how = WTERMSIG(status) == SIGABRT ? "abort" : WTERMSIG(status) == SIGALRM ? "timeout" : "signal" + std::to_string(WTERMSIG(status));
    // neither "returns" nor "throws": assertion / sanitizer stops are the subject of C07, not of the frame property
    out.count(std::string(1, j.stream) + ":skipped_child_" + how);
    std::string first;
    for (auto &e : errs)
      if (e.find("Assertion") != std::string::npos || e.find("ERROR") != std::string::npos || e.find("runtime error") != std::string::npos) {
        first = e.substr(0, 240);
        break;
      }
    if (out.notes.size() < 5)
      out.notes.push_back("case " + j.id + " ended by " + how + " inside the real code (skipped; see C07): " + first);
  }
}

inline void runJobs(vh::Out &out, std::vector<Job> &jobs, int par, const CaseFn &body) {
  size_t next = 0, absorbed = 0;
  std::map<pid_t, size_t> running;
  std::map<size_t, int> finished;
  while (absorbed < jobs.size()) {
    while (next < jobs.size() && (int)running.size() < par && next < absorbed + 4 * par) {
      Job &j = jobs[next];
      j.file = out.dir + "/child-" + std::to_string(next) + ".txt";
      fflush(nullptr);
      pid_t p = fork();
      if (p == 0) runChild(j, body);
      j.pid = p;
      running[p] = next++;
    }
    int st = 0;
    pid_t p = waitpid(-1, &st, 0);
    if (p <= 0) break;
    auto it = running.find(p);
    if (it == running.end()) continue;
    finished[it->second] = st;
    running.erase(it);
    while (finished.count(absorbed)) {  // keep the streams in case order
      absorb(out, jobs[absorbed], finished[absorbed]);
      finished.erase(absorbed);
      ++absorbed;
    }
  }
}

inline Job mkJob(char stream, uint64_t seed, long long k) {
  Job j;
  j.stream = stream;
  j.seed = seed;
  j.k = k;
  j.id = std::string(1, stream) + std::to_string(seed) + "_" + std::to_string(k);
  return j;
}


// replay file written by check.py: the case id
inline std::string replayCaseId(const std::string &file) {
  std::ifstream f(file);
  std::string all((std::istreambuf_iterator<char>(f)), std::istreambuf_iterator<char>());
  size_t p = all.find("\"case\"");
  if (p == std::string::npos) return "";
  size_t q1 = all.find('"', all.find(':', p)), q2 = all.find('"', q1 + 1);
  if (q1 == std::string::npos || q2 == std::string::npos) return "";
  return all.substr(q1 + 1, q2 - q1 - 1);
}

}  // namespace fp
