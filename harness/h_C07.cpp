// C07 — placement calls return or throw; never crash or invoke undefined behaviour.
//
// End-to-end fault-monitoring oracle + correspondence streams for the checked
// (typed-arithmetic) Lean models.
//
// Stage F ("flow", the direct oracle of the property): every case is a circuit +
//   a parameter set accepted by ColoquinteParameters::check() + a sequence of
//   entry points (placeGlobal / legalize / placeDetailed).  The case runs in a
//   forked child (vh::isolated, with a timeout); the child's fate
//     ok | abort | sanitizer | signal:<n> | timeout | exit:<c>
//   is the observation (exceptions are caught in the child and printed as
//   throw:<class>: that is an allowed outcome).  Anything but "ok" is an oracle
//   failure whose replay is the serialized circuit + parameters + sequence.
//   The binary is built twice by tools/props/C07.py: assertions enabled ("san")
//   and disabled ("san_ndebug"), both ASan+UBSan.
// Stage M (correspondence, in-domain): row-legalizer op streams at 2^22 magnitude;
//   the Lean driver replays them through the CHECKED model and must print the same
//   values and never `fault`.
// Stage X (correspondence, beyond the domain): op streams with magnitudes up to
//   2^31 and pushes that do not fit, one forked child per case.  The checked model
//   must predict exactly whether the real code faults (UBSan / assert) and, if not,
//   the values.
// Stage S: computeSubdivisions(min,max,number) on the domain, one child per case,
//   tied to the checked model the same way; a fault on the domain is an oracle failure.
// Stage A: AbacusLegalizer::evaluatePlacement cost arithmetic at 2^22: the returned
//   distance must equal the 64-bit cost of an independent RowLegalizer twin.
// Stage D: further flow cases (same oracle as F) on dense designs: unit-grid circuits (row height 1-2, cell areas
//   1-4, densities up to 100 % and above), standard-cell grids with several bins in both directions, tiny circuits.
// Stage K: flow cases (same oracle as F) whose placement callback MODIFIES the circuit the way the API allows while a
//   placement call is running (Circuit::setCellWidth / setCellHeight / setNetWeights do not look at the busy flag; they
//   raise hasCellSizeUpdate_ / hasNetUpdate_, consumed by GlobalPlacer::updateCellSizes and refused by DetailedPlacer) and
//   calls the const queries (hpwl, computeRows, report, toString).  The callback follows an explicit script (part of the
//   replay): at the occ-th callback of a step kind (LowerBound / UpperBound / PenaltyUpdate / Detailed / any) set one cell
//   width or height (inflate, deflate, to zero, from zero; movable and fixed cells), one net weight (zero, fractional, up to
//   16) or run the queries.  A share of the circuits has movable cells of zero area next to the movable cells of positive area.
// Stages T/Y, I/J, P/Q: TetrisLegalizer, IncrNetModel and DetailedPlacement driven directly, in-domain (batches,
//   same values, never a fault) and beyond the domain (one child per case, the checked model predicts the kills).
// Stage U: Transportation1d::assign on single lines of bins (unit supplies, full lines), tied to Model/Transp1d.
// Stages V/W: Transportation1d pb(u, v, s, d); pb.balanceDemand(); pb.assign(); with the positions scaled as improveX/YTransport
//   scale them (1e8 / width: up to 2^56), tied to the checked `long long` twin Model/Transp1dChecked: V in-domain (equal, never a
//   fault), W magnitudes up to 2^62.9 (one child per case; the model predicts the UBSan kills).  Generators: harness/c07_t1d.hpp.
// Stages G/H: the general transportation of DensityLegalizer::reoptimize.  G (in-domain): bins within +-2^22, cell targets up
//   to 2^29, the six cost models with the quadratic penalty; the `float` costs are read from the real
//   DensityLegalizer::allDistances(), then TransportationProblem(capacities, demands, costs).increaseCapacity().solve()
//   .toAssignment(); the checked Lean twin (Model/TranspCostsChecked + TranspRunChecked) must print the same floats, the
//   same fixed-point costs and the same assignment and never fault.  H (beyond the domain, one child per case, int-cost
//   constructor): quantities up to 2^62 and signed costs up to INT_MAX/3; the model must predict exactly the UBSan kills.
// Stages B/Z: the integer bookkeeping of the density grid (harness/c07_grid.hpp): DensityGrid(binSize, regions) with every limit,
//   bin capacity and totalCapacity(), HierarchicalDensityPlacement(grid, demands) with totalDemand(), a walk of refineX / refineY /
//   coarsenX / coarsenY with binUsage / binCapacity of every bin of the view after each call, updateCellDemand(circuit); tied to
//   the checked twins of Model/GridChecked.lean.  B in-domain (regions within +-2^22, batches: equal, never a fault), Z beyond
//   (coordinates up to 2^31, piles of (2^31 - 1)^2 regions, binSize <= 0, ill-formed regions, calls outside their contract in the
//   assertion-enabled build; one child per case, the model predicts the kills).
//
// The work is spread over J worker processes (cases k = w mod J); workers only write
// record files, the parent aggregates them in case order, so the result does not
// depend on J.
#include <sys/stat.h>
#include <fcntl.h>

#include <chrono>
#include <climits>
#include <cstring>
#include <dirent.h>
#include <memory>

#include "common/circuit.hpp"
#include "place_detailed/abacus_legalizer.hpp"
#include "place_detailed/detailed_placement.hpp"
#include "place_detailed/incr_net_model.hpp"
#include "place_detailed/row_legalizer.hpp"
#include "place_detailed/tetris_legalizer.hpp"
#include "place_global/transportation.hpp"
#include "place_global/transportation_1d.hpp"
#include "c07_t1d.hpp"
#include "utils/helpers.hpp"
// stage G reads the real `float` costs through DensityLegalizer::allDistances(), a private member
#define private public
#include "place_global/density_legalizer.hpp"
#undef private
#include "c07_grid.hpp"

using namespace coloquinte;
static const long long M22 = 1ll << 22;

// ------------------------------------------------------------------ circuit spec
struct NetS {
  float w = 1.0f;
  std::vector<int> c, xo, yo;
};
struct Spec {
  std::vector<int> w, h, x, y;
  std::vector<bool> fx, ob;
  std::vector<CellOrientation> o;
  std::vector<CellRowPolarity> pol;
  std::vector<Row> rows;
  std::vector<NetS> nets;
  int n() const { return w.size(); }
  void addCell(int W, int H, int X, int Y, bool F, bool O, CellOrientation OR = CellOrientation::N,
               CellRowPolarity P = CellRowPolarity::ANY) {
    w.push_back(W); h.push_back(H); x.push_back(X); y.push_back(Y); fx.push_back(F); ob.push_back(O);
    o.push_back(OR); pol.push_back(P);
  }
  static Spec of(const Circuit &c) {
    Spec s;
    s.w = c.cellWidth(); s.h = c.cellHeight(); s.x = c.cellX(); s.y = c.cellY();
    s.fx = c.cellIsFixed(); s.ob = c.cellIsObstruction(); s.o = c.cellOrientation(); s.pol = c.cellRowPolarity();
    s.rows = c.rows();
    for (int n = 0; n < c.nbNets(); ++n) {
      NetS ns;
      ns.w = c.netWeight(n);
      for (int p = 0; p < c.nbPinsNet(n); ++p) {
        ns.c.push_back(c.pinCell(n, p));
        ns.xo.push_back(c.pinXOffsets_[c.netLimits_[n] + p]);
        ns.yo.push_back(c.pinYOffsets_[c.netLimits_[n] + p]);
      }
      s.nets.push_back(ns);
    }
    return s;
  }
  Circuit build() const {
    Circuit c(n());
    c.setCellWidth(w); c.setCellHeight(h); c.setCellX(x); c.setCellY(y);
    c.setCellIsFixed(fx); c.setCellIsObstruction(ob); c.setCellOrientation(o); c.setCellRowPolarity(pol);
    c.setRows(rows);
    for (auto &nt : nets) c.addNet(nt.c, nt.xo, nt.yo, nt.w);
    return c;
  }
  long long pw(int i) const { return isTurn(o[i]) ? h[i] : w[i]; }
  long long ph(int i) const { return isTurn(o[i]) ? w[i] : h[i]; }
  void translate(long long dx, long long dy) {
    for (int i = 0; i < n(); ++i) { x[i] += dx; y[i] += dy; }
    for (auto &r : rows) { r.minX += dx; r.maxX += dx; r.minY += dy; r.maxY += dy; }
  }
  // bounding box of everything that carries a coordinate
  void bbox(long long &x0, long long &x1, long long &y0, long long &y1) const {
    x0 = y0 = LLONG_MAX; x1 = y1 = LLONG_MIN;
    auto ex = [&](long long a, long long b, long long c, long long d) {
      x0 = std::min(x0, a); x1 = std::max(x1, b); y0 = std::min(y0, c); y1 = std::max(y1, d);
    };
    for (auto &r : rows) ex(r.minX, r.maxX, r.minY, r.maxY);
    for (int i = 0; i < n(); ++i) ex(x[i], x[i] + pw(i), y[i], y[i] + ph(i));
  }
  // the C07 domain: at least one row and one movable cell of positive area, |v| <= 2^22, areas < 2^31,
  // rows of one height with positive width
  // allowZeroMovable (stage K): movable cells of zero area are accepted next to at least one movable cell of positive area
  std::string domainError(bool allowZeroMovable = false) const {
    if (rows.empty()) return "no row";
    bool mov = false;
    for (int i = 0; i < n(); ++i) {
      if (w[i] < 0 || h[i] < 0) return "negative size";
      if ((long long)w[i] * h[i] >= (1ll << 31)) return "area";
      if (!fx[i] && (w[i] <= 0 || h[i] <= 0)) {
        if (allowZeroMovable) continue;
        return "movable cell of zero area";
      }
      if (!fx[i]) mov = true;
      if (w[i] > M22 || h[i] > M22) return "size";
    }
    if (!mov) return "no movable cell";
    for (auto &r : rows) {
      if (r.height() != rows[0].height() || r.height() <= 0 || r.width() <= 0) return "row shape";
    }
    long long x0, x1, y0, y1;
    bbox(x0, x1, y0, y1);
    if (x0 < -M22 || x1 > M22 || y0 < -M22 || y1 > M22) return "coordinate";
    for (auto &nt : nets)
      for (size_t p = 0; p < nt.c.size(); ++p) {
        if (std::llabs(nt.xo[p]) > M22 || std::llabs(nt.yo[p]) > M22) return "pin offset";
        if (nt.c[p] < 0 || nt.c[p] >= n()) return "pin cell";
      }
    return "";
  }
  long long maxAbs() const {
    long long x0, x1, y0, y1;
    bbox(x0, x1, y0, y1);
    return std::max(std::max(std::llabs(x0), std::llabs(x1)), std::max(std::llabs(y0), std::llabs(y1)));
  }
};

static bool parseSpec(std::istream &is, Spec &s) {
  std::string tok;
  int n = 0;
  if (!(is >> tok >> n) || tok != "circuit") return false;
  while (is >> tok) {
    if (tok == "end") return true;
    if (tok == "cell") {
      int W, H, X, Y, O, F, B, P;
      is >> W >> H >> X >> Y >> O >> F >> B >> P;
      s.addCell(W, H, X, Y, F, B, (CellOrientation)O, (CellRowPolarity)P);
    } else if (tok == "row") {
      int a, b, c, d, O;
      is >> a >> b >> c >> d >> O;
      s.rows.emplace_back(a, b, c, d, (CellOrientation)O);
    } else if (tok == "net") {
      long long mant; int e, k;
      is >> mant >> e >> k;
      NetS nt;
      nt.w = (float)std::ldexp((double)mant, e);
      for (int p = 0; p < k; ++p) { int c, xo, yo; is >> c >> xo >> yo; nt.c.push_back(c); nt.xo.push_back(xo); nt.yo.push_back(yo); }
      s.nets.push_back(nt);
    } else return false;
  }
  return false;
}

// ------------------------------------------------------------------ parameters
#define C07_PARAM_FIELDS(F)                                                                         \
  F(seed) F(global.maxNbSteps) F(global.nbInitialSteps) F(global.nbStepsBeforeRoughLegalization)      \
  F(global.gapTolerance) F(global.distanceTolerance) F(global.penaltyUpdateDistance)                  \
  F(global.penaltyUpdateBackoff) F(global.exportBlending) F(global.noise)                             \
  F(global.continuousModel.approximationDistance) F(global.continuousModel.approximationDistanceUpdateFactor) \
  F(global.continuousModel.maxNbConjugateGradientSteps) F(global.continuousModel.conjugateGradientErrorTolerance) \
  F(global.roughLegalization.nbSteps) F(global.roughLegalization.binSize)                             \
  F(global.roughLegalization.lineReoptSize) F(global.roughLegalization.lineReoptOverlap)              \
  F(global.roughLegalization.diagReoptSize) F(global.roughLegalization.diagReoptOverlap)              \
  F(global.roughLegalization.squareReoptSize) F(global.roughLegalization.squareReoptOverlap)          \
  F(global.roughLegalization.unidimensionalTransport) F(global.roughLegalization.quadraticPenalty)    \
  F(global.roughLegalization.sideMargin) F(global.roughLegalization.coarseningLimit)                  \
  F(global.roughLegalization.targetBlending) F(global.penalty.cutoffDistance)                         \
  F(global.penalty.cutoffDistanceUpdateFactor) F(global.penalty.areaExponent)                         \
  F(global.penalty.initialValue) F(global.penalty.updateFactor) F(global.penalty.targetBlending)      \
  F(legalization.orderingWidth) F(legalization.orderingHeight) F(legalization.orderingY)              \
  F(detailed.nbPasses) F(detailed.localSearchNbNeighbours) F(detailed.localSearchNbRows)              \
  F(detailed.shiftNbRows) F(detailed.shiftMaxNbCells) F(detailed.reorderingNbRows)                    \
  F(detailed.reorderingMaxNbCells)

static std::string paramsString(const ColoquinteParameters &p) {
  std::ostringstream os;
  char b[64];
  os << "params";
#define F(f) snprintf(b, sizeof b, "%.17g", (double)p.f); os << " " #f "=" << b;
  C07_PARAM_FIELDS(F)
#undef F
  os << " global.continuousModel.netModel=" << (int)p.global.continuousModel.netModel;
  os << " global.roughLegalization.costModel=" << (int)p.global.roughLegalization.costModel;
  os << " legalization.costModel=" << (int)p.legalization.costModel;
  return os.str();
}

static bool parseParams(const std::string &line, ColoquinteParameters &p) {
  std::istringstream is(line);
  std::string tok;
  if (!(is >> tok) || tok != "params") return false;
  while (is >> tok) {
    size_t eq = tok.find('=');
    if (eq == std::string::npos) return false;
    std::string k = tok.substr(0, eq);
    double v = strtod(tok.c_str() + eq + 1, nullptr);
    bool done = false;
    if (k == "effort") {  // hand-written corpus cases: start from the defaults of an effort
      p = ColoquinteParameters((int)v);
      done = true;
    }
#define F(f) if (!done && k == #f) { p.f = (decltype(p.f))v; done = true; }
    C07_PARAM_FIELDS(F)
#undef F
    if (k == "global.continuousModel.netModel") { p.global.continuousModel.netModel = (NetModelOption)(int)v; done = true; }
    if (k == "global.roughLegalization.costModel") { p.global.roughLegalization.costModel = (LegalizationModel)(int)v; done = true; }
    if (k == "legalization.costModel") { p.legalization.costModel = (LegalizationModel)(int)v; done = true; }
    if (!done) return false;
  }
  return true;
}

static double uni(vh::Rng &g, double lo, double hi) { return lo + (hi - lo) * (g.range(0, 1 << 20) / (double)(1 << 20)); }
static double logUni(vh::Rng &g, double lo, double hi) { return std::exp(uni(g, std::log(lo), std::log(hi))); }

// Parameter sets accepted by check(), inside the "moderate" box of C06/C07:
// CG tolerance >= 1e-6, approximation/cutoff distances >= 0.1.
static ColoquinteParameters genAllParams(vh::Rng &g, int &mode) {
  mode = g.range(0, 3);  // 0: defaults of an effort, 1: detailed/legalization knobs, 2..3: + global knobs
  for (int attempt = 0; attempt < 50; ++attempt) {
    ColoquinteParameters p = vc::genParams(g, mode >= 1);
    p.seed = g.range(-3, 1000);
    if (mode >= 1) {
      if (g.chance(1, 6)) p.detailed.nbPasses = 0;
      if (g.chance(1, 6)) p.detailed.localSearchNbNeighbours = 0;
      if (g.chance(1, 6)) p.detailed.shiftMaxNbCells = g.range(0, 1);
      if (g.chance(1, 6)) p.detailed.reorderingMaxNbCells = 0;
    }
    // keep global placement affordable under ASan (bounded iteration counts are part of the statement:
    // the default 400 is exercised too)
    p.global.maxNbSteps = g.chance(1, 10) ? 400 : g.range(1, 40);
    if (mode >= 2) {
      auto &G = p.global;
      G.nbInitialSteps = g.range(0, std::min(3, G.maxNbSteps - 1));
      G.nbStepsBeforeRoughLegalization = g.range(1, 3);
      G.gapTolerance = g.chance(1, 5) ? (g.chance(1, 2) ? 0.0 : 1.0) : uni(g, 0.0, 1.0);
      G.distanceTolerance = g.chance(1, 5) ? 0.0 : logUni(g, 0.01, 100.0);
      G.penaltyUpdateDistance = logUni(g, 0.01, 1000.0);
      G.penaltyUpdateBackoff = g.chance(1, 4) ? 1.0 : uni(g, 1.0, 10.0);
      G.exportBlending = g.chance(1, 4) ? (double)g.range(0, 1) : uni(g, -0.5, 1.5);
      G.noise = g.chance(1, 3) ? 0.0 : logUni(g, 1e-6, 2.0);
      auto &CM = G.continuousModel;
      CM.netModel = g.chance(1, 2) ? NetModelOption::BoundToBound : NetModelOption::Star;
      CM.approximationDistance = logUni(g, 0.1, 1000.0);
      CM.approximationDistanceUpdateFactor = uni(g, 0.8, 1.2);
      CM.maxNbConjugateGradientSteps = g.chance(1, 4) ? g.range(1, 5) : g.range(1, 1000);
      CM.conjugateGradientErrorTolerance = logUni(g, 1e-6, 1.0);
      auto &R = G.roughLegalization;
      R.costModel = (LegalizationModel)g.range(0, 5);
      R.nbSteps = g.range(0, 3);
      R.binSize = g.chance(1, 4) ? (double)g.range(1, 25) : uni(g, 1.0, 25.0);
      R.lineReoptSize = g.chance(1, 8) ? g.range(1, 64) : g.range(1, 5);
      R.lineReoptOverlap = R.lineReoptSize > 1 ? g.range(1, R.lineReoptSize - 1) : g.range(1, 3);
      R.diagReoptSize = g.chance(1, 8) ? g.range(1, 64) : g.range(1, 5);
      R.diagReoptOverlap = R.diagReoptSize > 1 ? g.range(1, R.diagReoptSize - 1) : g.range(1, 3);
      R.squareReoptSize = g.range(1, g.chance(1, 4) ? 8 : 3);
      R.squareReoptOverlap = R.squareReoptSize > 1 ? g.range(1, R.squareReoptSize - 1) : g.range(1, 3);
      R.unidimensionalTransport = g.chance(1, 2);
      R.quadraticPenalty = g.chance(1, 3) ? 0.0 : logUni(g, 1e-5, 1.0);
      R.sideMargin = g.chance(1, 3) ? 0.0 : (g.chance(1, 6) ? uni(g, 1.5, 100.0) : uni(g, 0.0, 1.5));  // accepted range 0..100
      R.coarseningLimit = logUni(g, 1.0, 1000.0);
      R.targetBlending = uni(g, -0.1, 0.9);
      auto &P = G.penalty;
      P.cutoffDistance = logUni(g, 0.1, 1000.0);
      P.cutoffDistanceUpdateFactor = uni(g, 0.8, 1.2);
      P.areaExponent = uni(g, 0.49, 1.01);
      P.initialValue = logUni(g, 1e-4, 10.0);
      P.updateFactor = uni(g, 1.01, 1.99);
      P.targetBlending = uni(g, 0.1, 1.1);
    }
    try {
      p.check();
      return p;
    } catch (const std::exception &) {
      // rejected by the parameter check: not in the quantifier, draw again
    }
  }
  mode = 0;
  return ColoquinteParameters(g.range(1, 9));
}

// ------------------------------------------------------------------ circuit generators
static const char *SHAPES[] = {"plain", "single_row", "single_cell", "no_nets", "deg1_nets", "all_pins_one_cell",
                               "zero_size_terminals", "all_fixed_but_one", "infeasible_density"};
static const int NSHAPES = 9;

// place the bounding box against the +-2^22 limits
static void pushToLimits(vh::Rng &g, Spec &s) {
  long long x0, x1, y0, y1;
  s.bbox(x0, x1, y0, y1);
  auto pick = [&](long long lo, long long hi) -> long long {  // offset d with lo+d >= -M22, hi+d <= M22
    long long dmin = -M22 - lo, dmax = M22 - hi;
    if (dmin > dmax) return 0;
    int m = g.range(0, 3);
    if (m == 0) return dmin;
    if (m == 1) return dmax;
    if (m == 2) return g.range(dmin, dmax);
    return 0 >= dmin && 0 <= dmax ? 0 : dmin;
  };
  long long dx = pick(x0, x1), dy = pick(y0, y1);
  s.translate(dx, dy);
}

// anisotropic designs: rows as wide as the whole coordinate range, tall rows, cells of width up to 2^22
static Spec genWide(vh::Rng &g, int maxCells) {
  Spec s;
  long long H = 1ll << g.range(6, 14);
  if (g.chance(1, 3)) H = g.range(100, 9000);
  int nRows = g.range(1, 4);
  long long Wd = g.chance(1, 2) ? 2 * M22 : g.range(M22 / 8, 2 * M22);
  long long x0 = g.chance(1, 2) ? -M22 : g.range(-M22, M22 - Wd);
  long long ybase = g.chance(1, 2) ? -M22 : (g.chance(1, 2) ? M22 - nRows * H : g.range(-M22, M22 - nRows * H));
  for (int r = 0; r < nRows; ++r)
    s.rows.emplace_back(x0, x0 + Wd, ybase + r * H, ybase + (r + 1) * H, r % 2 ? CellOrientation::FS : CellOrientation::N);
  long long maxW = std::min<long long>(M22, ((1ll << 31) - 1) / H);
  int nc = g.range(1, maxCells);
  long long budget = (long long)(Wd * nRows * (g.chance(1, 5) ? 1.3 : 0.8));
  for (int i = 0; i < nc; ++i) {
    long long w = g.chance(1, 3) ? g.range(1, maxW) : g.range(1, std::max(1ll, std::min(maxW, Wd / 16)));
    if (w > budget && i > 0) break;
    budget -= w;
    long long x = g.range(-M22, M22 - w), y = g.range(-M22, M22 - H);
    if (g.chance(1, 2)) { x = std::max(-M22, std::min(M22 - w, x0 + g.range(0, Wd))); y = ybase + H * g.range(0, nRows - 1); }
    static const std::vector<CellOrientation> oo = {CellOrientation::N, CellOrientation::S, CellOrientation::FN, CellOrientation::FS};
    s.addCell(w, H, x, y, false, g.chance(1, 2), g.pick(oo),
              g.chance(1, 4) ? (CellRowPolarity)g.range(1, 4) : CellRowPolarity::ANY);
  }
  int nf = g.range(0, 2);
  for (int i = 0; i < nf; ++i) {
    long long w = g.range(0, std::min(maxW, Wd / 8)), h = g.range(0, 2) * H;
    if (w * h >= (1ll << 31)) h = H;
    s.addCell(w, h, std::max(-M22, std::min(M22 - w, x0 + g.range(0, Wd))), ybase + H * g.range(0, nRows - 1), true, g.chance(2, 3));
  }
  int nn = g.range(0, 2 * s.n());
  for (int k = 0; k < nn; ++k) {
    NetS nt;
    nt.w = g.chance(1, 4) ? (float)(g.range(1, 16) / 4.0) : 1.0f;
    int deg = g.range(1, 4);
    for (int d = 0; d < deg; ++d) {
      int c = g.range(0, s.n() - 1);
      nt.c.push_back(c);
      nt.xo.push_back(g.range(0, s.w[c]));
      nt.yo.push_back(g.range(0, s.h[c]));
    }
    s.nets.push_back(nt);
  }
  return s;
}

// Dense designs with many cells relative to the density-grid bins (the kinds "unit", "grid", "tiny").
//   unit : abstract unit-grid circuits: row height 1-2, movable cells of area 1-4 (cellDemand = 1 exists),
//          densities up to exactly 100 % (every line of bins full) and beyond
//   grid : standard cells (row height 2-8 times a scale up to 2^22 magnitude), 2-40 rows so that the density grid has
//          several bins in BOTH directions and several coarsening levels, 10-200 cells, a few multi-row / wide cells
//   tiny : the smallest circuits there are (1-3 rows of width 1-4 and height 1-2, 1-4 cells), at the origin or against
//          the +-2^22 limits
// vc::genCircuit (row height >= 2, <= 6 rows, <= 15 cells) and genWide (<= 4 rows) never produce any of these.
struct DenseInfo { int cells = 0, minArea = 0; double density = 0; long long binsX = 1, binsY = 1; };
static Spec genDense(vh::Rng &g, int kind /*0 unit,1 grid,2 tiny*/, int maxCells, bool overfull, DenseInfo &di) {
  Spec s;
  // density: exactly full / nearly full / anything / (shape infeasible_density) overfull
  double dens;
  {
    int dm = g.range(0, 9);
    if (overfull) dens = 1.0 + g.range(1, 100) / 100.0;
    else if (dm < 3) dens = 1.0;
    else if (dm < 5) dens = 0.9 + g.range(0, 10) / 100.0;
    else if (dm < 8) dens = 0.5 + g.range(0, 40) / 100.0;
    else dens = 0.05 + g.range(0, 45) / 100.0;
  }
  long long S = 1;  // scale
  int H, nRows, W;  // in units of S
  int maxW;         // cell width in units
  if (kind == 0) {
    H = g.chance(7, 10) ? 1 : 2;
    nRows = g.chance(1, 8) ? g.range(1, 2) : g.range(3, 30);
    W = g.chance(1, 8) ? g.range(1, 5) : g.range(5, 60);
    maxW = 4 / H;
    if (g.chance(1, 2)) maxW = 1;  // every cell of the minimum size (area 1 when H == 1)
  } else if (kind == 1) {
    H = g.range(2, 8);
    nRows = g.range(2, 40);
    W = H * g.range(3, 40);
    maxW = g.range(2, 8);
    if (g.chance(1, 2)) {
      // up to the full magnitude: (W + 8) * S and (nRows * H + 8) * S stay within 2^22 on each side of the origin
      long long lim = std::min(2 * M22 / (W + 8), 2 * M22 / ((long long)nRows * H + 8));
      int r = 0;
      while ((2ll << r) <= lim) ++r;
      S = 1ll << g.range(0, r);
      if (g.chance(1, 3)) S = g.range(1, std::max(1ll, lim));
      while (S > 1 && (long long)maxW * S * 4 * H * S >= (1ll << 31)) S /= 2;  // areas below 2^31 (also for the macros)
    }
  } else {
    H = g.range(1, 2);
    nRows = g.range(1, 3);
    W = g.range(1, 4);
    maxW = g.range(1, 2);
  }
  // high densities need the area to match the number of cells the case can afford
  if (dens >= 0.9 && kind != 2) {
    double avgA = H * (1 + maxW) / 2.0;
    while ((double)W * nRows * H * dens > maxCells * avgA && (W > H || nRows > 1)) {
      if (W / H >= nRows) W = std::max(H, W * 3 / 4); else nRows = std::max(1, nRows * 3 / 4);
    }
  }
  int x0 = kind == 2 ? 0 : g.range(-3, 3), y0 = kind == 2 ? 0 : g.range(-3, 3);
  int ragged = g.chance(1, 4);
  long long cap = 0;
  for (int r = 0; r < nRows; ++r) {
    int a = x0 + (ragged ? g.range(0, std::min(2, W - 1)) : 0), b = x0 + W - (ragged ? g.range(0, std::min(2, W - 1)) : 0);
    if (b <= a) b = a + 1;
    CellOrientation ro = g.chance(1, 2) ? (r % 2 ? CellOrientation::FS : CellOrientation::N) : CellOrientation::N;
    if (W >= 8 && g.chance(1, 10)) {  // split row
      int m = g.range(a + 2, b - 3);
      s.rows.emplace_back(a * S, m * S, (y0 + r * H) * S, (y0 + (r + 1) * H) * S, ro);
      s.rows.emplace_back((m + g.range(0, 1)) * S, b * S, (y0 + r * H) * S, (y0 + (r + 1) * H) * S, ro);
    } else {
      s.rows.emplace_back(a * S, b * S, (y0 + r * H) * S, (y0 + (r + 1) * H) * S, ro);
    }
  }
  for (auto &r : s.rows) cap += (long long)(r.width() / S) * H;
  // fixed obstructions inside the area (their area leaves the capacity)
  int nf = kind == 2 ? g.range(0, 1) : (g.chance(1, 2) ? 0 : g.range(1, 4));
  struct Fx { int w, h, x, y; bool ob; };
  std::vector<Fx> fixed;
  for (int i = 0; i < nf; ++i) {
    Fx f;
    f.w = g.range(0, std::max(1, W / 4)); f.h = H * g.range(0, std::max(1, nRows / 3));
    f.x = x0 + g.range(-1, W); f.y = y0 + H * g.range(0, nRows - 1);
    f.ob = g.chance(3, 4);
    if (f.ob) {
      long long ox = std::max(0, std::min(x0 + W, f.x + f.w) - std::max(x0, f.x));
      long long oy = std::max(0, std::min(y0 + nRows * H, f.y + f.h) - std::max(y0, f.y));
      cap -= ox * oy;
    }
    fixed.push_back(f);
  }
  cap = std::max(1ll, cap);
  long long want = (long long)std::ceil(dens * cap - 1e-9);
  // initial positions: all on one point / uniform in the area / on a lattice / far away / in one corner bin
  int pm = g.range(0, 5);
  int cx = x0 + g.range(0, W), cy = y0 + g.range(0, nRows * H);
  long long area = 0;
  int minArea = INT_MAX;
  for (int i = 0; i < maxCells && area < want; ++i) {
    int w = g.range(1, maxW), rowsHigh = 1;
    if (kind == 0 && H == 1 && nRows >= 2 && g.chance(1, 30)) { rowsHigh = 2; w = g.range(1, 2); }  // area 2-4, two rows
    if (kind == 1 && g.chance(1, 25)) { rowsHigh = g.range(2, std::min(4, nRows)); w = g.range(1, std::min(W, 2 * maxW)); }
    if (kind == 1 && g.chance(1, 40)) w = g.range(1, W);  // wider than a bin
    if (w > W) w = W;
    if (!overfull && area + (long long)w * rowsHigh * H > want) { w = 1; rowsHigh = 1; }
    if (!overfull && area + (long long)w * rowsHigh * H > want) break;
    int x, y;
    switch (pm) {
      case 0: x = cx; y = cy; break;
      case 1: x = x0 + g.range(0, std::max(0, W - w)); y = y0 + g.range(0, nRows * H - 1); break;
      case 2: x = x0 + (7 * i) % W; y = y0 + (3 * i) % (nRows * H); break;
      case 3: {  // far from the rows, inside the domain
        long long far = std::min<long long>(500, M22 / S - std::max(W, nRows * H) - 16);
        if (far < 1) far = 0;
        x = g.range(-far, far); y = g.range(-far, far);
        break;
      }
      case 4: x = x0 + g.range(0, std::min(W - 1, 4)); y = y0 + g.range(0, std::min(nRows * H - 1, 4)); break;
      default: x = 0; y = 0; break;  // the library's "unplaced" default
    }
    CellRowPolarity pol = g.chance(1, 8) ? (CellRowPolarity)g.range(1, 4) : CellRowPolarity::ANY;
    s.addCell(w * S, rowsHigh * H * S, x * S, y * S, false, g.chance(1, 2), vc::pickUnturned(g), pol);
    area += (long long)w * rowsHigh * H;
    minArea = std::min<long long>(minArea, (long long)w * rowsHigh * H * S * S);
  }
  if (s.n() == 0) { s.addCell(S, H * S, x0 * S, y0 * S, false, true); area = H; minArea = H * S * S; }
  for (auto &f : fixed) s.addCell(f.w * S, f.h * S, f.x * S, f.y * S, true, f.ob, (CellOrientation)g.range(0, 3));
  // shuffle the cells (fixed ones interleaved)
  {
    int n = s.n();
    std::vector<int> perm(n);
    for (int i = 0; i < n; ++i) perm[i] = i;
    for (int i = n; i > 1; --i) std::swap(perm[i - 1], perm[g.range(0, i - 1)]);
    Spec t = s;
    for (int i = 0; i < n; ++i) {
      int j = perm[i];
      t.w[i] = s.w[j]; t.h[i] = s.h[j]; t.x[i] = s.x[j]; t.y[i] = s.y[j]; t.fx[i] = s.fx[j]; t.ob[i] = s.ob[j];
      t.o[i] = s.o[j]; t.pol[i] = s.pol[j];
    }
    s = t;
  }
  // nets: none / chain / random 2-4 pins / a few high-degree nets / mixture
  int n = s.n();
  int nm = g.range(0, 5);
  auto pin = [&](NetS &nt, int c) {
    nt.c.push_back(c);
    nt.xo.push_back(g.chance(1, 2) ? 0 : g.range(0, s.w[c]));
    nt.yo.push_back(g.chance(1, 2) ? 0 : g.range(0, s.h[c]));
  };
  if (nm == 1 || nm == 4)
    for (int i = 0; i + 1 < n; ++i) { NetS nt; pin(nt, i); pin(nt, i + 1); s.nets.push_back(nt); }
  if (nm == 2 || nm == 4 || nm == 5) {
    int nn = g.range(1, std::max(1, 2 * n));
    if (nn > 300) nn = 300;
    for (int k = 0; k < nn; ++k) {
      NetS nt;
      nt.w = g.chance(1, 6) ? (float)(g.range(1, 16) / 4.0) : 1.0f;
      int deg = g.range(1, 4);
      for (int d = 0; d < deg; ++d) pin(nt, g.range(0, n - 1));
      s.nets.push_back(nt);
    }
  }
  if (nm == 3 || nm == 5) {
    int nn = g.range(1, 4);
    for (int k = 0; k < nn; ++k) {
      NetS nt;
      int deg = g.range(5, std::max(5, std::min(n, 40)));
      for (int d = 0; d < deg; ++d) pin(nt, g.range(0, n - 1));
      s.nets.push_back(nt);
    }
  }
  di.cells = n;
  di.minArea = minArea;
  di.density = (double)area / cap;
  // bins of the default rough legalization (binSize 5 x minimum cell height)
  di.binsX = std::max<long long>(1, (long long)W / (5 * H));
  di.binsY = std::max<long long>(1, (long long)nRows * H / (5 * H));
  return s;
}

static void applyShape(vh::Rng &g, Spec &s, int shape) {
  int n = s.n();
  std::vector<int> mov;
  for (int i = 0; i < n; ++i) if (!s.fx[i]) mov.push_back(i);
  switch (shape) {
    case 3: s.nets.clear(); break;
    case 4:
      for (auto &nt : s.nets) { nt.c.resize(1); nt.xo.resize(1); nt.yo.resize(1); }
      break;
    case 5: {
      int c = mov.empty() ? 0 : g.pick(mov);
      if (s.nets.empty() && n > 0) { NetS nt; nt.c = {c, c, c}; nt.xo = {0, 1, 0}; nt.yo = {0, 0, 1}; s.nets.push_back(nt); }
      for (auto &nt : s.nets) for (auto &pc : nt.c) pc = c;
      break;
    }
    case 6: {
      long long x0, x1, y0, y1;
      s.bbox(x0, x1, y0, y1);
      int k = g.range(1, 4);
      for (int i = 0; i < k; ++i) {
        int id = s.n();
        long long X = g.chance(1, 2) ? g.range(x0, x1) : g.range(-M22, M22), Y = g.chance(1, 2) ? g.range(y0, y1) : g.range(-M22, M22);
        s.addCell(0, 0, X, Y, true, g.chance(1, 2), (CellOrientation)g.range(0, 7));
        NetS nt;
        nt.c = {id, mov.empty() ? id : g.pick(mov)};
        nt.xo = {0, 0}; nt.yo = {0, 0};
        s.nets.push_back(nt);
      }
      break;
    }
    case 7: {
      if (mov.size() > 1) {
        int keep = g.pick(mov);
        for (int i : mov) if (i != keep) { s.fx[i] = true; if (g.chance(1, 2)) s.ob[i] = g.chance(1, 2); }
      }
      break;
    }
    case 8: {  // more movable area than the rows offer
      long long rowArea = 0, area = 0;
      for (auto &r : s.rows) rowArea += (long long)r.width() * r.height();
      for (int i : mov) area += (long long)s.w[i] * s.h[i];
      int guard = 0;
      while (area <= rowArea && !mov.empty() && guard++ < 8) {
        int i = g.pick(mov);
        s.addCell(s.w[i], s.h[i], s.x[i], s.y[i], false, s.ob[i], s.o[i], s.pol[i]);
        area += (long long)s.w[i] * s.h[i];
      }
      if (area <= rowArea && !s.rows.empty()) {  // still feasible: shrink the rows instead of adding hundreds of cells
        long long H = s.rows[0].height(), nR = s.rows.size();
        long long wNew = std::max(1ll, area / (2 * H * nR));
        for (auto &r : s.rows) r.maxX = r.minX + (int)std::min<long long>(r.width(), wNew);
      }
      break;
    }
    default: break;
  }
}

// One modification performed by the placement callback (stage K).  It fires at the occ-th (0-based) callback whose step
// is `step` (the value of PlacementStep: 0 LowerBound, 1 UpperBound, 2 Detailed, 3 PenaltyUpdate; -1 = any step), counted
// over the whole entry sequence.  kind: 'w' / 'h' set the width / height of cell idx to val; 'n' sets the weight of net idx
// to wt; 'q' runs the const queries selected by the bits of val (1 hpwl, 2 computeRows, 4 report, 8 toString).
struct CbAct {
  int step = -1, occ = 0;
  char kind = 'q';
  int idx = 0;
  long long val = 0;
  float wt = 1.0f;
};
struct Case {
  std::string kind, seq;
  int shape = 0, pmode = 0;
  bool cb = false;
  std::string extra;  // additional distribution keys (",key,key")
  Spec spec;
  ColoquinteParameters params = ColoquinteParameters(1);
  std::vector<CbAct> script;  // empty: the callback only observes
  std::string input() const {
    std::ostringstream os;
    os << "seq " << seq << " cb " << (cb ? 1 : 0) << "\n" << paramsString(params) << "\n";
    vc::dumpCircuit(os, spec.build());
    if (!script.empty()) {
      os << "cbscript " << script.size() << "\n";
      for (const CbAct &a : script) {
        os << "act " << a.step << " " << a.occ << " " << a.kind << " " << a.idx << " ";
        if (a.kind == 'n') os << vc::exactDouble(a.wt); else os << a.val;
        os << "\n";
      }
    }
    return os.str();
  }
};
static bool parseScript(std::istream &is, std::vector<CbAct> &script) {
  std::string tok;
  size_t n = 0;
  if (!(is >> tok)) return true;  // no script
  if (tok != "cbscript" || !(is >> n)) return false;
  for (size_t i = 0; i < n; ++i) {
    CbAct a;
    if (!(is >> tok >> a.step >> a.occ >> a.kind >> a.idx) || tok != "act") return false;
    if (a.kind == 'n') { long long mant; int e; if (!(is >> mant >> e)) return false; a.wt = (float)std::ldexp((double)mant, e); }
    else if (!(is >> a.val)) return false;
    script.push_back(a);
  }
  return true;
}

static bool genCase(vh::Rng &g, const vh::Args &a, Case &cs) {
  int maxCells = a.thorough() ? 14 : 9;
  for (int attempt = 0; attempt < 20; ++attempt) {
    cs = Case();
    int kr = g.range(0, 9);
    int shape = g.chance(1, 2) ? 0 : g.range(1, NSHAPES - 1);
    cs.shape = shape;
    vc::GenOpts o;
    o.maxCells = maxCells;
    if (shape == 1) { o.maxRows = 1; o.splitRows = false; }
    if (shape == 2) { o.maxCells = 1; o.fixedCells = g.chance(1, 2); }
    if (shape == 8) o.maxUtil = 3.0;
    if (kr < 2) {
      cs.kind = "small";
      cs.spec = Spec::of(vc::genCircuit(g, o));
    } else if (kr < 7) {
      cs.kind = "scaled";
      o.multiRow = g.chance(1, 2);
      int r = g.range(6, o.multiRow ? 11 : 12);
      o.scale = 1ll << r;
      if (g.chance(1, 4)) o.scale = g.range(1ll << (r - 1), 1ll << r);
      cs.spec = Spec::of(vc::genCircuit(g, o));
      pushToLimits(g, cs.spec);
    } else {
      cs.kind = "wide";
      cs.spec = genWide(g, shape == 2 ? 1 : std::min(maxCells, 8));
      if (shape == 1) cs.spec.rows.erase(cs.spec.rows.begin() + 1, cs.spec.rows.end());
    }
    applyShape(g, cs.spec, shape);
    cs.params = genAllParams(g, cs.pmode);
    int sr = g.range(0, 9);
    // legalize alone / the README flow (global, detailed) / each entry on its own
    static const char *seqs[] = {"L", "LD", "LD", "D", "G", "GD", "GD", "GLD", "GLD", "DD"};
    cs.seq = seqs[sr];
    cs.cb = g.chance(1, 4);
    std::string err = cs.spec.domainError();
    if (err.empty()) return true;
  }
  return false;
}

// distribution keys of the rough-legalization variant a case exercises
static std::string paramKeys(const ColoquinteParameters &p) {
  auto &R = p.global.roughLegalization;
  std::ostringstream os;
  os << ",flow_rl_1d_transport_" << (R.unidimensionalTransport ? "on" : "off") << ",flow_rl_cost_model_" << (int)R.costModel
     << ",flow_rl_line_reopt_" << (R.lineReoptSize == 1 ? "1" : (R.lineReoptSize <= 5 ? "2-5" : "6-64"))
     << ",flow_rl_diag_reopt_" << (R.diagReoptSize == 1 ? "1" : (R.diagReoptSize <= 5 ? "2-5" : "6-64"))
     << ",flow_rl_square_reopt_" << (R.squareReoptSize == 1 ? "1" : (R.squareReoptSize <= 3 ? "2-3" : "4-8"))
     << ",flow_rl_nb_steps_" << R.nbSteps << ",flow_net_model_" << (int)p.global.continuousModel.netModel;
  return os.str();
}

// dense kinds (see genDense): every k-th case beyond the classic ones
static bool genDenseCase(vh::Rng &g, const vh::Args &a, Case &cs) {
  for (int attempt = 0; attempt < 20; ++attempt) {
    cs = Case();
    int kr = g.range(0, 9);
    int kind = kr < 5 ? 0 : (kr < 8 ? 1 : 2);
    static const char *kinds[] = {"unit", "grid", "tiny"};
    cs.kind = kinds[kind];
    // shapes: plain mostly; the degenerate shapes that make sense on a dense design
    static const int shapes[] = {0, 0, 0, 0, 0, 3, 4, 5, 6, 8, 1, 7};
    int shape = shapes[g.range(0, kind == 2 ? 11 : 9)];
    cs.shape = shape;
    int maxCells = kind == 2 ? g.range(1, 4) : (a.thorough() ? g.range(10, 400) : g.range(10, g.chance(1, 3) ? 250 : 120));
    DenseInfo di;
    cs.spec = genDense(g, kind, maxCells, shape == 8, di);
    if (shape == 1) {
      long long y = cs.spec.rows[0].minY;
      std::vector<Row> keep;
      for (auto &r : cs.spec.rows) if (r.minY == y) keep.push_back(r);
      cs.spec.rows = keep;
    }
    if (shape != 8) applyShape(g, cs.spec, shape);
    if (g.chance(1, kind == 2 ? 2 : 4)) pushToLimits(g, cs.spec);
    // parameters: the defaults of an effort half of the time (1-D transport on, L1), all variants otherwise
    if (g.chance(1, 2)) {
      cs.pmode = 0;
      cs.params = ColoquinteParameters(g.range(1, 9));
      cs.params.seed = g.range(-3, 1000);
      cs.params.global.maxNbSteps = g.chance(1, 10) ? 400 : g.range(1, 40);
    } else {
      cs.params = genAllParams(g, cs.pmode);
    }
    if (di.cells > 60 && cs.params.global.maxNbSteps > 60) cs.params.global.maxNbSteps = g.range(20, 60);
    if (cs.params.global.nbInitialSteps >= cs.params.global.maxNbSteps) cs.params.global.nbInitialSteps = 0;
    try { cs.params.check(); } catch (const std::exception &) { continue; }
    static const char *seqs[] = {"G", "G", "GD", "GD", "GLD", "GLD", "L", "LD", "LD", "D"};
    cs.seq = seqs[g.range(0, 9)];
    cs.cb = g.chance(1, 6);
    std::ostringstream ex;
    ex << ",dense_cells_" << (di.cells <= 4 ? "1-4" : (di.cells <= 30 ? "5-30" : (di.cells <= 100 ? "31-100" : "101+")))
       << ",dense_min_cell_area_" << (di.minArea == 1 ? "1" : (di.minArea <= 4 ? "2-4" : "5+"))
       << ",dense_density_" << (di.density > 1.0 + 1e-9 ? "above_100" : (di.density >= 1.0 - 1e-9 ? "exactly_100" : (di.density >= 0.9 ? "90-100" : (di.density >= 0.5 ? "50-90" : "below_50"))))
       << ",dense_default_bins_" << (di.binsX * di.binsY == 1 ? "1" : (di.binsX == 1 || di.binsY == 1 ? "1xN" : (di.binsX * di.binsY <= 16 ? "NxM_up_to_16" : "NxM_above_16")));
    cs.extra = ex.str();
    std::string err = cs.spec.domainError();
    if (err.empty()) return true;
  }
  return false;
}

// ------------------------------------------------------------------ stage K: callbacks that modify the circuit
// Circuit (classic or dense kinds, smaller so that global placement makes many steps within the budget) + optionally
// movable cells of zero area + a callback script.  Sizes set by the script stay inside the C07 domain (0 <= size <= 2^22,
// area < 2^31, a fixed cell stays within +-2^22).
static bool genCbCase(vh::Rng &g, const vh::Args &a, Case &cs) {
  for (int attempt = 0; attempt < 20; ++attempt) {
    bool ok = g.chance(1, 2) ? genCase(g, a, cs) : genDenseCase(g, a, cs);
    if (!ok) continue;
    Spec &s = cs.spec;
    if (s.n() > 150) continue;  // keep the case cheap: the script matters, not the size
    cs.kind = "cbmod_" + cs.kind;
    // entry sequences: mostly through placeGlobal (the only consumer of size updates), the others must refuse or ignore
    static const char *seqs[] = {"G", "G", "G", "GD", "GD", "GLD", "LD", "D", "L", "DG"};
    cs.seq = seqs[g.range(0, 9)];
    cs.cb = true;
    if (cs.params.global.maxNbSteps > 60) cs.params.global.maxNbSteps = g.range(5, 60);
    if (cs.params.global.nbInitialSteps >= cs.params.global.maxNbSteps) cs.params.global.nbInitialSteps = 0;
    try { cs.params.check(); } catch (const std::exception &) { continue; }
    long long H = s.rows[0].height();
    std::vector<int> mov, fixed, zero;
    for (int i = 0; i < s.n(); ++i) (s.fx[i] ? fixed : mov).push_back(i);
    // movable cells of zero area (zero width, zero height or both), some of them connected
    int nz = g.chance(1, 2) ? 0 : g.range(1, 3);
    for (int k = 0; k < nz && !mov.empty(); ++k) {
      int like = g.pick(mov);
      int zm = g.range(0, 3);
      int w = zm == 1 ? 0 : s.w[like], h = zm == 2 ? 0 : s.h[like];
      if (zm == 0 || zm == 3) { w = 0; h = zm == 0 ? (int)H : 0; }
      int id = s.n();
      s.addCell(w, h, s.x[like], s.y[like], false, g.chance(1, 2), vc::pickUnturned(g), CellRowPolarity::ANY);
      zero.push_back(id);
      if (g.chance(2, 3)) {
        NetS nt;
        nt.c = {id, g.pick(mov)};
        nt.xo = {0, 0}; nt.yo = {0, 0};
        s.nets.push_back(nt);
      }
    }
    if (!s.domainError(true).empty()) continue;
    // the script.  One movable cell of positive area (the anchor) is never resized, so that whatever subset of the
    // actions has fired when the next entry point starts, the circuit is still in the domain; sizes stay <= 2^22 and
    // areas < 2^31 for every combination of the values a cell is given
    bool fromZero = false, toZero = false, fixedResize = false, netW = false, query = false, inflate = false;
    int anchor = g.pick(mov);
    std::vector<int> resizable;
    for (int i : mov) if (i != anchor) resizable.push_back(i);
    std::vector<long long> maxW(s.w.begin(), s.w.end()), maxH(s.h.begin(), s.h.end());
    int nTrig = g.range(1, 5);
    for (int t = 0; t < nTrig; ++t) {
      CbAct base;
      int sm = g.range(0, 9);
      base.step = sm < 4 ? -1 : (sm < 6 ? 0 : (sm < 8 ? 1 : (sm < 9 ? 3 : 2)));
      base.occ = g.chance(1, 8) ? g.range(4, 40) : g.range(0, 3);
      int nAct = g.range(1, 4);
      for (int k = 0; k < nAct; ++k) {
        CbAct ac = base;
        int am = g.range(0, 9);
        int tm = g.range(0, 9);
        int c = -1;
        if (am < 6) {
          // resize one cell: a zero-area movable cell first when there is one
          if (!zero.empty() && tm < 4) c = g.pick(zero);
          else if (!fixed.empty() && tm < 6) c = g.pick(fixed);
          else if (!resizable.empty()) c = g.pick(resizable);
          else if (!zero.empty()) c = g.pick(zero);
          else if (!fixed.empty()) c = g.pick(fixed);
        }
        if (c >= 0) {
          bool width = g.chance(2, 3);
          long long cur = width ? s.w[c] : s.h[c], other = width ? s.h[c] : s.w[c];
          long long v;
          int vm = g.range(0, 7);
          if (cur == 0) {  // from zero
            v = width ? (g.chance(1, 2) ? g.range(1, 6) : std::max(1ll, H / 2)) : (g.chance(3, 4) ? H : g.range(1, 2 * H));
            if (vm == 0) v = 0;
          } else if (vm == 0) v = 0;
          else if (vm == 1) v = cur + (cur + 3) / 4;  // +25 %
          else if (vm == 2) v = cur * 2;
          else if (vm == 3) v = cur + 1;
          else if (vm == 4) v = std::max(0ll, cur - 1);
          else if (vm == 5) v = cur - cur / 4;
          else if (vm == 6) v = width ? cur : (cur / H + 1) * H;  // one more row
          else v = g.range(0, 2 * cur + 2);
          v = std::max(0ll, std::min(v, M22));
          // the bins of the density grid are sized after the smallest positive cell height: a height far below the row
          // height would only make a later placeGlobal slow (millions of bins), which is not the subject here
          if (!width && v > 0 && v < H / 4) v = H / 4;
          long long otherMax = width ? maxH[c] : maxW[c];
          while (v > 0 && v * otherMax >= (1ll << 31)) v /= 2;
          if (s.fx[c]) v = std::min(v, std::max(0ll, M22 - std::max<long long>(s.x[c], s.y[c])));
          (width ? maxW[c] : maxH[c]) = std::max(width ? maxW[c] : maxH[c], v);
          ac.kind = width ? 'w' : 'h';
          ac.idx = c;
          ac.val = v;
          if (!s.fx[c] && cur * other == 0 && v > 0 && (width ? s.h[c] : s.w[c]) > 0) fromZero = true;
          if (!s.fx[c] && cur * other > 0 && v == 0) toZero = true;
          if (!s.fx[c] && v > cur && cur > 0) inflate = true;
          if (s.fx[c]) fixedResize = true;
        } else if (am < 8 && !s.nets.empty()) {
          static const float ws[] = {0.0f, 0.25f, 0.5f, 1.0f, 1.5f, 3.0f, 16.0f, 0.001f};
          ac.kind = 'n';
          ac.idx = g.range(0, s.nets.size() - 1);
          ac.wt = ws[g.range(0, 7)];
          netW = true;
        } else {
          ac.kind = 'q';
          ac.val = g.range(1, 15);
          query = true;
        }
        cs.script.push_back(ac);
      }
    }
    std::ostringstream ex;
    ex << cs.extra << ",cbmod_zero_area_movable_cells_" << zero.size();
    if (fromZero) ex << ",cbmod_script_movable_from_zero_area";
    if (toZero) ex << ",cbmod_script_movable_to_zero_area";
    if (inflate) ex << ",cbmod_script_movable_inflated";
    if (fixedResize) ex << ",cbmod_script_fixed_cell_resized";
    if (netW) ex << ",cbmod_script_net_weight";
    if (query) ex << ",cbmod_script_queries";
    cs.extra = ex.str();
    return true;
  }
  return false;
}

// ------------------------------------------------------------------ running one flow case in a child
static void silenceStdout() {
  int dn = open("/dev/null", O_WRONLY);
  if (dn >= 0) { dup2(dn, 1); close(dn); }
}

// On timeout the child prints where it is before dying of SIGALRM, so that the parent can tell the known
// slow solver (KF-C07-1) from an unknown hang.
extern "C" void __sanitizer_print_stack_trace(void) __attribute__((weak));
static void onAlarm(int) {
  const char m[] = "TIMEOUT stack:\n";
  if (write(2, m, sizeof m - 1) < 0) {}
  if (__sanitizer_print_stack_trace) __sanitizer_print_stack_trace();
  signal(SIGALRM, SIG_DFL);
  raise(SIGALRM);
}

static void runFlow(const Case &cs, std::ostream &os) {
  silenceStdout();
  signal(SIGALRM, onAlarm);
  Circuit c = cs.spec.build();
  long long nCb = 0, nFired = 0, nQueryThrow = 0;
  long long perStep[4] = {0, 0, 0, 0};
  std::optional<PlacementCallback> cb;
  if (cs.cb || !cs.script.empty()) cb = [&](PlacementStep st) {
    int s = (int)st;
    long long any = nCb++, mine = (s >= 0 && s < 4) ? perStep[s]++ : -1;
    (void)c.hpwl();
    // stage K: the modifications the API allows while a placement call is running, and the const queries
    for (const CbAct &a : cs.script) {
      if (a.step == -1 ? a.occ != any : (a.step != s || a.occ != mine)) continue;
      ++nFired;
      if (a.kind == 'w' && a.idx >= 0 && a.idx < c.nbCells()) {
        std::vector<int> w = c.cellWidth();
        w[a.idx] = (int)a.val;
        c.setCellWidth(w);
      } else if (a.kind == 'h' && a.idx >= 0 && a.idx < c.nbCells()) {
        std::vector<int> h = c.cellHeight();
        h[a.idx] = (int)a.val;
        c.setCellHeight(h);
      } else if (a.kind == 'n' && a.idx >= 0 && a.idx < c.nbNets()) {
        std::vector<float> w;
        for (int n = 0; n < c.nbNets(); ++n) w.push_back(c.netWeight(n));
        w[a.idx] = a.wt;
        c.setNetWeights(w);
      } else if (a.kind == 'q') {
        // a query may refuse (report() needs rows of one height): that is an exception of the query, kept apart
        try {
          if (a.val & 1) (void)c.hpwl();
          if (a.val & 2) (void)c.computeRows();
          if (a.val & 4) (void)c.report();
          if (a.val & 8) (void)c.toString();
        } catch (const std::exception &) {
          ++nQueryThrow;
        }
      }
    }
  };
  for (char e : cs.seq) {
    const char *name = e == 'G' ? "global" : (e == 'L' ? "legalize" : "detailed");
    try {
      if (e == 'G') c.placeGlobal(cs.params, cb);
      else if (e == 'L') c.legalize(cs.params, cb);
      else c.placeDetailed(cs.params, cb);
      os << name << " ok\n";
    } catch (const std::exception &ex) {
      os << name << " " << vc::exClass(ex) << "\n";
    } catch (...) {
      os << name << " throw:other\n";
    }
  }
  if (!cs.script.empty()) {
    os << "cbmod_actions_fired " << (nFired == 0 ? "0" : (nFired <= 2 ? "1-2" : "3+")) << "\n";
    os << "cbmod_callbacks " << (nCb == 0 ? "0" : (nCb <= 5 ? "1-5" : (nCb <= 30 ? "6-30" : "31+"))) << "\n";
    if (nQueryThrow) os << "cbmod_query throw\n";
  }
}

static std::string summarize(const std::string &diag) {
  std::istringstream is(diag);
  std::string ln, out;
  int frames = 0;
  while (std::getline(is, ln)) {
    bool key = ln.find("Assertion") != std::string::npos || ln.find("runtime error") != std::string::npos ||
               ln.find("ERROR: AddressSanitizer") != std::string::npos || ln.find("SUMMARY") != std::string::npos ||
               ln.find("terminate called") != std::string::npos || ln.find("what():") != std::string::npos ||
               ln.find("TIMEOUT stack") != std::string::npos;
    // frames of the library (Transportation1d* and a few helpers live outside the coloquinte namespace)
    bool frame = ln.find("    #") == 0 && frames < 8 &&
                 (ln.find("coloquinte::") != std::string::npos || ln.find("/src/place_") != std::string::npos ||
                  ln.find("/src/utils/") != std::string::npos || ln.find("/src/coloquinte") != std::string::npos);
    if (frame) ++frames;
    if (key || frame) {
      if (out.size() < 1800) out += ln.substr(0, 300) + " | ";
    }
  }
  return out;
}

// which already-known defect (being fixed by other builders) a fault belongs to, by its report text
static std::string knownTag(const std::string &sum) {
  if (sum.find("cellPred != cellNext") != std::string::npos) return "F3_addRow_assert";
  if (sum.find("checkSolutionOptimal") != std::string::npos) return "F11_checkSolutionOptimal";
  if (sum.find("computeSubdivisions") != std::string::npos || sum.find("helpers.hpp") != std::string::npos) return "NEW_computeSubdivisions";
  if (sum.find("nan is outside the range") != std::string::npos || sum.find("inf is outside the range") != std::string::npos)
    return "NEW_global_nonfinite_position";
  if (sum.find("-2147483648") != std::string::npos && sum.find("tetris_legalizer") != std::string::npos)
    return "NEW_global_nonfinite_position(consequence)";
  return "other";
}

// ------------------------------------------------------------------ record files (worker -> parent)
static const char FS = '\x1f', RS = '\x1e';
struct Rec {
  long long k = 0;
  std::string stage, id, counts, fate, what, input, ops, impl, sample;
  uint64_t nontrivialHash = 0;
  double seconds = 0;
  std::string kf;
};
static void writeRec(std::ostream &os, const Rec &r) {
  os << r.k << FS << r.stage << FS << r.id << FS << r.counts << FS << r.fate << FS << r.what << FS << r.input << FS << r.ops
     << FS << r.impl << FS << r.sample << FS << r.nontrivialHash << FS << r.seconds << FS << r.kf << RS;
  os.flush();
}
static std::vector<Rec> readRecs(const std::string &path) {
  std::ifstream f(path, std::ios::binary);
  std::stringstream ss;
  ss << f.rdbuf();
  std::string all = ss.str();
  std::vector<Rec> out;
  size_t pos = 0;
  while (pos < all.size()) {
    size_t e = all.find(RS, pos);
    if (e == std::string::npos) break;
    std::string rec = all.substr(pos, e - pos);
    pos = e + 1;
    std::vector<std::string> fl;
    size_t p = 0;
    while (true) {
      size_t q = rec.find(FS, p);
      if (q == std::string::npos) { fl.push_back(rec.substr(p)); break; }
      fl.push_back(rec.substr(p, q - p));
      p = q + 1;
    }
    if (fl.size() < 11) continue;
    Rec r;
    r.k = atoll(fl[0].c_str()); r.stage = fl[1]; r.id = fl[2]; r.counts = fl[3]; r.fate = fl[4]; r.what = fl[5];
    r.input = fl[6]; r.ops = fl[7]; r.impl = fl[8]; r.sample = fl[9]; r.nontrivialHash = strtoull(fl[10].c_str(), nullptr, 10);
    if (fl.size() > 11) r.seconds = atof(fl[11].c_str());
    if (fl.size() > 12) r.kf = fl[12];
    out.push_back(r);
  }
  return out;
}

// ------------------------------------------------------------------ stage F
static int log2Bucket(long long v) { int b = 0; while ((1ll << b) < v && b < 40) ++b; return b; }

// Once two flow cases have been confirmed as not terminating (timeout at 9x the budget, not the known
// slow solver) the violation is established; the remaining flow cases are skipped so that a
// non-termination defect costs minutes, not one budget per case.  The flag file is shared by the workers.
static std::string g_nontermFlag;
static bool nontermEstablished() {
  if (g_nontermFlag.empty()) return false;
  return std::ifstream(g_nontermFlag + ".2").good();
}
static void noteNontermination() {
  if (g_nontermFlag.empty()) return;
  if (std::ifstream(g_nontermFlag + ".1").good()) std::ofstream(g_nontermFlag + ".2") << "x";
  else std::ofstream(g_nontermFlag + ".1") << "x";
}

static Rec flowRecord(const std::string &id, long long k, const Case &cs, int timeout) {
  Rec r;
  r.k = k; r.stage = "F"; r.id = id;
  if (nontermEstablished()) {
    r.fate = "ok";
    r.counts = "flow_skipped_after_confirmed_nontermination";
    return r;
  }
  std::string output, diag;
  auto t0 = std::chrono::steady_clock::now();
  std::string fate = vh::isolated([&](std::ostream &os) { runFlow(cs, os); }, output, timeout, &diag);
  bool retried = false;
  // KF-C07-1: TransportationSuccessiveShortestPath moves one unit of demand per augmentation on some instances, so
  // its running time grows with the demand magnitude (cell areas up to 2^31): minutes for a 9-cell circuit at 2^22.
  // It terminates; it is classified by where the child is when the budget expires.
  bool slowSolver = fate == "timeout" && diag.find("TransportationSuccessiveShortestPath::") != std::string::npos;
  if (fate == "timeout" && !slowSolver) {
    // slow is not the same as non-terminating (ASan costs 10-20x and the machine may be loaded): any other timeout is
    // only reported if the case also exceeds four more times the budget
    retried = true;
    fate = vh::isolated([&](std::ostream &os) { runFlow(cs, os); }, output, 4 * timeout, &diag);
    slowSolver = fate == "timeout" && diag.find("TransportationSuccessiveShortestPath::") != std::string::npos;
    if (fate == "timeout" && !slowSolver) noteNontermination();
  }
  r.fate = fate;
  std::ostringstream cnt;
  cnt << "flow_kind_" << cs.kind << ",flow_shape_" << SHAPES[cs.shape] << ",flow_seq_" << cs.seq << ",flow_params_mode_" << cs.pmode
      << ",flow_maxabs_2^" << log2Bucket(cs.spec.maxAbs()) << ",flow_fate_" << fate << cs.extra;
  if (cs.seq.find('G') != std::string::npos) cnt << paramKeys(cs.params);
  if (retried) cnt << ",flow_slow_case_retried";
  bool anyOk = false;
  {
    std::istringstream is(output);
    std::string nm, res;
    while (is >> nm >> res) {
      cnt << ",flow_" << nm << "_" << res;
      if (res == "ok" && nm.compare(0, 6, "cbmod_") != 0) anyOk = true;
    }
  }
  if (fate != "ok") {
    std::string sum = summarize(diag);
    std::string tag = slowSolver ? "KF-C07-1_slow_transportation_solver" : knownTag(sum);
    if (slowSolver) r.kf = "KF-C07-1";
    cnt << ",flow_fault_" << tag;
    r.what = "placement entry sequence " + cs.seq + " on a " + cs.kind + "/" + SHAPES[cs.shape] + " circuit" +
             (cs.script.empty() ? std::string() : " whose callback resizes cells / reweights nets / queries the circuit (" +
                                                      std::to_string(cs.script.size()) + " scripted actions)") +
             " ended with " + fate + " instead of returning or throwing [" + tag + "]: " + sum;
    r.input = cs.input();
  } else if (anyOk) {
    r.nontrivialHash = vh::hashStr(cs.input());
  }
  r.counts = cnt.str();
  std::ostringstream sm;
  sm << cs.kind << "/" << SHAPES[cs.shape] << " seq=" << cs.seq << " cells=" << cs.spec.n() << " rows=" << cs.spec.rows.size()
     << " nets=" << cs.spec.nets.size() << " maxabs=" << cs.spec.maxAbs() << " -> " << fate;
  r.sample = sm.str();
  r.seconds = std::chrono::duration<double>(std::chrono::steady_clock::now() - t0).count();
  return r;
}

// ------------------------------------------------------------------ stages M / X : row legalizer op streams
struct Inst {
  long long b, e;
  std::vector<std::pair<long long, long long>> cells;  // (width, target)
  std::string str() const {
    std::ostringstream os;
    os << "rowleg [" << b << "," << e << "]";
    for (auto &c : cells) os << " (" << c.first << "," << c.second << ")";
    return os.str();
  }
};

// in-domain instance at 2^22 magnitude: |b|,|e|,|t| <= 2^22, widths positive, pushes fit
static Inst domainInst(vh::Rng &g) {
  Inst in;
  long long len = g.chance(1, 3) ? 2 * M22 : g.range(1, 2 * M22);
  in.b = g.range(-M22, M22 - len);
  in.e = in.b + len;
  long long L = len;
  int n = g.range(1, g.chance(1, 8) ? 60 : 12);
  long long used = 0;
  long long maxw = std::max(1ll, L / std::max(1, n / 2));
  for (int i = 0; i < n; ++i) {
    long long w = g.range(1, maxw);
    if (g.chance(1, 3)) w = g.range(1, 8);
    if (g.chance(1, 10)) w = L - used;  // fills the row exactly
    if (w <= 0 || used + w > L) break;
    long long t;
    int m = g.range(0, 9);
    if (m < 4) t = g.range(in.b - 3, in.e + 3);
    else if (m < 6) t = g.chance(1, 2) ? -M22 : M22;
    else if (m < 7) t = g.range(-M22, M22);
    else if (m < 8) t = in.b + used;
    else t = in.cells.empty() ? in.b : in.cells.back().second + g.range(-2, 2);
    t = std::max(-M22, std::min(M22, t));
    in.cells.push_back({w, t});
    used += w;
  }
  if (in.cells.empty()) in.cells.push_back({1, in.b});
  return in;
}

// beyond the domain: magnitudes up to INT_MAX, some pushes do not fit
static Inst wildInst(vh::Rng &g) {
  Inst in;
  int mag = g.range(23, 31);
  long long R = (1ll << mag) - 1;
  long long len = g.range(1, std::min<long long>(2 * R, INT_MAX));
  in.b = g.range(-R, R - len);
  in.e = in.b + len;
  int n = g.range(1, 8);
  long long used = 0;
  bool overfull = g.chance(1, 6);
  for (int i = 0; i < n; ++i) {
    long long w = g.range(1, std::max(1ll, len / std::max(1, n / 2)));
    if (g.chance(1, 3)) w = g.range(1, 1000);
    if (used + w > len && !overfull) break;
    if (used + w > INT_MAX) break;
    long long t = g.chance(1, 2) ? g.range(in.b - 3, in.e + 3) : g.range(-R, R);
    t = std::max<long long>(INT_MIN + 1, std::min<long long>(INT_MAX, t));
    in.cells.push_back({w, t});
    used += w;
  }
  if (in.cells.empty()) in.cells.push_back({1, in.b});
  return in;
}

static void instOps(const Inst &in, vh::Rng g, std::ostream &ops) {
  ops << "new " << in.b << " " << in.e << "\n";
  for (auto &c : in.cells) {
    if (g.chance(2, 3)) ops << "cost " << c.first << " " << c.second << "\n";
    ops << "push " << c.first << " " << c.second << "\n";
    ops << "place\n";
  }
}
static void instImpl(const Inst &in, vh::Rng g, std::ostream &impl) {
  RowLegalizer leg(in.b, in.e);
  for (auto &c : in.cells) {
    if (g.chance(2, 3)) impl << "cost " << leg.getCost(c.first, c.second) << "\n";
    impl << "push " << leg.push(c.first, c.second) << "\n";
    impl << "place " << vh::join(leg.getPlacement()) << "\n";
  }
}

// ------------------------------------------------------------------ stage S : computeSubdivisions
struct Sub { long long mn, mx, number; };
static Sub genSub(vh::Rng &g) {
  Sub s;
  long long ext = g.chance(1, 3) ? 2 * M22 : (g.chance(1, 2) ? g.range(0, 2 * M22) : g.range(0, 4096));
  s.mn = g.range(-M22, M22 - ext);
  s.mx = s.mn + ext;
  // updateBinsToSize: number = max(1, extent / maxSize), maxSize = int(binSize * minCellHeight) >= 1
  long long maxSize = g.chance(1, 2) ? g.range(1, 64) : (1ll << g.range(0, 20));
  s.number = std::max(1ll, ext / maxSize);
  if (s.number > 200000) s.number = std::max(1ll, ext / g.range(64, 4096));
  return s;
}
static void subImpl(const Sub &s, std::ostream &os) {
  std::vector<int> r = computeSubdivisions(s.mn, s.mx, s.number);
  long long sum = 0;
  for (int v : r) sum += v;
  os << "subdiv " << r.size() << " " << sum << " " << r.front() << " " << r[r.size() / 2] << " " << r.back() << "\n";
}

// ------------------------------------------------------------------ stage A : Abacus cost arithmetic
struct Aba { long long b, e; std::vector<std::pair<long long, long long>> cells; };  // last cell is evaluated, the others placed
static Aba genAba(vh::Rng &g) {
  Inst in = domainInst(g);
  Aba a{in.b, in.e, in.cells};
  if (a.cells.size() > 6) a.cells.resize(6);
  if (g.chance(1, 3)) {  // a wide cell far from the row: cost = width * distance ~ 2^44
    long long w = g.range(M22 / 4, M22);
    a.cells.back() = {w, g.chance(1, 2) ? -M22 : M22};
  }
  return a;
}
static void abaOps(const Aba &a, std::ostream &ops) {
  ops << "new " << a.b << " " << a.e << "\n";
  for (size_t i = 0; i + 1 < a.cells.size(); ++i) ops << "apush " << a.cells[i].first << " " << a.cells[i].second << "\n";
  ops << "aeval " << a.cells.back().first << " " << a.cells.back().second << "\n";
}
// returns "" or the oracle failure
static std::string abaImpl(const Aba &a, std::ostream &impl) {
  std::vector<Row> rows = {Row(a.b, a.e, 0, 1, CellOrientation::N)};
  int n = a.cells.size();
  std::vector<int> w, h(n, 1), x, y(n, 0);
  for (auto &c : a.cells) { w.push_back(c.first); x.push_back(c.second); }
  std::vector<CellRowPolarity> pol(n, CellRowPolarity::ANY);
  std::vector<CellOrientation> orient(n, CellOrientation::N);
  AbacusLegalizer leg(rows, w, h, pol, x, y, orient);
  RowLegalizer twin(a.b, a.e);
  for (int i = 0; i + 1 < n; ++i) {
    leg.placeCell(i);
    if (twin.remainingSpace() >= w[i]) twin.push(w[i], x[i]);
  }
  auto r = leg.evaluatePlacement(n - 1, 0);
  impl << "aeval " << (r.first ? 1 : 0) << " " << r.second << "\n";
  bool fits = twin.remainingSpace() >= w[n - 1];
  if (fits != r.first) return "evaluatePlacement feasibility differs from the twin row legalizer";
  if (fits) {
    long long want = twin.getCost(w[n - 1], x[n - 1]);
    if (want != r.second)
      return "AbacusLegalizer::evaluatePlacement returned distance " + std::to_string(r.second) +
             " but the 64-bit cost of the row legalizer is " + std::to_string(want) + " (narrowed through int)";
  }
  return "";
}

// ------------------------------------------------------------------ stages T / Y : TetrisLegalizer driven directly
// Stage T (in-domain): rows within +-2^22 (1-6 y-levels of 1-3 segments, row height up to 2^20), cells of width <= 2^22
//   and height <= 2^22 (1-4 rows high), targets within +-2^22 and, as placeGlobal may hand over, up to +-2^29.
//   The checked Lean model must return the same placement and never fault.
// Stage Y (beyond the domain): coordinates, widths and targets up to 2^31; one forked child per case; the checked
//   model must predict exactly whether UBSan kills the real code (int overflow in closestRow / getPossibleIntervals /
//   attemptPlacement / placeCell / instanciateCell) and the placement otherwise.
struct TetInst {
  std::vector<Row> rows;
  std::vector<int> w, h, tx, ty;
  std::vector<CellRowPolarity> pol;
  std::vector<CellOrientation> o;
  std::string ops() const {
    std::ostringstream os;
    os << "tnew\n";
    for (auto &r : rows) os << "trow " << r.minX << " " << r.maxX << " " << r.minY << " " << r.maxY << " " << (int)r.orientation << "\n";
    for (size_t i = 0; i < w.size(); ++i)
      os << "tcell " << w[i] << " " << h[i] << " " << (int)pol[i] << " " << tx[i] << " " << ty[i] << " " << (int)o[i] << "\n";
    os << "trun\n";
    return os.str();
  }
};
struct TetrisProbe : TetrisLegalizer {
  using TetrisLegalizer::TetrisLegalizer;
  bool placed(int i) const { return isPlaced(i); }
};
static void tetImpl(const TetInst &t, std::ostream &os) {
  TetrisProbe leg(t.rows, t.w, t.h, t.pol, t.tx, t.ty, t.o);
  leg.run();
  os << "tetris";
  for (size_t i = 0; i < t.w.size(); ++i)
    os << " " << (leg.placed(i) ? 1 : 0) << " " << leg.cellLegalX()[i] << " " << leg.cellLegalY()[i] << " " << (int)leg.cellLegalOrientation()[i];
  os << "\n";
}
// R: bound on every coordinate (2^22 in the domain); wild: widths/targets anywhere in the int range
static TetInst genTet(vh::Rng &g, long long R, bool wild) {
  TetInst t;
  long long H = g.chance(1, 2) ? g.range(1, 16) : (1ll << g.range(0, 20));
  if (g.chance(1, 4)) H = g.range(1, 1ll << 20);
  int L = g.range(1, 6);
  long long span = (long long)L * H + 2 * H;
  long long y0 = g.chance(1, 3) ? -R : (g.chance(1, 2) ? R - span : g.range(-R, R - span));
  long long y = y0;
  for (int l = 0; l < L; ++l) {
    if (g.chance(1, 8)) y += H;  // a missing level
    if (y + H > R) break;
    int segs = g.range(1, 3);
    std::vector<long long> cuts;
    for (int k = 0; k < 2 * segs; ++k) {
      int m = g.range(0, 3);
      cuts.push_back(m == 0 ? -R : (m == 1 ? R : g.range(-R, R)));
    }
    std::sort(cuts.begin(), cuts.end());
    for (int k = 0; k < segs; ++k) {
      long long a = cuts[2 * k], b = cuts[2 * k + 1];
      if (b < a) std::swap(a, b);
      t.rows.emplace_back((int)a, (int)b, (int)y, (int)(y + H), (CellOrientation)g.range(0, 7));
    }
    y += H;
  }
  if (t.rows.empty()) t.rows.emplace_back((int)-R, (int)R, (int)y0, (int)(y0 + H), CellOrientation::N);
  for (size_t i = t.rows.size(); i > 1; --i) std::swap(t.rows[i - 1], t.rows[g.range(0, i - 1)]);
  int n = g.range(1, 8);
  long long T = wild ? INT_MAX : (1ll << 29);
  for (int i = 0; i < n; ++i) {
    const Row &r = t.rows[g.range(0, t.rows.size() - 1)];
    long long rw = (long long)r.maxX - r.minX;
    long long w;
    int wm = g.range(0, 9);
    if (wm < 5) w = g.range(0, std::max(1ll, rw / 4));
    else if (wm < 7) w = g.range(1, 64);
    else if (wm < 8) w = rw;
    else if (wm < 9) w = g.range(0, std::min<long long>(wild ? INT_MAX : M22, 2 * R));
    else w = 0;
    if (!wild) w = std::min(w, M22);
    w = std::min<long long>(w, INT_MAX);
    long long hgt = H * g.range(1, 4);
    if (g.chance(1, 10)) hgt = g.range(0, 4 * H);
    if (!wild) hgt = std::min(hgt, M22);
    long long tx, ty;
    int tm = g.range(0, 9);
    if (tm < 5) { tx = g.range((long long)r.minX - 8, (long long)r.maxX + 8); ty = g.range((long long)r.minY - 2 * H, (long long)r.minY + 2 * H); }
    else if (tm < 7) { tx = g.range(-R, R); ty = g.range(-R, R); }
    else if (tm < 8) { tx = g.chance(1, 2) ? -R : R; ty = g.chance(1, 2) ? -R : R; }
    else { tx = g.range(-T, T); ty = g.range(-T, T); }
    tx = std::max<long long>(-T, std::min<long long>(T, tx));
    ty = std::max<long long>(-T, std::min<long long>(T, ty));
    if (wild) { tx = std::max<long long>(INT_MIN, tx); ty = std::max<long long>(INT_MIN, ty); }
    t.w.push_back((int)w); t.h.push_back((int)hgt); t.tx.push_back((int)tx); t.ty.push_back((int)ty);
    t.pol.push_back(g.chance(1, 2) ? CellRowPolarity::ANY : (CellRowPolarity)g.range(1, 4));
    t.o.push_back((CellOrientation)g.range(0, 7));
  }
  return t;
}

// ------------------------------------------------------------------ stages I / J : IncrNetModel driven directly
// Stage I (in-domain): 1-8 cells with positions within +-2^23 (2^22 coordinates plus a cell width), nets of 0-6 pins with
//   offsets within +-2^24 (nets of <= 1 pin are dropped by the builder), a build and up to 20 updateCellPos: value() after
//   each step must equal the checked model's, which must never fault.
// Stage J (beyond the domain): positions / offsets up to 2^31: the model must predict the UBSan kills
//   (`cellPos_[c] + netPinOffset`, `second - first`, `newValue - oldValue`).
struct IncInst {
  int nbCells = 0;
  std::vector<std::vector<int>> netCells, netOffs;
  std::vector<int> pos;
  std::vector<std::pair<int, int>> upd;
  std::string ops() const {
    std::ostringstream os;
    os << "inew " << nbCells << "\n";
    for (size_t n = 0; n < netCells.size(); ++n) {
      os << "inet " << netCells[n].size();
      for (size_t p = 0; p < netCells[n].size(); ++p) os << " " << netCells[n][p] << " " << netOffs[n][p];
      os << "\n";
    }
    os << "ibuild";
    for (int p : pos) os << " " << p;
    os << "\n";
    for (auto &u : upd) os << "iupd " << u.first << " " << u.second << "\n";
    return os.str();
  }
};
static void incImpl(const IncInst &t, std::ostream &os) {
  IncrNetModelBuilder b(t.nbCells);
  for (size_t n = 0; n < t.netCells.size(); ++n) b.addNet(t.netCells[n], t.netOffs[n]);
  IncrNetModel m = b.build(t.pos);
  os << "ibuild " << m.value() << "\n";
  for (auto &u : t.upd) {
    m.updateCellPos(u.first, u.second);
    os << "iupd " << m.value() << "\n";
  }
}
static IncInst genInc(vh::Rng &g, bool wild) {
  IncInst t;
  long long P = wild ? (1ll << g.range(24, 31)) - 1 : (1ll << 23), O = wild ? (1ll << g.range(24, 31)) - 1 : (1ll << 24);
  auto coord = [&](long long B) -> int {
    int m = g.range(0, 5);
    long long v = m == 0 ? -B : (m == 1 ? B : (m == 2 ? g.range(-64, 64) : g.range(-B, B)));
    return (int)std::max<long long>(INT_MIN, std::min<long long>(INT_MAX, v));
  };
  t.nbCells = g.range(1, 8);
  int nn = g.range(0, 10);
  for (int n = 0; n < nn; ++n) {
    int deg = g.chance(1, 8) ? g.range(0, 1) : g.range(2, 6);
    std::vector<int> c, o;
    for (int p = 0; p < deg; ++p) { c.push_back(g.range(0, t.nbCells - 1)); o.push_back(coord(O)); }
    t.netCells.push_back(c); t.netOffs.push_back(o);
  }
  for (int i = 0; i < t.nbCells; ++i) t.pos.push_back(coord(P));
  int nu = g.range(0, 20);
  for (int i = 0; i < nu; ++i) t.upd.push_back({(int)g.range(0, t.nbCells - 1), coord(P)});
  return t;
}

// ------------------------------------------------------------------ stages P / Q : DetailedPlacement driven directly
// A legal placement (1-4 rows, 1-8 cells placed left to right without overlap) is handed to the DetailedPlacement
// constructor, followed by up to 16 queries / moves: canSwap, canInsert, positionsOnSwap, positionOnInsert, swap, insert
// (cell positions are printed after every accepted move; the session ends at the first std::runtime_error).
// Stage P (in-domain): coordinates within +-2^22; the checked Lean model must answer the same and never fault.
// Stage Q (beyond the domain): coordinates up to 2^31 (the placement stays legal, so the constructor's own sums
//   `x + width <= row.maxX` cannot overflow); the model must predict exactly the sessions UBSan kills
//   (`siteEnd - siteBegin`, `(boundaryBefore + boundaryAfter - width) / 2`, `(siteEnd - width + siteBegin) / 2`, ...).
struct DetOp { int kind, a, b, c; };  // 0 canSwap a b, 1 canInsert a r p, 2 posSwap a b, 3 posInsert a r p, 4 swap a b, 5 insert a r p
struct DetInst {
  std::vector<Row> rows;
  std::vector<int> w, x, y;
  std::vector<CellOrientation> o;
  std::vector<CellRowPolarity> pol;
  std::vector<uint64_t> opSeeds;
};
static DetInst genDet(vh::Rng &g, long long R) {
  DetInst t;
  int nR = g.range(1, 4);
  long long H = g.range(1, 1000);
  long long y0 = g.chance(1, 2) ? -R : g.range(-R, R - nR * H - 1);
  int n = 0;
  for (int r = 0; r < nR; ++r) {
    long long a = g.chance(1, 2) ? -R : g.range(-R, R - 1), b = g.chance(1, 2) ? R : g.range(a + 1, R);
    if (b <= a) b = a + 1;
    t.rows.emplace_back((int)a, (int)b, (int)(y0 + r * H), (int)(y0 + (r + 1) * H), r % 2 ? CellOrientation::FS : CellOrientation::N);
    int k = g.range(0, 4);
    long long cur = a;
    for (int i = 0; i < k && n < 8; ++i) {
      long long room = b - cur;
      if (room <= 0) break;
      long long wd = g.chance(1, 2) ? g.range(1, std::min<long long>(room, 64)) : g.range(1, std::max(1ll, room / (k - i)));
      wd = std::min<long long>(wd, INT_MAX);
      long long gap = g.chance(1, 2) ? 0 : g.range(0, room - wd);
      if (g.chance(1, 6)) gap = room - wd;  // flush right
      t.w.push_back((int)wd); t.x.push_back((int)(cur + gap)); t.y.push_back((int)(y0 + r * H));
      t.o.push_back(r % 2 ? CellOrientation::FS : CellOrientation::N);
      t.pol.push_back(g.chance(1, 4) ? CellRowPolarity::SAME : CellRowPolarity::ANY);
      cur += gap + wd;
      ++n;
    }
  }
  if (n == 0) {
    t.w.push_back(1); t.x.push_back(t.rows[0].minX); t.y.push_back(t.rows[0].minY); t.o.push_back(CellOrientation::N);
    t.pol.push_back(CellRowPolarity::ANY);
  }
  int nOps = g.range(1, 16);
  for (int i = 0; i < nOps; ++i) t.opSeeds.push_back(g.next());
  return t;
}
// runs the session on the real code; writes the ops (for the Lean driver) and the answers
static void detSession(const DetInst &t, std::ostream *ops, std::ostream *impl) {
  int n = t.w.size();
  if (ops) {
    *ops << "dnew\n";
    for (auto &r : t.rows) *ops << "drow " << r.minX << " " << r.maxX << " " << r.minY << " " << r.maxY << " " << (int)r.orientation << "\n";
    for (int i = 0; i < n; ++i) *ops << "dcell " << t.w[i] << " " << t.x[i] << " " << t.y[i] << " " << (int)t.o[i] << " " << (int)t.pol[i] << "\n";
    *ops << "dinit\n";
  }
  // the operations depend on the evolving linked lists (the predecessor is drawn from rowCells(row)), so the process that
  // runs the real code also writes the ops
  std::vector<int> idx(n);
  for (int i = 0; i < n; ++i) idx[i] = i;
  DetailedPlacement pl(t.rows, t.w, t.x, t.y, t.o, t.pol, idx);
  if (impl) *impl << "dinit ok\n";
  for (uint64_t sd : t.opSeeds) {
    vh::Rng g(sd);
    int kind = g.range(0, 5);
    int a = g.range(0, n - 1), b = g.range(0, n - 1);
    int r = g.range(0, (int)t.rows.size() - 1);
    std::vector<int> rc = pl.rowCells(r);
    int p = rc.empty() || g.chance(1, 3) ? -1 : rc[g.range(0, rc.size() - 1)];
    static const char *names[] = {"dcanswap", "dcaninsert", "dposswap", "dposinsert", "dswap", "dinsert"};
    bool two = kind == 0 || kind == 2 || kind == 4;
    if (ops) {
      *ops << names[kind] << " " << a;
      if (two) *ops << " " << b; else *ops << " " << r << " " << p;
      *ops << "\n";
    }
    bool thrown = false;
    try {
      if (kind == 0) { bool v = pl.canSwap(a, b); if (impl) *impl << "dcanswap " << (v ? 1 : 0) << "\n"; }
      else if (kind == 1) { bool v = pl.canInsert(a, r, p); if (impl) *impl << "dcaninsert " << (v ? 1 : 0) << "\n"; }
      else if (kind == 2) { auto q = pl.positionsOnSwap(a, b); if (impl) *impl << "dposswap " << q.first.x << " " << q.first.y << " " << q.second.x << " " << q.second.y << "\n"; }
      else if (kind == 3) { auto q = pl.positionOnInsert(a, r, p); if (impl) *impl << "dposinsert " << q.x << " " << q.y << "\n"; }
      else {
        if (kind == 4) pl.swap(a, b); else pl.insert(a, r, p);
        if (impl) {
          *impl << names[kind] << " ok";
          for (int i = 0; i < n; ++i) *impl << " " << pl.cellX(i) << " " << pl.cellRow(i);
          *impl << "\n";
        }
      }
    } catch (const std::runtime_error &) {
      thrown = true;
      if (impl) *impl << names[kind] << " throw:runtime_error\n";
    }
    if (thrown) break;  // the data structure is unspecified after an exception
  }
}

// ------------------------------------------------------------------ stage U : Transportation1d::assign as improveX/YTransport calls it
// One line of bins: 1-6 sinks (bin centres, capacities), 1-14 sources (cell targets, areas), positions scaled by
// 1e8 / width as in DensityLegalizer::improveXTransport (up to ~4e14 for a 2^22 offset).  The generator insists on the
// shapes the flow generator reaches only at high density: unit supplies, total supply == total demand (every bin full
// after balanceDemand), the last source flush against the end of the last sink.  The Lean model (Model/Transp1d.lean,
// `assign`) returns `err:indexOutOfRange` instead of reading out of bounds; `transp1d_no_fault` proves it never does.
struct T1dInst { std::vector<long long> u, v, s, d; };
static T1dInst genT1d(vh::Rng &g) {
  T1dInst t;
  int m = g.range(1, 6), n = g.range(1, 14);
  long long scale = g.chance(1, 2) ? 1 : (g.chance(1, 2) ? 100000000ll : g.range(1, 400000000000ll));
  long long base = g.chance(1, 2) ? 0 : g.range(-4194304, 4194304) * (scale > 1000000 ? 100000000ll : 1);
  for (int j = 0; j < m; ++j) t.v.push_back(base + g.range(0, 40) * scale);
  for (int i = 0; i < n; ++i) t.u.push_back(base + g.range(-5, 45) * scale);
  int sm = g.range(0, 3);  // 0 all unit, 1 small, 2 mixed with zeros, 3 large
  long long total = 0;
  for (int i = 0; i < n; ++i) {
    long long a = sm == 0 ? 1 : (sm == 1 ? g.range(1, 4) : (sm == 2 ? g.range(0, 3) : g.range(1, (1ll << 31) - 1)));
    t.s.push_back(a);
    total += a;
  }
  // demands: a partition of the total supply (full line), or with slack
  long long slack = g.chance(2, 3) ? 0 : g.range(1, std::max(1ll, total));
  long long left = total + slack;
  for (int j = 0; j < m; ++j) {
    long long c = j + 1 == m ? left : g.range(0, left);
    if (g.chance(1, 4) && j + 1 < m) c = left / (m - j);
    t.d.push_back(c);
    left -= c;
  }
  return t;
}
static std::string t1dOps(const T1dInst &t) {
  std::ostringstream os;
  os << "t1d " << t.u.size() << " " << t.v.size();
  for (auto x : t.u) os << " " << x;
  for (auto x : t.v) os << " " << x;
  for (auto x : t.s) os << " " << x;
  for (auto x : t.d) os << " " << x;
  os << "\n";
  return os.str();
}
static void t1dImpl(const T1dInst &t, std::ostream &os) {
  try {
    Transportation1d pb(t.u, t.v, t.s, t.d);
    std::vector<int> a = pb.assign();
    os << "t1d";
    for (int k : a) os << " " << k;
    os << "\n";
  } catch (const std::runtime_error &) {
    os << "t1d throw:runtime_error\n";
  }
}


// ------------------------------------------------------------------ stages G / H : the transportation of DensityLegalizer::reoptimize
static uint32_t f32bits(float f) { uint32_t b; memcpy(&b, &f, 4); return b; }
// canonical text of a finite float: "m e" with value m * 2^e, m odd (or "0 0")
static std::string dyadic(float f) {
  if (f == 0.0f) return "0 0";
  int e = 0;
  double fr = std::frexp((double)f, &e);
  long long m = (long long)std::ldexp(fr, 24);
  e -= 24;
  while (m % 2 == 0) { m /= 2; ++e; }
  return std::to_string(m) + " " + std::to_string(e);
}
struct GtInst {
  int model = 0;
  float qf = 0.0f;
  std::vector<long long> caps, dems;
  std::vector<Rectangle> bins;  // every bin is the single bin of its own grid: its centre is what binX / binY return
  std::vector<float> cx, cy;    // cell targets
};
static float genTarget(vh::Rng &g, long long lo, long long hi) {
  int k = g.range(0, 9);
  if (k < 5) return (float)g.range(lo, hi) + (float)g.range(0, 255) / 256.0f;           // inside the bins' span
  if (k < 8) return (float)g.range(-(1ll << 23), 1ll << 23) * (float)g.range(0, 16) / 16.0f;
  float big = (float)std::ldexp(1.0 + (double)g.range(0, (1 << 23) - 1) / (double)(1 << 23), (int)g.range(20, 28));  // up to 2^29
  return g.chance(1, 2) ? big : -big;
}
static GtInst genGt(vh::Rng &g) {
  GtInst t;
  t.model = g.range(0, 5);
  // quadraticPenaltyFactor = quadraticPenalty / (width + height), quadraticPenalty in [0, 1]; 0 for the squared models
  if (t.model <= 2 && g.chance(2, 3)) t.qf = (float)((double)g.range(0, 1 << 20) / (double)(1 << 20) / (double)g.range(2, 1 << g.range(1, 23)));
  bool large = g.chance(1, 12);
  int nb = large ? g.range(7, 16) : g.range(2, 6), nc = large ? g.range(8, 24) : g.range(1, 9);
  long long R = 1ll << 22;
  long long x0 = g.chance(1, 3) ? -R : (g.chance(1, 2) ? g.range(-R, R - 64) : g.range(-100, 100));
  long long y0 = g.chance(1, 3) ? -R : (g.chance(1, 2) ? g.range(-R, R - 64) : g.range(-100, 100));
  long long span = g.chance(1, 3) ? g.range(1, 40) : (g.chance(1, 2) ? g.range(1, 2000) : g.range(1, (2 * R) / 16));
  long long lox = x0, hix = x0, loy = y0, hiy = y0;
  for (int b = 0; b < nb; ++b) {
    long long ax = std::min(R - 1, x0 + g.range(0, 15) * span), ay = std::min(R - 1, y0 + g.range(0, 15) * span);
    long long bx = std::min(R, ax + std::max(1ll, g.range(1, span))), by = std::min(R, ay + std::max(1ll, g.range(1, span)));
    t.bins.emplace_back((int)ax, (int)bx, (int)ay, (int)by);
    lox = std::min(lox, ax); hix = std::max(hix, bx); loy = std::min(loy, ay); hiy = std::max(hiy, by);
  }
  for (int c = 0; c < nc; ++c) { t.cx.push_back(genTarget(g, lox, hix)); t.cy.push_back(genTarget(g, loy, hiy)); }
  // quantities: small areas, or large ones that are multiples of one unit (the solver augments unit by unit otherwise)
  int qm = g.range(0, 5);
  long long unit = qm == 4 ? (1ll << g.range(10, 20)) : 1;
  long long top = qm == 0 ? 1 : (qm == 1 ? 4 : (qm == 5 ? 1000 : 60));
  long long total = 0;
  for (int c = 0; c < nc; ++c) { long long a = g.range(1, top) * unit; t.dems.push_back(a); total += a; }
  int cm = g.range(0, 3);  // 0 exact fit, 1 slack, 2 overfull (increaseCapacity), 3 random
  long long left = cm == 2 ? std::max(nb * unit, total / 2) : (cm == 1 ? total + g.range(1, top) * unit * nb : total);
  for (int b = 0; b < nb; ++b) {
    long long c = cm == 3 ? g.range(1, top * 2) * unit : (b + 1 == nb ? left : std::max(1ll, g.range(1, std::max(1ll, left / unit / (nb - b) * 2)) * unit));
    c = std::max(unit, std::min(c, std::max(unit, left - (nb - 1 - b) * unit)));
    if (cm == 3) c = std::max(1ll, c);
    t.caps.push_back(c);
    left -= c;
  }
  if (g.chance(1, 40)) t.dems[g.range(0, nc - 1)] = 0;  // a cell without area: check() throws
  return t;
}
// runs one instance on the real code; writes the driver's op lines and the answers
static void gtSession(const GtInst &t, std::ostream &ops, std::ostream &impl) {
  size_t nb = t.bins.size(), nc = t.cx.size();
  std::vector<float> bx(nb), by(nb);
  std::vector<std::vector<float>> costs(nb);
  DensityLegalizer::Parameters prm;
  prm.costModel = (LegalizationModel)t.model;
  prm.quadraticPenaltyFactor = t.qf;
  for (size_t b = 0; b < nb; ++b) {
    DensityGrid grid(1 << 30, t.bins[b]);
    DensityLegalizer leg(grid, std::vector<int>(nc, 1), prm);
    leg.updateCellTargetX(t.cx);
    leg.updateCellTargetY(t.cy);
    bx[b] = leg.simpleCoordX()[0];
    by[b] = leg.simpleCoordY()[0];
    costs[b] = leg.allDistances();
  }
  // a few single distances, compared bit for bit
  for (size_t k = 0; k < std::min<size_t>(4, nb * nc); ++k) {
    size_t b = (k * 7) % nb, c = (k * 5 + 1) % nc;
    ops << "gd " << t.model << " " << f32bits(t.qf) << " " << f32bits(t.cx[c]) << " " << f32bits(t.cy[c]) << " " << f32bits(bx[b]) << " "
        << f32bits(by[b]) << "\n";
    impl << "gd " << dyadic(costs[b][c]) << "\n";
  }
  ops << "gt " << t.model << " " << f32bits(t.qf) << " " << nb << " " << nc;
  for (auto v : t.caps) ops << " " << v;
  for (auto v : t.dems) ops << " " << v;
  for (size_t b = 0; b < nb; ++b) ops << " " << f32bits(bx[b]) << " " << f32bits(by[b]);
  for (size_t c = 0; c < nc; ++c) ops << " " << f32bits(t.cx[c]) << " " << f32bits(t.cy[c]);
  ops << "\n";
  try {
    TransportationProblem solver(t.caps, t.dems, costs);
    solver.increaseCapacity();
    solver.solve();
    std::vector<int> a = solver.toAssignment();
    impl << "gtcost";
    for (size_t b = 0; b < nb; ++b) for (size_t c = 0; c < nc; ++c) impl << " " << solver.cost(b, c);
    impl << "\ngt";
    for (int k : a) impl << " " << k;
    impl << "\n";
  } catch (const std::runtime_error &) {
    impl << "gt throw:runtime_error\n";
  }
}
static std::string gtText(const GtInst &t) {
  std::ostringstream os;
  os << "gtinst " << t.model << " " << f32bits(t.qf) << " " << t.bins.size() << " " << t.cx.size();
  for (auto v : t.caps) os << " " << v;
  for (auto v : t.dems) os << " " << v;
  for (auto &r : t.bins) os << " " << r.minX << " " << r.maxX << " " << r.minY << " " << r.maxY;
  for (size_t c = 0; c < t.cx.size(); ++c) os << " " << f32bits(t.cx[c]) << " " << f32bits(t.cy[c]);
  os << "\n";
  return os.str();
}
static bool parseGt(std::istream &is, GtInst &t) {
  size_t nb = 0, nc = 0;
  uint32_t q = 0;
  if (!(is >> t.model >> q >> nb >> nc)) return false;
  memcpy(&t.qf, &q, 4);
  t.caps.resize(nb); t.dems.resize(nc);
  for (auto &v : t.caps) is >> v;
  for (auto &v : t.dems) is >> v;
  for (size_t b = 0; b < nb; ++b) { int a, bb, c, d; is >> a >> bb >> c >> d; t.bins.emplace_back(a, bb, c, d); }
  for (size_t c = 0; c < nc; ++c) { uint32_t x, y; is >> x >> y; float fx, fy; memcpy(&fx, &x, 4); memcpy(&fy, &y, 4); t.cx.push_back(fx); t.cy.push_back(fy); }
  return (bool)is;
}

// stage H: the int-cost constructor beyond the domain.  Every family keeps 3*|cost| < INT_MAX (C13 proves that no assert of
// the solver fails then, whatever the quantities), so the outcome is the same with and without NDEBUG:
//   0 control (in-domain)   1 quantities up to 2^62 (multiples of one large unit)   2 signed costs up to INT_MAX/3
//   3 both
struct GiInst { std::vector<long long> caps, dems; std::vector<std::vector<int>> costs; int family = 0; };
static GiInst genGi(vh::Rng &g) {
  GiInst t;
  t.family = g.range(0, 3);
  int nb = g.range(1, 5), nc = g.range(1, 6);
  bool bigQ = t.family == 1 || t.family == 3, signedC = t.family >= 2;
  long long unit = bigQ ? (1ll << g.range(56, 61)) : 1;
  long long top = bigQ ? g.range(1, 3) : g.range(1, 50);
  long long mmax = (1ll << 62) / unit;  // every single quantity fits a long long; their sums need not
  for (int c = 0; c < nc; ++c) t.dems.push_back(g.range(1, std::min(top, mmax)) * unit);
  for (int b = 0; b < nb; ++b) t.caps.push_back(g.range(1, std::min(top * 2, mmax)) * unit);
  const long long CM = 715827882;  // largest cost with 3*cost < INT_MAX
  t.costs.assign(nb, std::vector<int>(nc));
  int cmode = g.range(0, 3);
  for (int b = 0; b < nb; ++b)
    for (int c = 0; c < nc; ++c) {
      long long v;
      if (!signedC) v = cmode == 0 ? g.range(0, 20) : (cmode == 1 ? g.range(0, CM) : (g.chance(1, 2) ? CM - g.range(0, 3) : g.range(0, 3)));
      else v = cmode == 0 ? g.range(-CM, CM) : (g.chance(1, 2) ? CM - g.range(0, 1000) : -CM + g.range(0, 1000));
      t.costs[b][c] = (int)v;
    }
  return t;
}
static std::string giOps(const GiInst &t) {
  std::ostringstream os;
  os << "gi " << t.caps.size() << " " << t.dems.size();
  for (auto v : t.caps) os << " " << v;
  for (auto v : t.dems) os << " " << v;
  for (auto &r : t.costs) for (int v : r) os << " " << v;
  os << "\n";
  return os.str();
}
static void giImpl(const GiInst &t, std::ostream &os) {
  try {
    TransportationProblem solver(t.caps, t.dems, t.costs);
    solver.increaseCapacity();
    solver.solve();
    std::vector<int> a = solver.toAssignment();
    os << "gi";
    for (int k : a) os << " " << k;
    os << "\n";
  } catch (const std::runtime_error &) {
    os << "gi throw:runtime_error\n";
  }
}
static bool parseGi(std::istream &is, GiInst &t) {
  size_t nb = 0, nc = 0;
  if (!(is >> nb >> nc)) return false;
  t.caps.resize(nb); t.dems.resize(nc);
  for (auto &v : t.caps) is >> v;
  for (auto &v : t.dems) is >> v;
  t.costs.assign(nb, std::vector<int>(nc));
  for (auto &r : t.costs) for (auto &v : r) is >> v;
  return (bool)is;
}

// One DetailedPlacement session in its own child; the child appends "O <op line>" before executing each operation and
// "A <answer>" after it to a scratch file (vh::isolated only hands the output over when the child survives), so the ops of a
// session that dies are known up to and including the operation that killed it.
static std::string detIsolated(const DetInst &t, int timeout, const std::string &scratch, std::string &opsS, std::string &implS, std::string &diag) {
  unlink(scratch.c_str());
  std::string output;
  std::string fate = vh::isolated([&](std::ostream &) {
    struct Tag : std::streambuf {
      int fd; const char *tag; std::string cur;
      Tag(int f, const char *t) : fd(f), tag(t) {}
      void put(char c) {
        if (c == '\n') {
          std::string ln = tag + cur + "\n";
          if (write(fd, ln.data(), ln.size()) < 0) {}
          cur.clear();
        } else cur += c;
      }
      int_type overflow(int_type c) override { if (c != traits_type::eof()) put((char)c); return c; }
      std::streamsize xsputn(const char *p, std::streamsize n) override { for (std::streamsize k = 0; k < n; ++k) put(p[k]); return n; }
    };
    int fdq = open(scratch.c_str(), O_WRONLY | O_CREAT | O_APPEND, 0644);
    Tag tb(fdq, "O "), ta(fdq, "A ");
    std::ostream ops(&tb), impl(&ta);
    detSession(t, &ops, &impl);
    close(fdq);
  }, output, timeout, &diag);
  opsS.clear(); implS.clear();
  {
    std::ifstream is(scratch);
    std::string ln;
    while (std::getline(is, ln)) {
      if (ln.rfind("O ", 0) == 0) opsS += ln.substr(2) + "\n";
      else if (ln.rfind("A ", 0) == 0) implS += ln.substr(2) + "\n";
    }
  }
  unlink(scratch.c_str());
  return fate;
}
// replays the recorded op lines of a DetailedPlacement session (dnew / drow / dcell / dinit / d<op> ...) on the real code
static void detReplayOps(const std::string &text, std::ostream &os) {
  std::istringstream is(text);
  std::string ln;
  std::vector<Row> rows;
  std::vector<int> w, x, y;
  std::vector<CellOrientation> o;
  std::vector<CellRowPolarity> pol;
  std::unique_ptr<DetailedPlacement> pl;
  while (std::getline(is, ln)) {
    std::istringstream ls(ln);
    std::string op;
    if (!(ls >> op)) continue;
    if (op == "drow") { int a, b, c, d, e; ls >> a >> b >> c >> d >> e; rows.emplace_back(a, b, c, d, (CellOrientation)e); }
    else if (op == "dcell") { int a, b, c, d, e; ls >> a >> b >> c >> d >> e; w.push_back(a); x.push_back(b); y.push_back(c); o.push_back((CellOrientation)d); pol.push_back((CellRowPolarity)e); }
    else if (op == "dinit") {
      std::vector<int> idx(w.size());
      for (size_t i = 0; i < idx.size(); ++i) idx[i] = i;
      pl.reset(new DetailedPlacement(rows, w, x, y, o, pol, idx));
      os << "dinit ok\n";
    } else if (pl) {
      int a = 0, b = 0, c = 0;
      ls >> a >> b >> c;
      try {
        if (op == "dcanswap") os << op << " " << pl->canSwap(a, b) << "\n";
        else if (op == "dcaninsert") os << op << " " << pl->canInsert(a, b, c) << "\n";
        else if (op == "dposswap") { auto q = pl->positionsOnSwap(a, b); os << op << " " << q.first.x << " " << q.second.x << "\n"; }
        else if (op == "dposinsert") { auto q = pl->positionOnInsert(a, b, c); os << op << " " << q.x << "\n"; }
        else if (op == "dswap") { pl->swap(a, b); os << op << " ok\n"; }
        else if (op == "dinsert") { pl->insert(a, b, c); os << op << " ok\n"; }
      } catch (const std::runtime_error &) { os << op << " throw:runtime_error\n"; break; }
    }
  }
}

// ------------------------------------------------------------------ worker
struct Plan { long long nFlow, nDense, nM, nX, nS, nA, nT, nY, nI, nJ, nP, nQ, nU, nG, nH, nV, nW; int timeout; long long nK; };
static Plan planFor(const vh::Args &a) {
  if (a.thorough()) return {12000, 20000, 60000, 3000, 3000, 20000, 40000, 3000, 40000, 3000, 40000, 3000, 100000, 40000, 6000, 60000, 6000, 300, 12000};
  if (a.search()) return {2500, 4000, 20000, 600, 1500, 20000, 10000, 600, 10000, 600, 10000, 600, 20000, 6000, 800, 10000, 800, 120, 3000};
  return {1500, 2500, 20000, 1200, 400, 6000, 10000, 1000, 10000, 1000, 10000, 1000, 20000, 6000, 1200, 10000, 1200, 120, 1000};
}
static const int MBATCH = 500;

static bool parseFlowCase(const std::string &in, Case &cs);
static std::vector<std::string> corpusFiles(const std::string &dir, bool withSlow);

// development aid: C07_STAGES=<letters of C F D K M X S A T Y I J P Q U G H B Z> restricts the run to these stages
static bool stageOn(char c) {
  const char *e = getenv("C07_STAGES");
  return !e || !*e || strchr(e, c);
}

static void worker(const vh::Args &a, int w, int J, const Plan &pl, const std::string &path) {
  std::ofstream f(path, std::ios::binary);
  // stage C: hand-written / recorded witnesses in the corpus directory
  if (a.only < 0 && stageOn('C')) {
    std::vector<std::string> files = corpusFiles(a.corpus, a.thorough());
    for (size_t i = w; i < files.size(); i += J) {
      std::ifstream cf(a.corpus + "/" + files[i]);
      std::stringstream ss;
      ss << cf.rdbuf();
      Case cs;
      Rec r;
      if (!parseFlowCase(ss.str(), cs)) {
        r.k = i; r.stage = "C"; r.id = "c:" + files[i]; r.fate = "unparsable"; r.what = "[corpus] cannot parse " + files[i];
        r.counts = "corpus_unparsable";
      } else {
        r = flowRecord("c:" + files[i], i, cs, pl.timeout);
        r.stage = "C";
        r.counts += ",corpus_cases";
      }
      writeRec(f, r);
    }
  }
  // stage F
  for (long long k = w; k < pl.nFlow && stageOn('F'); k += J) {
    if (a.only >= 0 && k != a.only) continue;
    vh::Rng g = vh::Rng::forCase(a.seed, k);
    Case cs;
    if (!genCase(g, a, cs)) {
      Rec r; r.k = k; r.stage = "F"; r.id = "f" + std::to_string(k); r.fate = "skipped"; r.counts = "flow_skipped_out_of_domain";
      writeRec(f, r);
      continue;
    }
    writeRec(f, flowRecord("f" + std::to_string(k), k, cs, pl.timeout));
  }
  // stage F, dense kinds: case ids d<k>; --only 1000000+k selects one
  for (long long k = w; k < pl.nDense && stageOn('D'); k += J) {
    if (a.only >= 0 && k + 1000000 != a.only) continue;
    vh::Rng g = vh::Rng::forCase(a.seed ^ 0x4444, k);
    Case cs;
    if (!genDenseCase(g, a, cs)) {
      Rec r; r.k = pl.nFlow + k; r.stage = "F"; r.id = "d" + std::to_string(k); r.fate = "skipped"; r.counts = "flow_skipped_out_of_domain";
      writeRec(f, r);
      continue;
    }
    writeRec(f, flowRecord("d" + std::to_string(k), pl.nFlow + k, cs, pl.timeout));
  }
  // stage K (callbacks that modify the circuit): case ids k<k>; --only 2000000+k selects one
  for (long long k = w; k < pl.nK && stageOn('K'); k += J) {
    if (a.only >= 0 && k + 2000000 != a.only) continue;
    vh::Rng g = vh::Rng::forCase(a.seed ^ 0x4b4b, k);
    Case cs;
    if (!genCbCase(g, a, cs)) {
      Rec r; r.k = pl.nFlow + pl.nDense + k; r.stage = "F"; r.id = "k" + std::to_string(k); r.fate = "skipped"; r.counts = "flow_skipped_out_of_domain";
      writeRec(f, r);
      continue;
    }
    writeRec(f, flowRecord("k" + std::to_string(k), pl.nFlow + pl.nDense + k, cs, pl.timeout));
  }
  if (a.only >= 0) return;
  // stage M: batches of in-domain row-legalizer instances, one child per batch
  long long nBatches = (pl.nM + MBATCH - 1) / MBATCH;
  for (long long bt = w; bt < nBatches && stageOn('M'); bt += J) {
    Rec r; r.k = bt; r.stage = "M"; r.id = "m" + std::to_string(bt);
    std::ostringstream ops;
    std::vector<Inst> insts;
    std::vector<vh::Rng> rngs;
    for (long long i = bt * MBATCH; i < std::min<long long>(pl.nM, (bt + 1) * MBATCH); ++i) {
      vh::Rng g = vh::Rng::forCase(a.seed ^ 0x4d4d, i);
      Inst in = domainInst(g);
      ops << "case m" << i << "\n";
      instOps(in, g, ops);
      insts.push_back(in);
      rngs.push_back(g);
    }
    std::string output, diag;
    std::string fate = vh::isolated([&](std::ostream &os) {
      for (size_t j = 0; j < insts.size(); ++j) { os << "case m" << (bt * MBATCH + (long long)j) << "\n"; instImpl(insts[j], rngs[j], os); }
    }, output, pl.timeout, &diag);
    r.fate = fate; r.ops = ops.str(); r.impl = output;
    r.counts = "rowleg_domain_instances=" + std::to_string(insts.size());
    if (fate != "ok") {
      r.what = "[rowleg_unit] RowLegalizer faulted (" + fate + ") on an in-domain 2^22 op stream: " + summarize(diag);
      r.input = r.ops;
      r.impl = "";
    }
    writeRec(f, r);
  }
  // stage X: one child per beyond-domain instance
  for (long long k = w; k < pl.nX && stageOn('X'); k += J) {
    vh::Rng g = vh::Rng::forCase(a.seed ^ 0x5858, k);
    Inst in = wildInst(g);
    Rec r; r.k = k; r.stage = "X"; r.id = "x" + std::to_string(k);
    std::ostringstream ops;
    ops << "xcase x" << k << "\n";
    instOps(in, g, ops);
    ops << "endx\n";
    std::string output, diag;
    std::string fate = vh::isolated([&](std::ostream &os) { instImpl(in, g, os); }, output, pl.timeout, &diag);
    r.fate = fate; r.ops = ops.str();
    r.impl = "xcase x" + std::to_string(k) + "\n" + (fate == "ok" ? output : std::string("fault\n"));
    r.counts = std::string("rowleg_wild_") + (fate == "ok" ? "no_fault" : "fault_" + fate);
    writeRec(f, r);
  }
  // stage S
  for (long long k = w; k < pl.nS && stageOn('S'); k += J) {
    vh::Rng g = vh::Rng::forCase(a.seed ^ 0x5353, k);
    Sub s = genSub(g);
    Rec r; r.k = k; r.stage = "S"; r.id = "s" + std::to_string(k);
    std::ostringstream ops;
    ops << "xcase s" << k << "\nsubdiv " << s.mn << " " << s.mx << " " << s.number << "\nendx\n";
    std::string output, diag;
    std::string fate = vh::isolated([&](std::ostream &os) { subImpl(s, os); }, output, pl.timeout, &diag);
    r.fate = fate; r.ops = ops.str();
    r.impl = "xcase s" + std::to_string(k) + "\n" + (fate == "ok" ? output : std::string("fault\n"));
    bool big = s.number * (s.mx - s.mn) > INT_MAX;
    r.counts = std::string("subdiv_") + (big ? "product_above_int_max" : "product_fits_int") + ",subdiv_fate_" + fate;
    if (fate != "ok") {
      r.what = "[computeSubdivisions_unit] computeSubdivisions(" + std::to_string(s.mn) + ", " + std::to_string(s.mx) + ", " + std::to_string(s.number) +
               ") (the call DensityGrid::updateBinsToSize makes for a placement area of this extent) ended with " + fate + ": " +
               summarize(diag);
      r.input = "subdiv " + std::to_string(s.mn) + " " + std::to_string(s.mx) + " " + std::to_string(s.number);
    }
    writeRec(f, r);
  }
  // stage A: batches, in-process inside one child per batch
  long long nAB = (pl.nA + MBATCH - 1) / MBATCH;
  for (long long bt = w; bt < nAB && stageOn('A'); bt += J) {
    Rec r; r.k = bt; r.stage = "A"; r.id = "a" + std::to_string(bt);
    std::ostringstream ops;
    std::vector<Aba> v;
    for (long long i = bt * MBATCH; i < std::min<long long>(pl.nA, (bt + 1) * MBATCH); ++i) {
      vh::Rng g = vh::Rng::forCase(a.seed ^ 0x4141, i);
      v.push_back(genAba(g));
      ops << "case a" << i << "\n";
      abaOps(v.back(), ops);
    }
    std::string output, diag;
    std::string fate = vh::isolated([&](std::ostream &os) {
      std::ostringstream fails;
      for (size_t j = 0; j < v.size(); ++j) {
        os << "case a" << (bt * MBATCH + (long long)j) << "\n";
        std::string e = abaImpl(v[j], os);
        if (!e.empty()) fails << "ORACLE\t" << (bt * MBATCH + (long long)j) << "\t" << e << "\n";
      }
      os << fails.str();
    }, output, pl.timeout, &diag);
    r.fate = fate; r.ops = ops.str();
    // split the oracle lines off the impl stream
    std::string impl, firstFail;
    long long nFail = 0;
    {
      std::istringstream is(output);
      std::string ln;
      while (std::getline(is, ln)) {
        if (ln.rfind("ORACLE\t", 0) == 0) { if (!nFail++) firstFail = ln; }
        else impl += ln + "\n";
      }
    }
    r.impl = impl;
    r.counts = "abacus_eval_instances=" + std::to_string(v.size()) + ",abacus_eval_narrowed=" + std::to_string(nFail);
    if (fate != "ok") { r.what = "[abacus_unit] AbacusLegalizer cost evaluation faulted (" + fate + "): " + summarize(diag); r.input = r.ops; r.impl = ""; }
    else if (nFail) {
      std::istringstream is(firstFail);
      std::string tag, idx, msg;
      std::getline(is, tag, '\t'); std::getline(is, idx, '\t'); std::getline(is, msg);
      long long i = atoll(idx.c_str());
      std::ostringstream in;
      abaOps(v[i - bt * MBATCH], in);
      r.fate = "wrong-value";
      r.what = "[abacus_cost_narrowing] " + msg + " (" + std::to_string(nFail) + " of " + std::to_string(v.size()) + " instances in this batch)";
      r.input = "abacus\n" + in.str();
    }
    writeRec(f, r);
  }
  // stage T: batches of in-domain Tetris instances, one child per batch
  long long nTB = (pl.nT + MBATCH - 1) / MBATCH;
  for (long long bt = w; bt < nTB && stageOn('T'); bt += J) {
    Rec r; r.k = bt; r.stage = "T"; r.id = "t" + std::to_string(bt);
    std::ostringstream ops;
    std::vector<TetInst> v;
    for (long long i = bt * MBATCH; i < std::min<long long>(pl.nT, (bt + 1) * MBATCH); ++i) {
      vh::Rng g = vh::Rng::forCase(a.seed ^ 0x5454, i);
      v.push_back(genTet(g, M22, false));
      ops << "case t" << i << "\n" << v.back().ops();
    }
    std::string output, diag;
    std::string fate = vh::isolated([&](std::ostream &os) {
      for (size_t j = 0; j < v.size(); ++j) { os << "case t" << (bt * MBATCH + (long long)j) << "\n"; tetImpl(v[j], os); }
    }, output, pl.timeout, &diag);
    r.fate = fate; r.ops = ops.str(); r.impl = output;
    r.counts = "tetris_domain_instances=" + std::to_string(v.size());
    if (fate != "ok") {
      r.what = "[tetris_unit] TetrisLegalizer faulted (" + fate + ") on an in-domain instance at 2^22 magnitude: " + summarize(diag);
      r.input = r.ops;
      for (size_t j = 0; j < v.size(); ++j) {  // name the instance
        std::string o2, d2;
        std::string f2 = vh::isolated([&](std::ostream &os) { tetImpl(v[j], os); }, o2, pl.timeout, &d2);
        if (f2 != "ok") {
          r.what = "[tetris_unit] TetrisLegalizer(rows, cells).run() on an in-domain instance (2^22 magnitude) ended with " + f2 + ": " + summarize(d2);
          r.input = v[j].ops();
          break;
        }
      }
      r.impl = "";
      r.ops = "";
    }
    writeRec(f, r);
  }
  // stage Y: one child per beyond-domain Tetris instance
  for (long long k = w; k < pl.nY && stageOn('Y'); k += J) {
    vh::Rng g = vh::Rng::forCase(a.seed ^ 0x5959, k);
    int mag = g.range(23, 31);
    TetInst t = genTet(g, (1ll << mag) - 1 - (1ll << 22), true);
    Rec r; r.k = k; r.stage = "Y"; r.id = "y" + std::to_string(k);
    r.ops = "xcase y" + std::to_string(k) + "\n" + t.ops() + "endx\n";
    std::string output, diag;
    std::string fate = vh::isolated([&](std::ostream &os) { tetImpl(t, os); }, output, pl.timeout, &diag);
    r.fate = fate;
    r.impl = "xcase y" + std::to_string(k) + "\n" + (fate == "ok" ? output : std::string("fault\n"));
    r.counts = std::string("tetris_wild_") + (fate == "ok" ? "no_fault" : "fault_" + fate);
    writeRec(f, r);
  }
  // stage I: batches of in-domain IncrNetModel sessions, one child per batch
  long long nIB = (pl.nI + MBATCH - 1) / MBATCH;
  for (long long bt = w; bt < nIB && stageOn('I'); bt += J) {
    Rec r; r.k = bt; r.stage = "I"; r.id = "i" + std::to_string(bt);
    std::ostringstream ops;
    std::vector<IncInst> v;
    for (long long i = bt * MBATCH; i < std::min<long long>(pl.nI, (bt + 1) * MBATCH); ++i) {
      vh::Rng g = vh::Rng::forCase(a.seed ^ 0x4949, i);
      v.push_back(genInc(g, false));
      ops << "case i" << i << "\n" << v.back().ops();
    }
    std::string output, diag;
    std::string fate = vh::isolated([&](std::ostream &os) {
      for (size_t j = 0; j < v.size(); ++j) { os << "case i" << (bt * MBATCH + (long long)j) << "\n"; incImpl(v[j], os); }
    }, output, pl.timeout, &diag);
    r.fate = fate; r.ops = ops.str(); r.impl = output;
    r.counts = "incrnet_domain_instances=" + std::to_string(v.size());
    if (fate != "ok") {
      r.what = "[incrnet_unit] IncrNetModel faulted (" + fate + ") on an in-domain session at 2^22 magnitude: " + summarize(diag);
      r.input = r.ops;
      for (size_t j = 0; j < v.size(); ++j) {  // name the session
        std::string o2, d2;
        std::string f2 = vh::isolated([&](std::ostream &os) { incImpl(v[j], os); }, o2, pl.timeout, &d2);
        if (f2 != "ok") {
          r.what = "[incrnet_unit] IncrNetModel build + updateCellPos session (positions within 2^23) ended with " + f2 + ": " + summarize(d2);
          r.input = v[j].ops();
          break;
        }
      }
      r.impl = "";
      r.ops = "";
    }
    writeRec(f, r);
  }
  // stage J: one child per beyond-domain IncrNetModel session
  for (long long k = w; k < pl.nJ && stageOn('J'); k += J) {
    vh::Rng g = vh::Rng::forCase(a.seed ^ 0x4a4a, k);
    IncInst t = genInc(g, true);
    Rec r; r.k = k; r.stage = "J"; r.id = "j" + std::to_string(k);
    r.ops = "xcase j" + std::to_string(k) + "\n" + t.ops() + "endx\n";
    std::string output, diag;
    std::string fate = vh::isolated([&](std::ostream &os) { incImpl(t, os); }, output, pl.timeout, &diag);
    r.fate = fate;
    r.impl = "xcase j" + std::to_string(k) + "\n" + (fate == "ok" ? output : std::string("fault\n"));
    r.counts = std::string("incrnet_wild_") + (fate == "ok" ? "no_fault" : "fault_" + fate);
    writeRec(f, r);
  }
  // stage P: in-domain DetailedPlacement sessions.  The operations depend on the evolving data structure, so the child
  // writes both streams (ops first, then the answers, separated by a marker line).
  long long nPB = (pl.nP + MBATCH - 1) / MBATCH;
  for (long long bt = w; bt < nPB && stageOn('P'); bt += J) {
    Rec r; r.k = bt; r.stage = "P"; r.id = "p" + std::to_string(bt);
    std::vector<DetInst> v;
    for (long long i = bt * MBATCH; i < std::min<long long>(pl.nP, (bt + 1) * MBATCH); ++i) {
      vh::Rng g = vh::Rng::forCase(a.seed ^ 0x5050, i);
      v.push_back(genDet(g, M22));
    }
    std::string output, diag;
    std::string fate = vh::isolated([&](std::ostream &os) {
      std::ostringstream ops, impl;
      for (size_t j = 0; j < v.size(); ++j) {
        ops << "case p" << (bt * MBATCH + (long long)j) << "\n";
        impl << "case p" << (bt * MBATCH + (long long)j) << "\n";
        detSession(v[j], &ops, &impl);
      }
      os << ops.str() << "=====\n" << impl.str();
    }, output, pl.timeout, &diag);
    r.fate = fate;
    size_t cut = output.find("=====\n");
    if (fate == "ok" && cut != std::string::npos) { r.ops = output.substr(0, cut); r.impl = output.substr(cut + 6); }
    r.counts = "detplace_domain_sessions=" + std::to_string(v.size());
    if (fate != "ok") {
      r.what = "[detplace_unit] DetailedPlacement faulted (" + fate + ") on an in-domain session at 2^22 magnitude: " + summarize(diag);
      r.input = "detplace batch " + std::to_string(bt);
      // name the session: each one again in its own child, with the ops recorded up to the operation that dies
      for (size_t j = 0; j < v.size(); ++j) {
        std::string o2, i2, d2;
        std::string f2 = detIsolated(v[j], pl.timeout, path + ".p", o2, i2, d2);
        if (f2 != "ok") {
          r.what = "[detplace_unit] DetailedPlacement session p" + std::to_string(bt * MBATCH + (long long)j) +
                   " (legal placement within 2^22, then the recorded queries / moves; the last operation listed is the one that "
                   "does not return) ended with " + f2 + ": " + summarize(d2);
          r.input = o2;
          break;
        }
      }
    }
    writeRec(f, r);
  }
  // stage Q: beyond-domain sessions, one child per case; a faulting session keeps the ops written up to and including the
  // operation that died (the model must fault on them too)
  for (long long k = w; k < pl.nQ && stageOn('Q'); k += J) {
    vh::Rng g = vh::Rng::forCase(a.seed ^ 0x5151, k);
    int mag = g.range(23, 31);
    DetInst t = genDet(g, (1ll << mag) - 1);
    Rec r; r.k = k; r.stage = "Q"; r.id = "q" + std::to_string(k);
    std::string diag, opsS, implS;
    std::string fate = detIsolated(t, pl.timeout, path + ".q", opsS, implS, diag);
    r.fate = fate;
    r.ops = "xcase q" + std::to_string(k) + "\n" + opsS + "endx\n";
    r.impl = "xcase q" + std::to_string(k) + "\n" + (fate == "ok" ? implS : std::string("fault\n"));
    r.counts = std::string("detplace_wild_") + (fate == "ok" ? "no_fault" : "fault_" + fate);
    writeRec(f, r);
  }
  // stage U: batches of 1-D transportation assignments; a batch that dies is re-run one instance per child to name it
  long long nUB = (pl.nU + MBATCH - 1) / MBATCH;
  for (long long bt = w; bt < nUB && stageOn('U'); bt += J) {
    Rec r; r.k = bt; r.stage = "U"; r.id = "u" + std::to_string(bt);
    std::ostringstream ops;
    std::vector<T1dInst> v;
    for (long long i = bt * MBATCH; i < std::min<long long>(pl.nU, (bt + 1) * MBATCH); ++i) {
      vh::Rng g = vh::Rng::forCase(a.seed ^ 0x5555, i);
      v.push_back(genT1d(g));
      ops << "case u" << i << "\n" << t1dOps(v.back());
    }
    std::string output, diag;
    std::string fate = vh::isolated([&](std::ostream &os) {
      for (size_t j = 0; j < v.size(); ++j) { os << "case u" << (bt * MBATCH + (long long)j) << "\n"; t1dImpl(v[j], os); }
    }, output, pl.timeout, &diag);
    r.fate = fate; r.ops = ops.str(); r.impl = output;
    r.counts = "transp1d_instances=" + std::to_string(v.size());
    if (fate != "ok") {
      r.what = "[transp1d_unit] Transportation1d::assign faulted (" + fate + "): " + summarize(diag);
      r.input = r.ops;
      for (size_t j = 0; j < v.size(); ++j) {
        std::string o2, d2;
        std::string f2 = vh::isolated([&](std::ostream &os) { t1dImpl(v[j], os); }, o2, pl.timeout, &d2);
        if (f2 != "ok") {
          r.what = "[transp1d_unit] Transportation1d(u, v, s, d).assign() — the call DensityLegalizer::improveXTransport makes for a line of bins — "
                   "ended with " + f2 + " instead of returning: " + summarize(d2);
          r.input = t1dOps(v[j]);
          break;
        }
      }
      r.impl = "";
      r.ops = "";
    }
    writeRec(f, r);
  }
  // stage V: batches of in-domain scaled 1-D transportations (balanceDemand + assign); a batch that dies is re-run one
  // instance per child to name it
  long long nVB = (pl.nV + MBATCH - 1) / MBATCH;
  for (long long bt = w; bt < nVB && stageOn('V'); bt += J) {
    Rec r; r.k = bt; r.stage = "V"; r.id = "v" + std::to_string(bt);
    std::ostringstream ops;
    std::vector<c07t1d::Inst> v;
    for (long long i = bt * MBATCH; i < std::min<long long>(pl.nV, (bt + 1) * MBATCH); ++i) {
      vh::Rng g = vh::Rng::forCase(a.seed ^ 0x5656, i);
      v.push_back(c07t1d::gen(g, false));
      ops << "case v" << i << "\n" << c07t1d::ops(v.back());
    }
    std::string output, diag;
    std::string fate = vh::isolated([&](std::ostream &os) {
      for (size_t j = 0; j < v.size(); ++j) { os << "case v" << (bt * MBATCH + (long long)j) << "\n"; c07t1d::impl(v[j], os); }
    }, output, pl.timeout, &diag);
    r.fate = fate; r.ops = ops.str(); r.impl = output;
    r.counts = "transp1d_scaled_instances=" + std::to_string(v.size());
    if (fate != "ok") {
      r.what = "[transp1d_unit] Transportation1d balanceDemand + assign faulted (" + fate + ") on an in-domain scaled instance: " + summarize(diag);
      r.input = r.ops;
      for (size_t j = 0; j < v.size(); ++j) {
        std::string o2, d2;
        std::string f2 = vh::isolated([&](std::ostream &os) { c07t1d::impl(v[j], os); }, o2, pl.timeout, &d2);
        if (f2 != "ok") {
          r.what = "[transp1d_unit] Transportation1d(u, v, s, d).balanceDemand(); assign() on positions scaled as improveXTransport "
                   "scales them (|u|, |v| < 2^56) ended with " + f2 + " instead of returning: " + summarize(d2);
          r.input = c07t1d::ops(v[j]);
          break;
        }
      }
      r.impl = "";
      r.ops = "";
    }
    writeRec(f, r);
  }
  // stage W: one child per beyond-domain 1-D instance
  for (long long k = w; k < pl.nW && stageOn('W'); k += J) {
    vh::Rng g = vh::Rng::forCase(a.seed ^ 0x5757, k);
    c07t1d::Inst t = c07t1d::gen(g, true);
    Rec r; r.k = k; r.stage = "W"; r.id = "w" + std::to_string(k);
    r.ops = "xcase w" + std::to_string(k) + "\n" + c07t1d::ops(t) + "endx\n";
    std::string output, diag;
    std::string fate = vh::isolated([&](std::ostream &os) { c07t1d::impl(t, os); }, output, pl.timeout, &diag);
    r.fate = fate;
    r.impl = "xcase w" + std::to_string(k) + "\n" + (fate == "ok" ? output : std::string("fault\n"));
    r.counts = std::string("transp1d_wild_") + (fate == "ok" ? "no_fault" : "fault_" + fate);
    writeRec(f, r);
  }
  // stage G: batches of in-domain reoptimize transportations; the child writes both streams (the bin centres and the float
  // costs come from the real code); a batch that dies is re-run one instance per child to name it
  const int GBATCH = 100;
  long long nGB = (pl.nG + GBATCH - 1) / GBATCH;
  for (long long bt = w; bt < nGB && stageOn('G'); bt += J) {
    Rec r; r.k = bt; r.stage = "G"; r.id = "g" + std::to_string(bt);
    std::vector<GtInst> v;
    for (long long i = bt * GBATCH; i < std::min<long long>(pl.nG, (bt + 1) * GBATCH); ++i) {
      vh::Rng g = vh::Rng::forCase(a.seed ^ 0x4747, i);
      v.push_back(genGt(g));
    }
    std::string output, diag;
    std::string fate = vh::isolated([&](std::ostream &os) {
      std::ostringstream ops, impl;
      for (size_t j = 0; j < v.size(); ++j) {
        ops << "case g" << (bt * GBATCH + (long long)j) << "\n";
        impl << "case g" << (bt * GBATCH + (long long)j) << "\n";
        gtSession(v[j], ops, impl);
      }
      os << ops.str() << "=====\n" << impl.str();
    }, output, pl.timeout, &diag);
    r.fate = fate;
    size_t cut = output.find("=====\n");
    if (fate == "ok" && cut != std::string::npos) { r.ops = output.substr(0, cut); r.impl = output.substr(cut + 6); }
    long long nModels[6] = {0, 0, 0, 0, 0, 0}, nPen = 0, nInc = 0, nBig = 0;
    for (auto &t : v) {
      nModels[t.model]++;
      if (t.qf > 0) nPen++;
      long long td = 0, tc = 0;
      for (auto x : t.dems) td += x;
      for (auto x : t.caps) tc += x;
      if (td > tc) nInc++;
      for (size_t c = 0; c < t.cx.size(); ++c) if (std::fabs(t.cx[c]) > (1 << 24) || std::fabs(t.cy[c]) > (1 << 24)) { nBig++; break; }
    }
    r.counts = "transp_domain_instances=" + std::to_string(v.size()) + ",transp_quadratic_penalty=" + std::to_string(nPen) +
               ",transp_increase_capacity=" + std::to_string(nInc) + ",transp_target_above_2^24=" + std::to_string(nBig);
    static const char *mn[] = {"L1", "L2", "LInf", "L1Squared", "L2Squared", "LInfSquared"};
    for (int m = 0; m < 6; ++m) r.counts += std::string(",transp_model_") + mn[m] + "=" + std::to_string(nModels[m]);
    if (fate != "ok") {
      r.what = "[transp_unit] reoptimize's transportation faulted (" + fate + ") on an in-domain instance: " + summarize(diag);
      r.input = "transp batch " + std::to_string(bt);
      for (size_t j = 0; j < v.size(); ++j) {
        std::string o2, d2;
        std::string f2 = vh::isolated([&](std::ostream &os) { std::ostringstream ops; gtSession(v[j], ops, os); }, o2, pl.timeout, &d2);
        if (f2 != "ok") {
          r.what = "[transp_unit] TransportationProblem(capacities, demands, float costs of DensityLegalizer::allDistances)"
                   ".increaseCapacity().solve().toAssignment() on an in-domain instance (bins within 2^22, targets within 2^29) "
                   "ended with " + f2 + ": " + summarize(d2);
          r.input = gtText(v[j]);
          break;
        }
      }
      r.impl = "";
      r.ops = "";
    }
    writeRec(f, r);
  }
  // stage H: one child per beyond-domain instance (int-cost constructor)
  for (long long k = w; k < pl.nH && stageOn('H'); k += J) {
    vh::Rng g = vh::Rng::forCase(a.seed ^ 0x4848, k);
    GiInst t = genGi(g);
    Rec r; r.k = k; r.stage = "H"; r.id = "h" + std::to_string(k);
    r.ops = "xcase h" + std::to_string(k) + "\n" + giOps(t) + "endx\n";
    std::string output, diag;
    std::string fate = vh::isolated([&](std::ostream &os) { giImpl(t, os); }, output, pl.timeout, &diag);
    r.fate = fate;
    r.impl = "xcase h" + std::to_string(k) + "\n" + (fate == "ok" ? output : std::string("fault\n"));
    r.counts = std::string("transp_wild_family") + std::to_string(t.family) + "_" + (fate == "ok" ? "no_fault" : "fault_" + fate);
    if (fate != "ok" && fate != "abort" && fate != "sanitizer") {
      // a timeout or a crash that is not a sanitizer report is not something the checked model predicts
      r.stage = "G";
      r.what = "[transp_unit] TransportationProblem(int costs).increaseCapacity().solve() ended with " + fate + ": " + summarize(diag);
      r.input = giOps(t);
    }
    writeRec(f, r);
  }
  // stage B: batches of in-domain density-grid sessions; a batch that dies is re-run one instance per child to name it
  {
    long long nB = a.thorough() ? 120000 : (a.search() ? 20000 : 12000), nZ = a.thorough() ? 20000 : (a.search() ? 2400 : 2400);
    const int BBATCH = 200;
    long long nBB = (nB + BBATCH - 1) / BBATCH;
    for (long long bt = w; bt < nBB && stageOn('B'); bt += J) {
      Rec r; r.k = bt; r.stage = "B"; r.id = "b" + std::to_string(bt);
      std::ostringstream ops;
      std::vector<c07grid::Inst> v;
      for (long long i = bt * BBATCH; i < std::min<long long>(nB, (bt + 1) * BBATCH); ++i) {
        vh::Rng g = vh::Rng::forCase(a.seed ^ 0x4242, i);
        v.push_back(c07grid::gen(g, false));
        ops << "case b" << i << "\n" << c07grid::ops(v.back());
      }
      std::string output, diag;
      std::string fate = vh::isolated([&](std::ostream &os) {
        for (size_t j = 0; j < v.size(); ++j) { os << "case b" << (bt * BBATCH + (long long)j) << "\n"; c07grid::impl(v[j], os); }
      }, output, pl.timeout, &diag);
      r.fate = fate; r.ops = ops.str(); r.impl = output;
      long long nOps = 0, nMulti = 0, nUpd = 0, nOverlap = 0, nEdge = 0, nNoReg = 0;
      for (auto &t : v) {
        nOps += (long long)t.walk.size();
        if (t.nbX > 1 && t.nbY > 1) nMulti++;
        if (!t.upd.empty()) nUpd++;
        if (t.family == 1 && t.regs.size() > 1) nOverlap++;
        if (t.regs.empty()) nNoReg++;
        for (auto &q : t.regs) if (q[0] == -M22 || q[1] == M22 || q[2] == -M22 || q[3] == M22) { nEdge++; break; }
      }
      r.counts = "grid_domain_instances=" + std::to_string(v.size()) + ",grid_refine_coarsen_calls=" + std::to_string(nOps) +
                 ",grid_bins_in_both_directions=" + std::to_string(nMulti) + ",grid_update_cell_demand=" + std::to_string(nUpd) +
                 ",grid_overlapping_regions=" + std::to_string(nOverlap) + ",grid_region_at_2^22=" + std::to_string(nEdge) +
                 ",grid_no_region=" + std::to_string(nNoReg);
      if (fate != "ok") {
        r.what = "[grid_unit] DensityGrid / HierarchicalDensityPlacement faulted (" + fate + ") on an in-domain session: " + summarize(diag);
        r.input = r.ops;
        for (size_t j = 0; j < v.size(); ++j) {
          std::string o2, d2;
          std::string f2 = vh::isolated([&](std::ostream &os) { c07grid::impl(v[j], os); }, o2, pl.timeout, &d2);
          if (f2 != "ok") {
            r.what = "[grid_unit] DensityGrid(binSize, regions) / HierarchicalDensityPlacement(grid, demands) + refine/coarsen walk on "
                     "regions within 2^22 ended with " + f2 + " instead of returning: " + summarize(d2);
            r.input = c07grid::ops(v[j]);
            break;
          }
        }
        r.impl = "";
        r.ops = "";
      }
      writeRec(f, r);
    }
    // stage Z: one child per beyond-domain density-grid session
    for (long long k = w; k < nZ && stageOn('Z'); k += J) {
      vh::Rng g = vh::Rng::forCase(a.seed ^ 0x5a5a, k);
      c07grid::Inst t = c07grid::gen(g, true);
      Rec r; r.k = k; r.stage = "Z"; r.id = "z" + std::to_string(k);
      r.ops = "xcase z" + std::to_string(k) + "\n" + c07grid::ops(t) + "endx\n";
      std::string output, diag;
      std::string fate = vh::isolated([&](std::ostream &os) { c07grid::impl(t, os); }, output, pl.timeout, &diag);
      r.fate = fate;
      r.impl = "xcase z" + std::to_string(k) + "\n" + (fate == "ok" ? output : std::string("fault\n"));
      r.counts = std::string("grid_wild_family") + std::to_string(t.family) + "_" + (fate == "ok" ? "no_fault" : "fault_" + fate) +
                 (t.invalidOp ? ",grid_wild_call_outside_contract" : "");
      if (fate != "ok" && fate != "abort" && fate != "sanitizer") {
        // a timeout or a crash that is not an assertion / sanitizer report is not something the checked model predicts
        r.stage = "B";
        r.what = "[grid_unit] DensityGrid / HierarchicalDensityPlacement session ended with " + fate + ": " + summarize(diag);
        r.input = c07grid::ops(t);
      }
      writeRec(f, r);
    }
  }
}

// ------------------------------------------------------------------ replay
static std::string jsonUnescape(const std::string &s) {
  std::string o;
  for (size_t i = 0; i < s.size(); ++i) {
    if (s[i] == '\\' && i + 1 < s.size()) {
      char c = s[++i];
      if (c == 'n') o += '\n';
      else if (c == 't') o += '\t';
      else if (c == 'u' && i + 4 < s.size()) { o += (char)strtol(s.substr(i + 1, 4).c_str(), nullptr, 16); i += 4; }
      else o += c;
    } else o += s[i];
  }
  return o;
}

static std::string replayInput(const std::string &path) {
  std::ifstream f(path);
  std::stringstream ss;
  ss << f.rdbuf();
  std::string all = ss.str();
  size_t p = all.find_first_not_of(" \t\r\n");
  if (p != std::string::npos && all[p] == '{') {
    size_t k = all.find("\"input\"");
    if (k == std::string::npos) return "";
    size_t q = all.find('"', all.find(':', k) + 1);
    size_t e = q + 1;
    while (e < all.size() && all[e] != '"') e += all[e] == '\\' ? 2 : 1;
    return jsonUnescape(all.substr(q + 1, e - q - 1));
  }
  return all;
}

static bool parseFlowCase(const std::string &in, Case &cs) {
  std::istringstream is(in);
  std::string first, tok, pline;
  int cb = 0;
  if (!(is >> first >> cs.seq >> tok >> cb) || first != "seq") return false;
  cs.cb = cb != 0;
  std::getline(is, pline);
  std::getline(is, pline);
  cs.kind = "corpus";
  return parseParams(pline, cs.params) && parseSpec(is, cs.spec) && parseScript(is, cs.script);
}

static std::vector<std::string> corpusFiles(const std::string &dir, bool withSlow) {
  std::vector<std::string> r;
  if (dir.empty()) return r;
  if (DIR *d = opendir(dir.c_str())) {
    while (dirent *e = readdir(d)) {
      std::string n = e->d_name;
      if (n.size() > 5 && n.substr(n.size() - 5) == ".case") r.push_back(n);
      // witnesses of the slow-solver finding cost a full timeout each: thorough tier only
      if (withSlow && n.size() > 7 && n.substr(n.size() - 7) == ".kfcase") r.push_back(n);
    }
    closedir(d);
  }
  std::sort(r.begin(), r.end());
  return r;
}

static int replay(const vh::Args &a, vh::Out &out) {
  std::string in = replayInput(a.replay);
  std::istringstream is(in);
  std::string first;
  is >> first;
  out.rule = "replay of one recorded case";
  out.evaluations = 1;
  if (first == "seq") {
    Case cs;
    int cb = 0;
    std::string tok, pline;
    is >> cs.seq >> tok >> cb;
    cs.cb = cb != 0;
    std::getline(is, pline);
    std::getline(is, pline);
    if (!parseParams(pline, cs.params) || !parseSpec(is, cs.spec) || !parseScript(is, cs.script)) { out.notes.push_back("cannot parse replay"); out.finish(); return 2; }
    cs.kind = "replay";
    int tmo = 600;
    if (const char *e = getenv("C07_TIMEOUT")) tmo = std::max(1, atoi(e));
    Rec r = flowRecord("replay", 0, cs, tmo);
    out.count("replay_fate_" + r.fate);
    fprintf(stderr, "replay: %s\n", r.sample.c_str());
    if (r.fate != "ok") out.fail("replay", r.what, r.input, r.kf);
  } else if (first == "subdiv") {
    Sub s;
    is >> s.mn >> s.mx >> s.number;
    std::string output, diag;
    std::string fate = vh::isolated([&](std::ostream &os) { subImpl(s, os); }, output, 60, &diag);
    if (fate != "ok") out.fail("replay", "computeSubdivisions ended with " + fate + ": " + summarize(diag), in);
  } else if (first == "tnew") {
    TetInst t;
    std::string op;
    while (is >> op) {
      if (op == "trow") { int a, b, c, d, o; is >> a >> b >> c >> d >> o; t.rows.emplace_back(a, b, c, d, (CellOrientation)o); }
      else if (op == "tcell") {
        int w, h, p, tx, ty, o; is >> w >> h >> p >> tx >> ty >> o;
        t.w.push_back(w); t.h.push_back(h); t.pol.push_back((CellRowPolarity)p); t.tx.push_back(tx); t.ty.push_back(ty); t.o.push_back((CellOrientation)o);
      }
    }
    std::string output, diag;
    std::string fate = vh::isolated([&](std::ostream &os) { tetImpl(t, os); }, output, 60, &diag);
    if (fate != "ok") out.fail("replay", "TetrisLegalizer::run ended with " + fate + ": " + summarize(diag), in);
  } else if (first == "inew") {
    IncInst t;
    is >> t.nbCells;
    std::string op;
    while (is >> op) {
      if (op == "inet") { int k; is >> k; std::vector<int> c(k), o(k); for (int i = 0; i < k; ++i) is >> c[i] >> o[i]; t.netCells.push_back(c); t.netOffs.push_back(o); }
      else if (op == "ibuild") { for (int i = 0; i < t.nbCells; ++i) { int p; is >> p; t.pos.push_back(p); } }
      else if (op == "iupd") { int c, p; is >> c >> p; t.upd.push_back({c, p}); }
    }
    std::string output, diag;
    std::string fate = vh::isolated([&](std::ostream &os) { incImpl(t, os); }, output, 60, &diag);
    if (fate != "ok") out.fail("replay", "IncrNetModel session ended with " + fate + ": " + summarize(diag), in);
  } else if (first == "t1d") {
    size_t n = 0, m = 0;
    is >> n >> m;
    T1dInst t;
    auto rd = [&](std::vector<long long> &v, size_t k) { for (size_t i = 0; i < k; ++i) { long long x = 0; is >> x; v.push_back(x); } };
    rd(t.u, n); rd(t.v, m); rd(t.s, n); rd(t.d, m);
    std::string output, diag;
    std::string fate = vh::isolated([&](std::ostream &os) { t1dImpl(t, os); }, output, 60, &diag);
    if (fate != "ok") out.fail("replay", "Transportation1d::assign ended with " + fate + ": " + summarize(diag), in);
  } else if (first == "t1dc") {
    size_t n = 0, m = 0;
    is >> n >> m;
    c07t1d::Inst t;
    auto rd = [&](std::vector<long long> &v, size_t k) { for (size_t i = 0; i < k; ++i) { long long x = 0; is >> x; v.push_back(x); } };
    rd(t.u, n); rd(t.v, m); rd(t.s, n); rd(t.d, m);
    std::string output, diag;
    std::string fate = vh::isolated([&](std::ostream &os) { c07t1d::impl(t, os); }, output, 60, &diag);
    if (fate != "ok") out.fail("replay", "Transportation1d balanceDemand + assign ended with " + fate + ": " + summarize(diag), in);
  } else if (first == "gtinst") {
    GtInst t;
    std::string output, diag;
    if (!parseGt(is, t)) { out.notes.push_back("cannot parse replay"); out.finish(); return 2; }
    std::string fate = vh::isolated([&](std::ostream &os) { std::ostringstream ops; gtSession(t, ops, os); }, output, 600, &diag);
    if (fate != "ok") out.fail("replay", "reoptimize's transportation ended with " + fate + ": " + summarize(diag), in);
  } else if (first == "gi") {
    GiInst t;
    std::string output, diag;
    if (!parseGi(is, t)) { out.notes.push_back("cannot parse replay"); out.finish(); return 2; }
    std::string fate = vh::isolated([&](std::ostream &os) { giImpl(t, os); }, output, 600, &diag);
    if (fate != "ok") out.fail("replay", "TransportationProblem(int costs) ended with " + fate + ": " + summarize(diag), in);
  } else if (first == "gnew") {
    c07grid::Inst t;
    std::string output, diag;
    std::istringstream gs(in);
    if (!c07grid::parse(gs, t)) { out.notes.push_back("cannot parse replay"); out.finish(); return 2; }
    std::string fate = vh::isolated([&](std::ostream &os) { c07grid::impl(t, os); }, output, 600, &diag);
    if (fate != "ok") out.fail("replay", "DensityGrid / HierarchicalDensityPlacement session ended with " + fate + ": " + summarize(diag), in);
  } else if (first == "dnew") {
    std::string output, diag;
    std::string fate = vh::isolated([&](std::ostream &os) { detReplayOps(in, os); }, output, 600, &diag);
    if (fate != "ok") out.fail("replay", "DetailedPlacement session ended with " + fate + ": " + summarize(diag), in);
  } else if (first == "abacus") {
    Aba ab;
    std::string op;
    while (is >> op) {
      long long x, y;
      is >> x >> y;
      if (op == "new") { ab.b = x; ab.e = y; } else ab.cells.push_back({x, y});
    }
    std::string output, diag, err;
    std::string fate = vh::isolated([&](std::ostream &os) { std::string e = abaImpl(ab, os); os << "ORACLE " << e; }, output, 60, &diag);
    size_t p = output.find("ORACLE ");
    if (fate != "ok") out.fail("replay", "abacus evaluation ended with " + fate, in);
    else if (p != std::string::npos && output.size() > p + 7) out.fail("replay", output.substr(p + 7), in);
  } else {
    out.notes.push_back("unknown replay format");
  }
  out.finish();
  return 0;
}

// ------------------------------------------------------------------ main
int main(int argc, char **argv) {
  vh::Args a = vh::parseArgs(argc, argv);
  vh::Out out(a.out);
  g_nontermFlag = a.out + "/nonterm.flag";
  if (!a.replay.empty()) return replay(a, out);
  int J = 7;
  if (const char *e = getenv("VERIF_JOBS")) J = std::max(1, atoi(e));
  Plan pl = planFor(a);
  std::vector<pid_t> pids;
  fflush(nullptr);
  for (int w = 0; w < J; ++w) {
    pid_t p = fork();
    if (p == 0) {
      worker(a, w, J, pl, a.out + "/part-" + std::to_string(w) + ".bin");
      _exit(0);
    }
    pids.push_back(p);
  }
  bool workerDied = false;
  for (pid_t p : pids) {
    int st = 0;
    waitpid(p, &st, 0);
    if (!WIFEXITED(st) || WEXITSTATUS(st) != 0) workerDied = true;
  }
  std::vector<Rec> recs;
  for (int w = 0; w < J; ++w) {
    std::string p = a.out + "/part-" + std::to_string(w) + ".bin";
    for (auto &r : readRecs(p)) recs.push_back(r);
    unlink(p.c_str());
  }
  static const std::string order = "CFMXSATYIJPQUVWGHBZ";
  std::stable_sort(recs.begin(), recs.end(), [](const Rec &x, const Rec &y) {
    size_t sx = order.find(x.stage), sy = order.find(y.stage);
    return sx != sy ? sx < sy : x.k < y.k;
  });
#ifdef NDEBUG
  out.ops << "variant ndebug\n";
#else
  out.ops << "variant asserts\n";
#endif
  out.rule =
      "flow case = (circuit in the C07 domain, parameter set accepted by check() in the moderate box, entry sequence over "
      "placeGlobal/legalize/placeDetailed) run in a forked child under ASan+UBSan; failure = child fate other than ok "
      "(exceptions are caught and are allowed); cases k<n> additionally run a scripted callback that resizes cells (to and "
      "from zero, movable and fixed), reweights nets and calls hpwl/computeRows/report/toString while the call is running "
      "(cbmod_* keys: script content and how many actions fired); non-trivial = at least one entry point returned normally (the case went "
      "through the algorithms rather than being rejected up front), distinct by canonical text of the case; "
      "unit cases (row legalizer / Tetris / IncrNetModel / DetailedPlacement streams, computeSubdivisions, Abacus cost "
      "evaluation, 1-D transportation lines, reoptimize's general transportation, density-grid sessions) at 2^22 magnitude are counted in the distribution";
  std::map<std::string, int> perTag;
  for (auto &r : recs) {
    // counts: "a,b=3,c"
    std::istringstream cs(r.counts);
    std::string c;
    while (std::getline(cs, c, ',')) {
      if (c.empty()) continue;
      size_t eq = c.find('=');
      if (eq == std::string::npos) out.count(c); else out.count(c.substr(0, eq), atoll(c.c_str() + eq + 1));
    }
    if (r.fate == "skipped") continue;
    if (r.stage == "F" || r.stage == "C") out.evaluations++;
    else if (r.stage == "M" || r.stage == "A" || r.stage == "T" || r.stage == "I" || r.stage == "P" || r.stage == "U" || r.stage == "V" || r.stage == "G" || r.stage == "B") { /* counted through the distribution */ }
    else out.evaluations++;
    if (r.nontrivialHash) out.nontrivial(r.nontrivialHash);
    if (!r.sample.empty() && (r.k % 97 == 0 || r.fate != "ok")) out.sample(r.sample);
    out.ops << r.ops;
    out.impl << r.impl;
    // a fault of stage X (beyond the domain) is not a property failure; it is compared with the model's prediction
    if (r.stage != "X" && r.stage != "Y" && r.stage != "J" && r.stage != "Q" && r.stage != "H" && r.stage != "W" && r.stage != "Z" && r.fate != "ok") {
      // keep every kind of failure visible below the 200-line cap of oracle.txt
      size_t a = r.what.find('['), b = r.what.find(']');
      std::string tag = (a != std::string::npos && b != std::string::npos && b > a) ? r.what.substr(a, b - a + 1) : "[untagged]";
      out.count("oracle_fail_" + tag);
      if (++perTag[tag] <= 25) out.fail(r.id, r.what, r.input, r.kf);
    }
  }
  {
    std::vector<const Rec *> byTime;
    for (auto &r : recs) if (r.stage == "F" || r.stage == "C") byTime.push_back(&r);
    std::sort(byTime.begin(), byTime.end(), [](const Rec *x, const Rec *y) { return x->seconds > y->seconds; });
    std::string note = "slowest flow cases:";
    for (size_t i = 0; i < byTime.size() && i < 4; ++i) {
      char b[64];
      snprintf(b, sizeof b, " %.0fs ", byTime[i]->seconds);
      note += b + byTime[i]->id + " (" + byTime[i]->sample + ");";
    }
    out.notes.push_back(note);
  }
  out.evaluations += out.dist["rowleg_domain_instances"] + out.dist["abacus_eval_instances"] + out.dist["tetris_domain_instances"] + out.dist["incrnet_domain_instances"] + out.dist["detplace_domain_sessions"] + out.dist["transp1d_instances"] + out.dist["transp1d_scaled_instances"] + out.dist["transp_domain_instances"] + out.dist["grid_domain_instances"];
  if (workerDied) out.notes.push_back("a worker process died: results are incomplete");
  out.finish();
  return workerDied ? 4 : 0;
}
