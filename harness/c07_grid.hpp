// C07: sessions on the real DensityGrid / HierarchicalDensityPlacement (src/place_global/density_grid.{hpp,cpp}) for the
// correspondence with the *checked* Lean twins of Model/GridChecked.lean (driver ops gnew / greg / gbuild / gdem / gop / gupd).
//
//   DensityGrid grid(binSize, regions);                 -> limits, every binCapacity(i, j), totalCapacity()
//   HierarchicalDensityPlacement hp(grid, demands);     -> levelX(), levelY(), totalDemand()
//   hp.refineX() / refineY() / coarsenX() / coarsenY()  -> levels, nbBinsX/Y and binUsage(i, j), binCapacity(i, j) of every bin
//   hp.updateCellDemand(circuit)                        -> every cellDemand(c)  (the long long -> int narrowing of the areas)
//
//   gen(g, false)  the C07 domain: 0..6 well-formed regions within +-2^22 (stacked rows, random / overlapping / degenerate
//                  rectangles, the whole square, boxes against the corners), binSize >= 1 giving at most 16 bins per direction
//                  (the number of bins only scales the loops), 0..24 cells with demand 0 or in [1, 2^31 - 1], a walk of valid
//                  refine / coarsen calls, a final updateCellDemand with areas below 2^31.
//   gen(g, true)   beyond the domain: coordinates up to +-2^31 (extents above INT_MAX, limits whose int sum overflows in
//                  updateBinCenters), piles of (2^31 - 1)^2 regions (the 64-bit capacity accumulation overflows from the third
//                  on), binSize 0 (division by zero) or negative, ill-formed regions (minX > maxX: computeSubdivisions'
//                  assertion), and - in the assertion-enabled build only - one refine / coarsen call outside its contract at
//                  the end of the walk.  The checked model must predict exactly which cases die.
//
// The walk is generated from the number of bins the constructor will produce (computed here in 64-bit arithmetic) and the
// number of hierarchy levels this implies (1 + the number of halvings of the largest gap), so that ops.txt does not depend on
// the child's survival.
#pragma once
#include <algorithm>
#include <array>
#include <ostream>
#include <sstream>
#include <stdexcept>
#include <string>
#include <vector>

#include "common/harness.hpp"
// place_global/density_grid.hpp is included by the including harness (through density_legalizer.hpp)

namespace c07grid {

struct Inst {
  long long binSize = 1;
  std::vector<std::array<long long, 4>> regs;  // minX maxX minY maxY
  std::vector<long long> dems;
  std::vector<int> walk;                        // 0 refineX, 1 refineY, 2 coarsenX, 3 coarsenY
  std::vector<std::array<long long, 3>> upd;    // w h fixed (empty: no updateCellDemand)
  int family = 0;
  long long nbX = 1, nbY = 1;
  bool invalidOp = false;
};

inline int nbLevels(long long n) {
  int l = 1;
  while (n > 1) { n = (n + 1) / 2; ++l; }
  return l;
}

inline void bbox(const Inst &t, long long &a, long long &b, long long &c, long long &d) {
  if (t.regs.empty()) { a = b = c = d = 0; return; }
  a = c = (1ll << 40); b = d = -(1ll << 40);
  for (auto &r : t.regs) { a = std::min(a, r[0]); b = std::max(b, r[1]); c = std::min(c, r[2]); d = std::max(d, r[3]); }
}

// a bin size giving 1..maxBins bins for this extent (or none at all: larger than the extent)
inline long long pickBinSize(vh::Rng &g, long long ext, int maxBins) {
  if (ext <= 0) return g.range(1, 64);
  switch ((int)g.range(0, 4)) {
    case 0: return ext + g.range(0, 3);                          // a single bin
    case 1: return std::max(1ll, ext / g.range(1, maxBins));     // k bins, exact or nearly
    case 2: return std::max(1ll, (ext + maxBins - 1) / maxBins); // the most bins allowed
    case 3: return std::max(1ll, ext / g.range(1, maxBins)) + g.range(0, 2);
    default: return std::max((ext + maxBins - 1) / maxBins, g.range(1, std::max(1ll, ext)));
  }
}

inline void genWalk(vh::Rng &g, Inst &t, bool wild) {
  int LX = nbLevels(t.nbX), LY = nbLevels(t.nbY);
  int lx = LX - 1, ly = LY - 1;
  int n = g.chance(1, 6) ? 0 : (int)g.range(1, 12);
  bool down = true;
  for (int k = 0; k < n; ++k) {
    std::vector<int> ok;
    if (lx > 0) ok.push_back(0);
    if (ly > 0) ok.push_back(1);
    if (lx + 1 < LX) ok.push_back(2);
    if (ly + 1 < LY) ok.push_back(3);
    if (ok.empty()) break;
    // mostly refine first (as the legalizer does), then wander
    std::vector<int> pref;
    for (int o : ok) if ((o < 2) == down) pref.push_back(o);
    int o = (!pref.empty() && g.chance(3, 4)) ? g.pick(pref) : g.pick(ok);
    if (pref.empty()) down = !down;
    t.walk.push_back(o);
    if (o == 0) --lx; else if (o == 1) --ly; else if (o == 2) ++lx; else ++ly;
  }
  // outside the contract (assertion-enabled build only: without assertions the call indexes xLimits_[-1] / [nbLevels],
  // which the model reports as a fault but ASan need not catch)
  bool want = wild && g.chance(1, 4);
  int which = (int)g.range(0, 3);
#ifndef NDEBUG
  if (want) {
    std::vector<int> bad;
    if (lx == 0) bad.push_back(0);
    if (ly == 0) bad.push_back(1);
    if (lx + 1 >= LX) bad.push_back(2);
    if (ly + 1 >= LY) bad.push_back(3);
    if (!bad.empty()) { t.walk.push_back(bad[which % bad.size()]); t.invalidOp = true; }
  }
#else
  (void)want; (void)which;
#endif
}

inline void genDemands(vh::Rng &g, Inst &t, bool wild) {
  int n = g.chance(1, 10) ? 0 : (int)g.range(1, 24);
  for (int c = 0; c < n; ++c) {
    long long d;
    switch ((int)g.range(0, 5)) {
      case 0: d = 0; break;
      case 1: d = g.range(1, 16); break;
      case 2: d = g.range(1, 1ll << 20); break;
      case 3: d = (1ll << 31) - 1 - g.range(0, 2); break;
      default: d = g.range(1, (1ll << 31) - 1); break;
    }
    // negative demands are not generated: such a cell is never allocated (cellDemand_[c] > 0 fails) and the constructor's
    // check() then trips `placeX[c] != -1 || cellDemand_[c] == 0` - check()'s allocation assertions are C16's subject
    (void)wild;
    t.dems.push_back(d);
  }
}

inline Inst genDomain(vh::Rng &g) {
  Inst t;
  const long long B = 1ll << 22;
  t.family = (int)g.range(0, 5);
  int n = g.chance(1, 25) ? 0 : (int)g.range(1, 6);
  // the frame the regions live in
  long long fx0, fx1, fy0, fy1;
  switch ((int)g.range(0, 3)) {
    case 0: fx0 = -B; fx1 = B; fy0 = -B; fy1 = B; break;
    case 1: { long long w = g.range(1, 64), h = g.range(1, 64); fx0 = g.range(-B, B - w); fx1 = fx0 + w; fy0 = g.range(-B, B - h); fy1 = fy0 + h; break; }
    case 2: { long long w = g.range(1, 2 * B), h = g.range(1, 2 * B); fx0 = g.chance(1, 2) ? -B : B - w; fx1 = fx0 + w; fy0 = g.chance(1, 2) ? -B : B - h; fy1 = fy0 + h; break; }
    default: { fx0 = g.range(-B, B - 1); fx1 = g.range(fx0 + 1, B); fy0 = g.range(-B, B - 1); fy1 = g.range(fy0 + 1, B); break; }
  }
  for (int k = 0; k < n; ++k) {
    long long a, b, c, d;
    switch (t.family) {
      case 0: {  // stacked rows of equal height over the frame's width (what fromIspdCircuit hands over)
        long long h = std::max(1ll, (fy1 - fy0) / n);
        a = fx0 + (g.chance(1, 3) ? g.range(0, (fx1 - fx0) / 4) : 0); b = fx1 - (g.chance(1, 3) ? g.range(0, (fx1 - fx0) / 4) : 0);
        c = std::min(fy0 + k * h, fy1); d = std::min(c + h, fy1);
        break;
      }
      case 1: a = fx0; b = fx1; c = fy0; d = fy1; break;  // the whole frame, possibly several times (overlapping regions)
      case 2: a = g.range(fx0, fx1); b = g.range(a, fx1); c = g.range(fy0, fy1); d = g.range(c, fy1); break;
      case 3: a = g.range(fx0, fx1); b = g.chance(1, 3) ? a : g.range(a, fx1); c = g.range(fy0, fy1); d = g.chance(1, 3) ? c : g.range(c, fy1); break;  // degenerate
      default: {  // boxes against the four corners of +-2^22
        long long w = g.range(1, 1ll << g.range(1, 22)), h = g.range(1, 1ll << g.range(1, 22));
        a = g.chance(1, 2) ? -B : B - w; b = a + w; c = g.chance(1, 2) ? -B : B - h; d = c + h;
        break;
      }
    }
    t.regs.push_back({a, b, c, d});
  }
  long long a, b, c, d;
  bbox(t, a, b, c, d);
  t.binSize = pickBinSize(g, std::max(b - a, d - c), 16);
  t.nbX = std::max(1ll, (b - a) / t.binSize);
  t.nbY = std::max(1ll, (d - c) / t.binSize);
  genDemands(g, t, false);
  genWalk(g, t, false);
  // updateCellDemand(circuit): same zero pattern, areas below 2^31
  if (!t.dems.empty() && g.chance(1, 2)) {
    for (long long dm : t.dems) {
      if (dm <= 0) {
        if (g.chance(1, 2)) t.upd.push_back({g.range(0, B), g.range(0, B), 1});     // fixed: any size
        else t.upd.push_back({g.chance(1, 2) ? 0 : g.range(1, B), 0, 0});           // movable without area
      } else {
        long long w = g.chance(1, 4) ? (1ll << g.range(0, 22)) : g.range(1, B);
        long long hmax = std::min(B, ((1ll << 31) - 1) / w);
        long long h = g.chance(1, 4) ? hmax : g.range(1, hmax);
        t.upd.push_back({w, h, 0});
      }
    }
  }
  return t;
}

inline Inst genWild(vh::Rng &g) {
  Inst t;
  const long long IMAX = 2147483647ll, IMIN = -2147483647ll - 1;
  t.family = 10 + (int)g.range(0, 4);
  int n = (int)g.range(1, 5);
  bool zeroBin = false, negBin = false;
  switch (t.family) {
    case 10:  // anything in int range: extents above INT_MAX are common
      for (int k = 0; k < n; ++k) {
        long long a = g.range(IMIN, IMAX), b = g.range(a, IMAX), c = g.range(IMIN, IMAX), d = g.range(c, IMAX);
        t.regs.push_back({a, b, c, d});
      }
      break;
    case 11: {  // small areas far from the origin: the extents fit, the sums of two limits may not
      long long M = 1ll << g.range(28, 31);
      for (int k = 0; k < n; ++k) {
        long long w = g.range(0, 1ll << g.range(1, 20)), h = g.range(0, 1ll << g.range(1, 20));
        long long a = g.chance(1, 2) ? std::min(IMAX - w, M - 1 - g.range(0, 1000)) : std::max(IMIN, -M + g.range(0, 1000));
        long long c = g.chance(1, 2) ? std::min(IMAX - h, M - 1 - g.range(0, 1000)) : std::max(IMIN, -M + g.range(0, 1000));
        if (g.chance(1, 3)) { a = g.range(-1000, 1000); }
        t.regs.push_back({a, a + w, c, c + h});
      }
      break;
    }
    case 12: {  // piles of huge squares: extents up to INT_MAX, areas up to (2^31 - 1)^2
      long long half = 1ll << 30;
      long long a = -half, b = half - 1 - g.range(0, 2), c = -half, d = half - 1 - g.range(0, 2);
      if (g.chance(1, 3)) { b -= g.range(0, half); }
      n = (int)g.range(1, 5);
      for (int k = 0; k < n; ++k) t.regs.push_back({a, b, c, d});
      break;
    }
    case 13:  // in-domain regions, binSize 0 or negative
      for (int k = 0; k < n; ++k) {
        long long a = g.range(-(1ll << 22), 1ll << 22), b = g.range(a, 1ll << 22), c = g.range(-(1ll << 22), 1ll << 22), d = g.range(c, 1ll << 22);
        t.regs.push_back({a, b, c, d});
      }
      zeroBin = g.chance(1, 2); negBin = !zeroBin;
      break;
    default:  // ill-formed regions (minX > maxX or minY > maxY) at moderate magnitude
      for (int k = 0; k < n; ++k) {
        long long a = g.range(-(1ll << 22), 1ll << 22), b = g.range(-(1ll << 22), 1ll << 22), c = g.range(-(1ll << 22), 1ll << 22), d = g.range(-(1ll << 22), 1ll << 22);
        t.regs.push_back({a, b, c, d});
      }
      break;
  }
  long long a, b, c, d;
  bbox(t, a, b, c, d);
  long long ext = std::max(b - a, d - c);
  t.binSize = std::min(IMAX, pickBinSize(g, ext, 16));
  if (t.family == 14) t.binSize = std::min(IMAX, pickBinSize(g, std::max(std::llabs(b - a), std::llabs(d - c)), 16));
  if (zeroBin) t.binSize = 0;
  if (negBin) t.binSize = -g.range(1, 1ll << g.range(0, 30));
  // what the constructor computes when nothing overflows (int arithmetic: truncating division)
  long long wx = b - a, wy = d - c;
  bool fits = wx >= IMIN && wx <= IMAX && wy >= IMIN && wy <= IMAX && t.binSize != 0;
  t.nbX = fits ? std::max(1ll, wx / t.binSize) : 1;
  t.nbY = fits ? std::max(1ll, wy / t.binSize) : 1;
  if (t.nbX > 64 || t.nbY > 64) { t.nbX = std::min(t.nbX, 64ll); t.nbY = std::min(t.nbY, 64ll); }  // cannot happen by construction
  genDemands(g, t, true);
  genWalk(g, t, true);
  return t;
}

inline Inst gen(vh::Rng &g, bool wild) { return wild ? genWild(g) : genDomain(g); }

inline std::string ops(const Inst &t) {
  static const char *nm[] = {"rx", "ry", "cx", "cy"};
  std::ostringstream os;
  os << "gnew\n";
  for (auto &r : t.regs) os << "greg " << r[0] << " " << r[1] << " " << r[2] << " " << r[3] << "\n";
  os << "gbuild " << t.binSize << "\n";
  os << "gdem";
  for (auto d : t.dems) os << " " << d;
  os << "\n";
  for (int o : t.walk) os << "gop " << nm[o] << "\n";
  if (!t.upd.empty()) {
    os << "gupd";
    for (auto &u : t.upd) os << " " << u[0] << " " << u[1] << " " << u[2];
    os << "\n";
  }
  return os.str();
}

inline bool parse(std::istream &is, Inst &t) {
  std::string op;
  while (is >> op) {
    if (op == "gnew") continue;
    if (op == "greg") { std::array<long long, 4> r; is >> r[0] >> r[1] >> r[2] >> r[3]; t.regs.push_back(r); }
    else if (op == "gbuild") is >> t.binSize;
    else if (op == "gdem") { std::string ln; std::getline(is, ln); std::istringstream ls(ln); long long d; while (ls >> d) t.dems.push_back(d); }
    else if (op == "gop") { std::string o; is >> o; t.walk.push_back(o == "rx" ? 0 : o == "ry" ? 1 : o == "cx" ? 2 : 3); }
    else if (op == "gupd") { std::string ln; std::getline(is, ln); std::istringstream ls(ln); std::array<long long, 3> u; while (ls >> u[0] >> u[1] >> u[2]) t.upd.push_back(u); }
    else return false;
  }
  return true;
}

// the session on the real code
inline void impl(const Inst &t, std::ostream &os) {
  using namespace coloquinte;
  std::vector<Rectangle> regs;
  for (auto &r : t.regs) regs.emplace_back((int)r[0], (int)r[1], (int)r[2], (int)r[3]);
  DensityGrid grid((int)t.binSize, regs);
  os << "grid " << grid.nbBinsX() << " " << grid.nbBinsY();
  for (int i = 0; i <= grid.nbBinsX(); ++i) os << " " << grid.binLimitX(i);
  for (int j = 0; j <= grid.nbBinsY(); ++j) os << " " << grid.binLimitY(j);
  for (int i = 0; i < grid.nbBinsX(); ++i)
    for (int j = 0; j < grid.nbBinsY(); ++j) os << " " << grid.binCapacity(i, j);
  os << "\n";
  os << "gtot " << grid.totalCapacity() << "\n";
  std::vector<int> dems;
  for (auto d : t.dems) dems.push_back((int)d);
  HierarchicalDensityPlacement hp(grid, dems);
  os << "hinit " << hp.levelX() << " " << hp.levelY() << " " << hp.totalDemand() << "\n";
  for (int o : t.walk) {
    switch (o) {
      case 0: hp.refineX(); break;
      case 1: hp.refineY(); break;
      case 2: hp.coarsenX(); break;
      default: hp.coarsenY(); break;
    }
    os << "gop " << hp.levelX() << " " << hp.levelY() << " " << hp.nbBinsX() << " " << hp.nbBinsY();
    for (int i = 0; i < hp.nbBinsX(); ++i)
      for (int j = 0; j < hp.nbBinsY(); ++j) os << " " << hp.binUsage(i, j) << " " << hp.binCapacity(i, j);
    os << "\n";
  }
  if (!t.upd.empty()) {
    int n = (int)t.upd.size();
    Circuit circuit(n);
    std::vector<int> w, h;
    std::vector<bool> fx;
    for (auto &u : t.upd) { w.push_back((int)u[0]); h.push_back((int)u[1]); fx.push_back(u[2] != 0); }
    circuit.setCellWidth(w);
    circuit.setCellHeight(h);
    circuit.setCellIsFixed(fx);
    hp.updateCellDemand(circuit);
    os << "gupd";
    for (int c = 0; c < n; ++c) os << " " << hp.cellDemand(c);
    os << "\n";
  }
}

}  // namespace c07grid
