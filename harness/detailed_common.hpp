// Shared by h_C02 and h_C05: one end-to-end run of Circuit::legalize / Circuit::placeDetailed
// with a snapshot of the exposed placement at every Detailed callback and on return.
//
// The run happens in forked children (vh::isolated): assertions and sanitizer reports of the
// real code become the fault classes "abort" / "sanitizer" instead of killing the harness.
#pragma once
#include <algorithm>
#include <functional>
#include <memory>
#include <sstream>

#include <sys/wait.h>
#include <unistd.h>

#include "common/circuit.hpp"
#include "common/harness.hpp"
#include "common/past.hpp"
#include "place_detailed/place_detailed.hpp"

namespace vd {
using namespace coloquinte;

// ------------------------------------------------------------------ parameters <-> text

inline std::string paramsString(const ColoquinteParameters &p, int effort) {
  std::ostringstream os;
  os << "params " << effort << " " << p.detailed.nbPasses << " " << p.detailed.localSearchNbNeighbours << " "
     << p.detailed.localSearchNbRows << " " << p.detailed.shiftNbRows << " " << p.detailed.shiftMaxNbCells << " "
     << p.detailed.reorderingNbRows << " " << p.detailed.reorderingMaxNbCells << " " << (int)p.legalization.costModel
     << " " << (long long)std::llround(p.legalization.orderingWidth * 1000) << " "
     << (long long)std::llround(p.legalization.orderingHeight * 1000) << " "
     << (long long)std::llround(p.legalization.orderingY * 1000);
  return os.str();
}

inline bool parseParams(const std::string &line, ColoquinteParameters &p) {
  std::istringstream is(line);
  std::string kw;
  int effort, cm;
  long long ow, oh, oy;
  if (!(is >> kw) || kw != "params") return false;
  if (!(is >> effort)) return false;
  p = ColoquinteParameters(effort);
  if (!(is >> p.detailed.nbPasses >> p.detailed.localSearchNbNeighbours >> p.detailed.localSearchNbRows >>
        p.detailed.shiftNbRows >> p.detailed.shiftMaxNbCells >> p.detailed.reorderingNbRows >>
        p.detailed.reorderingMaxNbCells >> cm >> ow >> oh >> oy))
    return false;
  p.legalization.costModel = (LegalizationModel)cm;
  p.legalization.orderingWidth = ow / 1000.0;
  p.legalization.orderingHeight = oh / 1000.0;
  p.legalization.orderingY = oy / 1000.0;
  return true;
}

// Parameters with their generating effort remembered (so that they can be written down).
struct Params {
  ColoquinteParameters p{3};
  int effort = 3;
  bool nonDefault = false;
  std::string str() const { return paramsString(p, effort); }
};

// Same distribution as vc::genParams; the orderings are rounded to 1/1000 so that the text form is exact.
inline Params genParams(vh::Rng &g, bool nonDefault) {
  Params r;
  r.effort = g.range(1, 9);
  r.nonDefault = nonDefault;
  r.p = ColoquinteParameters(r.effort);
  if (nonDefault) {
    r.p.detailed.nbPasses = g.range(1, 3);
    r.p.detailed.localSearchNbNeighbours = g.range(1, 6);
    r.p.detailed.localSearchNbRows = g.range(0, 3);
    r.p.detailed.shiftNbRows = g.range(1, 4);
    r.p.detailed.shiftMaxNbCells = g.range(2, 20);
    r.p.detailed.reorderingNbRows = g.range(1, 2);
    r.p.detailed.reorderingMaxNbCells = g.range(1, 4);
    r.p.legalization.orderingWidth = g.range(0, 8) / 8.0;
    r.p.legalization.orderingHeight = g.range(-8, 16) / 8.0;
    r.p.legalization.orderingY = g.range(-8, 8) / 40.0;
  }
  return r;
}

// ------------------------------------------------------------------ circuit <-> text

// Parses the text written by vc::dumpCircuit (the lines up to "end").
inline bool parseCircuit(std::istream &is, Circuit &out) {
  std::string line;
  int n = -1;
  std::vector<int> w, h, x, y;
  std::vector<bool> fx, ob;
  std::vector<CellOrientation> orr;
  std::vector<CellRowPolarity> pol;
  std::vector<Row> rows;
  struct N { std::vector<int> c, px, py; };
  std::vector<N> nets;
  bool ended = false;
  while (std::getline(is, line)) {
    std::istringstream ls(line);
    std::string kw;
    if (!(ls >> kw)) continue;
    if (kw == "circuit") { ls >> n; }
    else if (kw == "cell") {
      int a, b, c, d, o, f, obs, p;
      if (!(ls >> a >> b >> c >> d >> o >> f >> obs >> p)) return false;
      w.push_back(a); h.push_back(b); x.push_back(c); y.push_back(d);
      orr.push_back((CellOrientation)o); fx.push_back(f != 0); ob.push_back(obs != 0); pol.push_back((CellRowPolarity)p);
    } else if (kw == "row") {
      int a, b, c, d, o;
      if (!(ls >> a >> b >> c >> d >> o)) return false;
      rows.emplace_back(a, b, c, d, (CellOrientation)o);
    } else if (kw == "net") {
      long long m, e;
      int np;
      if (!(ls >> m >> e >> np)) return false;
      N nn;
      for (int i = 0; i < np; ++i) {
        int c, px, py;
        if (!(ls >> c >> px >> py)) return false;
        nn.c.push_back(c); nn.px.push_back(px); nn.py.push_back(py);
      }
      nets.push_back(nn);
    } else if (kw == "end") { ended = true; break; }
  }
  if (!ended || n != (int)w.size()) return false;
  Circuit c(n);
  c.setCellWidth(w); c.setCellHeight(h); c.setCellX(x); c.setCellY(y);
  c.setCellIsFixed(fx); c.setCellIsObstruction(ob); c.setCellOrientation(orr); c.setCellRowPolarity(pol);
  c.setRows(rows);
  for (auto &nn : nets) c.addNet(nn.c, nn.px, nn.py);
  out = c;
  return true;
}

// A case = circuit + parameters, as one text block: "<params line>\n<circuit dump>"
inline std::string caseString(const Circuit &c, const Params &p) { return p.str() + "\n" + vc::circuitString(c); }

inline bool parseCase(const std::string &text, Circuit &c, Params &p) {
  std::istringstream is(text);
  std::string line;
  while (std::getline(is, line)) {
    if (line.rfind("params", 0) == 0) break;
  }
  if (!parseParams(line, p.p)) return false;
  {
    std::istringstream ls(line);
    std::string kw;
    ls >> kw >> p.effort;
  }
  return parseCircuit(is, c);
}

// the "input" string of a replay file written by tools/check.py (JSON string value, unescaped)
inline std::string jsonField(const std::string &json, const std::string &key) {
  size_t k = json.find("\"" + key + "\"");
  if (k == std::string::npos) return "";
  size_t q = json.find('"', json.find(':', k) + 1);
  if (q == std::string::npos) return "";
  std::string o;
  for (size_t i = q + 1; i < json.size() && json[i] != '"'; ++i) {
    if (json[i] == '\\' && i + 1 < json.size()) {
      char e = json[++i];
      if (e == 'n') o += '\n';
      else if (e == 't') o += '\t';
      else if (e == 'u') { i += 4; o += '?'; }
      else o += e;
    } else o += json[i];
  }
  return o;
}

inline std::string readFile(const std::string &p) {
  std::ifstream f(p);
  std::stringstream ss;
  ss << f.rdbuf();
  return ss.str();
}

// ------------------------------------------------------------------ snapshots

struct Snap {
  std::vector<int> x, y, o;
  bool operator==(const Snap &b) const { return x == b.x && y == b.y && o == b.o; }
};

inline Snap snapshot(const Circuit &c) {
  Snap s;
  s.x = c.cellX();
  s.y = c.cellY();
  for (auto o : c.cellOrientation()) s.o.push_back((int)o);
  return s;
}

// The circuit `base` with the placement of snapshot s (all other fields untouched).
inline Circuit withSnap(const Circuit &base, const Snap &s) {
  Circuit c = base;
  c.cellX_ = s.x;
  c.cellY_ = s.y;
  for (size_t i = 0; i < s.o.size(); ++i) c.cellOrientation_[i] = (CellOrientation)s.o[i];
  c.isInUse_ = false;
  return c;
}

inline std::string snapLine(const Snap &s) {
  std::ostringstream os;
  os << "sol";
  for (size_t i = 0; i < s.x.size(); ++i) os << " " << s.x[i] << " " << s.y[i] << " " << s.o[i];
  return os.str();
}

inline bool parseSnap(const std::string &line, Snap &s) {
  std::istringstream is(line);
  std::string kw;
  if (!(is >> kw) || kw != "sol") return false;
  int a, b, c;
  s = Snap();
  while (is >> a >> b >> c) { s.x.push_back(a); s.y.push_back(b); s.o.push_back(c); }
  return true;
}

// ------------------------------------------------------------------ the run

struct Run {
  // phase 1: Circuit::legalize alone on a copy of the input
  std::string legalizeStatus;  // ok | throw:... | abort | sanitizer | timeout ...
  Snap legalized;
  // phase 2: Circuit::placeDetailed on a copy of the input
  std::string detailedStatus;  // ok | throw:... | abort | ...
  std::string detailedWhat;    // exception text / stderr tail
  std::vector<Snap> callbacks;  // placement exposed at each PlacementStep::Detailed callback
  Snap final;                   // placement after return (only if detailedStatus == ok)
  std::vector<std::string> oplog;  // hook H3 lines interleaved with "cb" markers (empty without the hook)
  bool hasHook = false;
  // harness self-check (expected empty): the object with a past did not reach the input's public state; phase 2 then ran on a fresh object
  std::string pastNote;
};

inline void silenceStdout() {
  // the library prints progress on stdout
  if (!freopen("/dev/null", "w", stdout)) { /* ignore */ }
  std::cout.setstate(std::ios_base::badbit);
}

#ifdef COLOQUINTE_VERIF_DETAILED_OPLOG
inline std::vector<std::string> *&oplogSink() {
  static std::vector<std::string> *p = nullptr;
  return p;
}
inline void oplogHook(const char *kind, const int *args, int n) {
  if (!oplogSink()) return;
  std::ostringstream os;
  os << kind;
  for (int i = 0; i < n; ++i) os << " " << args[i];
  oplogSink()->push_back(os.str());
}
#endif

// With `past` (a recipe of common/past.hpp, "" = none) phase 2 runs on an object with a PAST: the child first builds the
// object in the recipe's perturbed state, calls the observers, brings it to the public state of `input` through only the
// needed setters, and then calls placeDetailed.  Phase 1 (legalize alone, the reference) always runs on a fresh object.
// The properties quantify over circuits, not over how the object got there, so nothing else changes: the oracles and the
// correspondence demand of this run exactly what they demand of a run on a fresh object.
inline Circuit livedOrFresh(const Circuit &input, const std::string &past, std::ostream &os) {
  if (past.empty()) return input;
  std::string err;
  Circuit c = vc::livePast(past, input, &err);  // a copy of `input` when err is set
  if (!err.empty()) os << "pastnote " << err << "\n";
  return c;
}

inline Run runCase(const Circuit &input, const Params &prm, int timeoutSec = 120, const std::string &past = "") {
  Run r;
  std::string txt, diag;
  // ---- phase 1
  r.legalizeStatus = vh::isolated(
      [&](std::ostream &os) {
        silenceStdout();
        Circuit c = input;
        try {
          c.legalize(prm.p);
          os << "ok\n" << snapLine(snapshot(c)) << "\n";
        } catch (const std::exception &e) {
          os << vc::exClass(e) << "\n";
        }
      },
      txt, timeoutSec, &diag);
  if (r.legalizeStatus == "ok") {
    std::istringstream is(txt);
    std::string l1, l2;
    std::getline(is, l1);
    if (l1 == "ok") {
      std::getline(is, l2);
      parseSnap(l2, r.legalized);
    } else {
      r.legalizeStatus = l1;
    }
  }
  // ---- phase 2
  std::string st = vh::isolated(
      [&](std::ostream &os) {
        silenceStdout();
        Circuit c = livedOrFresh(input, past, os);
        std::vector<std::string> log;
#ifdef COLOQUINTE_VERIF_DETAILED_OPLOG
        oplogSink() = &log;
        coloquinte::verif::onDetailedOp = &oplogHook;
        os << "hook\n";
#endif
        std::vector<Snap> snaps;
        PlacementCallback cb = [&](PlacementStep s) {
          if (s != PlacementStep::Detailed) return;
          snaps.push_back(snapshot(c));
          log.push_back("cb");
        };
        std::string status = "ok", what;
        try {
          c.placeDetailed(prm.p, cb);
        } catch (const std::exception &e) {
          status = vc::exClass(e);
          what = e.what();
        }
        os << "status " << status << "\n";
        os << "what " << what << "\n";
        for (auto &s : snaps) os << "cb " << snapLine(s) << "\n";
        if (status == "ok") os << "final " << snapLine(snapshot(c)) << "\n";
        for (auto &l : log) os << "log " << l << "\n";
      },
      txt, timeoutSec, &diag);
  r.detailedStatus = st;
  if (st != "ok") {
    r.detailedWhat = diag.size() > 600 ? diag.substr(diag.size() - 600) : diag;
    return r;
  }
  std::istringstream is(txt);
  std::string line;
  while (std::getline(is, line)) {
    if (line == "hook") r.hasHook = true;
    else if (line.rfind("pastnote ", 0) == 0) r.pastNote = line.substr(9);
    else if (line.rfind("status ", 0) == 0) r.detailedStatus = line.substr(7);
    else if (line.rfind("what ", 0) == 0) r.detailedWhat = line.substr(5);
    else if (line.rfind("cb ", 0) == 0) { Snap s; parseSnap(line.substr(3), s); r.callbacks.push_back(s); }
    else if (line.rfind("final ", 0) == 0) parseSnap(line.substr(6), r.final);
    else if (line.rfind("log ", 0) == 0) r.oplog.push_back(line.substr(4));
  }
  return r;
}

// ------------------------------------------------------------------ cases on several cores
//
// The expensive part of a case is run in forked children (vh::isolated) while the parent waits.
// ParallelBlobs runs job(k), k in [0, n), in W forked worker processes (worker w takes the k with
// k % W == w) and stores what each job returns (an opaque string) in one file per worker; the
// parent then reads the results back in increasing k and does all the bookkeeping (streams,
// oracle, counters) itself, in the same order as a sequential run: the output of the harness
// does not depend on W.  Workers never touch the harness' output streams and leave through _exit.

inline std::string serializeRun(const Run &r) {
  auto oneLine = [](std::string s) {
    for (char &ch : s)
      if (ch == '\n' || ch == '\r') ch = '\x01';
    return s;
  };
  std::ostringstream os;
  os << "L " << r.legalizeStatus << "\n";
  os << "S " << snapLine(r.legalized) << "\n";
  os << "D " << r.detailedStatus << "\n";
  os << "W " << oneLine(r.detailedWhat) << "\n";
  os << "H " << (r.hasHook ? 1 : 0) << "\n";
  os << "P " << oneLine(r.pastNote) << "\n";
  os << "C " << r.callbacks.size() << "\n";
  for (auto &s : r.callbacks) os << snapLine(s) << "\n";
  os << "F " << snapLine(r.final) << "\n";
  os << "O " << r.oplog.size() << "\n";
  for (auto &l : r.oplog) os << l << "\n";
  return os.str();
}

inline bool parseRun(const std::string &blob, Run &r) {
  std::istringstream is(blob);
  std::string line;
  auto rest = [&](const char *tag) -> std::string {
    if (!std::getline(is, line) || line.size() < 2 || line[0] != tag[0]) return std::string("\x02");
    return line.substr(2);
  };
  r = Run();
  std::string v;
  if ((v = rest("L")) == "\x02") return false;
  r.legalizeStatus = v;
  if ((v = rest("S")) == "\x02") return false;
  parseSnap(v, r.legalized);
  if ((v = rest("D")) == "\x02") return false;
  r.detailedStatus = v;
  if ((v = rest("W")) == "\x02") return false;
  for (char &ch : v)
    if (ch == '\x01') ch = '\n';
  r.detailedWhat = v;
  if ((v = rest("H")) == "\x02") return false;
  r.hasHook = v == "1";
  if ((v = rest("P")) == "\x02") return false;
  r.pastNote = v;
  if ((v = rest("C")) == "\x02") return false;
  for (long long i = 0, n = atoll(v.c_str()); i < n; ++i) {
    if (!std::getline(is, line)) return false;
    Snap s;
    parseSnap(line, s);
    r.callbacks.push_back(s);
  }
  if ((v = rest("F")) == "\x02") return false;
  parseSnap(v, r.final);
  if ((v = rest("O")) == "\x02") return false;
  for (long long i = 0, n = atoll(v.c_str()); i < n; ++i) {
    if (!std::getline(is, line)) return false;
    r.oplog.push_back(line);
  }
  return true;
}

struct ParallelBlobs {
  std::string prefix;
  int W = 1;
  std::vector<std::unique_ptr<std::ifstream>> files;
  std::vector<long long> nextK;  // next k stored in the file of worker w

  static int defaultWorkers() {
    long n = sysconf(_SC_NPROCESSORS_ONLN);
    if (const char *e = getenv("VERIF_HARNESS_JOBS")) n = atol(e);
    return (int)std::max(1L, std::min(n, 32L));
  }

  // `keep(k)`: cases that are run at all (the others are skipped by workers and must not be asked for)
  ParallelBlobs(const std::string &pfx, long long n, int workers, const std::function<std::string(long long)> &job)
      : prefix(pfx), W(std::max(1, workers)) {
    if (n <= 0) { W = 0; return; }
    if ((long long)W > n) W = (int)n;
    fflush(nullptr);
    std::vector<pid_t> pids;
    for (int w = 0; w < W; ++w) {
      pid_t pid = fork();
      if (pid < 0) { perror("fork"); exit(3); }
      if (pid == 0) {
        FILE *f = fopen((prefix + std::to_string(w) + ".bin").c_str(), "wb");
        if (!f) _exit(4);
        for (long long k = w; k < n; k += W) {
          std::string blob = job(k);
          fprintf(f, "%lld %zu\n", k, blob.size());
          fwrite(blob.data(), 1, blob.size(), f);
          fputc('\n', f);
          fflush(f);
        }
        fclose(f);
        _exit(0);
      }
      pids.push_back(pid);
    }
    for (pid_t pid : pids) {
      int st = 0;
      waitpid(pid, &st, 0);
    }
    for (int w = 0; w < W; ++w) {
      files.emplace_back(new std::ifstream(prefix + std::to_string(w) + ".bin", std::ios::binary));
      nextK.push_back(w);
    }
  }

  // result of job(k); k must be asked in increasing order (per worker).  false = the worker did not
  // deliver it (it died): the caller recomputes in process.
  bool get(long long k, std::string &blob) {
    if (W <= 0) return false;
    int w = (int)(k % W);
    std::ifstream &f = *files[w];
    std::string head;
    while (f && std::getline(f, head)) {
      long long kk = -1;
      size_t len = 0;
      if (sscanf(head.c_str(), "%lld %zu", &kk, &len) != 2) return false;
      blob.assign(len, '\0');
      f.read(&blob[0], (std::streamsize)len);
      if ((size_t)f.gcount() != len) return false;
      f.get();  // the newline after the blob
      if (kk == k) return true;
      if (kk > k) return false;
    }
    return false;
  }

  ~ParallelBlobs() {
    files.clear();
    for (int w = 0; w < W; ++w) remove((prefix + std::to_string(w) + ".bin").c_str());
  }
};

// cells that detailed placement must leave alone: movable cells whose placed height is not the row height
inline bool isMultiRow(const Circuit &c, int i, int rowHeight) { return !c.isFixed(i) && c.placedHeight(i) != rowHeight; }

}  // namespace vd
