// C08 stream `h` - object history.  Fragment included once by h_C08.cpp (after runSeqOn, rebuild, pickParams,
// paramString, countParams); not a stand-alone header.
//
// "Placement is a pure function of the circuit and the parameters": a circuit is what its accessors say.  A case takes
// one Circuit object through a random history and then runs a stage sequence
//   (a) on the object itself,
//   (b) on a twin REBUILT through the public setters from the object's getters (a copy would inherit hidden state),
//   (c) on a copy of the object;
// the three results must be bitwise identical.  History operations:
//   stages    placeGlobal / legalize / placeDetailed (with their own parameters, with or without an observing callback)
//   queries   report(), computeRows() (with and without additional obstacles), hpwl(), toString(),
//             expandCellsToDensity on a copy (which is then dropped)
//   mutators  setSolution (a fixed cell moved / turned, the movable cells scattered / put back), setCellX, setCellY,
//             setCellIsFixed, setCellIsObstruction, setRows (same rows / shifted / trimmed / one row dropped / reordered),
//             setupRows, setCellWidth, setCellHeight, setCellOrientation, setCellRowPolarity, setNetWeights,
//             expandCellsToDensity on the object
// Half of the circuits get one more fixed obstruction macro inside the rows.  The mutators keep the circuit in the C01/C06
// domain as far as a local edit can (movable cells keep a positive width and a height that is a multiple of the row height,
// rows keep one height); whatever the final circuit is, the three runs get the same one.
// Distribution: h:op:<kind> per executed operation, h:shape:<...> for the history shapes the property cares about (derived
// data computed on the object, then the inputs of that data changed through a given mutator, then the final run).

namespace c08h {

struct Hist {
  Circuit &c;
  vh::Rng &g;
  ChildOut &co;
  std::vector<bool> origMovable;
  PlacementSolution initial;
  int H = 1;
  bool rowsComputed = false;  // the free rows have been computed on the object at least once
  bool stageRan = false;
  std::vector<std::string> log;
  std::set<std::string> shapes;

  Hist(Circuit &circ, vh::Rng &rng, ChildOut &out) : c(circ), g(rng), co(out) {
    for (int i = 0; i < c.nbCells(); ++i) origMovable.push_back(!c.isFixed(i));
    initial = c.solution();
    H = c.nbRows() ? c.rows()[0].height() : 1;
  }

  std::vector<int> cellsWhere(const std::function<bool(int)> &f) const {
    std::vector<int> r;
    for (int i = 0; i < c.nbCells(); ++i)
      if (f(i)) r.push_back(i);
    return r;
  }
  // a fixed cell, preferably an obstruction of positive area (a macro)
  int pickFixed() {
    std::vector<int> macros = cellsWhere([&](int i) { return c.isFixed(i) && c.isObstruction(i) && c.area(i) > 0; });
    std::vector<int> fixed = cellsWhere([&](int i) { return c.isFixed(i); });
    if (!macros.empty() && g.chance(3, 4)) return g.pick(macros);
    if (!fixed.empty()) return g.pick(fixed);
    return -1;
  }
  int pickMovable() {
    std::vector<int> mov = cellsWhere([&](int i) { return !c.isFixed(i); });
    return mov.empty() ? -1 : g.pick(mov);
  }
  bool isMacro(int i) const { return i >= 0 && c.isFixed(i) && c.isObstruction(i) && c.area(i) > 0; }
  Rectangle area() const { return c.computePlacementArea(); }
  std::string cellDesc(int i) const {
    std::ostringstream os;
    os << "cell " << i << " (" << (c.isFixed(i) ? "fixed" : "movable") << (c.isObstruction(i) ? " obstruction " : " non-obstruction ")
       << c.cellWidth()[i] << "x" << c.cellHeight()[i] << " at " << c.cellX()[i] << "," << c.cellY()[i] << " orientation "
       << (int)c.cellOrientation()[i] << ")";
    return os.str();
  }
  // a new position for a fixed cell: inside the rows (on a row), just next to where it is, or far from the rows
  Point newPos(int i) {
    Rectangle a = area();
    int m = g.range(0, 5);
    if (m <= 2 && c.nbRows() > 0) {
      const Row &r = c.rows()[g.range(0, c.nbRows() - 1)];
      return Point((int)g.range(a.minX - 2, std::max(a.minX, a.maxX - 1)), r.minY);
    }
    if (m == 3) return Point(c.cellX()[i] + (int)g.range(-3, 3), c.cellY()[i] + H * (int)g.range(-1, 1));
    if (m == 4) return Point((int)g.range(a.minX - 2, a.maxX + 2), (int)g.range(a.minY - H, a.maxY));
    return Point((int)g.range(-300, 300), (int)g.range(-300, 300));
  }
  void note(const std::string &kind, const std::string &text) {
    co.count("h:op:" + kind);
    log.push_back(text);
  }
  // a mutator that changes what the free rows depend on ran after they had been computed on the object
  void staleShape(const std::string &mut, bool touchesObstacles) {
    if (rowsComputed && touchesObstacles) shapes.insert("h:shape:rows_computed_then_obstacles_or_rows_changed_by_" + mut);
    if (stageRan) shapes.insert("h:shape:stage_ran_then_" + mut);
  }

  // ---------------------------------------------------------------- the operations
  void opStage(const ColoquinteParameters &p, int mode) {
    static const std::vector<std::string> seqs = {"G", "L", "D", "L", "GL", "LD"};
    std::string seq = g.pick(seqs);
    bool observe = g.chance(1, 3);
    RunResult r = runSeqOn(c, seq, p, observe);
    rowsComputed = true;
    stageRan = true;
    bool threw = r.text.find("throw") != std::string::npos;
    note("stage_" + seq, "stages " + seq + (observe ? " with an observing callback" : "") + " [" + paramString(p, mode) + "] -> " +
                             (threw ? "some stage threw" : "returned"));
  }
  void opQuery() {
    int m = g.range(0, 5);
    try {
      if (m == 0) { (void)c.report(); rowsComputed = true; note("report", "report()"); }
      else if (m == 1 || m == 2) { (void)c.computeRows(); rowsComputed = true; note("computeRows", "computeRows()"); }
      else if (m == 3) {
        Rectangle a = area();
        std::vector<Rectangle> extra = {Rectangle(a.minX, a.minX + 2, a.minY, a.maxY)};
        (void)c.computeRows(extra);
        note("computeRows_with_obstacles", "computeRows({one additional obstacle})");
      } else if (m == 4) { (void)c.hpwl(); (void)c.toString(); note("hpwl_toString", "hpwl(); toString()"); }
      else {
        Circuit t = c;
        t.expandCellsToDensity(g.range(5, 10) / 10.0, g.chance(1, 2) ? 0.0 : 1.0);
        note("expandCellsToDensity_on_copy", "expandCellsToDensity on a copy of the object (copy dropped)");
      }
    } catch (const std::exception &e) {
      note("query_threw", std::string("a query threw: ") + e.what());
    }
  }
  void opSetSolution() {
    PlacementSolution sol = c.solution();
    int m = g.range(0, 5);
    int f = pickFixed();
    if (m <= 2 && f >= 0) {
      Point np = newPos(f);
      std::ostringstream os;
      os << "setSolution: " << cellDesc(f) << " moved to " << np.x << "," << np.y;
      bool macro = isMacro(f);
      sol[f].position = np;
      c.setSolution(sol);
      staleShape(macro ? "setSolution_moving_a_fixed_obstruction" : "setSolution_moving_a_fixed_cell", macro);
      note(macro ? "setSolution_move_fixed_obstruction" : "setSolution_move_fixed_other", os.str());
    } else if (m == 3 && f >= 0) {
      CellOrientation o = (CellOrientation)g.range(0, 7);
      std::ostringstream os;
      os << "setSolution: " << cellDesc(f) << " turned to orientation " << (int)o;
      bool macro = isMacro(f);
      sol[f].orientation = o;
      c.setSolution(sol);
      staleShape(macro ? "setSolution_turning_a_fixed_obstruction" : "setSolution_turning_a_fixed_cell", macro);
      note(macro ? "setSolution_turn_fixed_obstruction" : "setSolution_turn_fixed_other", os.str());
    } else if (m == 4) {
      // the movable cells back to where they were when the object was built (fixed cells stay)
      for (int i = 0; i < c.nbCells(); ++i)
        if (!c.isFixed(i) && origMovable[i]) sol[i].position = initial[i].position;
      c.setSolution(sol);
      staleShape("setSolution_restoring_the_movable_cells", false);
      note("setSolution_restore_movable", "setSolution: movable cells put back to their initial positions");
    } else {
      Rectangle a = area();
      std::ostringstream os;
      os << "setSolution: movable cells scattered:";
      for (int i = 0; i < c.nbCells(); ++i)
        if (!c.isFixed(i)) {
          sol[i].position = Point((int)g.range(a.minX - 3, a.maxX + 3), (int)g.range(a.minY - 3, a.maxY + 3));
          os << " " << i << "->" << sol[i].position.x << "," << sol[i].position.y;
        }
      c.setSolution(sol);
      staleShape("setSolution_scattering_the_movable_cells", false);
      note("setSolution_scatter_movable", os.str());
    }
  }
  void opSetXY() {
    bool isX = g.chance(1, 2);
    std::vector<int> v = isX ? c.cellX() : c.cellY();
    int f = g.chance(2, 3) ? pickFixed() : pickMovable();
    if (f < 0) f = pickMovable();
    if (f < 0) return;
    Point np = c.isFixed(f) ? newPos(f) : Point(c.cellX()[f] + (int)g.range(-5, 5), c.cellY()[f] + (int)g.range(-5, 5));
    std::ostringstream os;
    os << (isX ? "setCellX: " : "setCellY: ") << cellDesc(f) << " -> " << (isX ? np.x : np.y);
    bool macro = isMacro(f);
    v[f] = isX ? np.x : np.y;
    if (isX) c.setCellX(v); else c.setCellY(v);
    staleShape(isX ? "setCellX" : "setCellY", macro);
    note(isX ? "setCellX" : "setCellY", os.str());
  }
  void opSetFixed() {
    std::vector<bool> fx = c.cellIsFixed();
    std::vector<int> mov = cellsWhere([&](int i) { return !c.isFixed(i); });
    std::vector<int> back = cellsWhere([&](int i) { return c.isFixed(i) && origMovable[i]; });
    int i;
    if (!back.empty() && g.chance(1, 2)) i = g.pick(back);
    else if (mov.size() >= 2) i = g.pick(mov);
    else return;
    std::string d = cellDesc(i);
    fx[i] = !fx[i];
    c.setCellIsFixed(fx);
    staleShape("setCellIsFixed", c.isObstruction(i) && c.area(i) > 0);
    note("setCellIsFixed", "setCellIsFixed: " + d + (fx[i] ? " becomes fixed" : " becomes movable again"));
  }
  void opSetObstruction() {
    std::vector<bool> ob = c.cellIsObstruction();
    int i = g.chance(3, 4) ? pickFixed() : pickMovable();
    if (i < 0) i = pickMovable();
    if (i < 0) return;
    std::string d = cellDesc(i);
    ob[i] = !ob[i];
    c.setCellIsObstruction(ob);
    staleShape("setCellIsObstruction", c.isFixed(i) && c.area(i) > 0);
    note("setCellIsObstruction", "setCellIsObstruction: " + d + (ob[i] ? " becomes an obstruction" : " stops being an obstruction"));
  }
  void opSetRows() {
    std::vector<Row> rows = c.rows();
    if (rows.empty()) return;
    int m = g.range(0, 4);
    std::string what;
    if (m == 0) what = "the same rows";
    else if (m == 1) {
      int dx = (int)g.range(-3, 3), dy = H * (int)g.range(-1, 1);
      for (Row &r : rows) { r.minX += dx; r.maxX += dx; r.minY += dy; r.maxY += dy; }
      what = "every row shifted by " + std::to_string(dx) + "," + std::to_string(dy);
    } else if (m == 2) {
      Row &r = rows[g.range(0, rows.size() - 1)];
      if (r.width() > 2) { r.maxX -= 1; what = "one row one unit shorter"; } else what = "the same rows";
    } else if (m == 3 && rows.size() > 1) {
      rows.erase(rows.begin() + g.range(0, rows.size() - 1));
      what = "one row dropped";
    } else {
      std::reverse(rows.begin(), rows.end());
      what = "the rows in reverse order";
    }
    c.setRows(rows);
    staleShape("setRows", true);
    note("setRows", "setRows: " + what);
  }
  void opSetupRows() {
    Rectangle a = area();
    if (a.height() < H || a.width() <= 0) return;
    bool alt = g.chance(1, 2), init = g.chance(1, 2);
    int trim = (int)g.range(0, 2);
    Rectangle b(a.minX, std::max(a.minX + 1, a.maxX - trim), a.minY, a.maxY);
    c.setupRows(b, H, alt, init);
    staleShape("setupRows", true);
    std::ostringstream os;
    os << "setupRows(" << b.minX << ".." << b.maxX << " x " << b.minY << ".." << b.maxY << ", row height " << H << ", alternating " << alt
       << ", initial " << init << ")";
    note("setupRows", os.str());
  }
  void opSetSize() {
    bool width = g.chance(1, 2);
    int i = g.chance(1, 2) ? pickFixed() : pickMovable();
    if (i < 0) i = pickMovable();
    if (i < 0) return;
    std::vector<int> v = width ? c.cellWidth() : c.cellHeight();
    int nv;
    bool turned = isTurn(c.cellOrientation()[i]);
    if (c.isFixed(i)) nv = width ? (int)g.range(0, 8) : H * (int)g.range(0, 3);
    else if (width != turned) nv = std::max(1, v[i] + (int)g.range(-1, 2));  // the placed width of a movable cell stays positive
    else nv = H * (int)g.range(1, std::max(1, std::min(3, c.nbRows())));        // its placed height a multiple of the row height
    std::ostringstream os;
    os << (width ? "setCellWidth: " : "setCellHeight: ") << cellDesc(i) << " -> " << nv;
    bool macro = c.isFixed(i) && c.isObstruction(i);
    v[i] = nv;
    if (width) c.setCellWidth(v); else c.setCellHeight(v);
    staleShape(width ? "setCellWidth" : "setCellHeight", macro);
    note(width ? "setCellWidth" : "setCellHeight", os.str());
  }
  void opSetOrientation() {
    std::vector<CellOrientation> o = c.cellOrientation();
    int i = g.chance(1, 2) ? pickFixed() : pickMovable();
    if (i < 0) i = pickMovable();
    if (i < 0) return;
    CellOrientation no;
    if (c.isFixed(i)) no = (CellOrientation)g.range(0, 7);
    else if (isTurn(o[i])) {
      static const std::vector<CellOrientation> t = {CellOrientation::E, CellOrientation::W, CellOrientation::FE, CellOrientation::FW};
      no = g.pick(t);
    } else no = vc::pickUnturned(g);
    std::ostringstream os;
    os << "setCellOrientation: " << cellDesc(i) << " -> " << (int)no;
    bool macro = isMacro(i);
    o[i] = no;
    c.setCellOrientation(o);
    staleShape("setCellOrientation", macro);
    note("setCellOrientation", os.str());
  }
  void opSetPolarity() {
    std::vector<CellRowPolarity> pol = c.cellRowPolarity();
    int i = pickMovable();
    if (i < 0) return;
    // a polarised cell is placed unturned: keep ANY for turned cells
    CellRowPolarity np = isTurn(c.cellOrientation()[i]) ? CellRowPolarity::ANY : (CellRowPolarity)g.range(0, 4);
    std::ostringstream os;
    os << "setCellRowPolarity: " << cellDesc(i) << " polarity " << (int)pol[i] << " -> " << (int)np;
    pol[i] = np;
    c.setCellRowPolarity(pol);
    staleShape("setCellRowPolarity", false);
    note("setCellRowPolarity", os.str());
  }
  void opSetNetWeights() {
    if (c.nbNets() == 0) return;
    std::vector<float> w;
    for (int n = 0; n < c.nbNets(); ++n) w.push_back(c.netWeight(n));
    int n = g.range(0, c.nbNets() - 1);
    static const float ws[] = {0.5f, 1.0f, 2.0f, 3.0f, 0.25f};
    float nw = ws[g.range(0, 4)];
    std::ostringstream os;
    os << "setNetWeights: net " << n << " weight " << w[n] << " -> " << nw;
    w[n] = nw;
    c.setNetWeights(w);
    staleShape("setNetWeights", false);
    note("setNetWeights", os.str());
  }
  void opExpandSelf() {
    double target = g.range(5, 10) / 10.0, margin = g.chance(1, 2) ? 0.0 : 1.0;
    c.expandCellsToDensity(target, margin);
    rowsComputed = true;
    std::ostringstream os;
    os << "expandCellsToDensity(" << target << ", " << margin << ") on the object";
    note("expandCellsToDensity_on_object", os.str());
  }
  void mutator() {
    switch (g.range(0, 13)) {
      case 0: case 1: case 2: opSetSolution(); break;
      case 3: opSetXY(); break;
      case 4: opSetFixed(); break;
      case 5: opSetObstruction(); break;
      case 6: opSetRows(); break;
      case 7: opSetupRows(); break;
      case 8: case 9: opSetSize(); break;
      case 10: opSetOrientation(); break;
      case 11: opSetPolarity(); break;
      case 12: opSetNetWeights(); break;
      default: opExpandSelf(); break;
    }
  }
};

// the circuit plus one fixed obstruction macro on the rows
static Circuit withMacro(const Circuit &c, vh::Rng &g) {
  int n = c.nbCells();
  Circuit r(n + 1);
  std::vector<int> w = c.cellWidth(), h = c.cellHeight(), x = c.cellX(), y = c.cellY();
  std::vector<bool> fx = c.cellIsFixed(), ob = c.cellIsObstruction();
  std::vector<CellOrientation> o = c.cellOrientation();
  std::vector<CellRowPolarity> pol = c.cellRowPolarity();
  Rectangle a = c.computePlacementArea();
  int H = c.rows()[0].height();
  const Row &row = c.rows()[g.range(0, c.nbRows() - 1)];
  int nRowsY = std::max(1, a.height() / H);
  w.push_back((int)g.range(1, std::max(2, a.width() / 3)));
  h.push_back(H * (int)g.range(1, std::min(3, nRowsY)));
  x.push_back((int)g.range(a.minX - 1, std::max(a.minX, a.maxX - 2)));
  y.push_back(row.minY);
  fx.push_back(true);
  ob.push_back(true);
  o.push_back(g.chance(3, 4) ? CellOrientation::N : (CellOrientation)g.range(0, 7));
  pol.push_back(CellRowPolarity::ANY);
  r.setCellWidth(w); r.setCellHeight(h); r.setCellX(x); r.setCellY(y);
  r.setCellIsFixed(fx); r.setCellIsObstruction(ob); r.setCellOrientation(o); r.setCellRowPolarity(pol);
  r.setRows(c.rows());
  r.setNets(c.netLimits_, c.pinCells_, c.pinXOffsets_, c.pinYOffsets_, c.netWeights_);
  return r;
}

// everything a client can read from a circuit
static std::string accessorString(const Circuit &c) {
  std::ostringstream os;
  os << vc::circuitString(c) << "nets " << c.nbNets() << " pins " << c.nbPins() << " hpwl " << c.hpwl();
  return os.str();
}

}  // namespace c08h

static void historyCase(ChildOut &co, const std::string &id, vh::Rng &g, bool thoroughTier) {
  (void)thoroughTier;
  vc::GenOpts o;
  int sizeClass = g.range(0, 11);
  o.maxCells = sizeClass == 0 ? 60 : sizeClass < 5 ? 30 : 15;
  o.maxRows = sizeClass == 0 ? 12 : g.chance(1, 3) ? 10 : 6;
  o.maxUtil = 0.9;
  Circuit c = vc::genCircuit(g, o, nullptr);
  bool macro = g.chance(1, 2);
  if (macro) c = c08h::withMacro(c, g);
  std::string initialText = vc::circuitString(c);
  int mode = 0, modeH = 0;
  ColoquinteParameters p = pickParams(g, mode);
  ColoquinteParameters pH = pickParams(g, modeH);
  static const std::vector<std::string> seqs = {"G", "L", "L", "D", "GL", "GLD", "LD"};
  std::string seq = g.pick(seqs);
  co.op("case " + id);
  co.impl("case " + id);

  // ---- the history
  c08h::Hist hist(c, g, co);
  int len = g.range(1, 6);
  bool derivedFirst = g.chance(1, 2);  // start by something that computes derived data on the object
  for (int k = 0; k < len; ++k) {
    int m = g.range(0, 9);
    if (k == 0 && derivedFirst) m = g.range(0, 3);
    if (m < 2) hist.opQuery();
    else if (m < 4) {
      if (hist.stageRan && g.chance(1, 2)) hist.opQuery();  // at most a few stages per history (time)
      else hist.opStage(pH, modeH);
    } else hist.mutator();
  }
  co.count("h:history_length_" + std::to_string(len));
  co.count(macro ? "h:circuit_with_added_fixed_obstruction_macro" : "h:circuit_as_generated");
  for (const std::string &s : hist.shapes) co.count(s);
  if (hist.shapes.empty()) co.count("h:shape:none_of_the_listed");

  // ---- the three runs
  Circuit twin = rebuild(c);
  Circuit copy = c;
  std::ostringstream hdr;
  hdr << "stages=" << seq << " " << paramString(p, mode) << "|";
  std::string input = "object-history case|" + hdr.str() + "circuit the object was built as:|" + initialText + "history of the object:|";
  for (size_t k = 0; k < hist.log.size(); ++k) input += " " + std::to_string(k + 1) + ". " + hist.log[k] + "|";
  input += "circuit after the history (the object, its copy and the rebuilt twin are equal through every accessor):|" + vc::circuitString(c);
  if (c08h::accessorString(twin) != c08h::accessorString(c) || c08h::accessorString(copy) != c08h::accessorString(c)) {
    co.fail("harness: the rebuilt twin or the copy is not equal to the object through the accessors", input);
    return;
  }
  // the order of the three runs is drawn as well
  RunResult rObj, rTwin, rCopy;
  int order = g.range(0, 5);
  static const int perms[6][3] = {{0, 1, 2}, {0, 2, 1}, {1, 0, 2}, {1, 2, 0}, {2, 0, 1}, {2, 1, 0}};
  for (int t = 0; t < 3; ++t) {
    int which = perms[order][t];
    if (which == 0) rObj = runSeqOn(c, seq, p, false);
    else if (which == 1) rTwin = runSeqOn(twin, seq, p, false);
    else rCopy = runSeqOn(copy, seq, p, false);
  }
  co.count("h:stages:" + seq);
  countParams(co, p, mode, seq);
  co.count(rTwin.text.find("throw") == std::string::npos ? "h:outcome:all_returned" : "h:outcome:some_stage_threw");
  co.eval();
  co.count("compared:h:object_with_history_vs_rebuilt_twin");
  if (!(rObj == rTwin))
    co.fail("placement depends on the history of the circuit object: the same stages with the same parameters give different results on the "
            "object and on a twin rebuilt through the public setters from the object's getters | rebuilt twin " + rTwin.text +
            " | object with history " + rObj.text, input);
  co.eval();
  co.count("compared:h:copy_of_object_vs_rebuilt_twin");
  if (!(rCopy == rTwin))
    co.fail("placement depends on the history of the circuit object: the same stages with the same parameters give different results on a "
            "copy of the object and on a twin rebuilt through the public setters from the object's getters | rebuilt twin " + rTwin.text +
            " | copy of the object " + rCopy.text, input);
  co.nontrivial(vh::hashStr(input));
  co.sample(id + ": " + hdr.str() + " cells=" + std::to_string(c.nbCells()) + " history=" + vh::join(hist.log, "; ").substr(0, 200));
}
