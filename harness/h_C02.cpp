// C02 — detailed placement keeps the placement legal at every exposed state.
//
// Three streams:
//  (a) "p<k>"  primitives: DetailedPlacement built from a legalized random circuit, then a random
//      sequence of public-API operations; after every operation the whole state (row lists, links,
//      x, y, orientation) and the result / exception class are printed and compared with the Lean
//      model (drv_C02).  `shift` (simultaneous x update, what runShiftsOnCells does through its
//      friend access) is exercised by writing cellX_ and asking the real check() whether the result
//      is consistent; the model must accept exactly those.
//  (b) "e<k>"  end to end: Circuit::legalize alone, then Circuit::placeDetailed with a callback on a
//      copy of the same input.  Direct oracle (independent code, vc::checkLegal): every placement
//      exposed at a Detailed callback and the returned one is legal; cells that detailed placement
//      does not optimise (placed height != row height) and fixed cells keep x / y / orientation;
//      placeDetailed neither throws nor aborts when legalize alone succeeded.
//      One e<k> case in three (and one d<k> case in four) runs placeDetailed / the passes on an object with a PAST
//      (common/past.hpp; family: state kept inside the Circuit between calls that a setter forgets to refresh, e.g. a
//      memoised computeRows() not invalidated by setupRows): built in a perturbed state, observers called, brought to the
//      case's public state through only the needed setters.  legalize alone (the reference) stays on a fresh object.  Same
//      oracle, same correspondence; the recipe is part of the failure input and read back by --replay.
//  (c) with hook H3 compiled in (COLOQUINTE_VERIF_DETAILED_OPLOG): the optimiser's primitive moves
//      are logged and replayed on the model; the model's export must equal the exposed placement at
//      every callback and on return.
#include <algorithm>
#include <climits>
#include <memory>

#include "common/circuit.hpp"
#include "common/harness.hpp"
#include "place_detailed/incr_net_model.hpp"
// the primitives stream needs to write cellX_ the way the friend class DetailedPlacer does
#define private public
#include "place_detailed/detailed_placement.hpp"
#undef private
#include "detailed_common.hpp"
#include "c02_exhaustive.hpp"

using namespace coloquinte;

// ------------------------------------------------------------------------------------------------
// (b) + (c) end to end
// ------------------------------------------------------------------------------------------------

struct E2E {
  vh::Out &out;
  std::string pfx;  // prefix of the counters: "e2e_" (Circuit::placeDetailed) or "dir_" (passes driven directly)
  explicit E2E(vh::Out &o, const std::string &prefix = "e2e_") : out(o), pfx(prefix) {}

  void run(const std::string &id, const Circuit &input, const vd::Params &prm, const std::string &past = "") {
    run(id, input, prm, vd::runCase(input, prm, 120, past), "", past);
  }

  // `r` = what vd::runCase(input, prm) returned (possibly computed by a worker process)
  // `past`: the recipe phase 2 of `r` ran with ("" = fresh object); it is part of the failure input
  void run(const std::string &id, const Circuit &input, const vd::Params &prm, const vd::Run &r,
           const std::string &inputPrefix = "", const std::string &past = "") {
    out.evaluations++;
    std::string inp = inputPrefix + vd::caseString(input, prm) + past;
    if (!r.pastNote.empty()) {  // harness self-check, expected 0
      out.count(pfx + "past_restore_mismatch");
      out.notes.push_back(id + ": " + r.pastNote);
    }
    out.count(pfx + "legalize_" + r.legalizeStatus);
    out.count(prm.nonDefault ? pfx + "params_nondefault" : pfx + "params_effort");
    if (prm.p.detailed.reorderingMaxNbCells >= 2) out.count(pfx + "reordering_on");
    if (r.legalizeStatus != "ok") {
      // legalization alone refuses (or crashes: C01/C07's business): nothing is demanded of placeDetailed
      out.count(pfx + "detailed_after_failed_legalize_" + r.detailedStatus);
      return;
    }
    Circuit legal = vd::withSnap(input, r.legalized);
    std::string why = vc::checkLegal(legal, false);
    if (!why.empty()) {
      // legalization returned an illegal placement (C01 finding): detailed placement starts from garbage
      out.count(pfx + "skipped_legalization_result_illegal");
      return;
    }
    out.count(pfx + "detailed_" + r.detailedStatus);
    if (r.detailedStatus != "ok") {
      out.fail(id, std::string(pfx == "e2e_" ? "placeDetailed" : "a DetailedPlacer pass driven directly") + " fails (" +
                       r.detailedStatus + ": " + r.detailedWhat + ") on a circuit that legalize alone accepts", inp);
      return;
    }
    if (r.callbacks.empty()) {
      out.fail(id, "no Detailed callback was invoked", inp);
      return;
    }
    int H = input.rowHeight();
    const vd::Snap &first = r.callbacks[0];
    if (!(first == r.legalized)) out.count(pfx + "first_callback_differs_from_legalize_alone");
    // every exposed state is legal
    std::vector<const vd::Snap *> states;
    for (auto &s : r.callbacks) states.push_back(&s);
    states.push_back(&r.final);
    bool moved = false;
    for (size_t k = 0; k < states.size(); ++k) {
      Circuit c = vd::withSnap(input, *states[k]);
      std::string bad = vc::checkLegal(c, false);
      std::string where = k + 1 == states.size() ? "on return" : "at Detailed callback " + std::to_string(k);
      if (!bad.empty()) {
        out.fail(id, "illegal placement " + where + ": " + bad, inp);
        return;
      }
      for (int i = 0; i < input.nbCells(); ++i) {
        bool same = states[k]->x[i] == first.x[i] && states[k]->y[i] == first.y[i] && states[k]->o[i] == first.o[i];
        if (!same) moved = true;
        if (same) continue;
        Circuit c0 = vd::withSnap(input, first);
        if (input.isFixed(i)) {
          out.fail(id, "fixed cell " + std::to_string(i) + " changed " + where, inp);
          return;
        }
        if (vd::isMultiRow(c0, i, H)) {
          std::ostringstream os;
          os << "cell " << i << " (placed height " << c0.placedHeight(i) << ", row height " << H
             << ") is not optimised by detailed placement but moved from (" << first.x[i] << "," << first.y[i] << ","
             << first.o[i] << ") to (" << states[k]->x[i] << "," << states[k]->y[i] << "," << states[k]->o[i] << ") " << where;
          out.fail(id, os.str(), inp);
          return;
        }
      }
    }
    out.count(pfx + "callbacks", r.callbacks.size());
    if (moved) {
      out.nontrivial(vh::hashStr(inp));
      out.count(pfx + "placement_changed");
    }
    // ---- (c) history replay on the model
    if (r.hasHook) {
      out.count(pfx + "replayed_histories");
      Circuit start = vd::withSnap(input, first);
      out.ops << "case " << id << "\n";
      out.impl << "case " << id << "\n";
      vc::dumpCircuit(out.ops, start);
      out.ops << "init\ninv\n";
      out.impl << "init ok\ninv true\n";
      size_t cbIdx = 0;
      for (const std::string &l : r.oplog) {
        if (l == "cb") {
          if (cbIdx > 0) {
            out.ops << "export\n";
            out.impl << vd::snapLine(r.callbacks[cbIdx]) << "\n";
          }
          ++cbIdx;
        } else {
          // the model replays the move (silent when accepted) and evaluates the decidable Inv on the new state
          out.ops << l << "\ninv\n";
          out.impl << "inv true\n";
          out.count(pfx + "logged_" + l.substr(0, l.find(' ')));
          out.count(pfx + "inv_evaluated");
        }
      }
      out.ops << "export\n";
      out.impl << vd::snapLine(r.final) << "\n";
    }
    out.sample(id + ": " + prm.str() + " cells=" + std::to_string(input.nbCells()) +
               " callbacks=" + std::to_string(r.callbacks.size()));
  }
};

// ------------------------------------------------------------------------------------------------
// (d) the optimiser's passes driven directly
// ------------------------------------------------------------------------------------------------
//
// "d<k>": Circuit::legalize, then a DetailedPlacer on the legalized circuit and a random sequence of its
// public passes with arbitrary window arguments — runSwaps / runInserts (never called by run()) / runShifts /
// runReordering and the per-row variants runSwapsOneRow, runInsertsOneRow, runSwapsTwoRows(Amplify),
// runInsertsTwoRows, runShiftsOnRows.  After every pass: DetailedPlacer::check(), and the placement it would
// export is recorded.  The result has the shape of a placeDetailed run (vd::Run: one "callback" per pass), so
// the same oracle (legality of every exposed placement, unoptimised cells unmoved, no exception) and the same
// history replay on the model (hook H3: every logged move replayed, Inv evaluated, export compared after every
// pass) apply.

struct Pass { int kind, a, b, c; };

static std::string passesString(const std::vector<Pass> &ps) {
  std::ostringstream os;
  os << "c02d";
  for (auto &p : ps) os << " " << p.kind << " " << p.a << " " << p.b << " " << p.c;
  os << "\n";
  return os.str();
}

static bool parsePasses(const std::string &text, std::vector<Pass> &ps) {
  if (text.rfind("c02d", 0) != 0) return false;
  std::istringstream is(text.substr(4, text.find('\n') - 4));
  Pass p;
  while (is >> p.kind >> p.a >> p.b >> p.c) ps.push_back(p);
  return true;
}

static const char *passName(int kind) {
  static const char *names[] = {"runSwaps", "runInserts", "runShifts", "runReordering", "runSwapsOneRow",
                                "runInsertsOneRow", "runSwapsTwoRows", "runInsertsTwoRows", "runSwapsTwoRowsAmplify",
                                "runShiftsOnRows"};
  return names[kind % 10];
}

static std::vector<Pass> genPasses(vh::Rng &g) {
  std::vector<Pass> ps;
  int n = g.range(2, 6);
  for (int i = 0; i < n; ++i) {
    Pass p;
    // the global passes half of the time, inserts favoured (placeDetailed never runs them)
    int t = g.range(0, 99);
    p.kind = t < 14 ? 0 : t < 40 ? 1 : t < 52 ? 2 : t < 62 ? 3 : 4 + (int)g.range(0, 5);
    p.a = g.range(0, 1000);
    p.b = g.range(0, 1000);
    p.c = g.range(0, 1000);
    ps.push_back(p);
  }
  return ps;
}

static vd::Run directPasses(const Circuit &input, const vd::Params &prm, const std::vector<Pass> &passes,
                            int timeoutSec = 120, const std::string &past = "") {
  vd::Run r;
  std::string txt, diag;
  // ---- phase 1: Circuit::legalize alone (as vd::runCase does): a crash in there is not ours
  r.legalizeStatus = vh::isolated(
      [&](std::ostream &os) {
        vd::silenceStdout();
        Circuit c = input;
        try {
          c.legalize(prm.p);
          os << "ok\n" << vd::snapLine(vd::snapshot(c)) << "\n";
        } catch (const std::exception &e) {
          os << vc::exClass(e) << "\n";
        }
      },
      txt, timeoutSec, &diag);
  if (r.legalizeStatus == "ok") {
    std::istringstream is(txt);
    std::string l1, l2;
    std::getline(is, l1);
    if (l1 == "ok") {
      std::getline(is, l2);
      vd::parseSnap(l2, r.legalized);
    } else r.legalizeStatus = l1;
  }
  if (r.legalizeStatus != "ok") {
    r.detailedStatus = "skipped";
    return r;
  }
  // ---- phase 2: legalize again, then the passes
  std::string st = vh::isolated(
      [&](std::ostream &os) {
        vd::silenceStdout();
        Circuit c = vd::livedOrFresh(input, past, os);  // with `past`: an object that has lived (see vd::runCase)
        c.legalize(prm.p);
        std::vector<std::string> log;
#ifdef COLOQUINTE_VERIF_DETAILED_OPLOG
        vd::oplogSink() = &log;
        coloquinte::verif::onDetailedOp = &vd::oplogHook;
        os << "hook\n";
#endif
        std::vector<vd::Snap> snaps;
        std::string status = "ok", what;
        try {
          prm.p.check();
          DetailedPlacer pl(c, prm.p);
          int R = DetailedPlacement::fromIspdCircuit(c).nbRows();
          auto expose = [&]() {
            pl.check();
            Circuit ex = c;
            pl.exportPlacement(ex);
            snaps.push_back(vd::snapshot(ex));
            log.push_back("cb");
          };
          expose();
          for (const Pass &p : passes) {
            int kind = p.kind % 10;
            if (R == 0 && kind >= 4) kind = 0;
            int r1 = R ? p.a % R : 0, r2 = R ? p.b % R : 0;
            if (R >= 2 && r1 == r2) r2 = (r1 + 1) % R;
            switch (kind) {
              case 0: pl.runSwaps(p.a % 4, p.b % 7); break;
              case 1: pl.runInserts(p.a % 4, p.b % 7); break;
              case 2: pl.runShifts(1 + p.a % 5, 2 + p.b % 19); break;
              case 3: pl.runReordering(1 + p.a % 3, 2 + p.b % 3); break;
              case 4: pl.runSwapsOneRow(r1, p.c % 7); break;
              case 5: pl.runInsertsOneRow(r1, p.c % 7); break;
              case 6: if (R >= 2) pl.runSwapsTwoRows(r1, r2, p.c % 7); break;
              case 7: if (R >= 2) pl.runInsertsTwoRows(r1, r2, p.c % 7); break;
              case 8: if (R >= 2) pl.runSwapsTwoRowsAmplify(r1, r2, p.c % 7); break;
              default: {
                std::vector<int> rows = {r1};
                if (R >= 2) rows.push_back(r2);
                pl.runShiftsOnRows(rows, 2 + p.c % 19);
              }
            }
            expose();
          }
        } catch (const std::exception &e) {
          status = vc::exClass(e);
          what = e.what();
        }
        os << "status " << status << "\n";
        os << "what " << what << "\n";
        for (auto &s : snaps) os << "cb " << vd::snapLine(s) << "\n";
        for (auto &l : log) os << "log " << l << "\n";
      },
      txt, timeoutSec, &diag);
  r.detailedStatus = st;
  if (st != "ok") {
    r.detailedWhat = diag.size() > 600 ? diag.substr(diag.size() - 600) : diag;
    return r;
  }
  std::istringstream is(txt);
  std::string line;
  while (std::getline(is, line)) {
    if (line == "hook") r.hasHook = true;
    else if (line.rfind("pastnote ", 0) == 0) r.pastNote = line.substr(9);
    else if (line.rfind("status ", 0) == 0) r.detailedStatus = line.substr(7);
    else if (line.rfind("what ", 0) == 0) r.detailedWhat = line.substr(5);
    else if (line.rfind("cb ", 0) == 0) { vd::Snap s; vd::parseSnap(line.substr(3), s); r.callbacks.push_back(s); }
    else if (line.rfind("log ", 0) == 0) r.oplog.push_back(line.substr(4));
  }
  if (!r.callbacks.empty()) r.final = r.callbacks.back();
  return r;
}

// ------------------------------------------------------------------------------------------------
// (a) primitives
// ------------------------------------------------------------------------------------------------

static std::string stateLine(const DetailedPlacement &p) {
  std::ostringstream os;
  os << "st";
  for (int r = 0; r < p.nbRows(); ++r) {
    os << " r " << p.rowFirstCell(r) << " " << p.rowLastCell(r) << " [";
    int guard = 0;
    for (int c = p.rowFirstCell(r); c != -1 && guard <= p.nbCells(); c = p.cellNext(c), ++guard) os << " " << c;
    os << " ]";
  }
  for (int c = 0; c < p.nbCells(); ++c) {
    os << " c " << p.cellWidth(c) << " " << p.cellRow(c) << " " << p.cellPred(c) << " " << p.cellNext(c) << " "
       << p.cellX(c) << " " << p.cellY(c) << " " << (int)p.cellOrientation(c);
  }
  return os.str();
}

static std::string checkResult(const DetailedPlacement &p) {
  try {
    p.check();
    return "ok";
  } catch (const std::exception &e) {
    return vc::exClass(e);
  }
}

// Runs in the child: writes "O <ops line>" / "I <impl line>" / "C <counter>" / "N" lines.
static void primitivesChild(std::ostream &os, const Circuit &input, const vd::Params &prm, vh::Rng g, int nOps) {
  vd::silenceStdout();
  Circuit c = input;
  try {
    c.legalize(prm.p);
  } catch (const std::exception &) {
    os << "C prim_legalize_throws\n";
    return;
  }
  os << "C prim_instances\n";
  std::ostringstream circ;
  vc::dumpCircuit(circ, c);
  {
    std::istringstream is(circ.str());
    std::string l;
    while (std::getline(is, l)) os << "O " << l << "\n";
  }
  os << "O init\n";
  std::unique_ptr<DetailedPlacement> pp;
  try {
    pp.reset(new DetailedPlacement(DetailedPlacement::fromIspdCircuit(c)));
  } catch (const std::exception &e) {
    os << "I init " << vc::exClass(e) << "\n";
    os << "C prim_init_throws\n";
    return;
  }
  DetailedPlacement &p = *pp;
  os << "I init ok\n";
  os << "O inv\nI inv true\n";
  os << "C prim_inv_evaluated\n";
  os << "O rows\n";
  os << "I rows";
  for (const Row &r : p.rows()) os << " " << r.minX << " " << r.maxX << " " << r.minY << " " << r.maxY << " " << (int)r.orientation;
  os << "\n";
  os << "O state\nI " << stateLine(p) << "\n";
  int n = p.nbCells(), R = p.nbRows();
  std::vector<int> live;  // non-ignored cells
  for (int i = 0; i < n; ++i)
    if (!p.isIgnored(i)) live.push_back(i);
  if (live.empty() || R == 0) {
    os << "C prim_no_live_cells\n";
    return;
  }
  bool changed = false;
  auto anyCell = [&]() -> int { return g.chance(9, 10) ? g.pick(live) : (int)g.range(0, n - 1); };
  auto placedCell = [&]() -> int {
    for (int t = 0; t < 20; ++t) {
      int x = g.pick(live);
      if (p.isPlaced(x)) return x;
    }
    return -1;
  };
  // a predecessor that makes sense for `row`: -1 or a placed cell of that row (90 %), anything otherwise
  auto predFor = [&](int row) -> int {
    if (g.chance(1, 10)) return (int)g.range(-1, n - 1);
    std::vector<int> cs = p.rowCells(row);
    int k = g.range(-1, (int)cs.size() - 1);
    return k < 0 ? -1 : cs[k];
  };
  auto wellFormedSite = [&](int row, int pred) { return pred == -1 || (p.isPlaced(pred) && p.cellRow(pred) == row); };
  for (int step = 0; step < nOps; ++step) {
    int kind = g.range(0, 99);
    if (kind < 22) {  // swap
      int a = placedCell(), b = g.chance(1, 2) ? placedCell() : -1;
      if (a < 0) continue;
      if (b < 0) {  // a neighbour, to exercise the adjacent branches
        b = g.chance(1, 2) ? p.cellNext(a) : p.cellPred(a);
        if (b < 0) b = placedCell();
      }
      if (g.chance(1, 15)) b = anyCell();
      std::string can;
      try { can = p.canSwap(a, b) ? "1" : "0"; } catch (const std::exception &e) { can = vc::exClass(e); }
      os << "O canSwap " << a << " " << b << "\nI canSwap " << can << "\n";
      if (can == "1") {
        auto pos = p.positionsOnSwap(a, b);
        os << "O posSwap " << a << " " << b << "\nI posSwap " << pos.first.x << " " << pos.first.y << " " << pos.second.x
           << " " << pos.second.y << "\n";
      }
      if (can == "throw:runtime_error") continue;  // swap() would throw the same way before touching anything
      std::string res = "ok";
      try { p.swap(a, b); } catch (const std::exception &e) { res = vc::exClass(e); }
      os << "O swap " << a << " " << b << "\nI swap " << res << "\n";
      os << "C prim_swap_" << res << "\n";
      if (res == "ok") changed = true;
    } else if (kind < 50) {  // insert
      int a = placedCell();
      if (a < 0) continue;
      int row = g.chance(1, 2) ? p.cellRow(a) : (int)g.range(0, R - 1);
      int pred = predFor(row);
      std::string can;
      try { can = p.canInsert(a, row, pred) ? "1" : "0"; } catch (const std::exception &e) { can = vc::exClass(e); }
      os << "O canInsert " << a << " " << row << " " << pred << "\nI canInsert " << can << "\n";
      if (!wellFormedSite(row, pred)) continue;  // mutating through a foreign predecessor corrupts the lists: out of contract
      Point pt = p.positionOnInsert(a, row, pred);
      os << "O posInsert " << a << " " << row << " " << pred << "\nI posInsert " << pt.x << " " << pt.y << "\n";
      std::string res = "ok";
      try { p.insert(a, row, pred); } catch (const std::exception &e) { res = vc::exClass(e); }
      os << "O insert " << a << " " << row << " " << pred << "\nI insert " << res << "\n";
      os << "C prim_insert_" << res << "\n";
      if (res == "ok") changed = true;
    } else if (kind < 62) {  // unplace then place somewhere (possibly infeasible)
      int a = placedCell();
      if (a < 0) continue;
      int oldRow = p.cellRow(a), oldPred = p.cellPred(a), oldX = p.cellX(a);
      p.unplace(a);
      os << "O unplace " << a << "\nI unplace ok\n";
      os << "O state\nI " << stateLine(p) << "\n";
      os << "O check\nI check " << checkResult(p) << "\n";
      os << "O inv\nI inv true\n";  // a state with an unplaced cell still satisfies Inv
      os << "C prim_inv_evaluated\n";
      int row = g.chance(1, 2) ? oldRow : (int)g.range(0, R - 1);
      int pred = predFor(row);
      if (!wellFormedSite(row, pred)) pred = -1;
      int lo = p.siteBegin(row, pred), hi = p.siteEnd(row, pred);
      int x = g.chance(3, 4) ? (int)g.range(lo, std::max(lo, hi - p.cellWidth(a))) : (int)g.range(lo - 3, hi + 3);
      std::string can;
      try { can = p.canPlace(a, row, pred, x) ? "1" : "0"; } catch (const std::exception &e) { can = vc::exClass(e); }
      os << "O canPlace " << a << " " << row << " " << pred << " " << x << "\nI canPlace " << can << "\n";
      std::string res = "ok";
      try { p.place(a, row, pred, x); } catch (const std::exception &e) { res = vc::exClass(e); }
      os << "O place " << a << " " << row << " " << pred << " " << x << "\nI place " << res << "\n";
      os << "C prim_place_" << res << "\n";
      if (res != "ok") {
        // put it back where it was
        p.place(a, oldRow, oldPred, oldX);
        os << "O place " << a << " " << oldRow << " " << oldPred << " " << oldX << "\nI place ok\n";
      } else changed = true;
    } else if (kind < 80) {  // shift: simultaneous x update of several placed cells, validated by the real check()
      int row = g.range(0, R - 1);
      std::vector<int> cs = p.rowCells(row);
      if (cs.empty()) continue;
      int k = g.range(1, std::min<int>(cs.size(), 4));
      int s0 = g.range(0, (int)cs.size() - k);
      std::vector<std::pair<int, int>> mv;
      std::vector<int> old;
      bool sloppy = g.chance(1, 4);
      for (int j = 0; j < k; ++j) {
        int cc = cs[s0 + j];
        int lo = p.boundaryBefore(cc), hi = p.boundaryAfter(cc) - p.cellWidth(cc);
        int x = sloppy ? (int)g.range(lo - 2, hi + 2) : (int)g.range(lo, std::max(lo, hi));
        if (g.chance(1, 3)) x = p.cellX(cc) + (int)g.range(-1, 1);
        mv.push_back({cc, x});
      }
      if (g.chance(1, 10)) mv.push_back({anyCell(), (int)g.range(-5, 5)});
      for (auto &m : mv) old.push_back(p.cellX_[m.first]);
      for (auto &m : mv) p.cellX_[m.first] = m.second;
      std::string res = checkResult(p);
      // the model's shift also refuses cells that are not placed / repeated cells; mirror the contract here
      std::set<int> uniq;
      for (auto &m : mv) {
        uniq.insert(m.first);
        if (p.isIgnored(m.first) || !p.isPlaced(m.first)) res = "throw:runtime_error";
      }
      if (uniq.size() != mv.size()) res = "throw:runtime_error";
      if (res != "ok")
        for (size_t j = mv.size(); j-- > 0;) p.cellX_[mv[j].first] = old[j];
      os << "O shift";
      for (auto &m : mv) os << " " << m.first << " " << m.second;
      os << "\nI shift " << res << "\n";
      os << "C prim_shift_" << res << "\n";
      if (res == "ok") changed = true;
    } else if (kind < 92) {  // reorder write-back: permute a run of consecutive cells of one row
      int row = g.range(0, R - 1);
      std::vector<int> cs = p.rowCells(row);
      if (cs.empty()) continue;
      int k = g.range(1, std::min<int>(cs.size(), 4));
      int s0 = g.range(0, (int)cs.size() - k);
      std::vector<int> run(cs.begin() + s0, cs.begin() + s0 + k);
      int pred = p.cellPred(run.front()), next = p.cellNext(run.back());
      int minPos = p.boundaryAfter(row, pred), maxPos = p.boundaryBefore(row, next);
      for (size_t i = run.size(); i > 1; --i) std::swap(run[i - 1], run[g.range(0, i - 1)]);
      std::vector<int> pos;
      int cur = minPos;
      bool slack = g.chance(1, 3), bad = g.chance(1, 12);
      int total = 0;
      for (int cc : run) total += p.cellWidth(cc);
      int room = std::max(0, maxPos - minPos - total);
      for (int cc : run) {
        if (slack && room > 0) { int d = g.range(0, room); cur += d; room -= d; }
        pos.push_back(cur + (bad ? (int)g.range(-2, 2) : 0));
        cur += p.cellWidth(cc);
      }
      // unplace in decreasing index order (RowReordering sorts cells_ that way), place in region order
      std::vector<int> un = run;
      std::sort(un.begin(), un.end(), std::greater<int>());
      os << "O reorder " << un.size();
      for (int cc : un) os << " " << cc;
      os << " 1 " << row << " " << pred << " " << run.size();
      for (size_t j = 0; j < run.size(); ++j) os << " " << run[j] << " " << pos[j];
      os << "\n";
      std::string res = "ok";
      try {
        for (int cc : un) p.unplace(cc);
        int pr = pred;
        for (size_t j = 0; j < run.size(); ++j) {
          p.place(run[j], row, pr, pos[j]);
          pr = run[j];
        }
      } catch (const std::exception &e) { res = vc::exClass(e); }
      os << "I reorder " << res << "\n";
      os << "C prim_reorder_" << res << "\n";
      if (res != "ok") return;  // the real object is left half-updated; the model returns an error: stop here
      changed = true;
    } else {  // probes of check(): would the state still pass with one field changed?
      int a = placedCell();
      if (a < 0) continue;
      if (g.chance(1, 2)) {
        int old = p.cellX_[a];
        int x = old + (int)g.range(-3, 3);
        p.cellX_[a] = x;
        std::string res = checkResult(p);
        p.cellX_[a] = old;
        os << "O probeX " << a << " " << x << "\nI probeX " << res << "\n";
        os << "C prim_probe_" << res << "\n";
      } else {
        CellOrientation old = p.cellOrientation_[a];
        int o = g.range(0, 8);
        p.cellOrientation_[a] = (CellOrientation)o;
        std::string res = checkResult(p);
        p.cellOrientation_[a] = old;
        os << "O probeOrient " << a << " " << o << "\nI probeOrient " << res << "\n";
        os << "C prim_probe_" << res << "\n";
      }
      continue;
    }
    os << "O state\nI " << stateLine(p) << "\n";
    os << "O check\nI check " << checkResult(p) << "\n";
    // the model's invariant (Properties/C02 `Inv`, evaluated by the driver) holds after every operation,
    // accepted or refused
    os << "O inv\nI inv true\n";
    os << "C prim_inv_evaluated\n";
  }
  // export
  Circuit ex = c;
  p.exportPlacement(ex);
  os << "O export\nI " << vc::solutionString(ex) << "\n";
  if (changed) os << "N\n";
}

struct Prim {
  vh::Out &out;
  explicit Prim(vh::Out &o) : out(o) {}
  // the forked part of a case, as one string: status, stderr tail, child output
  static std::string compute(const Circuit &input, const vd::Params &prm, vh::Rng g, int nOps) {
    std::string txt, diag;
    std::string st = vh::isolated([&](std::ostream &os) { primitivesChild(os, input, prm, g, nOps); }, txt, 120, &diag);
    return st + "\n" + std::to_string(diag.size()) + "\n" + diag + txt;
  }

  void run(const std::string &id, const Circuit &input, const vd::Params &prm, vh::Rng g, int nOps) {
    run(id, input, prm, compute(input, prm, g, nOps));
  }

  void run(const std::string &id, const Circuit &input, const vd::Params &prm, const std::string &blob) {
    out.evaluations++;
    size_t p1 = blob.find('\n'), p2 = blob.find('\n', p1 + 1);
    std::string st = blob.substr(0, p1);
    size_t dl = (size_t)atoll(blob.substr(p1 + 1, p2 - p1 - 1).c_str());
    std::string diag = blob.substr(p2 + 1, dl), txt = blob.substr(p2 + 1 + dl);
    std::string inp = vd::caseString(input, prm);
    if (st != "ok") {
      out.count("prim_child_" + st);
      out.fail(id, "primitive operations inside their contract end in " + st + ": " +
                       (diag.size() > 400 ? diag.substr(diag.size() - 400) : diag), inp);
      return;
    }
    out.ops << "case " << id << "\n";
    out.impl << "case " << id << "\n";
    std::istringstream is(txt);
    std::string l;
    while (std::getline(is, l)) {
      if (l.rfind("O ", 0) == 0) out.ops << l.substr(2) << "\n";
      else if (l.rfind("I ", 0) == 0) out.impl << l.substr(2) << "\n";
      else if (l.rfind("C ", 0) == 0) out.count(l.substr(2));
      else if (l == "N") out.nontrivial(vh::hashStr(inp + id));
    }
  }
};

// ------------------------------------------------------------------------------------------------

static vc::GenOpts optsFor(vh::Rng &g, long long k) {
  vc::GenOpts o;
  int m = k % 8;
  if (m == 1) { o.multiRow = false; o.turned = false; }   // plain standard-cell designs
  if (m == 2) { o.turned = false; }                       // multi-row cells, unturned
  if (m == 3) { o.polarities = false; }
  if (m == 4) { o.maxCells = 8; o.maxRows = 3; }
  if (m == 5) { o.fixedCells = false; }
  if (m == 6) { o.maxUtil = 0.8; o.turned = false; }
  (void)g;
  return o;
}

int main(int argc, char **argv) {
  vh::Args a = vh::parseArgs(argc, argv);
  vh::Out out(a.out);
  out.rule =
      "e<k>: random circuit of the C01 domain (vc::genCircuit, 8 option mixes) + parameters (effort 1..9, or the "
      "non-default stream with reordering and wide windows on every other case); legalize alone, then placeDetailed "
      "with a callback; non-trivial = detailed placement changed the placement after legalization.  p<k>: "
      "DetailedPlacement from a legalized circuit + 40 random public-API operations (swap/insert/unplace+place/"
      "shift/reorder/check probes); non-trivial = at least one mutating operation succeeded.  d<k>: legalize, then a "
      "DetailedPlacer on the legalized circuit and 2..6 of its public passes driven directly with arbitrary window "
      "arguments (runSwaps, runInserts — never called by run() —, runShifts, runReordering, runSwapsOneRow, "
      "runInsertsOneRow, runSwapsTwoRows(Amplify), runInsertsTwoRows, runShiftsOnRows): check() and the exported "
      "placement after every pass, same oracle and same history replay as e<k>; non-trivial = a pass changed the "
      "placement.  One e<k> in three and one d<k> in four run phase 2 on an object with a past (e2e_past_cases / dir_past_cases: "
      "built in a perturbed state, observers computeRows/computePlacementArea/hpwl/rowHeight/check called, restored through only the "
      "needed setters — *_past_only_<class>, *_past_restored_by_<setter>, *_past_restored_by_setupRows_alone; half of them on rows "
      "as setupRows produces them), same oracle and replay.  distinct by input text";
  const bool exhOnly = getenv("C02_EXH_ONLY") != nullptr;  // hidden development switch: only the stream x<k>, in any tier
  if (exhOnly || a.thorough())
    out.rule +=
        ".  x<k> (thorough tier only; exhaustive, no randomness; one case per initial placement): instances = family "
        "plain: 1..4 movable cells, every width tuple in {1,2}^n, polarity ANY, on one row [-3,-3+L) L=1..6 (N) or on two "
        "rows [-3,-3+a) y=0 (N) and [-2,-2+b) y=2 (FS) for every (a,b) in {1..6}^2 (negative and positive coordinates: "
        "the truncating midpoint divisions see both signs); family wide: n<=3, width tuples in {1,2,3}^n containing a 3, "
        "one row or two rows of equal length 4..6; family polar: 13 fixed sets of 1..4 cells with polarities "
        "SAME/OPPOSITE/NW/SE/ANY on 3 row configurations (isRowAllowed and the orientation update matter); family obstr: "
        "1..3 cells of widths {1,2} with a fixed obstruction of width 1 at x=-1 splitting row 0 of length 6 (alone or with a "
        "second row of length 4): 3 data-structure rows and an ignored cell inside the index range.  Roots = ALL legal "
        "placements of the labelled movable cells of every instance, each dumped, built by the real fromIspdCircuit (must "
        "accept) and by the model (init/inv/state/check/export compared).  From every root a depth-first search to 4 moves "
        "through the real public API: at every node canSwap for EVERY ordered pair of cell indices (a==b and ignored cells "
        "included) and canInsert for EVERY (cell, row, pred in {-1}+cells of that row), real answers vs model (two lines "
        "per node, one character per query); every "
        "feasible move also gets posSwap/posInsert, is executed on a copy of the object (model: mark/reset/drop), the state "
        "line is compared and the direct oracle runs on the real object (check() passes, every optimised cell placed, row "
        "lists consistent with pred/row/last, cells of a row in increasing x without overlap inside the row at the row's y, "
        "exported circuit passes vc::checkLegal, the move landed on the promised position); the first infeasible swap and "
        "insert of every node are executed too and must throw runtime_error leaving the state unchanged.  Both sides are "
        "functions of the printed state line (all fields are printed; rows and polarities are constants of the instance), so "
        "the search is memoised per instance on (state line, remaining depth); in instances with more than 120 roots every "
        "root is registered up front as expanded-with-4 (each one is), so there every node is a root and every state "
        "reached by a move is verified to be a root (x_reached_state_that_is_not_an_initial_placement counts the others, "
        "which are expanded); instances with at most 120 roots are searched with the plain memo (real sequences of up to 4 "
        "moves, x_nodes_remaining_1..3).  check/inv are asked of the model the first time a move produces a given state "
        "line in an instance.  evaluations += expanded nodes; non-trivial = instance with at least one feasible move";
  E2E e2e(out);
  E2E dir(out, "dir_");
  Prim prim(out);

  auto runText = [&](const std::string &id, const std::string &text) {
    Circuit c(0);
    vd::Params p;
    if (!vd::parseCase(text, c, p)) {
      out.notes.push_back("could not parse case " + id);
      return;
    }
    e2e.run(id, c, p, vc::pastBlock(text));
  };

  if (!a.replay.empty()) {
    std::string text = vd::jsonField(vd::readFile(a.replay), "input");
    if (text.empty()) text = vd::readFile(a.replay);
    std::vector<Pass> passes;
    if (c02x::isReplayText(text)) c02x::replay(out, text);
    else if (parsePasses(text, passes)) {
      Circuit c(0);
      vd::Params p;
      if (vd::parseCase(text, c, p)) {
        std::string past = vc::pastBlock(text);
        dir.run("replay", c, p, directPasses(c, p, passes, 120, past), passesString(passes), past);
      }
      else out.notes.push_back("could not parse case replay");
    } else runText("replay", text);
    out.finish();
    return 0;
  }
  if (exhOnly) {
    c02x::runAll(out);
    out.finish();
    return 0;
  }
  // corpus first
  if (!a.corpus.empty()) {
    for (int i = 0; i < 200; ++i) {
      std::string f = a.corpus + "/w" + std::to_string(i) + ".txt";
      std::string text = vd::readFile(f);
      if (text.empty()) break;
      runText("corpus-w" + std::to_string(i), text);
      out.count("corpus");
    }
  }
  long long nE = a.thorough() ? 30000 : (a.search() ? 12000 : 1600);
  long long nP = a.thorough() ? 20000 : (a.search() ? 0 : 1200);
  long long nD = a.thorough() ? 20000 : (a.search() ? 6000 : 1200);
  // The forked part of every case (legalize / placeDetailed / the primitive operations under the
  // sanitizers) runs in worker processes on all cores; the parent consumes the results in case order,
  // so ops.txt / impl.txt / oracle.txt / stats.json are those of a sequential run.
  const int jobs = a.only >= 0 ? 1 : vd::ParallelBlobs::defaultWorkers();
  // the recipe of an object with a past, from a stream of its own (the circuits of the other cases are what they were);
  // half of them on rows as setupRows produces them (still the C01 domain: uniform disjoint rows, only wider)
  auto pastFor = [&](uint64_t stream, long long k, Circuit &c, vc::Past &past, bool &shaped) {
    vh::Rng gp = vh::Rng::forCase(a.seed ^ stream, k);
    shaped = gp.chance(1, 2) && vc::setupShapedRows(gp, c);
    past = vc::genPast(gp, c);
  };
  struct PastOf { bool has = false, shaped = false; vc::Past recipe; std::string text; };
  auto e2eCase = [&](long long k, Circuit &c, vd::Params &p, PastOf &po) {
    vh::Rng g = vh::Rng::forCase(a.seed, k);
    vc::GenOpts o = optsFor(g, k);
    c = vc::genCircuit(g, o);
    p = vd::genParams(g, k % 2 == 1);
    if (k % 8 == 5) vc::translate(c, g.range(-(1ll << 26), 1ll << 26), g.range(-(1ll << 26), 1ll << 26));  // far from the origin
    if (k % 4 == 2) {
      // rows listed in another order than bottom-up / left-to-right (code that relies on an order it only partly
      // establishes: sorted by y alone, lookup by (y, x)): reversed, shuffled, right-to-left within a y, top-down
      vh::Rng gr = vh::Rng::forCase(a.seed ^ 0x70a5ull, k);
      std::vector<Row> rows = c.rows_;
      int mode = (int)((k / 4) % 4);
      if (mode == 0) std::reverse(rows.begin(), rows.end());
      else if (mode == 1) { for (size_t i = rows.size(); i > 1; --i) std::swap(rows[i - 1], rows[gr.range(0, (long long)i - 1)]); }
      else if (mode == 2) std::stable_sort(rows.begin(), rows.end(), [](const Row &x, const Row &y) { return x.minY < y.minY || (x.minY == y.minY && x.minX > y.minX); });
      else std::stable_sort(rows.begin(), rows.end(), [](const Row &x, const Row &y) { return x.minY > y.minY || (x.minY == y.minY && x.minX < y.minX); });
      c.setRows(rows);
    }
    po = PastOf();
    if (k % 3 == 1) {
      po.has = true;
      pastFor(0x9a57e2eull, k, c, po.recipe, po.shaped);
      po.text = po.recipe.text();
    }
  };
  auto countPastOf = [&](const std::string &pfx, const PastOf &po) {
    if (!po.has) return;
    vc::countPast(out, pfx, po.recipe);
    if (po.shaped) out.count(pfx + "past_rows_as_setupRows_produces");
  };
  auto primCase = [&](long long k, Circuit &c, vd::Params &p, vh::Rng &g) {
    g = vh::Rng::forCase(a.seed ^ 0x5bd1e995u, k);
    vc::GenOpts o = optsFor(g, k);
    if (k % 3 == 0) o.maxUtil = 0.6;
    c = vc::genCircuit(g, o);
    p = vd::genParams(g, false);
  };
  const int nOps = a.thorough() ? 60 : 40;
  if (a.only >= 0) {
    if (a.only < nE) {
      Circuit c(0);
      vd::Params p;
      PastOf po;
      e2eCase(a.only, c, p, po);
      countPastOf("e2e_", po);
      e2e.run("e" + std::to_string(a.only), c, p, po.text);
    }
  } else {
    {
      vd::ParallelBlobs par(a.out + "/par-e-", nE, jobs, [&](long long k) {
        Circuit c(0);
        vd::Params p;
        PastOf po;
        e2eCase(k, c, p, po);
        return vd::serializeRun(vd::runCase(c, p, 120, po.text));
      });
      for (long long k = 0; k < nE; ++k) {
        Circuit c(0);
        vd::Params p;
        PastOf po;
        e2eCase(k, c, p, po);
        countPastOf("e2e_", po);
        std::string blob;
        vd::Run r;
        if (par.get(k, blob) && vd::parseRun(blob, r)) e2e.run("e" + std::to_string(k), c, p, r, "", po.text);
        else {
          out.count("e2e_recomputed_in_parent");
          e2e.run("e" + std::to_string(k), c, p, po.text);
        }
      }
    }
    {
      vd::ParallelBlobs par(a.out + "/par-p-", nP, jobs, [&](long long k) {
        Circuit c(0);
        vd::Params p;
        vh::Rng g = vh::Rng::forCase(0, 0);
        primCase(k, c, p, g);
        return Prim::compute(c, p, g, nOps);
      });
      for (long long k = 0; k < nP; ++k) {
        Circuit c(0);
        vd::Params p;
        vh::Rng g = vh::Rng::forCase(0, 0);
        primCase(k, c, p, g);
        std::string blob;
        if (par.get(k, blob)) prim.run("p" + std::to_string(k), c, p, blob);
        else {
          out.count("prim_recomputed_in_parent");
          prim.run("p" + std::to_string(k), c, p, g, nOps);
        }
      }
    }
    {
      auto dirCase = [&](long long k, Circuit &c, vd::Params &p, std::vector<Pass> &passes, PastOf &po) {
        vh::Rng g = vh::Rng::forCase(a.seed ^ 0xd12ec7u, k);
        vc::GenOpts o = optsFor(g, k);
        c = vc::genCircuit(g, o);
        p = vd::genParams(g, k % 2 == 1);
        passes = genPasses(g);
        po = PastOf();
        if (k % 4 == 2) {
          po.has = true;
          pastFor(0x9a57d12ull, k, c, po.recipe, po.shaped);
          po.text = po.recipe.text();
        }
      };
      vd::ParallelBlobs par(a.out + "/par-d-", nD, jobs, [&](long long k) {
        Circuit c(0);
        vd::Params p;
        std::vector<Pass> passes;
        PastOf po;
        dirCase(k, c, p, passes, po);
        return vd::serializeRun(directPasses(c, p, passes, 120, po.text));
      });
      for (long long k = 0; k < nD; ++k) {
        Circuit c(0);
        vd::Params p;
        std::vector<Pass> passes;
        PastOf po;
        dirCase(k, c, p, passes, po);
        countPastOf("dir_", po);
        std::string blob;
        vd::Run r;
        if (!(par.get(k, blob) && vd::parseRun(blob, r))) {
          out.count("dir_recomputed_in_parent");
          r = directPasses(c, p, passes, 120, po.text);
        }
        for (auto &ps : passes) out.count(std::string("dir_pass_") + passName(ps.kind));
        dir.run("d" + std::to_string(k), c, p, r, passesString(passes), po.text);
      }
    }
  }
  if (a.thorough() && a.only < 0) c02x::runAll(out);
  out.finish();
  return 0;
}
