// Shared by h_C01.cpp and h_C11.cpp: text <-> Circuit, legalization parameters as exact
// doubles, running Circuit::legalize in a forked child, and the directed generators.
#pragma once
#include <cmath>
#include <cstring>

#include "common/circuit.hpp"
#include "common/harness.hpp"
#include "place_detailed/legalizer.hpp"

namespace lg {
using namespace coloquinte;

struct LParams {
  int costModel = 0;
  double ow = 0.2, oh = -1.0, oy = 0.0;
};

inline LParams fromColo(const ColoquinteParameters &p) {
  LParams l;
  l.costModel = (int)p.legalization.costModel;
  l.ow = p.legalization.orderingWidth;
  l.oh = p.legalization.orderingHeight;
  l.oy = p.legalization.orderingY;
  return l;
}

inline ColoquinteParameters toColo(const LParams &l, int effort = 3) {
  ColoquinteParameters p(effort);
  p.legalization.costModel = (LegalizationModel)l.costModel;
  p.legalization.orderingWidth = l.ow;
  p.legalization.orderingHeight = l.oh;
  p.legalization.orderingY = l.oy;
  return p;
}

inline bool paramsValid(const LParams &l) {
  return l.costModel == 0 && !(l.ow > 2.0 || l.ow < -1.0) && !(l.oy > 0.2 || l.oy < -0.2);
}

inline std::string paramsLine(const LParams &l) {
  std::ostringstream os;
  os << "params " << l.costModel << " " << vc::exactDouble(l.ow) << " " << vc::exactDouble(l.oh) << " "
     << vc::exactDouble(l.oy);
  return os.str();
}

// the whole case as text: circuit block + params line (also the corpus / replay format)
inline std::string caseText(const Circuit &c, const LParams &l) { return vc::circuitString(c) + paramsLine(l) + "\n"; }

// parse the text written by caseText; returns false on malformed input
inline bool parseCase(const std::string &text, Circuit &out, LParams &l) {
  std::istringstream is(text);
  std::string ln;
  std::vector<int> w, h, x, y;
  std::vector<bool> fx, ob;
  std::vector<CellOrientation> orr;
  std::vector<CellRowPolarity> pol;
  std::vector<Row> rows;
  struct N { std::vector<int> c, px, py; };
  std::vector<N> nets;
  bool gotParams = false;
  while (std::getline(is, ln)) {
    std::istringstream ls(ln);
    std::string k;
    if (!(ls >> k)) continue;
    if (k == "cell") {
      long long a, b, c, d; int o, f, obs, p;
      if (!(ls >> a >> b >> c >> d >> o >> f >> obs >> p)) return false;
      w.push_back(a); h.push_back(b); x.push_back(c); y.push_back(d);
      orr.push_back((CellOrientation)o); fx.push_back(f != 0); ob.push_back(obs != 0); pol.push_back((CellRowPolarity)p);
    } else if (k == "row") {
      long long a, b, c, d; int o;
      if (!(ls >> a >> b >> c >> d >> o)) return false;
      rows.emplace_back(a, b, c, d, (CellOrientation)o);
    } else if (k == "net") {
      long long m, e; int np;
      if (!(ls >> m >> e >> np)) return false;
      N n;
      for (int i = 0; i < np; ++i) { int c, px, py; if (!(ls >> c >> px >> py)) return false; n.c.push_back(c); n.px.push_back(px); n.py.push_back(py); }
      nets.push_back(n);
    } else if (k == "params") {
      long long m1, m2, m3; int e1, e2, e3;
      if (!(ls >> l.costModel >> m1 >> e1 >> m2 >> e2 >> m3 >> e3)) return false;
      l.ow = std::ldexp((double)m1, e1); l.oh = std::ldexp((double)m2, e2); l.oy = std::ldexp((double)m3, e3);
      gotParams = true;
    }
  }
  int n = w.size();
  Circuit c(n);
  c.setCellWidth(w); c.setCellHeight(h); c.setCellX(x); c.setCellY(y);
  c.setCellIsFixed(fx); c.setCellIsObstruction(ob); c.setCellOrientation(orr); c.setCellRowPolarity(pol);
  c.setRows(rows);
  for (auto &nn : nets) c.addNet(nn.c, nn.px, nn.py);
  out = c;
  return gotParams;
}

// text of a corpus / replay file: either the raw case text or a JSON object with an "input" member
inline std::string loadCaseFile(const std::string &path) {
  std::ifstream f(path);
  std::stringstream ss;
  ss << f.rdbuf();
  std::string s = ss.str();
  size_t p = s.find("\"input\"");
  if (p == std::string::npos) return s;
  p = s.find('"', s.find(':', p));
  std::string o;
  for (size_t i = p + 1; i < s.size() && s[i] != '"'; ++i) {
    if (s[i] == '\\' && i + 1 < s.size()) {
      ++i;
      if (s[i] == 'n') o += '\n'; else if (s[i] == 't') o += '\t'; else o += s[i];
    } else o += s[i];
  }
  return o;
}

struct Probe : Legalizer {
  explicit Probe(const Legalizer &l) : Legalizer(l) {}
  std::vector<int> order(float a, float b, float c, float d) const { return computeCellOrder(a, b, c, d); }
};

struct RunResult {
  std::string status;       // "ok" or fault class of the child
  std::string order;        // "order ..." line (empty if not computed)
  std::string answer;       // "sol ..." or "throw:<class>"
  std::string legal;        // checkLegal(positions only) message ("" = legal) when the call returned
  std::string orientMsg;    // checkLegal incl. the polarity->orientation rule (C04's clause; informational here)
  bool unchanged = true;    // circuit text identical after a throw
  std::string after;        // circuit text after the call (normal return)
  std::string diag;
};

// Runs computeCellOrder (if wantOrder) and Circuit::legalize on a copy in a forked child.
//
// With `prior` (a circuit with the same number of cells) the measured call runs on an object with a PAST: the child
// starts from `prior`, calls computeRows() and legalize() on it (result ignored), then brings the very same object to
// the public state of `circ` through the setters and only then runs the measured sequence.  The property quantifies
// over circuits, not over how the object got there, so every answer must equal the fresh-object answer (and the
// model's): anything remembered inside the object across the setters (a cached row set, stale bookkeeping) shows up.
inline RunResult runLegalize(const Circuit &circ, const LParams &lp, bool wantOrder, const Circuit *prior = nullptr) {
  RunResult r;
  std::string outp;
  r.status = vh::isolated(
      [&](std::ostream &os) {
        Circuit c = prior ? *prior : circ;
        if (prior) {
          try { (void)c.computeRows(); } catch (const std::exception &) {}
          try { c.legalize(toColo(lp)); } catch (const std::exception &) {}
          try { (void)c.computeRows(); } catch (const std::exception &) {}
          // only the setters that are needed (compared with the object's state after its past): a setter that happens to
          // refresh some internal state must not mask another one that forgets to
          if (c.cellX_ != circ.cellX_) c.setCellX(circ.cellX_);
          if (c.cellY_ != circ.cellY_) c.setCellY(circ.cellY_);
          if (c.cellOrientation_ != circ.cellOrientation_) c.setCellOrientation(circ.cellOrientation_);
          if (c.cellIsFixed_ != circ.cellIsFixed_) c.setCellIsFixed(circ.cellIsFixed_);
          if (c.cellIsObstruction_ != circ.cellIsObstruction_) c.setCellIsObstruction(circ.cellIsObstruction_);
          if (c.cellWidth_ != circ.cellWidth_) c.setCellWidth(circ.cellWidth_);
          if (c.cellHeight_ != circ.cellHeight_) c.setCellHeight(circ.cellHeight_);
          if (c.cellRowPolarity_ != circ.cellRowPolarity_) c.setCellRowPolarity(circ.cellRowPolarity_);
          if (vc::circuitString(c) != vc::circuitString(circ)) c.setRows(circ.rows_);
          if (vc::circuitString(c) != vc::circuitString(circ)) os << "H history-restore-mismatch\n";
        }
        ColoquinteParameters p = toColo(lp);
        if (wantOrder) {
          Probe pr(Legalizer::fromIspdCircuit(c));
          os << "O order";
          for (int i : pr.order(1.0, lp.ow, lp.oy, lp.oh)) os << " " << i;
          os << "\n";
        }
        std::string before = vc::circuitString(c);
        try {
          c.legalize(p);
          os << "A " << vc::solutionString(c) << "\n";
          os << "L " << vc::checkLegal(c, false) << "\n";
          os << "T " << vc::checkLegal(c, true) << "\n";
          os << "C " << vh::jsonEscape(vc::circuitString(c)) << "\n";
        } catch (const std::exception &e) {
          os << "A " << vc::exClass(e) << "\n";
          os << "U " << (vc::circuitString(c) == before ? 1 : 0) << "\n";
        }
      },
      outp, 60, &r.diag);
  std::istringstream is(outp);
  std::string ln;
  while (std::getline(is, ln)) {
    if (ln.size() < 2) continue;
    std::string body = ln.substr(2);
    if (ln[0] == 'O') r.order = body;
    else if (ln[0] == 'A') r.answer = body;
    else if (ln[0] == 'L') r.legal = body;
    else if (ln[0] == 'T') r.orientMsg = body;
    else if (ln[0] == 'U') r.unchanged = body == "1";
    else if (ln[0] == 'H') r.diag += " " + body;
    else if (ln[0] == 'C') {
      std::string o;
      for (size_t i = 0; i < body.size(); ++i) {
        if (body[i] == '\\' && i + 1 < body.size()) { ++i; o += body[i] == 'n' ? '\n' : body[i]; } else o += body[i];
      }
      r.after = o;
    }
  }
  return r;
}

// A past for the object: `circ` with some cells elsewhere / turned / with other flags, a cell resized, a row dropped or shifted.
inline Circuit genPrior(vh::Rng &g, const Circuit &circ) {
  Circuit p = circ;
  int n = p.nbCells();
  std::vector<int> x = p.cellX_, y = p.cellY_, w = p.cellWidth_, h = p.cellHeight_;
  std::vector<bool> fx = p.cellIsFixed_, ob = p.cellIsObstruction_;
  std::vector<CellOrientation> orr = p.cellOrientation_;
  Rectangle area = p.computePlacementArea();
  // which attribute classes differ in the past: positions always; the others one time in four each, so that most
  // histories are restored through setCellX / setCellY (and setCellOrientation) alone
  bool dOr = g.chance(1, 4), dFlags = g.chance(1, 4), dSize = g.chance(1, 4), dRows = g.chance(1, 4);
  for (int i = 0; i < n; ++i) {
    bool fixed = fx[i];
    if (g.chance(fixed ? 2 : 1, 3)) {  // fixed cells (the obstructions) move most often: they shape the free rows
      x[i] = area.minX + g.range(-20, std::max(1, area.width()));
      y[i] = area.minY + g.range(-20, std::max(1, area.height()));
    }
    if (dOr && g.chance(1, 3)) orr[i] = CellOrientation::N;
    if (dFlags && g.chance(1, 4)) fx[i] = !fx[i];
    if (dFlags && g.chance(1, 4)) ob[i] = !ob[i];
    if (dSize && fixed && g.chance(1, 2)) { w[i] = std::max(1, w[i] + (int)g.range(-3, 6)); }
  }
  p.setCellX(x); p.setCellY(y); p.setCellOrientation(orr); p.setCellIsFixed(fx); p.setCellIsObstruction(ob); p.setCellWidth(w); p.setCellHeight(h);
  if (dRows && p.nbRows() > 1) {
    std::vector<Row> rows = p.rows_;
    rows.erase(rows.begin() + g.range(0, (long long)rows.size() - 1));
    p.setRows(rows);
  }
  return p;
}

// ---- facts about a circuit used by the oracles (independent of the library's row code) ----
struct Facts {
  int H = 0;
  long long freeWidth = 0, movArea = 0, sumW = 0, maxW = 0;
  int nSeg = 0, nMov = 0, nMulti = 0, nTurned = 0, nPol = 0, nFixedObs = 0;
  bool allRowHigh = true, allAny = true;
  bool infeasible() const { return movArea > freeWidth * H; }
  bool trivial() const { return nMov > 0 ? (allRowHigh && allAny && sumW <= freeWidth - (long long)nSeg * maxW) : true; }
  double util() const { return freeWidth > 0 ? (double)movArea / ((double)freeWidth * H) : 9.9; }
};

inline Facts facts(const Circuit &c) {
  Facts f;
  if (c.nbRows() == 0) return f;
  f.H = c.rows()[0].height();
  for (const Row &r : c.rows())
    for (auto &s : vc::freeSegments(c, r)) { f.freeWidth += s.hi - s.lo; f.nSeg++; }
  for (int i = 0; i < c.nbCells(); ++i) {
    if (c.isFixed(i)) { if (c.isObstruction(i)) f.nFixedObs++; continue; }
    Rectangle p = c.placement(i);
    f.nMov++;
    f.movArea += (long long)p.width() * p.height();
    f.sumW += p.width();
    f.maxW = std::max<long long>(f.maxW, p.width());
    if (p.height() != f.H) { f.allRowHigh = false; f.nMulti++; }
    if (c.cellRowPolarity()[i] != CellRowPolarity::ANY) { f.allAny = false; f.nPol++; }
    if (isTurn(c.orientation(i))) f.nTurned++;
  }
  return f;
}

// ---- directed generator: rows + obstructions first, then cells sized against the free width ----
// mode 0: trivial-success instance at or just under the bound   Σw ≤ free − #seg·maxW
// mode 1: row-high cells filling the free width exactly (100 % utilisation)
// mode 2: one unit more than the free area (must throw)
// mode 3: multi-row cells covering every row completely plus one row-high cell (must throw)
inline Circuit genDirected(vh::Rng &g, int mode, long long S = 1) {
  int H = g.range(1, 6);
  int nRows = mode == 3 ? g.range(2, 3) : g.range(1, 5);
  int x0 = g.range(-10, 10), y0 = g.range(-10, 10);
  std::vector<Row> rows;
  static const std::vector<CellOrientation> rowOr = {CellOrientation::N, CellOrientation::S, CellOrientation::FN, CellOrientation::FS};
  int y = y0;
  int W3 = g.range(2, 6);
  for (int r = 0; r < nRows; ++r) {
    if (mode != 3 && g.chance(1, 6)) y += H;
    int a = x0 + (mode != 3 && g.chance(1, 3) ? g.range(-3, 3) : 0);
    int b = mode == 3 ? a + W3 : a + g.range(3, 24);
    CellOrientation ro = g.pick(rowOr);
    if (mode != 3 && g.chance(1, 4) && b - a >= 5) {
      int m1 = g.range(a + 1, b - 2), m2 = g.range(m1, std::min(b - 1, m1 + 2));
      rows.emplace_back(a * S, m1 * S, y * S, (y + H) * S, ro);
      rows.emplace_back(m2 * S, b * S, y * S, (y + H) * S, g.pick(rowOr));
    } else rows.emplace_back(a * S, b * S, y * S, (y + H) * S, ro);
    y += H;
  }
  struct C { int w, h, x, y; CellOrientation o; bool fixed, obs; CellRowPolarity pol; };
  std::vector<C> cells;
  int nf = mode == 3 ? 0 : g.range(0, 2);
  for (int i = 0; i < nf; ++i) {
    C c;
    c.fixed = true; c.obs = g.chance(3, 4); c.pol = CellRowPolarity::ANY; c.o = CellOrientation::N;
    c.w = g.range(1, 4); c.h = g.range(1, 2 * H); c.x = g.range(x0 - 2, x0 + 20); c.y = g.range(y0 - H, y);
    cells.push_back(c);
  }
  // free width with these obstructions
  Circuit tmp(nf);
  {
    std::vector<int> w, h, xs, ys; std::vector<bool> fx, ob; std::vector<CellOrientation> orr;
    for (auto &c : cells) { w.push_back(c.w * S); h.push_back(c.h * S); xs.push_back(c.x * S); ys.push_back(c.y * S); fx.push_back(true); ob.push_back(c.obs); orr.push_back(c.o); }
    tmp.setCellWidth(w); tmp.setCellHeight(h); tmp.setCellX(xs); tmp.setCellY(ys); tmp.setCellIsFixed(fx); tmp.setCellIsObstruction(ob); tmp.setCellOrientation(orr);
    tmp.setRows(rows);
  }
  Facts f0 = facts(tmp);
  long long freeW = f0.freeWidth / S;
  auto addMov = [&](int pw, int rowsHigh, bool anyPol) {
    C c;
    c.fixed = false; c.obs = false;
    c.pol = anyPol ? CellRowPolarity::ANY : (g.chance(1, 2) ? CellRowPolarity::SAME : CellRowPolarity::OPPOSITE);
    c.o = (anyPol && g.chance(1, 3)) ? (CellOrientation)g.range(0, 7) : vc::pickUnturned(g);
    int ph = rowsHigh * H;
    bool turn = isTurn(c.o);
    c.w = turn ? ph : pw; c.h = turn ? pw : ph;
    if (g.chance(1, 8)) { c.x = g.range(-100, 100); c.y = g.range(-100, 100); }
    else { c.x = g.range(x0 - 4, x0 + 24); c.y = g.range(y0 - 3, y + 2); }
    cells.push_back(c);
  };
  if (mode == 0) {
    int maxW = g.range(1, 4);
    long long budget = freeW - (long long)f0.nSeg * maxW - (g.chance(1, 2) ? 0 : g.range(0, 3));
    bool first = true;
    while (budget > 0) {
      int pw = first ? std::min<long long>(maxW, budget) : g.range(1, std::min<long long>(maxW, budget));
      first = false;
      addMov(pw, 1, true);
      budget -= pw;
    }
  } else if (mode == 1 || mode == 2) {
    long long budget = freeW + (mode == 2 ? 1 : 0);
    bool unit = g.chance(1, 2);
    while (budget > 0) {
      int pw = unit ? 1 : g.range(1, std::min<long long>(4, budget));
      addMov(pw, 1, g.chance(3, 4));
      budget -= pw;
    }
  } else {
    // nRows rows of width W3 stacked without gaps: cover with cells nRows high
    int left = W3;
    while (left > 0) { int pw = g.range(1, left); addMov(pw, nRows, true); left -= pw; }
    addMov(g.range(1, 2), 1, true);
  }
  for (size_t i = cells.size(); i > 1; --i) std::swap(cells[i - 1], cells[g.range(0, i - 1)]);
  int n = cells.size();
  Circuit circ(n);
  std::vector<int> w(n), h(n), xs(n), ys(n); std::vector<bool> fx(n), ob(n); std::vector<CellOrientation> orr(n); std::vector<CellRowPolarity> pol(n);
  for (int i = 0; i < n; ++i) {
    w[i] = cells[i].w * S; h[i] = cells[i].h * S; xs[i] = cells[i].x * S; ys[i] = cells[i].y * S;
    fx[i] = cells[i].fixed; ob[i] = cells[i].obs; orr[i] = cells[i].o; pol[i] = cells[i].pol;
  }
  circ.setCellWidth(w); circ.setCellHeight(h); circ.setCellX(xs); circ.setCellY(ys);
  circ.setCellIsFixed(fx); circ.setCellIsObstruction(ob); circ.setCellOrientation(orr); circ.setCellRowPolarity(pol);
  circ.setRows(rows);
  return circ;
}

// legalization parameters over the whole accepted range
inline LParams genLParams(vh::Rng &g, bool wideWidth) {
  LParams l;
  int m = g.range(0, 9);
  if (m < 3) return l;  // defaults 0.2 / -1.0 / 0.0 (every effort gives these)
  static const std::vector<double> odd = {0.3, 0.77, 0.999, 1e-3, 0.5000001, 1.0 / 3};
  if (g.chance(1, 4)) l.ow = g.pick(odd); else l.ow = g.range(0, 8) / 8.0;
  if (wideWidth) {
    int k = g.range(0, 5);
    if (k == 0) l.ow = -1.0; else if (k == 1) l.ow = 2.0; else if (k == 2) l.ow = -g.range(1, 8) / 8.0;
    else if (k == 3) l.ow = 1.0 + g.range(1, 8) / 8.0; else if (k == 4) l.ow = g.chance(1, 2) ? 1.7 : -0.3;
  }
  int hk = g.range(0, 5);
  if (hk == 0) l.oh = 0.0; else if (hk == 1) l.oh = g.range(-8, 16) / 8.0; else if (hk == 2) l.oh = g.pick(odd) * (g.chance(1, 2) ? -1 : 1);
  else if (hk == 3) l.oh = g.range(-100, 100); else l.oh = -1.0;
  int yk = g.range(0, 4);
  if (yk == 0) l.oy = 0.0; else if (yk == 1) l.oy = g.range(-8, 8) / 40.0; else if (yk == 2) l.oy = g.chance(1, 2) ? 0.2 : -0.2;
  else if (yk == 3) l.oy = g.range(-12, 12) / 64.0; else l.oy = g.pick(odd) * 0.2;
  return l;
}

}  // namespace lg
