// Shared by h_C01.cpp and h_C11.cpp: text <-> Circuit, legalization parameters as exact
// doubles, running Circuit::legalize in a forked child, and the directed generators.
#pragma once
#include <cmath>
#include <cstring>

#include "common/circuit.hpp"
#include "common/harness.hpp"
#include "place_detailed/legalizer.hpp"

namespace lg {
using namespace coloquinte;

struct LParams {
  int costModel = 0;
  double ow = 0.2, oh = -1.0, oy = 0.0;
};

inline LParams fromColo(const ColoquinteParameters &p) {
  LParams l;
  l.costModel = (int)p.legalization.costModel;
  l.ow = p.legalization.orderingWidth;
  l.oh = p.legalization.orderingHeight;
  l.oy = p.legalization.orderingY;
  return l;
}

inline ColoquinteParameters toColo(const LParams &l, int effort = 3) {
  ColoquinteParameters p(effort);
  p.legalization.costModel = (LegalizationModel)l.costModel;
  p.legalization.orderingWidth = l.ow;
  p.legalization.orderingHeight = l.oh;
  p.legalization.orderingY = l.oy;
  return p;
}

inline bool paramsValid(const LParams &l) {
  return l.costModel == 0 && !(l.ow > 2.0 || l.ow < -1.0) && !(l.oy > 0.2 || l.oy < -0.2);
}

inline std::string paramsLine(const LParams &l) {
  std::ostringstream os;
  os << "params " << l.costModel << " " << vc::exactDouble(l.ow) << " " << vc::exactDouble(l.oh) << " "
     << vc::exactDouble(l.oy);
  return os.str();
}

// the whole case as text: circuit block + params line (also the corpus / replay format)
inline std::string caseText(const Circuit &c, const LParams &l) { return vc::circuitString(c) + paramsLine(l) + "\n"; }

// parse the text written by caseText; returns false on malformed input
inline bool parseCase(const std::string &text, Circuit &out, LParams &l) {
  std::istringstream is(text);
  std::string ln;
  std::vector<int> w, h, x, y;
  std::vector<bool> fx, ob;
  std::vector<CellOrientation> orr;
  std::vector<CellRowPolarity> pol;
  std::vector<Row> rows;
  struct N { std::vector<int> c, px, py; };
  std::vector<N> nets;
  bool gotParams = false;
  while (std::getline(is, ln)) {
    std::istringstream ls(ln);
    std::string k;
    if (!(ls >> k)) continue;
    if (k == "cell") {
      long long a, b, c, d; int o, f, obs, p;
      if (!(ls >> a >> b >> c >> d >> o >> f >> obs >> p)) return false;
      w.push_back(a); h.push_back(b); x.push_back(c); y.push_back(d);
      orr.push_back((CellOrientation)o); fx.push_back(f != 0); ob.push_back(obs != 0); pol.push_back((CellRowPolarity)p);
    } else if (k == "row") {
      long long a, b, c, d; int o;
      if (!(ls >> a >> b >> c >> d >> o)) return false;
      rows.emplace_back(a, b, c, d, (CellOrientation)o);
    } else if (k == "net") {
      long long m, e; int np;
      if (!(ls >> m >> e >> np)) return false;
      N n;
      for (int i = 0; i < np; ++i) { int c, px, py; if (!(ls >> c >> px >> py)) return false; n.c.push_back(c); n.px.push_back(px); n.py.push_back(py); }
      nets.push_back(n);
    } else if (k == "params") {
      long long m1, m2, m3; int e1, e2, e3;
      if (!(ls >> l.costModel >> m1 >> e1 >> m2 >> e2 >> m3 >> e3)) return false;
      l.ow = std::ldexp((double)m1, e1); l.oh = std::ldexp((double)m2, e2); l.oy = std::ldexp((double)m3, e3);
      gotParams = true;
    }
  }
  int n = w.size();
  Circuit c(n);
  c.setCellWidth(w); c.setCellHeight(h); c.setCellX(x); c.setCellY(y);
  c.setCellIsFixed(fx); c.setCellIsObstruction(ob); c.setCellOrientation(orr); c.setCellRowPolarity(pol);
  c.setRows(rows);
  for (auto &nn : nets) c.addNet(nn.c, nn.px, nn.py);
  out = c;
  return gotParams;
}

// text of a corpus / replay file: either the raw case text or a JSON object with an "input" member
inline std::string loadCaseFile(const std::string &path) {
  std::ifstream f(path);
  std::stringstream ss;
  ss << f.rdbuf();
  std::string s = ss.str();
  size_t p = s.find("\"input\"");
  if (p == std::string::npos) return s;
  p = s.find('"', s.find(':', p));
  std::string o;
  for (size_t i = p + 1; i < s.size() && s[i] != '"'; ++i) {
    if (s[i] == '\\' && i + 1 < s.size()) {
      ++i;
      if (s[i] == 'n') o += '\n'; else if (s[i] == 't') o += '\t'; else o += s[i];
    } else o += s[i];
  }
  return o;
}

struct Probe : Legalizer {
  explicit Probe(const Legalizer &l) : Legalizer(l) {}
  std::vector<int> order(float a, float b, float c, float d) const { return computeCellOrder(a, b, c, d); }
};

// ---- the object's past ---------------------------------------------------------------------------------------------
// Family addressed: state remembered INSIDE the Circuit object across calls (a memoised computeRows() result, stale
// bookkeeping) that SOME public setter forgets to drop.  Which setter forgets is not known in advance, so every setter
// has to be, at times, the ONLY call between the past and the measured legalize: a second setter that happens to refresh
// the remembered state would mask the first.
struct Past {
  Circuit prior{0};
  // what the object did before the setters:
  //   0  computeRows() only -- a const query: the public state stays that of `prior`, so the restoring setters are exactly
  //      the attribute classes in which `prior` differs from the case (one class -> one setter, the sole restorer);
  //   1  computeRows() + legalize() + computeRows();   2  legalize() only
  //      (legalize moves the movable cells, so setCellX/Y are then usually among the restoring setters -- unless the case
  //      was built from the past's own result, see mutateOneClass / "eco" in h_C01).
  int did = 1;
  bool viaSolution = false;   // positions and orientations come back through ONE setSolution() call (when any of them differs)
  bool viaSetupRows = false;  // rows come back through setupRows(area, H, alt, init) when the case's rows are what that call produces
  std::string cls = "mixed";  // attribute class in which the past differs (measured distribution only)
};

struct SetupArgs { Rectangle area; int H = 0; bool alt = false, init = true; };

// Are these rows exactly what Circuit::setupRows(area, H, alt, init) leaves behind?  (then: the arguments)
inline bool asSetupRows(const std::vector<Row> &rows, SetupArgs &a) {
  if (rows.empty()) return false;
  int H = rows[0].height();
  if (H <= 0) return false;
  CellOrientation o0 = rows[0].orientation;
  if (o0 != CellOrientation::N && o0 != CellOrientation::FS) return false;
  CellOrientation o1 = o0 == CellOrientation::N ? CellOrientation::FS : CellOrientation::N;
  bool alt = rows.size() >= 2 && rows[1].orientation != o0;
  for (size_t i = 0; i < rows.size(); ++i) {
    const Row &r = rows[i];
    if (r.minX != rows[0].minX || r.maxX != rows[0].maxX) return false;
    if ((long long)r.minY != (long long)rows[0].minY + (long long)i * H || r.maxY - r.minY != H) return false;
    if (r.orientation != ((alt && i % 2 == 1) ? o1 : o0)) return false;
  }
  a.area = Rectangle(rows[0].minX, rows[0].maxX, rows[0].minY, rows.back().maxY);
  a.H = H; a.alt = alt; a.init = o0 == CellOrientation::N;
  return true;
}

inline bool sameRows(const std::vector<Row> &a, const std::vector<Row> &b) {
  if (a.size() != b.size()) return false;
  for (size_t i = 0; i < a.size(); ++i)
    if (a[i].minX != b[i].minX || a[i].maxX != b[i].maxX || a[i].minY != b[i].minY || a[i].maxY != b[i].maxY || a[i].orientation != b[i].orientation) return false;
  return true;
}

// the past as text (appended to the case text in a failure's input; --replay reads it back with parseCaseWithPast)
inline std::string pastText(const Past &p, const LParams &lp) {
  std::ostringstream os;
  os << "prior\n" << caseText(p.prior, lp) << "restore " << p.did << " " << (p.viaSolution ? 1 : 0) << " " << (p.viaSetupRows ? 1 : 0) << " " << p.cls << "\n";
  return os.str();
}

// case text, optionally followed by "prior\n<case text of the past>[restore <did> <viaSolution> <viaSetupRows> <class>]"
// (files written before the `restore` line existed mean: did = 1, per-attribute setters)
inline bool parseCaseWithPast(const std::string &txt, Circuit &c, LParams &lp, Past &past, bool &hasPast) {
  size_t cut = txt.find("\nprior\n");
  hasPast = cut != std::string::npos;
  if (!hasPast) return parseCase(txt, c, lp);
  LParams lp2;
  std::string tail = txt.substr(cut + 7);
  if (!parseCase(txt.substr(0, cut + 1), c, lp) || !parseCase(tail, past.prior, lp2)) return false;
  std::istringstream is(tail);
  std::string ln;
  while (std::getline(is, ln)) {
    if (ln.rfind("restore ", 0) != 0) continue;
    std::istringstream ls(ln.substr(8));
    int a = 1, b = 0, d = 0;
    std::string cls;
    ls >> a >> b >> d >> cls;
    past.did = a; past.viaSolution = b != 0; past.viaSetupRows = d != 0;
    if (!cls.empty()) past.cls = cls;
  }
  return true;
}

struct RunResult {
  std::string status;       // "ok" or fault class of the child
  std::string order;        // "order ..." line (empty if not computed)
  std::string answer;       // "sol ..." or "throw:<class>"
  std::string legal;        // checkLegal(positions only) message ("" = legal) when the call returned
  std::string orientMsg;    // checkLegal incl. the polarity->orientation rule (C04's clause; informational here)
  bool unchanged = true;    // circuit text identical after a throw
  std::string after;        // circuit text after the call (normal return)
  std::string diag;
  std::vector<std::string> setters;  // with a past: the setters that brought the object to the case's public state
};

// Runs computeCellOrder (if wantOrder) and Circuit::legalize on a copy in a forked child.
//
// With `past` (a circuit with the same number of cells) the measured call runs on an object with a PAST: the child
// starts from `past->prior`, calls computeRows() and/or legalize() on it (result ignored), then brings the very same object to
// the public state of `circ` through the setters and only then runs the measured sequence.  The property quantifies
// over circuits, not over how the object got there, so every answer must equal the fresh-object answer (and the
// model's): anything remembered inside the object across the setters (a cached row set, stale bookkeeping) shows up.
inline RunResult runLegalize(const Circuit &circ, const LParams &lp, bool wantOrder, const Past *past = nullptr) {
  RunResult r;
  std::string outp;
  r.status = vh::isolated(
      [&](std::ostream &os) {
        Circuit c = past ? past->prior : circ;
        if (past) {
          if (past->did != 2) { try { (void)c.computeRows(); } catch (const std::exception &) {} }
          if (past->did != 0) { try { c.legalize(toColo(lp)); } catch (const std::exception &) {} }
          if (past->did == 1) { try { (void)c.computeRows(); } catch (const std::exception &) {} }
          // only the setters that are needed (compared with the object's state after its past): a setter that happens to
          // refresh some internal state must not mask another one that forgets to
          os << "S";
          bool dx = c.cellX_ != circ.cellX_, dy = c.cellY_ != circ.cellY_, dorr = c.cellOrientation_ != circ.cellOrientation_;
          if (past->viaSolution && (dx || dy || dorr)) { c.setSolution(circ.solution()); os << " setSolution"; }
          else {
            if (dx) { c.setCellX(circ.cellX_); os << " setCellX"; }
            if (dy) { c.setCellY(circ.cellY_); os << " setCellY"; }
            if (dorr) { c.setCellOrientation(circ.cellOrientation_); os << " setCellOrientation"; }
          }
          if (c.cellIsFixed_ != circ.cellIsFixed_) { c.setCellIsFixed(circ.cellIsFixed_); os << " setCellIsFixed"; }
          if (c.cellIsObstruction_ != circ.cellIsObstruction_) { c.setCellIsObstruction(circ.cellIsObstruction_); os << " setCellIsObstruction"; }
          if (c.cellWidth_ != circ.cellWidth_) { c.setCellWidth(circ.cellWidth_); os << " setCellWidth"; }
          if (c.cellHeight_ != circ.cellHeight_) { c.setCellHeight(circ.cellHeight_); os << " setCellHeight"; }
          if (c.cellRowPolarity_ != circ.cellRowPolarity_) { c.setCellRowPolarity(circ.cellRowPolarity_); os << " setCellRowPolarity"; }
          if (!sameRows(c.rows_, circ.rows_)) {
            SetupArgs sa;
            if (past->viaSetupRows && asSetupRows(circ.rows_, sa)) { c.setupRows(sa.area, sa.H, sa.alt, sa.init); os << " setupRows"; }
            if (!sameRows(c.rows_, circ.rows_)) { c.setRows(circ.rows_); os << " setRows"; }
          }
          os << "\n";
          if (vc::circuitString(c) != vc::circuitString(circ)) os << "H history-restore-mismatch\n";
        }
        ColoquinteParameters p = toColo(lp);
        if (wantOrder) {
          Probe pr(Legalizer::fromIspdCircuit(c));
          os << "O order";
          for (int i : pr.order(1.0, lp.ow, lp.oy, lp.oh)) os << " " << i;
          os << "\n";
        }
        std::string before = vc::circuitString(c);
        try {
          c.legalize(p);
          os << "A " << vc::solutionString(c) << "\n";
          os << "L " << vc::checkLegal(c, false) << "\n";
          os << "T " << vc::checkLegal(c, true) << "\n";
          os << "C " << vh::jsonEscape(vc::circuitString(c)) << "\n";
        } catch (const std::exception &e) {
          os << "A " << vc::exClass(e) << "\n";
          os << "U " << (vc::circuitString(c) == before ? 1 : 0) << "\n";
        }
      },
      outp, 60, &r.diag);
  std::istringstream is(outp);
  std::string ln;
  while (std::getline(is, ln)) {
    if (ln[0] == 'S' && (ln.size() == 1 || ln[1] == ' ')) {
      std::istringstream ss(ln.substr(1));
      std::string w;
      while (ss >> w) r.setters.push_back(w);
      continue;
    }
    if (ln.size() < 2) continue;
    std::string body = ln.substr(2);
    if (ln[0] == 'O') r.order = body;
    else if (ln[0] == 'A') r.answer = body;
    else if (ln[0] == 'L') r.legal = body;
    else if (ln[0] == 'T') r.orientMsg = body;
    else if (ln[0] == 'U') r.unchanged = body == "1";
    else if (ln[0] == 'H') r.diag += " " + body;
    else if (ln[0] == 'C') {
      std::string o;
      for (size_t i = 0; i < body.size(); ++i) {
        if (body[i] == '\\' && i + 1 < body.size()) { ++i; o += body[i] == 'n' ? '\n' : body[i]; } else o += body[i];
      }
      r.after = o;
    }
  }
  return r;
}

// measured distribution of the pasts: which setters restored the object, and which one did it alone
inline void countPast(vh::Out &out, const Past &p, const RunResult &r) {
  out.count("object_with_history");
  out.count("history_class_" + p.cls);
  out.count(p.did == 0 ? "history_did_computeRows_only" : (p.did == 1 ? "history_did_computeRows_legalize" : "history_did_legalize_only"));
  for (auto &s : r.setters) out.count("history_restored_through_" + s);
  if (r.setters.size() == 1) out.count("history_sole_restorer_" + r.setters[0]);
  if (r.setters.empty()) out.count("history_no_setter_needed");
}

// A past for the object: `circ` with some cells elsewhere / turned / with other flags, a cell resized, a row dropped or shifted.
inline Circuit genPrior(vh::Rng &g, const Circuit &circ) {
  Circuit p = circ;
  int n = p.nbCells();
  std::vector<int> x = p.cellX_, y = p.cellY_, w = p.cellWidth_, h = p.cellHeight_;
  std::vector<bool> fx = p.cellIsFixed_, ob = p.cellIsObstruction_;
  std::vector<CellOrientation> orr = p.cellOrientation_;
  Rectangle area = p.computePlacementArea();
  // which attribute classes differ in the past: positions always; the others one time in four each, so that most
  // histories are restored through setCellX / setCellY (and setCellOrientation) alone
  bool dOr = g.chance(1, 4), dFlags = g.chance(1, 4), dSize = g.chance(1, 4), dRows = g.chance(1, 4);
  for (int i = 0; i < n; ++i) {
    bool fixed = fx[i];
    if (g.chance(fixed ? 2 : 1, 3)) {  // fixed cells (the obstructions) move most often: they shape the free rows
      x[i] = area.minX + g.range(-20, std::max(1, area.width()));
      y[i] = area.minY + g.range(-20, std::max(1, area.height()));
    }
    if (dOr && g.chance(1, 3)) orr[i] = CellOrientation::N;
    if (dFlags && g.chance(1, 4)) fx[i] = !fx[i];
    if (dFlags && g.chance(1, 4)) ob[i] = !ob[i];
    if (dSize && fixed && g.chance(1, 2)) { w[i] = std::max(1, w[i] + (int)g.range(-3, 6)); }
  }
  p.setCellX(x); p.setCellY(y); p.setCellOrientation(orr); p.setCellIsFixed(fx); p.setCellIsObstruction(ob); p.setCellWidth(w); p.setCellHeight(h);
  if (dRows && p.nbRows() > 1) {
    std::vector<Row> rows = p.rows_;
    rows.erase(rows.begin() + g.range(0, (long long)rows.size() - 1));
    p.setRows(rows);
  }
  return p;
}

// ---- a circuit that differs from `circ` in exactly ONE attribute class ----------------------------------------------
// Used both ways: as the PAST of the case `circ` (the object is then restored through the one setter of that class), and
// as the CASE built from the result of a past legalize (h_C01 "eco": legalize, one edit through one setter, legalize again).
// Every change stays inside the C01 domain, so the result is a valid case: fixed cells may be anywhere, of any size and
// orientation; movable cells keep a positive placed width, a placed height that is a multiple of the row height, and an
// unturned orientation when they carry a polarity.
enum PastClass { PC_OrientFixed = 0, PC_X, PC_Y, PC_XY, PC_Fixed, PC_Obstruction, PC_Width, PC_Height, PC_Rows, PC_RowsSetup, PC_Polarity, PC_COUNT };
inline const char *pastClassName(int c) {
  static const char *nm[] = {"orientation", "x", "y", "xy", "isFixed", "isObstruction", "width", "height", "rows", "rows_setupRows", "polarity"};
  return c >= 0 && c < PC_COUNT ? nm[c] : "mixed";
}

inline int pickPastClass(vh::Rng &g) {
  // orientation of a fixed macro, positions of the fixed obstructions and the rows shape the free row space: drawn more often
  static const std::vector<int> w = {PC_OrientFixed, PC_OrientFixed, PC_OrientFixed, PC_X, PC_X, PC_Y, PC_Y, PC_XY, PC_XY, PC_XY, PC_Fixed,
                                     PC_Obstruction, PC_Obstruction, PC_Width, PC_Width, PC_Height, PC_Height, PC_Rows, PC_Rows,
                                     PC_RowsSetup, PC_RowsSetup, PC_RowsSetup, PC_Polarity};
  return g.pick(w);
}

inline Circuit mutateOneClass(vh::Rng &g, const Circuit &circ, int cls) {
  Circuit p = circ;
  int n = p.nbCells();
  if (p.nbRows() == 0) return p;
  int H = std::max(1, p.rows_[0].height());
  int unit = std::max(1, H / 4);  // follows the scale of the circuit
  Rectangle area = p.computePlacementArea();
  std::vector<int> fixedCells, fixedObs, nonSquareObs, movable;
  for (int i = 0; i < n; ++i) {
    if (!p.cellIsFixed_[i]) { movable.push_back(i); continue; }
    fixedCells.push_back(i);
    if (p.cellIsObstruction_[i]) {
      fixedObs.push_back(i);
      if (p.cellWidth_[i] != p.cellHeight_[i]) nonSquareObs.push_back(i);
    }
  }
  auto otherOrientation = [&](CellOrientation o, bool sameTurn) {
    for (int t = 0; t < 64; ++t) {
      CellOrientation c = (CellOrientation)g.range(0, 7);
      if (c != o && (isTurn(c) == isTurn(o)) == sameTurn) return c;
    }
    return o;
  };
  auto newPos = [&](bool isX, int old) {
    long long lo = isX ? area.minX : area.minY, ext = isX ? area.width() : area.height();
    for (int t = 0; t < 16; ++t) {
      long long v = lo + g.range(-(long long)5 * unit, std::max<long long>(1, ext));
      if (!isX && g.chance(1, 2)) v = lo + (long long)H * g.range(-1, std::max<long long>(1, ext / H));  // on a row boundary
      if (v != old) return (int)v;
    }
    return old + unit;
  };
  switch (cls) {
    case PC_OrientFixed: {
      std::vector<CellOrientation> orr = p.cellOrientation_;
      if (!fixedCells.empty()) {
        // one fixed cell surely changes, preferably an obstruction with a non-square footprint that is turned a quarter
        // (its placed width and height are swapped: the free row space changes although no position, size or flag does)
        int must = !nonSquareObs.empty() ? g.pick(nonSquareObs) : (!fixedObs.empty() ? g.pick(fixedObs) : g.pick(fixedCells));
        for (int i : fixedCells) {
          if (i == must) orr[i] = otherOrientation(orr[i], g.chance(1, 5));
          else if (g.chance(1, 3)) orr[i] = otherOrientation(orr[i], g.chance(1, 2));
        }
      } else if (!movable.empty()) {
        int i = g.pick(movable);
        orr[i] = otherOrientation(orr[i], true);  // same footprint: N/S/FN/FS among themselves, E/W/FW/FE among themselves
      }
      p.setCellOrientation(orr);
      break;
    }
    case PC_X: case PC_Y: case PC_XY: {
      std::vector<int> x = p.cellX_, y = p.cellY_;
      // the FIXED obstructions shape the free rows: they are what moves (half of the time nothing else does)
      bool onlyFixed = !fixedCells.empty() && g.chance(1, 2);
      int must = !fixedObs.empty() ? g.pick(fixedObs) : (!fixedCells.empty() ? g.pick(fixedCells) : (n > 0 ? (int)g.range(0, n - 1) : -1));
      for (int i = 0; i < n; ++i) {
        if (i != must && (onlyFixed && !p.cellIsFixed_[i])) continue;
        if (i != must && !g.chance(1, 2)) continue;
        if (cls != PC_Y) x[i] = newPos(true, x[i]);
        if (cls != PC_X) y[i] = newPos(false, y[i]);
      }
      if (cls != PC_Y) p.setCellX(x);
      if (cls != PC_X) p.setCellY(y);
      break;
    }
    case PC_Fixed: {
      std::vector<bool> fx = p.cellIsFixed_;
      std::vector<int> cand = movable;  // a movable cell may always become fixed
      for (int i : fixedCells) {        // a fixed cell may become movable when it is a legitimate movable cell
        int pw = p.placedWidth(i), ph = p.placedHeight(i);
        bool polOk = p.cellRowPolarity_[i] == CellRowPolarity::ANY || !isTurn(p.cellOrientation_[i]);
        if (pw > 0 && ph > 0 && ph % H == 0 && ph / H <= 4 && polOk) cand.push_back(i);
      }
      if (!cand.empty()) { int i = g.pick(cand); fx[i] = !fx[i]; }
      p.setCellIsFixed(fx);
      break;
    }
    case PC_Obstruction: {
      std::vector<bool> ob = p.cellIsObstruction_;
      if (!fixedCells.empty()) { int i = g.pick(fixedCells); ob[i] = !ob[i]; }
      else if (n > 0) { int i = g.range(0, n - 1); ob[i] = !ob[i]; }
      p.setCellIsObstruction(ob);
      break;
    }
    case PC_Width: case PC_Height: {
      std::vector<int> v = cls == PC_Width ? p.cellWidth_ : p.cellHeight_;
      if (!fixedCells.empty()) {
        int i = !fixedObs.empty() ? g.pick(fixedObs) : g.pick(fixedCells);
        long long d = g.range(1, 6) * (long long)unit * (g.chance(1, 3) ? -1 : 1);
        long long nv = std::max<long long>(0, (long long)v[i] + d);
        if (nv == v[i]) nv = v[i] + unit;
        v[i] = (int)nv;
      } else if (cls == PC_Width) {
        std::vector<int> cand;
        for (int i : movable) if (!isTurn(p.cellOrientation_[i])) cand.push_back(i);
        if (!cand.empty()) { int i = g.pick(cand); v[i] = v[i] + unit * (int)g.range(1, 3); }
      }
      if (cls == PC_Width) p.setCellWidth(v); else p.setCellHeight(v);
      break;
    }
    case PC_Rows: {
      std::vector<Row> rows = p.rows_;
      int k = g.range(0, 3);
      int ri = g.range(0, (long long)rows.size() - 1);
      if (k == 0 && rows.size() > 1) rows.erase(rows.begin() + ri);
      else if (k == 1 && rows[ri].width() >= 2) rows[ri].minX += (int)g.range(1, std::max(1, rows[ri].width() / 2));   // narrower: still disjoint
      else if (k == 2 && rows[ri].width() >= 2) rows[ri].maxX -= (int)g.range(1, std::max(1, rows[ri].width() / 2));
      else {
        static const std::vector<CellOrientation> rowOr = {CellOrientation::N, CellOrientation::S, CellOrientation::FN, CellOrientation::FS};
        CellOrientation o = rows[ri].orientation;
        for (int t = 0; t < 16 && o == rows[ri].orientation; ++t) o = g.pick(rowOr);
        rows[ri].orientation = o;
      }
      p.setRows(rows);
      break;
    }
    case PC_RowsSetup: {
      // rows as laid out by Circuit::setupRows over an area near the present one
      int nr = std::max<long long>(1, (long long)area.height() / H + g.range(-1, 1));
      int a = area.minX + unit * (int)g.range(-3, 3), b = area.maxX + unit * (int)g.range(-3, 3);
      if (b <= a) b = a + unit;
      int y0 = area.minY + H * (int)g.range(-1, 1);
      bool alt = g.chance(1, 2), init = g.chance(1, 2);
      p.setupRows(Rectangle(a, b, y0, y0 + nr * H + (int)g.range(0, H - 1)), H, alt, init);
      if (sameRows(p.rows_, circ.rows_)) p.setupRows(Rectangle(a, b + unit, y0, y0 + nr * H), H, alt, init);
      break;
    }
    case PC_Polarity: {
      std::vector<CellRowPolarity> pol = p.cellRowPolarity_;
      std::vector<int> cand;
      for (int i = 0; i < n; ++i)
        if (pol[i] != CellRowPolarity::ANY || !isTurn(p.cellOrientation_[i])) cand.push_back(i);
      if (!cand.empty()) {
        int i = g.pick(cand);
        static const std::vector<CellRowPolarity> ps = {CellRowPolarity::SAME, CellRowPolarity::OPPOSITE, CellRowPolarity::NW, CellRowPolarity::SE};
        pol[i] = pol[i] != CellRowPolarity::ANY ? CellRowPolarity::ANY : g.pick(ps);
      }
      p.setCellRowPolarity(pol);
      break;
    }
    default: break;
  }
  return p;
}

// The past of a case: two in five the broad perturbation of genPrior (several classes at once, the object legalized in
// its past), else ONE class (mutateOneClass) after a past that is, two times in three, the const query computeRows() alone
// -- then exactly one setter stands between the past and the measured call.
inline Past genPast(vh::Rng &g, const Circuit &circ) {
  Past p;
  if (g.chance(2, 5)) {
    p.prior = genPrior(g, circ);
    p.cls = "mixed";
    p.did = g.chance(3, 4) ? 1 : (g.chance(1, 2) ? 0 : 2);
  } else {
    int cls = pickPastClass(g);
    SetupArgs sa;
    if (cls == PC_RowsSetup && !asSetupRows(circ.rows_, sa)) cls = PC_Rows;  // setupRows can only restore what setupRows produces
    p.prior = mutateOneClass(g, circ, cls);
    p.cls = pastClassName(cls);
    p.did = g.chance(2, 3) ? 0 : (g.chance(1, 2) ? 1 : 2);
  }
  p.viaSolution = g.chance(1, 3);
  p.viaSetupRows = g.chance(3, 4);
  return p;
}

// ---- the order in which the user lists the rows ----------------------------------------------------------------------
// Family addressed: code that relies on the rows being in some order (bottom-up, left to right within a y) without
// establishing it, or that establishes it only partially (sorts by y alone, skips the sort when a cheaper test says
// "already sorted").  The generators list rows bottom-up and left to right; these listings are the others.
//   0 reversed   1 shuffled   2 bottom-up but RIGHT TO LEFT within a y (sorted for a y-only test)
//   3 top-down, left to right within a y   4 one adjacent pair exchanged
inline const char *rowListingName(int m) {
  static const char *nm[] = {"reversed", "shuffled", "y_up_x_right_to_left", "y_down_x_left_to_right", "one_adjacent_swap"};
  return m >= 0 && m < 5 ? nm[m] : "?";
}
inline void relistRows(vh::Rng &g, Circuit &c, int mode) {
  std::vector<Row> rows = c.rows_;
  auto byYX = [](const Row &a, const Row &b) { return a.minY < b.minY || (a.minY == b.minY && a.minX < b.minX); };
  if (mode == 0) std::reverse(rows.begin(), rows.end());
  else if (mode == 1) { for (size_t i = rows.size(); i > 1; --i) std::swap(rows[i - 1], rows[g.range(0, i - 1)]); }
  else if (mode == 2) std::stable_sort(rows.begin(), rows.end(), [](const Row &a, const Row &b) { return a.minY < b.minY || (a.minY == b.minY && a.minX > b.minX); });
  else if (mode == 3) std::stable_sort(rows.begin(), rows.end(), [](const Row &a, const Row &b) { return a.minY > b.minY || (a.minY == b.minY && a.minX < b.minX); });
  else if (rows.size() >= 2) {
    std::stable_sort(rows.begin(), rows.end(), byYX);
    size_t i = g.range(0, (long long)rows.size() - 2);
    // prefer a pair of one y (the exchange a y-only comparison does not see)
    std::vector<size_t> sameY;
    for (size_t k = 0; k + 1 < rows.size(); ++k) if (rows[k].minY == rows[k + 1].minY) sameY.push_back(k);
    if (!sameY.empty() && g.chance(2, 3)) i = g.pick(sameY);
    std::swap(rows[i], rows[i + 1]);
  }
  c.setRows(rows);
}

// Cuts rows into two or three segments (possibly with a gap) whose orientations are drawn independently, so that the
// segments of one y often prescribe different orientations (the generators give a second segment the same orientation
// three times in four, and split one row in six).  `unit` is the coordinate scale of the circuit.
inline void resegmentRows(vh::Rng &g, Circuit &c, long long unit, int num = 1, int den = 2) {
  static const std::vector<CellOrientation> rowOr = {CellOrientation::N, CellOrientation::S, CellOrientation::FN, CellOrientation::FS};
  std::vector<Row> out;
  for (const Row &r : c.rows_) {
    long long w = r.width() / unit;
    if (w < 6 || !g.chance(num, den)) { out.push_back(r); continue; }
    int pieces = (w >= 12 && g.chance(1, 3)) ? 3 : 2;
    long long a = r.minX;
    for (int k = 0; k < pieces; ++k) {
      long long left = (r.maxX - a) / unit;
      long long b = r.maxX;
      if (k + 1 < pieces) {
        if (left < 4) { out.emplace_back((int)a, r.maxX, r.minY, r.maxY, g.pick(rowOr)); a = r.maxX; break; }
        b = a + unit * g.range(2, left - 2);
      }
      out.emplace_back((int)a, (int)b, r.minY, r.maxY, k == 0 ? r.orientation : g.pick(rowOr));
      a = b + (k + 1 < pieces && g.chance(1, 3) ? unit * g.range(1, 2) : 0);
      if (a >= r.maxX) break;
    }
  }
  c.setRows(out);
}

// ---- facts about a circuit used by the oracles (independent of the library's row code) ----
struct Facts {
  int H = 0;
  long long freeWidth = 0, movArea = 0, sumW = 0, maxW = 0;
  int nSeg = 0, nMov = 0, nMulti = 0, nTurned = 0, nPol = 0, nFixedObs = 0;
  bool allRowHigh = true, allAny = true;
  bool infeasible() const { return movArea > freeWidth * H; }
  bool trivial() const { return nMov > 0 ? (allRowHigh && allAny && sumW <= freeWidth - (long long)nSeg * maxW) : true; }
  double util() const { return freeWidth > 0 ? (double)movArea / ((double)freeWidth * H) : 9.9; }
};

inline Facts facts(const Circuit &c) {
  Facts f;
  if (c.nbRows() == 0) return f;
  f.H = c.rows()[0].height();
  for (const Row &r : c.rows())
    for (auto &s : vc::freeSegments(c, r)) { f.freeWidth += s.hi - s.lo; f.nSeg++; }
  for (int i = 0; i < c.nbCells(); ++i) {
    if (c.isFixed(i)) { if (c.isObstruction(i)) f.nFixedObs++; continue; }
    Rectangle p = c.placement(i);
    f.nMov++;
    f.movArea += (long long)p.width() * p.height();
    f.sumW += p.width();
    f.maxW = std::max<long long>(f.maxW, p.width());
    if (p.height() != f.H) { f.allRowHigh = false; f.nMulti++; }
    if (c.cellRowPolarity()[i] != CellRowPolarity::ANY) { f.allAny = false; f.nPol++; }
    if (isTurn(c.orientation(i))) f.nTurned++;
  }
  return f;
}

// ---- directed generator: rows + obstructions first, then cells sized against the free width ----
// mode 0: trivial-success instance at or just under the bound   Σw ≤ free − #seg·maxW
// mode 1: row-high cells filling the free width exactly (100 % utilisation)
// mode 2: one unit more than the free area (must throw)
// mode 3: multi-row cells covering every row completely plus one row-high cell (must throw)
inline Circuit genDirected(vh::Rng &g, int mode, long long S = 1) {
  int H = g.range(1, 6);
  int nRows = mode == 3 ? g.range(2, 3) : g.range(1, 5);
  int x0 = g.range(-10, 10), y0 = g.range(-10, 10);
  std::vector<Row> rows;
  static const std::vector<CellOrientation> rowOr = {CellOrientation::N, CellOrientation::S, CellOrientation::FN, CellOrientation::FS};
  int y = y0;
  int W3 = g.range(2, 6);
  for (int r = 0; r < nRows; ++r) {
    if (mode != 3 && g.chance(1, 6)) y += H;
    int a = x0 + (mode != 3 && g.chance(1, 3) ? g.range(-3, 3) : 0);
    int b = mode == 3 ? a + W3 : a + g.range(3, 24);
    CellOrientation ro = g.pick(rowOr);
    if (mode != 3 && g.chance(1, 4) && b - a >= 5) {
      int m1 = g.range(a + 1, b - 2), m2 = g.range(m1, std::min(b - 1, m1 + 2));
      rows.emplace_back(a * S, m1 * S, y * S, (y + H) * S, ro);
      rows.emplace_back(m2 * S, b * S, y * S, (y + H) * S, g.pick(rowOr));
    } else rows.emplace_back(a * S, b * S, y * S, (y + H) * S, ro);
    y += H;
  }
  struct C { int w, h, x, y; CellOrientation o; bool fixed, obs; CellRowPolarity pol; };
  std::vector<C> cells;
  int nf = mode == 3 ? 0 : g.range(0, 2);
  for (int i = 0; i < nf; ++i) {
    C c;
    c.fixed = true; c.obs = g.chance(3, 4); c.pol = CellRowPolarity::ANY; c.o = CellOrientation::N;
    c.w = g.range(1, 4); c.h = g.range(1, 2 * H); c.x = g.range(x0 - 2, x0 + 20); c.y = g.range(y0 - H, y);
    cells.push_back(c);
  }
  // free width with these obstructions
  Circuit tmp(nf);
  {
    std::vector<int> w, h, xs, ys; std::vector<bool> fx, ob; std::vector<CellOrientation> orr;
    for (auto &c : cells) { w.push_back(c.w * S); h.push_back(c.h * S); xs.push_back(c.x * S); ys.push_back(c.y * S); fx.push_back(true); ob.push_back(c.obs); orr.push_back(c.o); }
    tmp.setCellWidth(w); tmp.setCellHeight(h); tmp.setCellX(xs); tmp.setCellY(ys); tmp.setCellIsFixed(fx); tmp.setCellIsObstruction(ob); tmp.setCellOrientation(orr);
    tmp.setRows(rows);
  }
  Facts f0 = facts(tmp);
  long long freeW = f0.freeWidth / S;
  auto addMov = [&](int pw, int rowsHigh, bool anyPol) {
    C c;
    c.fixed = false; c.obs = false;
    c.pol = anyPol ? CellRowPolarity::ANY : (g.chance(1, 2) ? CellRowPolarity::SAME : CellRowPolarity::OPPOSITE);
    c.o = (anyPol && g.chance(1, 3)) ? (CellOrientation)g.range(0, 7) : vc::pickUnturned(g);
    int ph = rowsHigh * H;
    bool turn = isTurn(c.o);
    c.w = turn ? ph : pw; c.h = turn ? pw : ph;
    if (g.chance(1, 8)) { c.x = g.range(-100, 100); c.y = g.range(-100, 100); }
    else { c.x = g.range(x0 - 4, x0 + 24); c.y = g.range(y0 - 3, y + 2); }
    cells.push_back(c);
  };
  if (mode == 0) {
    int maxW = g.range(1, 4);
    long long budget = freeW - (long long)f0.nSeg * maxW - (g.chance(1, 2) ? 0 : g.range(0, 3));
    bool first = true;
    while (budget > 0) {
      int pw = first ? std::min<long long>(maxW, budget) : g.range(1, std::min<long long>(maxW, budget));
      first = false;
      addMov(pw, 1, true);
      budget -= pw;
    }
  } else if (mode == 1 || mode == 2) {
    long long budget = freeW + (mode == 2 ? 1 : 0);
    bool unit = g.chance(1, 2);
    while (budget > 0) {
      int pw = unit ? 1 : g.range(1, std::min<long long>(4, budget));
      addMov(pw, 1, g.chance(3, 4));
      budget -= pw;
    }
  } else {
    // nRows rows of width W3 stacked without gaps: cover with cells nRows high
    int left = W3;
    while (left > 0) { int pw = g.range(1, left); addMov(pw, nRows, true); left -= pw; }
    addMov(g.range(1, 2), 1, true);
  }
  for (size_t i = cells.size(); i > 1; --i) std::swap(cells[i - 1], cells[g.range(0, i - 1)]);
  int n = cells.size();
  Circuit circ(n);
  std::vector<int> w(n), h(n), xs(n), ys(n); std::vector<bool> fx(n), ob(n); std::vector<CellOrientation> orr(n); std::vector<CellRowPolarity> pol(n);
  for (int i = 0; i < n; ++i) {
    w[i] = cells[i].w * S; h[i] = cells[i].h * S; xs[i] = cells[i].x * S; ys[i] = cells[i].y * S;
    fx[i] = cells[i].fixed; ob[i] = cells[i].obs; orr[i] = cells[i].o; pol[i] = cells[i].pol;
  }
  circ.setCellWidth(w); circ.setCellHeight(h); circ.setCellX(xs); circ.setCellY(ys);
  circ.setCellIsFixed(fx); circ.setCellIsObstruction(ob); circ.setCellOrientation(orr); circ.setCellRowPolarity(pol);
  circ.setRows(rows);
  return circ;
}

// legalization parameters over the whole accepted range
inline LParams genLParams(vh::Rng &g, bool wideWidth) {
  LParams l;
  int m = g.range(0, 9);
  if (m < 3) return l;  // defaults 0.2 / -1.0 / 0.0 (every effort gives these)
  static const std::vector<double> odd = {0.3, 0.77, 0.999, 1e-3, 0.5000001, 1.0 / 3};
  if (g.chance(1, 4)) l.ow = g.pick(odd); else l.ow = g.range(0, 8) / 8.0;
  if (wideWidth) {
    int k = g.range(0, 5);
    if (k == 0) l.ow = -1.0; else if (k == 1) l.ow = 2.0; else if (k == 2) l.ow = -g.range(1, 8) / 8.0;
    else if (k == 3) l.ow = 1.0 + g.range(1, 8) / 8.0; else if (k == 4) l.ow = g.chance(1, 2) ? 1.7 : -0.3;
  }
  int hk = g.range(0, 5);
  if (hk == 0) l.oh = 0.0; else if (hk == 1) l.oh = g.range(-8, 16) / 8.0; else if (hk == 2) l.oh = g.pick(odd) * (g.chance(1, 2) ? -1 : 1);
  else if (hk == 3) l.oh = g.range(-100, 100); else l.oh = -1.0;
  int yk = g.range(0, 4);
  if (yk == 0) l.oy = 0.0; else if (yk == 1) l.oy = g.range(-8, 8) / 40.0; else if (yk == 2) l.oy = g.chance(1, 2) ? 0.2 : -0.2;
  else if (yk == 3) l.oy = g.range(-12, 12) / 64.0; else l.oy = g.pick(odd) * 0.2;
  return l;
}

}  // namespace lg
