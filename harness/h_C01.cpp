// C01 — correspondence + direct oracle for Circuit::legalize (whole pipeline).
//
// Every case is a circuit of the C01 domain plus legalization parameters.  The real code runs in a
// forked child (vh::isolated): LegalizerBase::computeCellOrder through a subclass (sub-stream
// `order`, ties the binary32 key to the model's f32), then Circuit::legalize.
//
// Direct oracle (independent code, vc::checkLegal / lg::facts):
//   * normal return  -> the placement is legal (row boundary, every strip inside one free segment,
//     no overlap); the polarity->orientation rule belongs to C04 and is only counted here;
//   * movable area > free area (or invalid legalization parameters) -> must throw;
//   * trivial-success instances (row-high, polarity ANY, Σw ≤ Σ free − #segments·maxW) -> must not throw;
//   * throw -> the circuit is unchanged;
//   * the child never aborts / trips a sanitizer.
// One case in three runs the measured call on an object with a PAST (lg::runLegalize with a lg::Past): the same
// answers are demanded, because the property is about the circuit, not about how the object reached that state.
// Family: something remembered inside the Circuit (a memoised computeRows()) that SOME setter forgets to drop.  Three kinds
// of past: several attribute classes differ and the object was legalized ("mixed"); exactly ONE class differs after a
// query-only past, so that one setter (setCellOrientation of a turned fixed macro, setCellX alone, setCellY alone,
// setCellWidth, ..., setRows, or setupRows / setSolution when they can produce the state) is the sole restorer; and "eco":
// the case IS the result of the past's legalize plus one edit through one setter (legalize, edit, legalize again).
// One random case in five has its rows laid out by Circuit::setupRows itself (so that setupRows can be a restorer), and
// one case in four lists its rows in another order than bottom-up / left to right (family: code relying on a row order
// it does not, or only partially, establish; the model sorts like LegalizerBase does, so the answers must not change).
#include "legalize_common.hpp"

using namespace coloquinte;

struct Runner {
  vh::Out &out;
  explicit Runner(vh::Out &o) : out(o) {}

  void run(const std::string &id, const Circuit &circ, const lg::LParams &lp, const std::string &stream, const lg::Past *prior = nullptr) {
    std::string caseTxt = lg::caseText(circ, lp);
    // what a failure records (and --replay reads back): the case, and the object's past when there is one
    std::string text = caseTxt + (prior ? lg::pastText(*prior, lp) : std::string());
    out.evaluations++;
    out.ops << "case " << id << "\n" << caseTxt << "order\nlegalize\n";
    out.impl << "case " << id << "\n";
    lg::Facts f = lg::facts(circ);
    bool valid = lg::paramsValid(lp);
    lg::RunResult r = lg::runLegalize(circ, lp, true, prior);
    if (prior) lg::countPast(out, *prior, r);
    if (r.diag.find("history-restore-mismatch") != std::string::npos) out.fail(id, "harness: the setters did not bring the reused object to the public state of the case", text);
    if (r.status != "ok" || r.answer.empty()) {
      out.impl << r.order << "\n" << "crash:" << r.status << "\n";
      out.fail(id, "Circuit::legalize did not return or throw: child " + r.status + " " + r.diag.substr(0, 300), text);
      out.count("outcome_crash");
      return;
    }
    out.impl << r.order << "\n" << r.answer << "\n";
    bool threw = r.answer.rfind("throw:", 0) == 0;
    // ---- oracle
    if (threw) {
      if (r.answer != "throw:runtime_error") out.fail(id, "unexpected exception class " + r.answer, text);
      if (!r.unchanged) out.fail(id, "circuit modified although legalize threw", text);
      if (valid && f.trivial()) out.fail(id, "legalize threw on a trivial-success instance", text);
    } else {
      if (!valid) out.fail(id, "legalize accepted invalid legalization parameters", text);
      if (!r.legal.empty()) out.fail(id, "illegal placement returned: " + r.legal, text);
      if (f.infeasible()) out.fail(id, "legalize returned although movable area exceeds the free area", text);
      if (r.legal.empty() && !r.orientMsg.empty()) {
        out.count("note_c04_orientation_rule_mismatch");
        if (out.notes.size() < 3) out.notes.push_back("positions legal but orientation rule (C04) violated in case " + id + ": " + r.orientMsg);
      }
    }
    // ---- distribution
    out.count("stream_" + stream);
    out.count(threw ? (valid ? "outcome_throw" : "outcome_throw_invalid_params") : "outcome_ok");
    if (f.infeasible()) out.count("class_infeasible");
    if (valid && f.trivial() && f.nMov > 0) out.count("class_trivial_success");
    int dec = std::min(11, (int)(f.util() * 10));
    char b[32]; snprintf(b, sizeof b, "util_%02d", dec);
    out.count(b);
    out.count("cells_movable", f.nMov);
    out.count("cells_multirow", f.nMulti);
    out.count("cells_turned", f.nTurned);
    out.count("cells_polarised", f.nPol);
    out.count("fixed_obstructions", f.nFixedObs);
    if (f.nMulti > 0 && f.nTurned > 0) out.count("has_turned_and_multirow");
    if (f.nSeg > circ.nbRows()) out.count("has_cut_row");
    if (lp.ow < 0 || lp.ow > 1) out.count("params_ow_outside_unit");
    if (lp.ow != 0.2 || lp.oh != -1.0 || lp.oy != 0.0) out.count("params_nondefault");
    bool moved = threw || r.answer != vc::solutionString(circ);
    if (f.nMov >= 2 && moved) out.nontrivial(vh::hashStr(caseTxt));
    out.sample("case " + id + " " + stream + ": " + std::to_string(f.nMov) + " movable, util " + b + " -> " + r.answer.substr(0, 60));
  }
};

int main(int argc, char **argv) {
  vh::Args a = vh::parseArgs(argc, argv);
  vh::Out out(a.out);
  out.rule = "a case = circuit of the C01 domain + legalization parameters; non-trivial = at least two movable cells and "
             "(legalization moved something or threw); distinct by the canonical case text. One case in three runs on an object "
             "with a past (history_* counters: class that differs, what the object did, which setters restored it, sole restorer); "
             "rows_from_setupRows / rows_listed_* count the cases whose rows come from setupRows or are listed out of order";
  Runner r(out);
  if (!a.replay.empty()) {
    Circuit c(0);
    lg::LParams lp;
    std::string txt = lg::loadCaseFile(a.replay);
    lg::Past past;
    bool hasPast = false;
    if (lg::parseCaseWithPast(txt, c, lp, past, hasPast)) {  // with "prior": a case on an object with a past
      if (hasPast) r.run("replay", c, lp, "replay+hist", &past);
      else r.run("replay", c, lp, "replay");
    }
    out.finish();
    return 0;
  }
  long long k = 0;
  if (!a.corpus.empty()) {
    for (int i = 0; i < 200; ++i) {
      std::string p = a.corpus + "/case" + std::to_string(i) + ".txt";
      if (!std::ifstream(p).good()) continue;
      Circuit c(0);
      lg::LParams lp;
      if (lg::parseCase(lg::loadCaseFile(p), c, lp)) r.run("c" + std::to_string(k++), c, lp, "corpus");
    }
  }
  long long n = a.thorough() ? 30000 : (a.search() ? 20000 : 2000);
  for (long long i = 0; i < n; ++i) {
    if (a.only >= 0 && i != a.only) continue;
    vh::Rng g = vh::Rng::forCase(a.seed, i);
    int kind = i % 10;
    std::string stream;
    Circuit c(0);
    // legalization parameters: whole accepted range (incl. orderingWidth in [-1,2]); 1 in 40 invalid
    lg::LParams lp = lg::genLParams(g, g.chance(1, 3));
    if (g.chance(1, 40)) {
      int w = g.range(0, 3);
      if (w == 0) lp.ow = 2.5; else if (w == 1) lp.ow = -1.25; else if (w == 2) lp.oy = 0.25; else lp.costModel = g.range(1, 5);
    }
    if (kind < 6) {
      vc::GenOpts o;
      int mix = g.range(0, 7);  // the 8 option mixes
      o.multiRow = mix & 1; o.turned = mix & 2; o.polarities = mix & 4;
      o.fixedCells = !g.chance(1, 4); o.splitRows = !g.chance(1, 4); o.nets = g.chance(1, 2);
      if (a.thorough() && g.chance(1, 3)) { o.maxCells = 60; o.maxRows = 12; }
      static const std::vector<long long> scales = {1, 1, 1, 1, 3, 1000, 4096};
      o.scale = g.pick(scales);  // |coordinate| <= 200*4096 + ... < 2^20
      o.maxUtil = 1.25;
      c = vc::genCircuit(g, o);
      stream = "random_mix" + std::to_string(mix) + (o.scale > 1 ? "_scaled" : "");
    } else {
      int mode = kind - 6;
      long long S = g.chance(1, 5) ? 1000 : 1;
      c = lg::genDirected(g, mode, S);
      static const char *nm[] = {"directed_trivial", "directed_full", "directed_overfull", "directed_macro_cover"};
      stream = nm[mode];
    }
    // one case in eight lives far from the origin (offset up to 2^26: binary32 holds integers only up to 2^24, and the
    // ordering key is computed in binary32 -- the model rounds the same way, and legality must not depend on it)
    if (i % 8 == 3) { vc::translate(c, g.range(-(1ll << 26), 1ll << 26), g.range(-(1ll << 26), 1ll << 26)); stream += "+far"; }
    // rows laid out by the library's own setupRows over the same area (random cases only: the directed ones are sized
    // against their rows); stays in the domain (uniform, disjoint rows) and lets setupRows be the restoring call below
    if (kind < 6 && c.nbRows() > 0 && g.chance(1, 5)) {
      c.setupRows(c.computePlacementArea(), c.rows_[0].height(), g.chance(2, 3), g.chance(1, 2));
      out.count("rows_from_setupRows");
    } else if (g.chance(1, 4)) {
      // the same rows listed in another order (the free width, hence the directed classes, do not depend on it)
      int m = g.range(0, 4);
      lg::relistRows(g, c, m);
      out.count(std::string("rows_listed_") + lg::rowListingName(m));
    }
    // one case in three runs on an object with a past
    if (g.chance(1, 3) && c.nbCells() > 0) {
      bool done = false;
      if (g.chance(1, 4)) {
        // "eco": legalize, ONE edit through one setter, legalize again -- the case is the result of the past's own
        // legalize with one attribute class changed, so that setter is the only call between the two legalizations
        lg::RunResult r0 = lg::runLegalize(c, lp, false);
        Circuit t(0);
        lg::LParams dummy;
        if (r0.status == "ok" && r0.answer.rfind("sol", 0) == 0 && lg::parseCase(r0.after + lg::paramsLine(lp) + "\n", t, dummy) && t.nbCells() == c.nbCells()) {
          Circuit after = c;
          after.setCellX(t.cellX_); after.setCellY(t.cellY_); after.setCellOrientation(t.cellOrientation_);
          int cls = lg::pickPastClass(g);
          lg::Past past;
          past.prior = c;
          past.did = g.chance(1, 2) ? 2 : 1;
          past.cls = std::string("eco_") + lg::pastClassName(cls);
          past.viaSolution = g.chance(1, 3);
          past.viaSetupRows = true;
          Circuit c2 = lg::mutateOneClass(g, after, cls);
          r.run(std::to_string(i), c2, lp, stream + "+hist", &past);
          done = true;
        }
      }
      if (!done) {
        lg::Past past = lg::genPast(g, c);
        r.run(std::to_string(i), c, lp, stream + "+hist", &past);
      }
    } else {
      r.run(std::to_string(i), c, lp, stream);
    }
  }
  out.finish();
  return 0;
}
