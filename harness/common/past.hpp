// Objects with a PAST for the end-to-end streams (C06 placeGlobal; C02 / C05 legalize + placeDetailed).
//
// Family addressed: state kept INSIDE a coloquinte::Circuit between calls — a memoised computeRows() /
// computePlacementArea() / hpwl() / rowHeight(), a "dirty" flag, bookkeeping of a previous call — that one of the
// public mutators forgets to refresh (e.g. Circuit::setupRows writing rows_ directly instead of going through
// setRows).  The properties quantify over circuits, not over how the object reached its state, so a placement call
// on an object that has LIVED must give exactly what it gives on a freshly built object with the same public state.
// A generator that builds a new Circuit per case never sees such state.
//
//   vc::genPast(g, circ)        a recipe (pure data, no library call on the object): a perturbed copy of circ's public
//                               state (ONE attribute class differing for about two thirds of the recipes: positions
//                               — fixed obstructions first —, orientations — turned macros first —, fixed /
//                               obstruction flags, sizes, rows, nets / weights, row polarities; nothing at all; or
//                               two or three classes at once), the cheap const observers a maintainer might memoise,
//                               and ONLY the setters needed to reach circ's state (a setter that happens to refresh
//                               some internal state must not mask another one that forgets to): setSolution or
//                               setCellX / setCellY / setCellOrientation, setCellIsFixed, setCellIsObstruction,
//                               setCellWidth, setCellHeight, setCellRowPolarity, setupRows (three times in four when
//                               circ's rows are exactly what setupRows produces) or setRows, setNetWeights / addNet /
//                               setNets.  When several setters are needed their order is random and the observers are
//                               called again between them half of the time (otherwise a setter that does invalidate
//                               would always hide one that does not).  Observers are never called after the last setter.
//   vc::livePast(text, circ)    executes the recipe: fresh object (constructor + setters) in the perturbed state,
//                               observers (exceptions swallowed: the perturbed state may have rows of several heights),
//                               setters; verifies through the getters (vc::circuitString) that the public state is
//                               circ's.  Meant to run in the forked child of the measured call.  Returned by value: a
//                               copy carries any hidden member along.
//   vc::withPast(g, circ, &t)   genPast + livePast in one call (falls back to a plain copy if the restore check fails,
//                               with *t = "" ).
//   vc::setupShapedRows(g, c)   gives the (fresh) circuit the rows setupRows produces on the bounding box of its rows,
//                               so that a share of the cases can be restored through setupRows.
//
// Text of a recipe (appended to the `input` of an oracle failure, read back by --replay):
//   past <classes>
//   circuit ... end                      the state the object is first given (vc::dumpCircuit format)
//   obs <observer names>                 computeRows computePlacementArea hpwl rowHeight check
//   mut <setter> <complete arguments>    vhist::Mut::text
//   mut2 setNetWeights <n> {<mant> <exp2>}*   |   mut2 setNets <n> {<mant> <exp2> <pins> {<cell> <xo> <yo>}*}*
//   endpast
#pragma once
#include "common/history.hpp"

namespace vc {
using namespace coloquinte;

struct Past {
  vhist::State init;
  std::vector<std::string> steps;  // "obs ..." / "mut ..." / "mut2 ..." lines in order
  std::string classes;             // which attribute classes differ, '+'-joined ("none" if nothing does)
  std::vector<std::string> setters;  // names of the setters used (for the counters)
  std::string text() const {
    std::string s = "past " + classes + "\n" + vhist::stateText(init);
    for (auto &l : steps) s += l + "\n";
    return s + "endpast\n";
  }
};

// rows == what Circuit::setupRows(Rectangle(x1,x2,y1,y2), H, alt, init) produces?  (N for "true", FS otherwise; rows
// bottom-up).  Fills the arguments (maxY = top of the last row; anything up to H-1 above it gives the same rows).
struct SetupArgs { int x1, x2, y1, y2, H; bool alt, init; };
inline bool setupShaped(const std::vector<Row> &rows, SetupArgs &a) {
  if (rows.empty()) return false;
  a.x1 = rows[0].minX; a.x2 = rows[0].maxX; a.y1 = rows[0].minY; a.H = rows[0].maxY - rows[0].minY;
  if (a.H <= 0) return false;
  auto isN = [](const Row &r) { return r.orientation == CellOrientation::N; };
  auto ok = [](const Row &r) { return r.orientation == CellOrientation::N || r.orientation == CellOrientation::FS; };
  a.init = isN(rows[0]);
  a.alt = rows.size() >= 2 && isN(rows[1]) != a.init;
  for (size_t i = 0; i < rows.size(); ++i) {
    const Row &r = rows[i];
    if (!ok(r) || r.minX != a.x1 || r.maxX != a.x2 || r.minY != a.y1 + (long long)i * a.H || r.maxY != r.minY + a.H) return false;
    bool wantN = a.alt ? (i % 2 == 0 ? a.init : !a.init) : a.init;
    if (isN(r) != wantN) return false;
  }
  a.y2 = a.y1 + (int)rows.size() * a.H;
  return true;
}

// The fresh circuit gets the rows setupRows produces on the bounding box of its rows (same row height; gaps between rows
// and narrower rows are filled: the free area only grows, the cells keep their sizes).  false = left unchanged.
inline bool setupShapedRows(vh::Rng &g, Circuit &c) {
  if (c.nbRows() == 0) return false;
  int H = c.rows()[0].maxY - c.rows()[0].minY;
  if (H <= 0) return false;
  long long x1 = LLONG_MAX, x2 = LLONG_MIN, y1 = LLONG_MAX, y2 = LLONG_MIN;
  for (const Row &r : c.rows()) {
    if (r.maxY - r.minY != H) return false;
    x1 = std::min<long long>(x1, r.minX); x2 = std::max<long long>(x2, r.maxX);
    y1 = std::min<long long>(y1, r.minY); y2 = std::max<long long>(y2, r.maxY);
  }
  if ((y2 - y1) % H != 0) return false;
  c.setupRows(Rectangle((int)x1, (int)x2, (int)y1, (int)y2), H, g.chance(2, 3), g.chance(1, 2));
  return true;
}

namespace pastdetail {

inline std::string netsLine(const std::vector<vhist::NetSpec> &nets) {
  std::ostringstream os;
  os << "mut2 setNets " << nets.size();
  for (auto &nt : nets) {
    os << " " << exactDouble(nt.weight) << " " << nt.cells.size();
    for (size_t p = 0; p < nt.cells.size(); ++p) os << " " << nt.cells[p] << " " << nt.xo[p] << " " << nt.yo[p];
  }
  return os.str();
}
inline std::string weightsLine(const std::vector<vhist::NetSpec> &nets) {
  std::ostringstream os;
  os << "mut2 setNetWeights " << nets.size();
  for (auto &nt : nets) os << " " << exactDouble(nt.weight);
  return os.str();
}
inline bool sameNet(const vhist::NetSpec &a, const vhist::NetSpec &b, bool withWeight) {
  return a.cells == b.cells && a.xo == b.xo && a.yo == b.yo && (!withWeight || a.weight == b.weight);
}
inline bool sameRows(const std::vector<Row> &a, const std::vector<Row> &b) {
  if (a.size() != b.size()) return false;
  for (size_t i = 0; i < a.size(); ++i)
    if (a[i].minX != b[i].minX || a[i].maxX != b[i].maxX || a[i].minY != b[i].minY || a[i].maxY != b[i].maxY || a[i].orientation != b[i].orientation)
      return false;
  return true;
}

struct Box { long long x1, x2, y1, y2; int H; };
inline Box boxOf(const vhist::State &s) {
  Box b{0, 20, 0, 12, 4};
  if (s.rows.empty()) return b;
  b = Box{LLONG_MAX, LLONG_MIN, LLONG_MAX, LLONG_MIN, std::max(1, s.rows[0].maxY - s.rows[0].minY)};
  for (const Row &r : s.rows) {
    b.x1 = std::min<long long>(b.x1, r.minX); b.x2 = std::max<long long>(b.x2, r.maxX);
    b.y1 = std::min<long long>(b.y1, r.minY); b.y2 = std::max<long long>(b.y2, r.maxY);
  }
  return b;
}

// cells to change: 1..~n/3, those for which `prefer` holds two times in three when there are any
template <class F>
std::vector<int> someCells(vh::Rng &g, int n, F prefer) {
  std::vector<int> pr, r;
  for (int i = 0; i < n; ++i) if (prefer(i)) pr.push_back(i);
  int k = g.range(1, std::max(1, n / 3));
  for (int j = 0; j < k; ++j) r.push_back(!pr.empty() && g.chance(2, 3) ? g.pick(pr) : (int)g.range(0, n - 1));
  return r;
}

// one attribute class of s made different from what it is; false = this class cannot differ here (no cell / no net ...)
inline bool perturb(vh::Rng &g, vhist::State &s, const std::string &cls) {
  const int n = s.n();
  Box b = boxOf(s);
  const long long W = std::max<long long>(1, b.x2 - b.x1), Ht = std::max<long long>(1, b.y2 - b.y1);
  auto fixedObs = [&](int i) { return s.fixed[i] && s.obs[i]; };
  if (cls == "positions") {
    if (n == 0) return false;
    for (int i : someCells(g, n, fixedObs)) {
      int what = g.range(0, 2);
      long long nx = s.x[i], ny = s.y[i];
      if (what != 1) nx = g.chance(1, 3) ? s.x[i] + (g.chance(1, 2) ? 1 : -1) * g.range(1, W) : g.range(b.x1 - 4, b.x2 + 2);
      if (what != 0) ny = (!s.rows.empty() && g.chance(1, 2)) ? g.pick(s.rows).minY : g.range(b.y1 - b.H, b.y2);
      if (nx == s.x[i] && ny == s.y[i]) nx += 1 + g.range(0, W / 2);
      s.x[i] = (int)nx; s.y[i] = (int)ny;
    }
    return true;
  }
  if (cls == "orientations") {
    if (n == 0) return false;
    // a turned macro: cells whose two sides differ (their footprint changes with the turn), obstructions first
    for (int i : someCells(g, n, [&](int i) { return s.w[i] != s.h[i] && s.fixed[i]; })) {
      int o = (int)s.orient[i];
      int turnedNow = vhist::turned(s.orient[i]) ? 1 : 0;
      int no = g.chance(2, 3) ? (turnedNow ? (int)g.range(0, 3) : (int)g.range(4, 7)) : (int)g.range(0, 7);  // N S FN FS | E W FW FE
      if (no == o) no = (o + 4) % 8;
      s.orient[i] = (CellOrientation)no;
    }
    return true;
  }
  if (cls == "flags") {
    if (n == 0) return false;
    int which = g.range(0, 2);  // fixed / obstruction / both
    for (int i : someCells(g, n, fixedObs)) {
      bool f = s.fixed[i], o = s.obs[i];
      if (which != 1) f = !f;
      if (which != 0) o = !o;
      s.fixed[i] = f; s.obs[i] = o;
    }
    return true;
  }
  if (cls == "sizes") {
    if (n == 0) return false;
    int which = g.range(0, 2);
    for (int i : someCells(g, n, fixedObs)) {
      if (which != 1) { int d = g.range(1, 6); s.w[i] = (s.w[i] > d && g.chance(1, 2)) ? s.w[i] - d : s.w[i] + d; }
      if (which != 0) { int d = g.range(1, 2) * b.H; s.h[i] = (s.h[i] > d && g.chance(1, 2)) ? s.h[i] - d : s.h[i] + d; }
    }
    return true;
  }
  if (cls == "polarities") {
    if (n == 0) return false;
    for (int i : someCells(g, n, [](int) { return false; })) s.pol[i] = (CellRowPolarity)(((int)s.pol[i] + (int)g.range(1, 4)) % 5);
    return true;
  }
  if (cls == "rows") {
    std::vector<Row> old = s.rows;
    for (int attempt = 0; attempt < 8; ++attempt) {
      s.rows = old;
      int v = s.rows.empty() ? 5 : (int)g.range(0, 11);
      if (v <= 3) {  // the block of rows somewhere else (overlapping the real one or not): the bounding box differs
        long long dx = 0, dy = 0;
        if (v != 1) dx = (g.chance(1, 2) ? 1 : -1) * g.range(std::max<long long>(1, W / 4), 2 * W + 2);
        if (v != 0) dy = (g.chance(1, 2) ? 1 : -1) * (long long)b.H * g.range(1, 2 * std::max<long long>(1, Ht / b.H));
        for (Row &r : s.rows) { r.minX += dx; r.maxX += dx; r.minY += dy; r.maxY += dy; }
      } else if (v == 4) {  // wider / narrower
        long long l = g.range(-W, W / 3), r2 = g.range(-W / 3, W);
        for (Row &r : s.rows) { r.minX -= (int)l; r.maxX += (int)r2; if (r.maxX <= r.minX) r.maxX = r.minX + 1; }
      } else if (v == 5) {  // rows added on top / below (or the first rows ever)
        int k = g.range(1, 3);
        for (int j = 0; j < k; ++j) {
          Box bb = boxOf(s);
          bool top = g.chance(1, 2);
          int y = (int)(top ? bb.y2 : bb.y1 - bb.H);
          s.rows.insert(top ? s.rows.end() : s.rows.begin(), Row((int)bb.x1, (int)bb.x2, y, y + bb.H, g.chance(1, 2) ? CellOrientation::N : CellOrientation::FS));
        }
      } else if (v == 6 || v == 7) {  // rows dropped
        int k = g.range(1, std::max<int>(1, (int)s.rows.size() - 1));
        for (int j = 0; j < k && s.rows.size() > (v == 6 ? 1u : 0u); ++j) s.rows.erase(s.rows.begin() + g.range(0, (long long)s.rows.size() - 1));
      } else if (v == 8) {  // other orientations
        static const std::vector<CellOrientation> ro = {CellOrientation::N, CellOrientation::S, CellOrientation::FN, CellOrientation::FS};
        for (Row &r : s.rows) if (g.chance(1, 2)) r.orientation = g.pick(ro);
      } else if (v == 9) {  // the same rows listed in another order
        for (size_t i = s.rows.size(); i > 1; --i) std::swap(s.rows[i - 1], s.rows[g.range(0, i - 1)]);
      } else if (v == 10) {  // one row of another extent
        Row &r = s.rows[g.range(0, (long long)s.rows.size() - 1)];
        r.minX += (int)g.range(-W / 2, W / 2); r.maxX += (int)g.range(-W / 2, W / 2);
        if (r.maxX <= r.minX) r.maxX = r.minX + 1;
      } else {  // another row height (rowHeight() differs; the rows stay disjoint)
        int y = (int)b.y1, nh = b.H + (int)g.range(1, 3);
        for (Row &r : s.rows) { r.minY = y; r.maxY = y + nh; y += nh; }
      }
      if (!sameRows(s.rows, old)) return true;
    }
    s.rows = old;
    return false;
  }
  if (cls == "nets") {
    std::vector<vhist::NetSpec> old = s.nets;
    int v = s.nets.empty() ? 3 : (int)g.range(0, 5);
    if (v == 0 || v == 1) {  // weights only
      bool any = false;
      for (auto &nt : s.nets) if (g.chance(1, 2)) { nt.weight = nt.weight + (float)g.range(1, 6) / 2.0f; any = true; }
      if (!any) s.nets[0].weight += 1.0f;
    } else if (v == 2) {  // the last nets are not there yet
      int k = g.range(1, (long long)s.nets.size());
      s.nets.resize(s.nets.size() - k);
    } else if (v == 3) {  // one net more
      if (n == 0) return false;
      vhist::NetSpec nt;
      int deg = g.range(1, 4);
      for (int d = 0; d < deg; ++d) {
        int c = g.range(0, n - 1);
        nt.cells.push_back(c); nt.xo.push_back((int)g.range(-2, s.w[c] + 2)); nt.yo.push_back((int)g.range(-2, s.h[c] + 2));
      }
      nt.weight = g.chance(1, 2) ? 1.0f : 2.5f;
      s.nets.insert(s.nets.begin() + g.range(0, (long long)s.nets.size()), nt);
    } else if (v == 4) {  // pins elsewhere
      for (auto &nt : s.nets)
        if (g.chance(1, 2))
          for (size_t p = 0; p < nt.cells.size(); ++p) {
            if (g.chance(1, 3)) nt.cells[p] = g.range(0, n - 1);
            if (g.chance(1, 2)) nt.xo[p] += (int)g.range(-3, 3);
            if (g.chance(1, 2)) nt.yo[p] += (int)g.range(-3, 3);
          }
      bool same = true;
      for (size_t i = 0; i < old.size(); ++i) if (!sameNet(old[i], s.nets[i], true)) same = false;
      if (same) s.nets[0].xo[0] += 1;
    } else {  // no net at all
      s.nets.clear();
    }
    return true;
  }
  return false;
}

}  // namespace pastdetail

inline Past genPast(vh::Rng &g, const Circuit &circ) {
  using namespace pastdetail;
  Past p;
  const vhist::State T = vhist::snapshot(circ);
  p.init = T;
  SetupArgs sa;
  const bool shaped = setupShaped(T.rows, sa);
  // which classes differ
  std::vector<std::string> pool = {"positions", "positions", "positions", "orientations", "orientations", "flags", "flags",
                                   "sizes", "sizes", "rows", "rows", "rows", "rows", "nets", "nets", "polarities"};
  if (shaped) for (int i = 0; i < 5; ++i) pool.push_back("rows");  // restored through setupRows: the setter that bypasses setRows
  std::vector<std::string> want;
  int m = g.range(0, 19);
  if (m == 0) {
    // nothing differs: only the observers ran
  } else if (m <= 13) want.push_back(g.pick(pool));
  else {
    int k = g.range(2, 3);
    for (int j = 0; j < k; ++j) {
      std::string c = g.pick(pool);
      if (std::find(want.begin(), want.end(), c) == want.end()) want.push_back(c);
    }
  }
  for (auto &c : want)
    if (perturb(g, p.init, c)) p.classes += (p.classes.empty() ? "" : "+") + c;
  if (p.classes.empty()) p.classes = "none";
  const vhist::State &S = p.init;
  const int n = T.n();
  // the observers
  auto obsLine = [&]() {
    std::vector<std::string> o = {"computeRows"};
    for (const char *nm : {"computePlacementArea", "hpwl", "rowHeight", "check"}) if (g.chance(3, 4)) o.push_back(nm);
    if (g.chance(1, 4)) o.push_back("computeRows");
    for (size_t i = o.size(); i > 1; --i) std::swap(o[i - 1], o[g.range(0, i - 1)]);
    std::string l = "obs";
    for (auto &x : o) l += " " + x;
    return l;
  };
  p.steps.push_back(obsLine());
  // the needed setters, each group = the lines of one attribute group
  std::vector<std::vector<std::string>> groups;
  auto mutLine = [&](vhist::MK k, const std::vector<long long> &v) {
    vhist::Mut mu;
    mu.kind = k; mu.v = v;
    p.setters.push_back(vhist::mkName(k));
    return mu.text();
  };
  auto vec = [](const auto &a) { std::vector<long long> v; for (auto x : a) v.push_back((long long)x); return v; };
  bool dX = S.x != T.x, dY = S.y != T.y, dO = S.orient != T.orient;
  if (dX || dY || dO) {
    if (g.chance(1, 2)) {
      std::vector<long long> v;
      for (int i = 0; i < n; ++i) { v.push_back(T.x[i]); v.push_back(T.y[i]); v.push_back((int)T.orient[i]); }
      groups.push_back({mutLine(vhist::MK::SetSolution, v)});
    } else {
      if (dX) groups.push_back({mutLine(vhist::MK::SetCellX, vec(T.x))});
      if (dY) groups.push_back({mutLine(vhist::MK::SetCellY, vec(T.y))});
      if (dO) groups.push_back({mutLine(vhist::MK::SetCellOrientation, vec(T.orient))});
    }
  }
  if (S.fixed != T.fixed) groups.push_back({mutLine(vhist::MK::SetCellIsFixed, vec(T.fixed))});
  if (S.obs != T.obs) groups.push_back({mutLine(vhist::MK::SetCellIsObstruction, vec(T.obs))});
  if (S.w != T.w) groups.push_back({mutLine(vhist::MK::SetCellWidth, vec(T.w))});
  if (S.h != T.h) groups.push_back({mutLine(vhist::MK::SetCellHeight, vec(T.h))});
  if (S.pol != T.pol) groups.push_back({mutLine(vhist::MK::SetCellRowPolarity, vec(T.pol))});
  if (!sameRows(S.rows, T.rows)) {
    if (shaped && g.chance(3, 4)) {
      groups.push_back({mutLine(vhist::MK::SetupRows, {sa.x1, sa.x2, sa.y1, sa.y2 + g.range(0, sa.H - 1), sa.H, sa.alt ? 1 : 0, sa.init ? 1 : 0})});
    } else {
      vhist::Mut mu;
      mu.kind = vhist::MK::SetRows; mu.rows = T.rows;
      p.setters.push_back("setRows");
      groups.push_back({mu.text()});
    }
  }
  {
    bool same = S.nets.size() == T.nets.size(), sameButWeights = same;
    if (same)
      for (size_t i = 0; i < T.nets.size(); ++i) {
        if (!sameNet(S.nets[i], T.nets[i], true)) same = false;
        if (!sameNet(S.nets[i], T.nets[i], false)) sameButWeights = false;
      }
    bool prefix = S.nets.size() < T.nets.size();
    for (size_t i = 0; prefix && i < S.nets.size(); ++i) if (!sameNet(S.nets[i], T.nets[i], true)) prefix = false;
    if (same) {
    } else if (sameButWeights && g.chance(3, 4)) {
      p.setters.push_back("setNetWeights");
      groups.push_back({weightsLine(T.nets)});
    } else if (prefix && g.chance(3, 4)) {
      std::vector<std::string> ls;
      for (size_t i = S.nets.size(); i < T.nets.size(); ++i) {
        vhist::Mut mu;
        mu.kind = vhist::MK::AddNet; mu.net = T.nets[i];
        ls.push_back(mu.text());
      }
      p.setters.push_back("addNet");
      groups.push_back(ls);
    } else {
      p.setters.push_back("setNets");
      groups.push_back({netsLine(T.nets)});
    }
  }
  for (size_t i = groups.size(); i > 1; --i) std::swap(groups[i - 1], groups[g.range(0, i - 1)]);
  for (size_t i = 0; i < groups.size(); ++i) {
    for (auto &l : groups[i]) p.steps.push_back(l);
    if (i + 1 < groups.size() && g.chance(1, 2)) p.steps.push_back(obsLine());  // never after the last setter
  }
  return p;
}

// the "past ... endpast" block of a failure input ("" if there is none)
inline std::string pastBlock(const std::string &text) {
  size_t a = text.find("past ");
  while (a != std::string::npos && a > 0 && text[a - 1] != '\n') a = text.find("past ", a + 1);
  if (a == std::string::npos) return "";
  size_t e = text.find("endpast", a);
  if (e == std::string::npos) return "";
  return text.substr(a, e - a) + "endpast\n";
}

// Executes a recipe.  *err is set (and a plain copy of circ returned) when the text is malformed or the object does not
// end in circ's public state.
inline Circuit livePast(const std::string &pastText, const Circuit &circ, std::string *err) {
  if (err) err->clear();
  auto bad = [&](const std::string &w) { if (err) *err = w; return Circuit(circ); };
  std::vector<std::string> lines = vhist::splitLines(pastText);
  if (lines.empty() || lines[0].rfind("past", 0) != 0) return bad("not a past block");
  size_t pos = 1;
  vhist::State s0;
  if (!vhist::parseState(lines, pos, s0)) return bad("cannot parse the initial state of the past");
  if (s0.n() != circ.nbCells()) return bad("the past has another number of cells");
  Circuit c = vhist::rebuild(s0);
  long long sink = 0;
  for (; pos < lines.size(); ++pos) {
    const std::string &l = lines[pos];
    if (l == "endpast") break;
    if (l.empty()) continue;
    std::istringstream is(l);
    std::string kw;
    is >> kw;
    if (kw == "obs") {
      std::string nm;
      while (is >> nm) {
        try {
          if (nm == "computeRows") sink += (long long)c.computeRows().size();
          else if (nm == "computePlacementArea") sink += c.computePlacementArea().minX;
          else if (nm == "hpwl") sink += c.hpwl();
          else if (nm == "rowHeight") sink += c.rowHeight();
          else if (nm == "check") c.check();
          else return bad("unknown observer " + nm);
        } catch (const std::exception &) {}
      }
    } else if (kw == "mut") {
      vhist::Mut mu;
      if (!vhist::Mut::parse(l, mu)) return bad("cannot parse: " + l);
      try { mu.apply(c); } catch (const std::exception &e) { return bad(std::string("setter raised: ") + e.what() + " in: " + l.substr(0, 60)); }
    } else if (kw == "mut2") {
      std::string nm;
      size_t nn = 0;
      if (!(is >> nm >> nn)) return bad("cannot parse: " + l);
      try {
        if (nm == "setNetWeights") {
          std::vector<float> w;
          for (size_t i = 0; i < nn; ++i) { long long m; int e; if (!(is >> m >> e)) return bad("cannot parse: " + l); w.push_back((float)std::ldexp((double)m, e)); }
          c.setNetWeights(w);
        } else if (nm == "setNets") {
          std::vector<int> lim = {0}, pc, px, py;
          std::vector<float> w;
          for (size_t i = 0; i < nn; ++i) {
            long long m; int e; size_t np;
            if (!(is >> m >> e >> np)) return bad("cannot parse: " + l);
            w.push_back((float)std::ldexp((double)m, e));
            for (size_t q = 0; q < np; ++q) { int a, b2, d; if (!(is >> a >> b2 >> d)) return bad("cannot parse: " + l); pc.push_back(a); px.push_back(b2); py.push_back(d); }
            lim.push_back((int)pc.size());
          }
          c.setNets(lim, pc, px, py, w);
        } else return bad("unknown setter " + nm);
      } catch (const std::exception &e) { return bad(std::string("setter raised: ") + e.what() + " in: " + l.substr(0, 60)); }
    } else return bad("cannot parse: " + l);
  }
  (void)sink;
  if (circuitString(c) != circuitString(circ)) return bad("the object with a past does not end in the case's public state");
  return c;
}

inline Circuit withPast(vh::Rng &g, const Circuit &circ, std::string *pastText) {
  Past p = genPast(g, circ);
  std::string err, t = p.text();
  Circuit c = livePast(t, circ, &err);
  if (pastText) *pastText = err.empty() ? t : "";
  return c;
}

// counters of one recipe: <pfx>past_cases, <pfx>past_only_<class>, <pfx>past_differs_<class>, <pfx>past_restored_by_<setter>, ...
inline void countPast(vh::Out &out, const std::string &pfx, const Past &p) {
  out.count(pfx + "past_cases");
  {  // past_only_<class>: exactly this attribute class differs; past_differs_<class>: it differs (alone or not)
    std::vector<std::string> cl;
    std::istringstream is(p.classes);
    std::string c;
    while (std::getline(is, c, '+')) cl.push_back(c);
    if (cl.size() == 1) out.count(pfx + "past_only_" + cl[0]);
    else out.count(pfx + "past_several_classes");
    for (auto &x : cl) if (x != "none") out.count(pfx + "past_differs_" + x);
  }
  for (auto &s : p.setters) out.count(pfx + "past_restored_by_" + s);
  if (p.setters.size() == 1) out.count(pfx + "past_restored_by_exactly_one_setter");
  if (p.setters.size() == 1 && p.setters[0] == "setupRows") out.count(pfx + "past_restored_by_setupRows_alone");
  int obsBetween = 0;
  for (size_t i = 1; i < p.steps.size(); ++i) if (p.steps[i].rfind("obs", 0) == 0) ++obsBetween;
  if (obsBetween) out.count(pfx + "past_observers_between_setters");
}

}  // namespace vc
