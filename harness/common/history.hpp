// Object-history streams (C04, C15, C18): ONE coloquinte::Circuit object goes through a random sequence of
// public mutators interleaved with observed operations, so that state kept inside the object between calls
// (caches, flags) is exercised.  Reusable parts:
//
//   State / snapshot / rebuild   the observable state of a Circuit read through its getters, and a *freshly
//                                constructed* Circuit with the same observable state, built through the public
//                                setters only (Circuit(n), setCell*, setRows, addNet).  A copy-constructed
//                                Circuit would carry any hidden member along; the rebuilt twin cannot.
//   Mut / randomMut              one call of a public mutator with its complete arguments (text form, parser,
//                                apply) and a generator that derives a plausible call from the current state.
//   Step / History               the replay format: the initial state followed by `mut ...` / `obs ...` lines.
//   Plan                         random histories: rounds of [0..3 mutators] + one observation; the observation
//                                repeats the previous one about half of the time (same observation twice,
//                                observation -> one mutator -> same observation).
//   Tracker                      distribution counters: how many observations follow each kind of mutator.
//
// Text of a history (the `input` of an oracle failure, accepted by --replay of the three harnesses):
//   history
//   circuit ... end                      (vc::dumpCircuit format: the state the object is first given)
//   mut <name> <arguments>               (complete argument vectors, see Mut::text)
//   obs <property specific>
//   ...
//   endhistory
#pragma once
#include <climits>
#include <functional>
#include <map>
#include <memory>

#include "common/circuit.hpp"

namespace vhist {
using namespace coloquinte;

// --------------------------------------------------------------- observable state

struct NetSpec {
  float weight = 1.0f;
  std::vector<int> cells, xo, yo;
};

struct State {
  std::vector<int> w, h, x, y;
  std::vector<bool> fixed, obs;
  std::vector<CellOrientation> orient;
  std::vector<CellRowPolarity> pol;
  std::vector<Row> rows;
  std::vector<NetSpec> nets;
  int n() const { return (int)w.size(); }
};

inline State snapshot(const Circuit &c) {
  State s;
  s.w = c.cellWidth(); s.h = c.cellHeight(); s.x = c.cellX(); s.y = c.cellY();
  s.fixed = c.cellIsFixed(); s.obs = c.cellIsObstruction();
  s.orient = c.cellOrientation(); s.pol = c.cellRowPolarity();
  s.rows = c.rows();
  for (int n = 0; n < c.nbNets(); ++n) {
    NetSpec nt;
    nt.weight = c.netWeight(n);
    for (int p = 0; p < c.nbPinsNet(n); ++p) {
      nt.cells.push_back(c.pinCell(n, p));
      nt.xo.push_back(c.pinXOffsets_[c.netLimits_[n] + p]);  // raw offsets, as vc::dumpCircuit reads them
      nt.yo.push_back(c.pinYOffsets_[c.netLimits_[n] + p]);
    }
    s.nets.push_back(nt);
  }
  return s;
}

// A fresh object with the same observable state: constructor + public setters only.
inline Circuit rebuild(const State &s) {
  Circuit c(s.n());
  c.setCellWidth(s.w); c.setCellHeight(s.h); c.setCellX(s.x); c.setCellY(s.y);
  c.setCellIsFixed(s.fixed); c.setCellIsObstruction(s.obs);
  c.setCellOrientation(s.orient); c.setCellRowPolarity(s.pol);
  c.setRows(s.rows);
  for (const NetSpec &nt : s.nets) c.addNet(nt.cells, nt.xo, nt.yo, nt.weight);
  return c;
}

inline std::string stateText(const State &s) {  // == vc::circuitString(rebuild(s)), without going through the library
  std::ostringstream os;
  os << "circuit " << s.n() << "\n";
  for (int i = 0; i < s.n(); ++i)
    os << "cell " << s.w[i] << " " << s.h[i] << " " << s.x[i] << " " << s.y[i] << " " << (int)s.orient[i] << " " << (int)s.fixed[i]
       << " " << (int)s.obs[i] << " " << (int)s.pol[i] << "\n";
  for (const Row &r : s.rows) os << "row " << r.minX << " " << r.maxX << " " << r.minY << " " << r.maxY << " " << (int)r.orientation << "\n";
  for (const NetSpec &nt : s.nets) {
    os << "net " << vc::exactDouble(nt.weight) << " " << nt.cells.size();
    for (size_t p = 0; p < nt.cells.size(); ++p) os << " " << nt.cells[p] << " " << nt.xo[p] << " " << nt.yo[p];
    os << "\n";
  }
  os << "end\n";
  return os.str();
}

// Parses a `circuit ... end` block starting at or after lines[pos]; pos is advanced past `end`.
inline bool parseState(const std::vector<std::string> &lines, size_t &pos, State &s) {
  s = State();
  while (pos < lines.size() && lines[pos].rfind("circuit ", 0) != 0) ++pos;
  if (pos >= lines.size()) return false;
  int n = atoi(lines[pos].c_str() + 8);
  ++pos;
  bool ended = false;
  for (; pos < lines.size(); ++pos) {
    std::istringstream is(lines[pos]);
    std::string kw;
    is >> kw;
    if (kw == "cell") {
      long long a, b, c, d;
      int o, f, ob, p;
      if (!(is >> a >> b >> c >> d >> o >> f >> ob >> p)) return false;
      if (o < 0 || o > 9 || p < 0 || p > 4) return false;
      s.w.push_back(a); s.h.push_back(b); s.x.push_back(c); s.y.push_back(d);
      s.orient.push_back((CellOrientation)o); s.fixed.push_back(f != 0); s.obs.push_back(ob != 0); s.pol.push_back((CellRowPolarity)p);
    } else if (kw == "row") {
      int a, b, c, d, o;
      if (!(is >> a >> b >> c >> d >> o)) return false;
      s.rows.emplace_back(a, b, c, d, (CellOrientation)o);
    } else if (kw == "net") {
      long long m;
      int e, np;
      if (!(is >> m >> e >> np)) return false;
      NetSpec nt;
      nt.weight = (float)std::ldexp((double)m, e);
      for (int i = 0; i < np; ++i) {
        int c, px, py;
        if (!(is >> c >> px >> py)) return false;
        nt.cells.push_back(c); nt.xo.push_back(px); nt.yo.push_back(py);
      }
      s.nets.push_back(nt);
    } else if (kw == "end") {
      ended = true;
      ++pos;
      break;
    }
  }
  if (!ended || s.n() != n) return false;
  for (auto &nt : s.nets) for (int c : nt.cells) if (c < 0 || c >= n) return false;
  return true;
}

// --------------------------------------------------------------------- mutators

enum class MK { SetRows, SetupRows, SetCellX, SetCellY, SetCellWidth, SetCellHeight, SetCellIsFixed, SetCellIsObstruction,
                SetCellOrientation, SetCellRowPolarity, SetSolution, AddNet };

inline const char *mkName(MK k) {
  switch (k) {
    case MK::SetRows: return "setRows";
    case MK::SetupRows: return "setupRows";
    case MK::SetCellX: return "setCellX";
    case MK::SetCellY: return "setCellY";
    case MK::SetCellWidth: return "setCellWidth";
    case MK::SetCellHeight: return "setCellHeight";
    case MK::SetCellIsFixed: return "setCellIsFixed";
    case MK::SetCellIsObstruction: return "setCellIsObstruction";
    case MK::SetCellOrientation: return "setCellOrientation";
    case MK::SetCellRowPolarity: return "setCellRowPolarity";
    case MK::SetSolution: return "setSolution";
    case MK::AddNet: return "addNet";
  }
  return "?";
}

inline const std::vector<MK> &allKinds() {
  static const std::vector<MK> v = {MK::SetRows, MK::SetupRows, MK::SetCellX, MK::SetCellY, MK::SetCellWidth, MK::SetCellHeight,
                                    MK::SetCellIsFixed, MK::SetCellIsObstruction, MK::SetCellOrientation, MK::SetCellRowPolarity,
                                    MK::SetSolution, MK::AddNet};
  return v;
}

struct Mut {
  MK kind = MK::SetCellX;
  // SetupRows: minX maxX minY maxY rowHeight alternating initial; SetSolution: x y orient per cell;
  // the per-cell setters: the complete vector; SetRows / AddNet use `rows` / `net`
  std::vector<long long> v;
  std::vector<Row> rows;
  NetSpec net;

  // counter key: setupRows is split by its two flags
  std::string name() const {
    if (kind == MK::SetupRows && v.size() == 7) return "setupRows[alt=" + std::to_string(v[5]) + ",init=" + std::to_string(v[6]) + "]";
    return mkName(kind);
  }
  std::string text() const {
    std::ostringstream os;
    os << "mut " << mkName(kind);
    if (kind == MK::SetRows) {
      os << " " << rows.size();
      for (const Row &r : rows) os << " " << r.minX << " " << r.maxX << " " << r.minY << " " << r.maxY << " " << (int)r.orientation;
    } else if (kind == MK::AddNet) {
      os << " " << vc::exactDouble(net.weight) << " " << net.cells.size();
      for (size_t p = 0; p < net.cells.size(); ++p) os << " " << net.cells[p] << " " << net.xo[p] << " " << net.yo[p];
    } else {
      for (long long x : v) os << " " << x;
    }
    return os.str();
  }
  static bool parse(const std::string &line, Mut &m) {
    std::istringstream is(line);
    std::string kw, nm;
    if (!(is >> kw >> nm) || kw != "mut") return false;
    bool found = false;
    for (MK k : allKinds()) if (nm == mkName(k)) { m.kind = k; found = true; }
    if (!found) return false;
    m.v.clear(); m.rows.clear(); m.net = NetSpec();
    if (m.kind == MK::SetRows) {
      size_t n;
      if (!(is >> n)) return false;
      for (size_t i = 0; i < n; ++i) {
        int a, b, c, d, o;
        if (!(is >> a >> b >> c >> d >> o)) return false;
        m.rows.emplace_back(a, b, c, d, (CellOrientation)o);
      }
    } else if (m.kind == MK::AddNet) {
      long long mant;
      int e;
      size_t np;
      if (!(is >> mant >> e >> np)) return false;
      m.net.weight = (float)std::ldexp((double)mant, e);
      for (size_t i = 0; i < np; ++i) {
        int c, px, py;
        if (!(is >> c >> px >> py)) return false;
        m.net.cells.push_back(c); m.net.xo.push_back(px); m.net.yo.push_back(py);
      }
    } else {
      long long x;
      while (is >> x) m.v.push_back(x);
      if (m.kind == MK::SetupRows && m.v.size() != 7) return false;
    }
    return true;
  }
  // Calls the public mutator on the object.  Exceptions of the setter propagate.
  void apply(Circuit &c) const {
    auto ints = [&]() { return std::vector<int>(v.begin(), v.end()); };
    auto bools = [&]() { std::vector<bool> b; for (long long x : v) b.push_back(x != 0); return b; };
    switch (kind) {
      case MK::SetRows: c.setRows(rows); break;
      case MK::SetupRows: c.setupRows(Rectangle((int)v[0], (int)v[1], (int)v[2], (int)v[3]), (int)v[4], v[5] != 0, v[6] != 0); break;
      case MK::SetCellX: c.setCellX(ints()); break;
      case MK::SetCellY: c.setCellY(ints()); break;
      case MK::SetCellWidth: c.setCellWidth(ints()); break;
      case MK::SetCellHeight: c.setCellHeight(ints()); break;
      case MK::SetCellIsFixed: c.setCellIsFixed(bools()); break;
      case MK::SetCellIsObstruction: c.setCellIsObstruction(bools()); break;
      case MK::SetCellOrientation: {
        std::vector<CellOrientation> o;
        for (long long x : v) o.push_back((CellOrientation)x);
        c.setCellOrientation(o);
        break;
      }
      case MK::SetCellRowPolarity: {
        std::vector<CellRowPolarity> o;
        for (long long x : v) o.push_back((CellRowPolarity)x);
        c.setCellRowPolarity(o);
        break;
      }
      case MK::SetSolution: {
        PlacementSolution sol;
        for (size_t i = 0; i + 2 < v.size(); i += 3) sol.emplace_back((int)v[i], (int)v[i + 1], (CellOrientation)v[i + 2]);
        c.setSolution(sol);
        break;
      }
      case MK::AddNet: c.addNet(net.cells, net.xo, net.yo, net.weight); break;
    }
  }
};

struct MutProfile {
  // domain: keep the circuit inside the domain the placement calls are specified for (C01): non-empty rows of one
  // positive height H, movable cells unturned with width >= 1 and a height that is a positive multiple of H; a fixed
  // cell is released only if it satisfies this.  Otherwise arbitrary (non-negative) sizes, all ten row orientations,
  // empty / overlapping / odd rows.
  bool domain = false;
  int maxWidth = 8;
  bool invertedRows = true;  // (outside the domain only) setRows may give a row with maxX < minX
  std::vector<MK> kinds;  // drawn uniformly from this list (repeat an entry to weight it); empty = allKinds + setupRows again
};

inline bool turned(CellOrientation o) {
  return o == CellOrientation::E || o == CellOrientation::W || o == CellOrientation::FE || o == CellOrientation::FW;
}

struct Box { int minX, maxX, minY, maxY, H; };
inline Box boxOf(const Circuit &c) {
  Box b{0, 20, 0, 12, 4};
  if (c.nbRows() == 0) return b;
  long long x1 = LLONG_MAX, x2 = LLONG_MIN, y1 = LLONG_MAX, y2 = LLONG_MIN;
  for (const Row &r : c.rows()) {
    x1 = std::min<long long>(x1, std::min(r.minX, r.maxX)); x2 = std::max<long long>(x2, std::max(r.minX, r.maxX));
    y1 = std::min<long long>(y1, std::min(r.minY, r.maxY)); y2 = std::max<long long>(y2, std::max(r.minY, r.maxY));
  }
  auto cl = [](long long v) { return (int)std::max(-100000ll, std::min(100000ll, v)); };
  b.minX = cl(x1); b.maxX = cl(x2); b.minY = cl(y1); b.maxY = cl(y2);
  b.H = std::max(1, std::abs(c.rows()[0].maxY - c.rows()[0].minY));
  b.H = std::min(b.H, 64);
  return b;
}

// indices of 1..~n/3 cells to change; obstruction cells (fixed and flagged) are preferred half of the time
inline std::vector<int> pickCells(vh::Rng &g, const Circuit &c) {
  int n = c.nbCells();
  std::vector<int> r;
  if (n == 0) return r;
  std::vector<int> fo;
  for (int i = 0; i < n; ++i) if (c.cellIsFixed()[i] && c.cellIsObstruction()[i]) fo.push_back(i);
  int k = g.range(1, std::max(1, n / 3));
  for (int j = 0; j < k; ++j) {
    if (!fo.empty() && g.chance(1, 2)) r.push_back(g.pick(fo));
    else r.push_back((int)g.range(0, n - 1));
  }
  return r;
}

inline std::vector<Row> randomRows(vh::Rng &g, const Circuit &c, bool domain, bool invertedRows = true) {
  Box b = boxOf(c);
  static const std::vector<CellOrientation> rowOr = {CellOrientation::N, CellOrientation::S, CellOrientation::FN, CellOrientation::FS};
  std::vector<Row> rows;
  if (domain) {
    int H = b.H;
    int pattern = g.range(0, 3);
    auto orientOf = [&](int r) {
      if (pattern == 0) return (r % 2 == 0) ? CellOrientation::N : CellOrientation::FS;
      if (pattern == 3) return (r % 2 == 0) ? CellOrientation::FS : CellOrientation::N;
      if (pattern == 1) return g.chance(1, 2) ? CellOrientation::N : CellOrientation::FS;
      return g.pick(rowOr);
    };
    if (c.nbRows() > 0 && g.chance(1, 2)) {
      // the same rectangles with other orientations (rows at one y get one orientation)
      std::map<int, CellOrientation> byY;
      CellOrientation uni = orientOf(0);
      int k = 0;
      std::vector<int> ys;
      for (const Row &r : c.rows()) ys.push_back(r.minY);
      std::sort(ys.begin(), ys.end());
      ys.erase(std::unique(ys.begin(), ys.end()), ys.end());
      for (int y : ys) byY[y] = (pattern == 1) ? uni : orientOf(k++);
      for (const Row &r : c.rows()) rows.emplace_back(Rectangle(r.minX, r.maxX, r.minY, r.maxY), byY[r.minY]);
      return rows;
    }
    int nRows = g.range(std::max(1, c.nbRows() - 1), std::max(2, std::min(8, c.nbRows() + 2)));
    int W = std::max(6, b.maxX - b.minX + (int)g.range(-3, 6));
    int x0 = b.minX + (int)g.range(-3, 3), y = b.minY + (int)g.range(-H, H);
    CellOrientation uni = orientOf(0);
    for (int r = 0; r < nRows; ++r) {
      if (g.chance(1, 10)) y += H;
      CellOrientation ro = (pattern == 1) ? uni : orientOf(r);
      int a = x0 + (g.chance(1, 4) ? (int)g.range(-3, 3) : 0), e = a + W + (g.chance(1, 4) ? (int)g.range(-3, 3) : 0);
      if (g.chance(1, 6) && e - a >= 6) {
        int m1 = g.range(a + 1, e - 3), m2 = g.range(m1, std::min(e - 1, m1 + 3));
        rows.emplace_back(a, m1, y, y + H, ro);
        rows.emplace_back(m2, e, y, y + H, ro);
      } else {
        rows.emplace_back(a, e, y, y + H, ro);
      }
      y += H;
    }
    return rows;
  }
  int nRows = g.range(0, 4), H = g.chance(1, 2) ? b.H : (int)g.range(1, 6), W = g.range(1, 30);
  int x0 = b.minX + (int)g.range(-4, 4), y0 = b.minY + (int)g.range(-4, 4);
  for (int r = 0; r < nRows; ++r) {
    int a = x0 + (g.chance(1, 3) ? (int)g.range(-4, 4) : 0), e = x0 + W + (g.chance(1, 3) ? (int)g.range(-4, 4) : 0);
    int yy = y0 + r * H;
    if (g.chance(1, 10)) yy = y0 + (int)g.range(0, nRows) * H + (int)g.range(-1, 1);  // overlapping / duplicate rows
    rows.emplace_back(a, e, yy, yy + (g.chance(1, 8) ? (int)g.range(0, 2 * H) : H), (CellOrientation)g.range(0, 9));
    if (invertedRows && g.chance(1, 30)) std::swap(rows.back().minX, rows.back().maxX);
  }
  return rows;
}

// A plausible call of one public mutator, derived from the current observable state of the object.
inline Mut randomMut(vh::Rng &g, const Circuit &c, const MutProfile &p) {
  static const std::vector<MK> dflt = [] { std::vector<MK> v = allKinds(); v.push_back(MK::SetupRows); return v; }();
  const std::vector<MK> &kinds = p.kinds.empty() ? dflt : p.kinds;
  Mut m;
  m.kind = g.pick(kinds);
  int n = c.nbCells();
  if (n == 0 && m.kind != MK::SetRows && m.kind != MK::SetupRows) m.kind = g.chance(1, 2) ? MK::SetRows : MK::SetupRows;
  Box b = boxOf(c);
  int H = b.H;
  auto newX = [&]() { return g.chance(1, 8) ? g.range(-200, 200) : g.range(b.minX - 4, b.maxX + 2); };
  auto newY = [&]() {
    if (c.nbRows() > 0 && g.chance(1, 2)) return (long long)g.pick(c.rows()).minY;
    return g.chance(1, 8) ? g.range(-200, 200) : g.range(b.minY - H, b.maxY + 1);
  };
  auto newOrient = [&](int i) {
    bool mov = !c.cellIsFixed()[i];
    if (p.domain && mov) return (long long)vc::pickUnturned(g);
    return g.range(0, 7);
  };
  switch (m.kind) {
    case MK::SetRows: m.rows = randomRows(g, c, p.domain, p.invertedRows); break;
    case MK::SetupRows: {
      int x1 = b.minX, x2 = b.maxX, y1 = b.minY, y2 = b.maxY;
      if (c.nbRows() == 0 || g.chance(1, 3)) {
        x1 += g.range(-4, 4); x2 = std::max<int>(x1 + 1, x2 + g.range(-4, 6));
        y1 += g.range(-H, H); y2 = std::max<int>(y1 + (p.domain ? H : 0), y2 + g.range(-H, 2 * H));
      }
      int rh = p.domain ? H : (g.chance(1, 2) ? H : (int)g.range(g.chance(1, 12) ? 0 : 1, 8));
      m.v = {x1, x2, y1, y2, rh, (long long)g.range(0, 1), (long long)g.range(0, 1)};
      break;
    }
    case MK::SetCellX:
      m.v.assign(c.cellX().begin(), c.cellX().end());
      for (int i : pickCells(g, c)) m.v[i] = newX();
      break;
    case MK::SetCellY:
      m.v.assign(c.cellY().begin(), c.cellY().end());
      for (int i : pickCells(g, c)) m.v[i] = newY();
      break;
    case MK::SetCellWidth:
      m.v.assign(c.cellWidth().begin(), c.cellWidth().end());
      for (int i : pickCells(g, c)) {
        bool mov = !c.cellIsFixed()[i];
        m.v[i] = (mov && p.domain) ? g.range(1, p.maxWidth) : (g.chance(1, 6) ? g.range(0, std::max(1, b.maxX - b.minX) + 4) : g.range(0, p.maxWidth));
      }
      break;
    case MK::SetCellHeight:
      m.v.assign(c.cellHeight().begin(), c.cellHeight().end());
      for (int i : pickCells(g, c)) {
        bool mov = !c.cellIsFixed()[i];
        if (mov && p.domain) m.v[i] = (long long)H * (g.chance(3, 4) ? 1 : g.range(1, 3));
        else m.v[i] = g.chance(1, 3) ? H : g.range(0, 2 * H + 1);
      }
      break;
    case MK::SetCellIsFixed:
      for (bool f : c.cellIsFixed()) m.v.push_back(f);
      for (int i : pickCells(g, c)) {
        if (m.v[i] && p.domain) {
          bool ok = c.cellWidth()[i] >= 1 && c.cellHeight()[i] >= 1 && c.cellHeight()[i] % H == 0 && !turned(c.cellOrientation()[i]);
          if (!ok) continue;
        }
        m.v[i] = !m.v[i];
      }
      break;
    case MK::SetCellIsObstruction:
      for (bool f : c.cellIsObstruction()) m.v.push_back(f);
      for (int i : pickCells(g, c)) m.v[i] = !m.v[i];
      break;
    case MK::SetCellOrientation:
      for (CellOrientation o : c.cellOrientation()) m.v.push_back((int)o);
      for (int i : pickCells(g, c)) m.v[i] = newOrient(i);
      break;
    case MK::SetCellRowPolarity:
      for (CellRowPolarity o : c.cellRowPolarity()) m.v.push_back((int)o);
      for (int i : pickCells(g, c)) m.v[i] = g.range(0, 4);
      break;
    case MK::SetSolution: {
      for (int i = 0; i < n; ++i) { m.v.push_back(c.cellX()[i]); m.v.push_back(c.cellY()[i]); m.v.push_back((int)c.cellOrientation()[i]); }
      for (int i : pickCells(g, c)) {
        int what = g.range(0, 3);
        if (what == 0 || what == 3) m.v[3 * i] = newX();
        if (what == 1 || what == 3) m.v[3 * i + 1] = newY();
        if (what == 2) m.v[3 * i + 2] = newOrient(i);
      }
      break;
    }
    case MK::AddNet: {
      int deg = g.range(1, 4);
      for (int d = 0; d < deg; ++d) {
        int i = g.range(0, n - 1);
        m.net.cells.push_back(i);
        m.net.xo.push_back(g.range(-2, c.cellWidth()[i] + 2));
        m.net.yo.push_back(g.range(-2, c.cellHeight()[i] + 2));
      }
      m.net.weight = g.chance(1, 2) ? 1.0f : (float)g.range(1, 8) / 2.0f;
      break;
    }
  }
  return m;
}

// ------------------------------------------------------------ steps, histories, plans

struct Step {
  bool isMut = false;
  Mut mut;
  std::string obs;  // the complete line "obs ..."
  std::string text() const { return isMut ? mut.text() : obs; }
};

struct History {
  State init;
  std::vector<Step> steps;
};

inline std::string historyText(const std::string &initText, const std::vector<std::string> &stepLines) {
  std::string s = "history\n" + initText;
  for (auto &l : stepLines) s += l + "\n";
  s += "endhistory\n";
  return s;
}

inline std::vector<std::string> splitLines(const std::string &s) {
  std::vector<std::string> r;
  std::istringstream is(s);
  std::string l;
  while (std::getline(is, l)) r.push_back(l);
  return r;
}

inline bool isHistoryText(const std::string &s) { return s.rfind("history", 0) == 0; }

inline bool parseHistory(const std::string &text, History &h) {
  std::vector<std::string> lines = splitLines(text);
  size_t pos = 0;
  if (lines.empty() || lines[0] != "history") return false;
  pos = 1;
  if (!parseState(lines, pos, h.init)) return false;
  h.steps.clear();
  for (; pos < lines.size(); ++pos) {
    const std::string &l = lines[pos];
    if (l == "endhistory") return true;
    if (l.empty()) continue;
    Step st;
    if (l.rfind("mut ", 0) == 0) {
      st.isMut = true;
      if (!Mut::parse(l, st.mut)) return false;
    } else if (l.rfind("obs ", 0) == 0 || l == "obs") {
      st.obs = l;
    } else {
      return false;
    }
    h.steps.push_back(st);
  }
  return true;  // a truncated history (no endhistory) is still replayed
}

using StepSource = std::function<bool(const Circuit &, Step &)>;

inline StepSource recorded(const std::vector<Step> &steps) {
  auto idx = std::make_shared<size_t>(0);
  return [steps, idx](const Circuit &, Step &st) {
    if (*idx >= steps.size()) return false;
    st = steps[(*idx)++];
    return true;
  };
}

// Random history: `rounds` rounds, each [0..3 mutators] + one observation.  genObs draws a fresh observation line
// from the current state; about half of the observations after the first repeat the previous line verbatim.
struct Plan {
  vh::Rng g;
  MutProfile prof;
  std::function<std::string(vh::Rng &, const Circuit &)> genObs;
  int rounds = 5;
  int mutsLeft = -1;
  bool first = true;
  std::string lastObs;
  Plan(vh::Rng rng, MutProfile p, std::function<std::string(vh::Rng &, const Circuit &)> go, int r)
      : g(rng), prof(std::move(p)), genObs(std::move(go)), rounds(r) {}
  bool next(const Circuit &c, Step &st) {
    if (mutsLeft < 0) {
      if (rounds-- <= 0) return false;
      int r = g.range(0, 19);
      if (first) mutsLeft = r < 12 ? 0 : (r < 17 ? 1 : 2);
      else mutsLeft = r < 3 ? 0 : (r < 13 ? 1 : (r < 17 ? 2 : 3));
      first = false;
    }
    st = Step();
    if (mutsLeft > 0) {
      --mutsLeft;
      st.isMut = true;
      st.mut = randomMut(g, c, prof);
      return true;
    }
    mutsLeft = -1;
    if (!lastObs.empty() && g.chance(1, 2)) st.obs = lastObs;
    else st.obs = genObs(g, c);
    lastObs = st.obs;
    return true;
  }
};

// ------------------------------------------------------------------- counters

// Which mutators precede an observation.  Keys (all prefixed "hist_"):
//   obs_first_on_object                         the first observation of a history
//   obs_directly_after_<mutator>                the step before the observation is this mutator
//   obs_with_<mutator>_since_previous_obs       this mutator was applied (anywhere) since the previous observation
//   obs_repeated_without_mutation               same observation line as the previous one, nothing in between
//   obs_same_after_exactly_one_<mutator>        observation -> this one mutator -> the same observation
//   obs_other_without_mutation                  a different observation directly after an observation
struct Tracker {
  bool any = false;
  std::string lastObs;
  std::vector<std::string> since;
  void mut(const std::string &name) { since.push_back(name); }
  std::vector<std::string> obs(const std::string &line) {
    std::vector<std::string> r;
    if (!any) r.push_back("hist_obs_first_on_object");
    if (!since.empty()) {
      r.push_back("hist_obs_directly_after_" + since.back());
      std::set<std::string> d(since.begin(), since.end());
      for (auto &s : d) r.push_back("hist_obs_with_" + s + "_since_previous_obs");
    }
    if (any && since.empty()) r.push_back(line == lastObs ? "hist_obs_repeated_without_mutation" : "hist_obs_other_without_mutation");
    if (any && since.size() == 1 && line == lastObs) r.push_back("hist_obs_same_after_exactly_one_" + since[0]);
    any = true;
    lastObs = line;
    since.clear();
    return r;
  }
};

// value of the string field `key` of a JSON document (as written by json.dump): used to read the `input` of a replay file
inline std::string jsonStringField(const std::string &doc, const std::string &key) {
  std::string pat = "\"" + key + "\"";
  size_t p = 0;
  while ((p = doc.find(pat, p)) != std::string::npos) {
    size_t q = p + pat.size();
    while (q < doc.size() && isspace((unsigned char)doc[q])) ++q;
    if (q >= doc.size() || doc[q] != ':') { p = q; continue; }
    ++q;
    while (q < doc.size() && isspace((unsigned char)doc[q])) ++q;
    if (q >= doc.size() || doc[q] != '"') { p = q; continue; }
    ++q;
    std::string v;
    for (; q < doc.size() && doc[q] != '"'; ++q) {
      if (doc[q] != '\\') { v += doc[q]; continue; }
      ++q;
      if (q >= doc.size()) break;
      switch (doc[q]) {
        case 'n': v += '\n'; break;
        case 't': v += '\t'; break;
        case 'r': v += '\r'; break;
        case 'b': v += '\b'; break;
        case 'f': v += '\f'; break;
        case 'u': {
          unsigned code = strtoul(doc.substr(q + 1, 4).c_str(), nullptr, 16);
          v += (char)(code < 0x80 ? code : '?');
          q += 4;
          break;
        }
        default: v += doc[q];
      }
    }
    return v;
  }
  return "";
}

inline std::string replayInput(const std::string &file) {
  std::ifstream f(file);
  std::stringstream ss;
  ss << f.rdbuf();
  return jsonStringField(ss.str(), "input");
}

}  // namespace vhist
