// Common circuit generator, serializer and the independent legality oracle
// (DESIGN.md section 10).  Used by the C01..C11 harnesses.
#pragma once
#include <algorithm>
#include <cmath>
#include <sstream>

#include "coloquinte.hpp"
#include "common/harness.hpp"

namespace vc {
using namespace coloquinte;

// ---------------------------------------------------------------- serializer

// exact value of a double as "<mantissa> <exp2>" (value = mantissa * 2^exp2)
inline std::string exactDouble(double v) {
  if (v == 0.0 || !std::isfinite(v)) return "0 0";
  int e;
  double m = std::frexp(v, &e);  // v = m * 2^e, 0.5 <= |m| < 1
  long long mant = (long long)std::ldexp(m, 53);
  e -= 53;
  while (mant % 2 == 0 && mant != 0) { mant /= 2; ++e; }
  return std::to_string(mant) + " " + std::to_string(e);
}

inline void dumpCircuit(std::ostream &os, const Circuit &c) {
  os << "circuit " << c.nbCells() << "\n";
  for (int i = 0; i < c.nbCells(); ++i) {
    os << "cell " << c.cellWidth()[i] << " " << c.cellHeight()[i] << " " << c.cellX()[i] << " " << c.cellY()[i] << " "
       << (int)c.cellOrientation()[i] << " " << (int)c.cellIsFixed()[i] << " " << (int)c.cellIsObstruction()[i] << " "
       << (int)c.cellRowPolarity()[i] << "\n";
  }
  for (const Row &r : c.rows()) {
    os << "row " << r.minX << " " << r.maxX << " " << r.minY << " " << r.maxY << " " << (int)r.orientation << "\n";
  }
  for (int n = 0; n < c.nbNets(); ++n) {
    os << "net " << exactDouble(c.netWeight(n)) << " " << c.nbPinsNet(n);
    for (int p = 0; p < c.nbPinsNet(n); ++p) {
      os << " " << c.pinCell(n, p) << " " << c.pinXOffsets_[c.netLimits_[n] + p] << " " << c.pinYOffsets_[c.netLimits_[n] + p];
    }
    os << "\n";
  }
  os << "end\n";
}

// The same circuit somewhere else on the plane (cells and rows shifted; pin offsets are relative to the cell).
// No property depends on where the die is; a harness that enables it must keep |offset| small enough that the
// library's own `int` sums of two coordinates stay far from 2^31 (2^26 leaves a factor of 16).
inline void translate(Circuit &c, long long dx, long long dy) {
  std::vector<int> x = c.cellX(), y = c.cellY();
  for (auto &v : x) v += dx;
  for (auto &v : y) v += dy;
  std::vector<Row> rows = c.rows();
  for (auto &r : rows) { r.minX += dx; r.maxX += dx; r.minY += dy; r.maxY += dy; }
  c.setCellX(x); c.setCellY(y); c.setRows(rows);
}

inline std::string circuitString(const Circuit &c) {
  std::ostringstream os;
  dumpCircuit(os, c);
  return os.str();
}

inline std::string solutionString(const Circuit &c) {
  std::ostringstream os;
  os << "sol";
  for (int i = 0; i < c.nbCells(); ++i) os << " " << c.cellX()[i] << " " << c.cellY()[i] << " " << (int)c.cellOrientation()[i];
  return os.str();
}

// canonical exception class
inline std::string exClass(const std::exception &e) {
  if (dynamic_cast<const std::runtime_error *>(&e)) return "throw:runtime_error";
  if (dynamic_cast<const std::logic_error *>(&e)) return "throw:logic_error";
  if (dynamic_cast<const std::bad_alloc *>(&e)) return "throw:bad_alloc";
  return "throw:exception";
}

// ------------------------------------------------------------------ generator

struct GenOpts {
  int maxRows = 6;
  int maxCells = 15;
  bool multiRow = true;       // cells of 2-3 rows and macros
  bool turned = true;         // E/W/FW/FE orientations for unpolarised cells
  bool polarities = true;
  bool fixedCells = true;
  bool nets = true;
  bool splitRows = true;
  long long scale = 1;        // multiply every coordinate/size (magnitude stream)
  double maxUtil = 1.1;       // utilisation is drawn in [0.3, maxUtil]
  bool farPositions = true;
};

struct GenInfo {
  int rowHeight = 0;
  double utilisation = 0;
  int nMovable = 0, nMulti = 0, nFixed = 0, nTurned = 0, nPolarised = 0;
  long long freeWidthTotal = 0;
};

inline CellOrientation pickUnturned(vh::Rng &g) {
  static const std::vector<CellOrientation> o = {CellOrientation::N, CellOrientation::S, CellOrientation::FN, CellOrientation::FS};
  return g.pick(o);
}

// Generates a circuit of the C01 domain (see properties.jsonl): uniform-height pairwise disjoint rows,
// movable cells of positive width whose placed height is a positive multiple of the row height.
inline Circuit genCircuit(vh::Rng &g, const GenOpts &o, GenInfo *info = nullptr) {
  long long S = o.scale;
  int H = g.range(2, 8);
  int nRows = g.range(1, o.maxRows);
  int W = g.range(6, 40);
  int x0 = g.range(-20, 20), y0 = g.range(-20, 20);
  int pattern = g.range(0, 3);  // 0 alternating N/FS, 1 uniform N, 2 irregular, 3 alternating FS/N
  std::vector<Row> rows;
  int y = y0;
  static const std::vector<CellOrientation> rowOr = {CellOrientation::N, CellOrientation::S, CellOrientation::FN, CellOrientation::FS};
  for (int r = 0; r < nRows; ++r) {
    if (g.chance(1, 8)) y += H * g.range(1, 2);  // gap between rows
    CellOrientation ro;
    if (pattern == 0) ro = (r % 2 == 0) ? CellOrientation::N : CellOrientation::FS;
    else if (pattern == 3) ro = (r % 2 == 0) ? CellOrientation::FS : CellOrientation::N;
    else if (pattern == 1) ro = CellOrientation::N;
    else ro = g.pick(rowOr);
    int a = x0 + (g.chance(1, 4) ? g.range(-3, 3) : 0);
    int b = a + W + (g.chance(1, 4) ? g.range(-3, 3) : 0);
    if (b <= a) b = a + 1;
    if (o.splitRows && g.chance(1, 6) && b - a >= 6) {
      int m1 = g.range(a + 1, b - 3), m2 = g.range(m1, std::min(b - 1, m1 + 3));
      rows.emplace_back(a * S, m1 * S, y * S, (y + H) * S, ro);
      rows.emplace_back(m2 * S, b * S, y * S, (y + H) * S, g.chance(1, 4) ? g.pick(rowOr) : ro);
    } else {
      rows.emplace_back(a * S, b * S, y * S, (y + H) * S, ro);
    }
    y += H;
  }
  long long rowArea = 0;
  for (auto &r : rows) rowArea += (long long)(r.width() / S) * H;
  double util = g.chance(3, 4) ? 0.15 + 0.6 * (g.range(0, 1000) / 1000.0) : 0.3 + (o.maxUtil - 0.3) * (g.range(0, 1000) / 1000.0);
  int nMov = g.range(1, o.maxCells);
  struct C { int w, h, x, y; CellOrientation orient; bool fixed, obs; CellRowPolarity pol; };
  std::vector<C> cells;
  long long area = 0;
  GenInfo gi;
  gi.rowHeight = H * S;
  int yTop = y;
  for (int i = 0; i < nMov; ++i) {
    C c;
    int kind = o.multiRow ? g.range(0, 9) : 0;
    int pw = g.range(1, 5), rowsHigh = 1;
    if (kind >= 7 && kind < 9) rowsHigh = g.range(2, 3);
    if (kind == 9) { rowsHigh = g.range(2, 4); pw = g.range(3, 8); }
    if (rowsHigh > nRows && !g.chance(1, 10)) rowsHigh = g.range(1, nRows);
    int ph = rowsHigh * H;
    if (area + (long long)pw * ph > util * rowArea && !cells.empty()) break;
    area += (long long)pw * ph;
    c.pol = CellRowPolarity::ANY;
    if (o.polarities && g.chance(2, 5)) {
      static const std::vector<CellRowPolarity> ps = {CellRowPolarity::SAME, CellRowPolarity::OPPOSITE, CellRowPolarity::NW, CellRowPolarity::SE};
      c.pol = g.pick(ps);
    }
    if (c.pol == CellRowPolarity::ANY) {
      c.orient = (o.turned && g.chance(1, 3)) ? (CellOrientation)g.range(0, 7) : pickUnturned(g);
    } else {
      c.orient = pickUnturned(g);
      gi.nPolarised++;
    }
    bool turn = isTurn(c.orient);
    if (turn) gi.nTurned++;
    c.w = turn ? ph : pw;
    c.h = turn ? pw : ph;
    if (rowsHigh > 1) gi.nMulti++;
    if (o.farPositions && g.chance(1, 6)) { c.x = g.range(-200, 200); c.y = g.range(-200, 200); }
    else { c.x = g.range(x0 - 4, x0 + W + 2); c.y = g.range(y0 - 3, yTop + 2); }
    c.fixed = false;
    c.obs = g.chance(1, 2);
    cells.push_back(c);
  }
  gi.nMovable = cells.size();
  gi.utilisation = rowArea ? (double)area / rowArea : 0;
  if (o.fixedCells) {
    int nf = g.range(0, 3);
    for (int i = 0; i < nf; ++i) {
      C c;
      c.fixed = true;
      c.obs = g.chance(2, 3);
      c.pol = g.chance(1, 4) ? CellRowPolarity::SAME : CellRowPolarity::ANY;
      c.orient = (CellOrientation)g.range(0, 7);
      int m = g.range(0, 5);
      c.w = g.range(0, 6); c.h = g.range(0, 2 * H);
      if (m == 0) { c.w = 0; c.h = 0; }
      if (m == 1) { c.x = g.range(-100, 100); c.y = g.range(-100, 100); }
      else { c.x = g.range(x0 - 3, x0 + W); c.y = g.range(y0 - H, yTop); }
      if (m == 2) { c.y = y0 + H * g.range(0, nRows); c.h = H; }  // exactly on a row
      cells.push_back(c);
      gi.nFixed++;
    }
  }
  // shuffle so that fixed cells are interleaved with movable ones
  for (size_t i = cells.size(); i > 1; --i) std::swap(cells[i - 1], cells[g.range(0, i - 1)]);
  int n = cells.size();
  Circuit circ(n);
  std::vector<int> w(n), h(n), xs(n), ys(n);
  std::vector<bool> fx(n), ob(n);
  std::vector<CellOrientation> orr(n);
  std::vector<CellRowPolarity> pol(n);
  for (int i = 0; i < n; ++i) {
    w[i] = cells[i].w * S; h[i] = cells[i].h * S; xs[i] = cells[i].x * S; ys[i] = cells[i].y * S;
    fx[i] = cells[i].fixed; ob[i] = cells[i].obs; orr[i] = cells[i].orient; pol[i] = cells[i].pol;
  }
  circ.setCellWidth(w); circ.setCellHeight(h); circ.setCellX(xs); circ.setCellY(ys);
  circ.setCellIsFixed(fx); circ.setCellIsObstruction(ob); circ.setCellOrientation(orr); circ.setCellRowPolarity(pol);
  circ.setRows(rows);
  if (o.nets && n > 0) {
    int nn = g.range(0, 2 * n);
    for (int k = 0; k < nn; ++k) {
      int deg = g.range(1, 5);
      std::vector<int> pc, px, py;
      for (int d = 0; d < deg; ++d) {
        int c = g.range(0, n - 1);
        pc.push_back(c);
        px.push_back(g.range(-2, cells[c].w + 2) * S);
        py.push_back(g.range(-2, cells[c].h + 2) * S);
      }
      circ.addNet(pc, px, py);
    }
  }
  if (info) *info = gi;
  return circ;
}

// -------------------------------------------------------------- legality oracle
// Independent of Circuit::computeRows / boost: 1-D interval reasoning only.

struct Seg { long long lo, hi; CellOrientation orient; };

// free segments of row r: the row minus every column range touched by a fixed obstruction
inline std::vector<Seg> freeSegments(const Circuit &c, const Row &r) {
  std::vector<std::pair<long long, long long>> cut;
  for (int i = 0; i < c.nbCells(); ++i) {
    if (!c.isFixed(i) || !c.isObstruction(i)) continue;
    Rectangle p = c.placement(i);
    long long x1 = std::min(p.minX, p.maxX), x2 = std::max(p.minX, p.maxX);
    long long y1 = std::min(p.minY, p.maxY), y2 = std::max(p.minY, p.maxY);
    if (x1 == x2 || y1 == y2) continue;
    if (y1 < r.maxY && r.minY < y2 && x1 < r.maxX && r.minX < x2) cut.push_back({std::max<long long>(x1, r.minX), std::min<long long>(x2, r.maxX)});
  }
  std::sort(cut.begin(), cut.end());
  std::vector<Seg> out;
  long long cur = r.minX;
  for (auto &iv : cut) {
    if (iv.first > cur) out.push_back({cur, iv.first, r.orientation});
    cur = std::max(cur, iv.second);
  }
  if (cur < r.maxX) out.push_back({cur, r.maxX, r.orientation});
  return out;
}

// returns "" when the placement of the movable cells is legal, else a description.
// If checkOrient, also checks the polarity -> orientation rule (C04).
inline std::string checkLegal(const Circuit &c, bool checkOrient = true) {
  if (c.nbRows() == 0) return "no rows";
  int H = c.rows()[0].height();
  std::vector<std::vector<Seg>> segs;
  for (const Row &r : c.rows()) segs.push_back(freeSegments(c, r));
  for (int i = 0; i < c.nbCells(); ++i) {
    if (c.isFixed(i)) continue;
    Rectangle p = c.placement(i);
    int ph = p.height();
    if (ph <= 0 || ph % H != 0) return "cell " + std::to_string(i) + " height not a multiple of the row height";
    for (int k = 0; k < ph / H; ++k) {
      long long sy = (long long)p.minY + (long long)k * H;
      bool ok = false;
      CellOrientation segOrient = CellOrientation::UNKNOWN;
      for (size_t r = 0; r < c.rows().size() && !ok; ++r) {
        if (c.rows()[r].minY != sy) continue;
        for (const Seg &s : segs[r])
          if (s.lo <= p.minX && p.maxX <= s.hi) { ok = true; segOrient = s.orient; break; }
      }
      if (!ok) {
        std::ostringstream os;
        os << "cell " << i << " strip " << k << " at x=" << p.minX << ".." << p.maxX << " y=" << sy << " is not inside one free row segment";
        return os.str();
      }
      if (k == 0 && checkOrient) {
        CellRowPolarity pol = c.cellRowPolarity()[i];
        if (pol != CellRowPolarity::ANY) {
          CellOrientation want = cellOrientationInRow(pol, segOrient);
          if (want == CellOrientation::INVALID || c.orientation(i) != want) {
            std::ostringstream os;
            os << "cell " << i << " polarity " << (int)pol << " on row orientation " << (int)segOrient << " has orientation "
               << (int)c.orientation(i) << " expected " << (int)want;
            return os.str();
          }
        }
      }
    }
    for (int j = i + 1; j < c.nbCells(); ++j) {
      if (c.isFixed(j)) continue;
      if (p.intersects(c.placement(j))) return "cells " + std::to_string(i) + " and " + std::to_string(j) + " overlap";
    }
  }
  return "";
}

// Parameters: effort 1..9 or a non-default stream (DESIGN.md section 10)
inline ColoquinteParameters genParams(vh::Rng &g, bool nonDefault) {
  ColoquinteParameters p(g.range(1, 9));
  if (nonDefault) {
    p.detailed.nbPasses = g.range(1, 3);
    p.detailed.localSearchNbNeighbours = g.range(1, 6);
    p.detailed.localSearchNbRows = g.range(0, 3);
    p.detailed.shiftNbRows = g.range(1, 4);
    p.detailed.shiftMaxNbCells = g.range(2, 20);
    p.detailed.reorderingNbRows = g.range(1, 2);
    p.detailed.reorderingMaxNbCells = g.range(1, 4);
    p.legalization.orderingWidth = g.range(0, 8) / 8.0;   // inside [0,1]; C11 drives the rest of the accepted range itself
    p.legalization.orderingHeight = g.range(-8, 16) / 8.0;
    p.legalization.orderingY = g.range(-8, 8) / 40.0;  // check() accepts [-0.2, 0.2]
  }
  return p;
}

}  // namespace vc
