// Common plumbing for all correspondence harnesses (DESIGN.md sections 2, 4, 10).
//
//   h_Cnn --seed S --tier quick|thorough|search --out DIR [--corpus DIR] [--replay FILE] [--only K]
//
// writes into DIR
//   ops.txt     one operation per line, consumed by the Lean driver (drv_Cnn)
//   impl.txt    what the real code answered; must equal the driver's stdout line for line
//   oracle.txt  one JSON object per direct-oracle failure {"case":..,"what":..,"kf":..,"input":..}
//   stats.json  evaluations, distinct_nontrivial, rule, distribution, samples
//
// Every random choice comes from one SplitMix64 state derived from (seed, case index).
#pragma once
#include <sys/types.h>
#include <sys/wait.h>
#include <unistd.h>

#include <csignal>
#include <cstdint>
#include <cstdio>
#include <cstdlib>
#include <cstring>
#include <fstream>
#include <functional>
#include <iostream>
#include <map>
#include <set>
#include <sstream>
#include <string>
#include <vector>

namespace vh {

struct Rng {
  uint64_t s;
  explicit Rng(uint64_t seed) : s(seed) {}
  static Rng forCase(uint64_t seed, uint64_t k) {
    Rng r(seed * 0x9E3779B97F4A7C15ull + k * 0xD1B54A32D192ED03ull + 0x1234567ull);
    r.next();
    r.next();
    return r;
  }
  uint64_t next() {
    uint64_t z = (s += 0x9E3779B97F4A7C15ull);
    z = (z ^ (z >> 30)) * 0xBF58476D1CE4E5B9ull;
    z = (z ^ (z >> 27)) * 0x94D049BB133111EBull;
    return z ^ (z >> 31);
  }
  // uniform in [lo, hi]
  long long range(long long lo, long long hi) {
    if (hi <= lo) return lo;
    return lo + (long long)(next() % (uint64_t)(hi - lo + 1));
  }
  bool chance(int num, int den) { return (long long)(next() % (uint64_t)den) < num; }
  template <class T>
  const T &pick(const std::vector<T> &v) {
    return v[next() % v.size()];
  }
};

struct Args {
  uint64_t seed = 1;
  std::string tier = "quick";
  std::string out = ".";
  std::string corpus;
  std::string replay;
  long long only = -1;
  bool quick() const { return tier == "quick"; }
  bool thorough() const { return tier == "thorough"; }
  bool search() const { return tier == "search"; }
};

inline Args parseArgs(int argc, char **argv) {
  Args a;
  for (int i = 1; i < argc; ++i) {
    std::string k = argv[i];
    auto val = [&]() -> std::string { return i + 1 < argc ? argv[++i] : ""; };
    if (k == "--seed") a.seed = strtoull(val().c_str(), nullptr, 10);
    else if (k == "--tier") a.tier = val();
    else if (k == "--out") a.out = val();
    else if (k == "--corpus") a.corpus = val();
    else if (k == "--replay") a.replay = val();
    else if (k == "--only") a.only = atoll(val().c_str());
  }
  return a;
}

inline std::string jsonEscape(const std::string &s) {
  std::string o;
  for (char c : s) {
    switch (c) {
      case '"': o += "\\\""; break;
      case '\\': o += "\\\\"; break;
      case '\n': o += "\\n"; break;
      case '\t': o += "\\t"; break;
      default:
        if ((unsigned char)c < 0x20) { char b[8]; snprintf(b, 8, "\\u%04x", c); o += b; }
        else o += c;
    }
  }
  return o;
}

struct Out {
  std::ofstream ops, impl, oracle;
  std::string dir;
  long long evaluations = 0;
  std::set<uint64_t> distinctNontrivial;
  std::map<std::string, long long> dist;
  std::vector<std::string> samples;
  std::vector<std::string> notes;
  std::string rule;
  bool exhaustive = false;
  long long failures = 0;

  explicit Out(const std::string &d) : dir(d) {
    ops.open(d + "/ops.txt");
    impl.open(d + "/impl.txt");
    oracle.open(d + "/oracle.txt");
  }
  void count(const std::string &k, long long n = 1) { dist[k] += n; }
  // record a case as non-trivial by the property's rule, keyed by a canonical hash
  // Within beginCase()/endCase() several nontrivial() marks of one case are folded into a single
  // entry, so that distinct_nontrivial counts cases (it can never exceed evaluations).
  bool inCase = false, caseNt = false;
  uint64_t caseHash = 0;
  void beginCase() { inCase = true; caseNt = false; caseHash = 0; }
  void endCase() { if (inCase && caseNt) distinctNontrivial.insert(caseHash); inCase = false; }
  void nontrivial(uint64_t h) {
    if (inCase) { caseNt = true; caseHash = caseHash * 1099511628211ull ^ h; }
    else distinctNontrivial.insert(h);
  }
  void sample(const std::string &s) { if (samples.size() < 6) samples.push_back(s); }
  // A failure classified as a known finding (kf non-empty) is written at most 50 times per
  // finding (all are counted in the distribution); an unclassified failure is never dropped
  // because of classified ones (only capped at 200 lines of its own kind).
  std::map<std::string, long long> kfWritten;
  long long unclassifiedWritten = 0;
  void fail(const std::string &caseId, const std::string &what, const std::string &input,
            const std::string &kf = "") {
    ++failures;
    if (!kf.empty()) {
      dist["known_finding:" + kf]++;
      if (++kfWritten[kf] > 50) return;
    } else {
      dist["oracle_failures_unclassified"]++;
      if (++unclassifiedWritten > 200) return;
    }
    oracle << "{\"case\":\"" << jsonEscape(caseId) << "\",\"what\":\"" << jsonEscape(what) << "\"";
    if (!kf.empty()) oracle << ",\"kf\":\"" << kf << "\"";
    oracle << ",\"input\":\"" << jsonEscape(input) << "\"}\n";
    oracle.flush();
  }
  void finish() {
    ops.close(); impl.close(); oracle.close();
    std::ofstream st(dir + "/stats.json");
    st << "{\"evaluations\":" << evaluations << ",\"distinct_nontrivial\":" << distinctNontrivial.size()
       << ",\"exhaustive\":" << (exhaustive ? "true" : "false")
       << ",\"rule\":\"" << jsonEscape(rule) << "\",\"distribution\":{";
    bool first = true;
    for (auto &kv : dist) { st << (first ? "" : ",") << "\"" << jsonEscape(kv.first) << "\":" << kv.second; first = false; }
    st << "},\"samples\":[";
    for (size_t i = 0; i < samples.size(); ++i) st << (i ? "," : "") << "\"" << jsonEscape(samples[i]) << "\"";
    st << "],\"notes\":[";
    for (size_t i = 0; i < notes.size(); ++i) st << (i ? "," : "") << "\"" << jsonEscape(notes[i]) << "\"";
    st << "]}\n";
  }
};

inline uint64_t hashStr(const std::string &s) {
  uint64_t h = 1469598103934665603ull;
  for (unsigned char c : s) { h ^= c; h *= 1099511628211ull; }
  return h;
}

// Run f in a forked child; its stdout-like result is whatever it writes to the
// stream.  Returns "ok" and fills `output`, or a canonical fault class:
//   abort (SIGABRT: assert / sanitizer), sanitizer (exit 98/99), signal:<n>, timeout
inline std::string isolated(const std::function<void(std::ostream &)> &f, std::string &output,
                            int timeoutSec = 60, std::string *diag = nullptr) {
  int fd[2], efd[2];
  if (pipe(fd) != 0 || pipe(efd) != 0) { perror("pipe"); exit(3); }
  fflush(nullptr);
  pid_t pid = fork();
  if (pid == 0) {
    close(fd[0]); close(efd[0]);
    dup2(efd[1], 2);
    alarm(timeoutSec);
    std::ostringstream os;
    f(os);
    std::string s = os.str();
    size_t off = 0;
    while (off < s.size()) {
      ssize_t w = write(fd[1], s.data() + off, s.size() - off);
      if (w <= 0) break;
      off += w;
    }
    _exit(0);
  }
  close(fd[1]); close(efd[1]);
  output.clear();
  std::string err;
  char buf[65536];
  // read both pipes until EOF (stderr is small; read stdout first then stderr, using
  // non-blocking interleave to avoid deadlock on large stderr)
  fd_set rs;
  bool o1 = true, o2 = true;
  while (o1 || o2) {
    FD_ZERO(&rs);
    if (o1) FD_SET(fd[0], &rs);
    if (o2) FD_SET(efd[0], &rs);
    int mx = std::max(o1 ? fd[0] : -1, o2 ? efd[0] : -1);
    if (select(mx + 1, &rs, nullptr, nullptr, nullptr) < 0) break;
    if (o1 && FD_ISSET(fd[0], &rs)) {
      ssize_t n = read(fd[0], buf, sizeof buf);
      if (n <= 0) o1 = false; else output.append(buf, n);
    }
    if (o2 && FD_ISSET(efd[0], &rs)) {
      ssize_t n = read(efd[0], buf, sizeof buf);
      if (n <= 0) o2 = false; else if (err.size() < 20000) err.append(buf, n);
    }
  }
  close(fd[0]); close(efd[0]);
  int st = 0;
  waitpid(pid, &st, 0);
  if (diag) *diag = err;
  if (WIFEXITED(st)) {
    int c = WEXITSTATUS(st);
    if (c == 0) return "ok";
    if (c == 98 || c == 99 || c == 1) return "sanitizer";
    return "exit:" + std::to_string(c);
  }
  if (WIFSIGNALED(st)) {
    int sg = WTERMSIG(st);
    if (sg == SIGABRT)
      return (err.find("Sanitizer") != std::string::npos || err.find("runtime error:") != std::string::npos) ? "sanitizer" : "abort";
    if (sg == SIGALRM) return "timeout";
    return "signal:" + std::to_string(sg);
  }
  return "unknown";
}

// ---- crash capture for in-process (non-forked) harnesses ---------------------
struct CrashCtx {
  Out *out = nullptr;
  std::string caseId, input;
};
inline CrashCtx &crashCtx() {
  static CrashCtx c;
  return c;
}
inline void onCrash() {
  CrashCtx &c = crashCtx();
  if (c.out) {
    Out *o = c.out;
    c.out = nullptr;
    o->fail(c.caseId, "crash: assertion failure or sanitizer report inside the real code", c.input);
    o->finish();
  }
}
extern "C" void __sanitizer_set_death_callback(void (*)(void)) __attribute__((weak));
inline void installCrashHandler(Out *o) {
  crashCtx().out = o;
  signal(SIGABRT, [](int) { onCrash(); _exit(97); });
  if (__sanitizer_set_death_callback) __sanitizer_set_death_callback(onCrash);
}
inline void setCase(const std::string &id, const std::string &input) {
  crashCtx().caseId = id;
  crashCtx().input = input;
}

template <class T>
std::string join(const std::vector<T> &v, const char *sep = " ") {
  std::ostringstream os;
  for (size_t i = 0; i < v.size(); ++i) { if (i) os << sep; os << v[i]; }
  return os.str();
}

inline std::vector<std::string> readLines(const std::string &p) {
  std::vector<std::string> r;
  std::ifstream f(p);
  std::string l;
  while (std::getline(f, l)) r.push_back(l);
  return r;
}

}  // namespace vh
