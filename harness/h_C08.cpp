// C08 — placement is deterministic and independent of thread scheduling.
//
// Every case (forked child): a vc::genCircuit circuit, parameters (with seed) and a stage
// sequence.  The reference result is the sequence of Circuit::solution() after each stage plus how
// each stage ended.  It is compared bit for bit (integers and enum values) with
//   repeat      the same run on another copy,
//   rebuilt     a Circuit rebuilt from scratch through the public setters,
//   callback    the same run with an observing callback (reads the circuit, changes nothing),
//   permuted    the same run executed after / before runs on a different circuit in this process,
//   1cpu/ncpu   the same run pinned to one core and on all cores (sched_setaffinity),
// and, when hook H1 (coloquinte::verif::onSolveStart, COLOQUINTE_VERIF_HAS_H1) is present in the
// tree, with the x solve delayed (y completes first), the y solve delayed (x completes first) and
// random delays on both.  Without H1 those runs are skipped and counted.
//
// Perturbation of dead memory: before every run the harness overwrites the dead part of the stack (a
// 256 KiB frame), the stacks of two helper threads (the cached stacks the solver threads get) and a
// set of freed heap blocks with a pattern that changes from run to run (plausible floats / small
// integers in-process; byte patterns 0x00, 0xFF, 0xA5 and random words in forked grandchildren, where
// a crash of the perturbed run is itself a difference to the reference).  In builds without a
// sanitizer (tools/props/C08.py builds a second, `fast` harness) glibc's M_PERTURB is switched per
// run as well.  A result that depends on an indeterminate value therefore differs between runs.
//
// Stream `o` (run order / call history): 2-3 jobs (circuit, stage sequence, parameters; the jobs differ
// in noise - distinct non-zero values -, seed, effort, global / legalization / detailed knobs, and
// share the circuit in half of the cases).  Each job runs alone in a fresh forked process, and all
// jobs run in two different orders in two more fresh processes; the result of every job must be
// the same in all of them (the first run in a process must not fix anything for the later ones).
//
// Stream `h` (object history; harness/c08_history.hpp): a circuit object goes through a random history - placement
// stages, const queries (report, computeRows, hpwl, toString), expandCellsToDensity on a copy and on the object, and
// the public mutators (setSolution, setCellX/Y, setCellIsFixed/Obstruction, setRows, setupRows, setCellWidth/Height,
// setCellOrientation, setCellRowPolarity, setNetWeights) - then a stage sequence runs on the object itself, on a twin
// REBUILT through the public setters from the object's getters (a copy would inherit hidden state) and on a copy; the
// three results must be bitwise equal: a circuit is what its accessors say, not what happened to the object before.
//
// Parameters cover the non-default box accepted by ColoquinteParameters::check():
// nbInitialSteps > 0, nbStepsBeforeRoughLegalization, tolerances, penalty / continuous-model /
// rough-legalization knobs, all net models and cost models (measured in the distribution).
//
// The op stream is small: the driver enumerates the schedules of the two-task protocol
// (Model/Sched.lean, facts from Gen/Async.lean) and, for every forced order observed through H1,
// states that this linearisation gives the canonical result; the harness answers from its own
// enumeration and from the bitwise comparison.
#include <malloc.h>
#include <sched.h>

#include <atomic>
#include <chrono>
#include <cmath>
#include <cstring>
#include <optional>
#include <thread>

#include "common/circuit.hpp"
#include "forkpool/forkpool.hpp"
#include "place_global/net_model.hpp"
#include "place_global/place_global.hpp"

using namespace coloquinte;
using fp::ChildOut;
using fp::Job;
using fp::mkJob;

// ------------------------------------------------------------------ perturbation of dead memory

#if defined(__SANITIZE_ADDRESS__) || defined(__SANITIZE_THREAD__)
#define C08_PLAIN_MALLOC 0
#else
#define C08_PLAIN_MALLOC 1
#endif

enum class Pat { Float, SmallInt, Zero, Ones, A5, Random };

struct Perturb {
  Pat pat = Pat::Float;
  uint64_t v = 0;  // selects the value / the random stream
  uint32_t word(size_t i) const {
    switch (pat) {
      case Pat::Float: {
        // a plausible positive float (0.25 .. ~2000), different for every v
        float f = 0.25f * (float)(1 + v % 97) * (float)(1u << (v / 97 % 7));
        uint32_t w;
        memcpy(&w, &f, 4);
        return w;
      }
      case Pat::SmallInt: return (uint32_t)(v % 61);
      case Pat::Zero: return 0;
      case Pat::Ones: return 0xFFFFFFFFu;
      case Pat::A5: return 0xA5A5A5A5u;
      case Pat::Random: {
        uint64_t z = (v + i) * 0x9E3779B97F4A7C15ull;
        z = (z ^ (z >> 30)) * 0xBF58476D1CE4E5B9ull;
        return (uint32_t)(z >> 17);
      }
    }
    return 0;
  }
  const char *name() const {
    static const char *n[] = {"float", "small_int", "zero_bytes", "ff_bytes", "a5_bytes", "random_words"};
    return n[(int)pat];
  }
};

static constexpr size_t kStackWords = 64 * 1024;  // 256 KiB of dead stack below the caller

__attribute__((noinline)) static void scribbleStack(const Perturb &pt) {
  volatile uint32_t buf[kStackWords];
  for (size_t i = 0; i < kStackWords; ++i) buf[i] = pt.word(i);
  asm volatile("" ::: "memory");
}

__attribute__((noinline)) static void scribbleHeap(const Perturb &pt) {
  static const size_t sizes[] = {8, 16, 24, 32, 48, 64, 96, 128, 192, 256, 384, 512, 1024, 2048, 4096, 8192, 16384, 65536, 262144};
  std::vector<std::pair<uint32_t *, size_t>> blocks;
  for (int rep = 0; rep < 6; ++rep)
    for (size_t sz : sizes) {
      if (sz >= 65536 && rep >= 2) continue;
      uint32_t *b = (uint32_t *)malloc(sz);
      if (!b) continue;
      for (size_t i = 0; i < sz / 4; ++i) b[i] = pt.word(i);
      blocks.emplace_back(b, sz);
    }
  // free every other block first so that neighbours do not coalesce immediately
  for (size_t i = 0; i < blocks.size(); i += 2) free(blocks[i].first);
  for (size_t i = 1; i < blocks.size(); i += 2) free(blocks[i].first);
}

static std::atomic<uint64_t> gPerturbSerial{0};
static Pat gPerturbPat = Pat::Float;      // pattern family of the in-process perturbation
static bool gPerturbAlternate = true;     // alternate Float / SmallInt from run to run

// overwrite what a later run may find in indeterminate objects: dead stack of this thread, the cached
// stacks of (two concurrent) helper threads, freed heap blocks; plain glibc malloc: M_PERTURB as well
static void perturbDeadMemory() {
  Perturb pt;
  uint64_t n = gPerturbSerial.fetch_add(1);
  pt.v = n * 7 + 3;
  pt.pat = gPerturbPat;
  if (gPerturbAlternate) pt.pat = (n % 3 == 2) ? Pat::SmallInt : Pat::Float;
#if C08_PLAIN_MALLOC
  // malloc'ed memory is filled with ~byte, freed memory with byte; 0 switches the filling off (then the
  // patterns written by scribbleHeap are what the next allocation finds)
  int byte = 0;
  if (pt.pat == Pat::Ones) byte = 0x100;  // non-zero value whose low byte is 0x00: allocations are filled with 0xFF
  else if (pt.pat == Pat::A5) byte = 0x5A;
  else if (pt.pat == Pat::Random) byte = 1 + (int)(pt.v % 254);
  else if (pt.pat == Pat::Zero) byte = 0xFF;
  else if (n % 2 == 1) byte = 1 + (int)(pt.v % 254);
  mallopt(M_PERTURB, byte);
#endif
  scribbleHeap(pt);
  std::thread t1([&] { scribbleStack(pt); }), t2([&] { scribbleStack(pt); });
  t1.join();
  t2.join();
  scribbleStack(pt);
}

// ------------------------------------------------------------------ runs

struct RunResult {
  std::string text;   // per stage: outcome + solution
  std::string trace;  // observing runs: step kind + hash of the exported placement at every callback
  bool operator==(const RunResult &o) const { return text == o.text; }
};

enum class Force { None, XFirst, YFirst, Random };

#ifdef COLOQUINTE_VERIF_HAS_H1
struct HookState {
  std::atomic<const NetModel *> x{nullptr}, y{nullptr};
  Force force = Force::None;
  std::atomic<uint64_t> rnd{0};
  std::atomic<long long> xCalls{0}, yCalls{0}, otherCalls{0};
};
static HookState gHook;

static void onSolveStart(const NetModel *m) {
  const NetModel *x = gHook.x.load(), *y = gHook.y.load();
  bool isX = m == x, isY = m == y;
  if (isX) gHook.xCalls++;
  else if (isY) gHook.yCalls++;
  else gHook.otherCalls++;
  int us = 0;
  if (gHook.force == Force::XFirst && isY) us = 3000;  // y starts late: x completes first
  if (gHook.force == Force::YFirst && isX) us = 3000;
  if (gHook.force == Force::Random) {
    uint64_t r = gHook.rnd.fetch_add(0x9E3779B97F4A7C15ull) * 0xBF58476D1CE4E5B9ull;
    us = (int)((r >> 33) % 2500);
  }
  if (us > 0) std::this_thread::sleep_for(std::chrono::microseconds(us));
}
#endif

static std::string stageRun(Circuit &c, char st, const ColoquinteParameters &p, const std::optional<PlacementCallback> &cb,
                            Force force, uint64_t rnd) {
  try {
    if (st == 'G') {
#ifdef COLOQUINTE_VERIF_HAS_H1
      if (force != Force::None) {
        // same statements as GlobalPlacer::place (minus the progress output) so that the addresses of the
        // two net models are known to the hook
        c.isInUse_ = true;
        p.check();
        GlobalPlacer pl(c, p);
        pl.callback_ = cb;
        gHook.x = &pl.xtopo_;
        gHook.y = &pl.ytopo_;
        gHook.force = force;
        gHook.rnd = rnd;
        coloquinte::verif::onSolveStart = &onSolveStart;
        struct Reset {
          ~Reset() {
            coloquinte::verif::onSolveStart = nullptr;
            gHook.force = Force::None;
          }
        } reset;
        pl.run();
        pl.exportPlacement(c);
        c.isInUse_ = false;
        return "ok";
      }
#endif
      (void)force;
      (void)rnd;
      c.placeGlobal(p, cb);
    } else if (st == 'L') c.legalize(p, cb);
    else c.placeDetailed(p, cb);
  } catch (const std::exception &e) {
    return vc::exClass(e);
  }
  return "ok";
}

// runs the stages on the object itself
static RunResult runSeqOn(Circuit &c, const std::string &seq, const ColoquinteParameters &p, bool observe, Force force = Force::None,
                          uint64_t rnd = 0) {
  RunResult r;
  long long observed = 0;
  std::optional<PlacementCallback> cb;
  if (observe)
    cb = [&](PlacementStep s) {
      // an observer: reads everything a client may read during a callback; the exported intermediate
      // placements are part of what the placement produces
      observed += c.hpwl() + (long long)c.solution().size();
      r.trace += std::to_string((int)s) + ":" + std::to_string(vh::hashStr(vc::solutionString(c))) + ",";
    };
  for (char st : seq) {
    perturbDeadMemory();
    std::string res = stageRun(c, st, p, cb, force, rnd);
    r.text += std::string(1, st) + ":" + res + " " + vc::solutionString(c) + "|";
  }
  return r;
}

// runs the stages on a copy
static RunResult runSeq(Circuit c, const std::string &seq, const ColoquinteParameters &p, bool observe, Force force = Force::None,
                        uint64_t rnd = 0) {
  return runSeqOn(c, seq, p, observe, force, rnd);
}

static Circuit rebuild(const Circuit &c) {
  Circuit r(c.nbCells());
  r.setCellWidth(c.cellWidth());
  r.setCellHeight(c.cellHeight());
  r.setCellX(c.cellX());
  r.setCellY(c.cellY());
  r.setCellIsFixed(c.cellIsFixed());
  r.setCellIsObstruction(c.cellIsObstruction());
  r.setCellOrientation(c.cellOrientation());
  r.setCellRowPolarity(c.cellRowPolarity());
  r.setRows(c.rows());
  std::vector<int> limits = c.netLimits_, cells = c.pinCells_, xo = c.pinXOffsets_, yo = c.pinYOffsets_;
  std::vector<float> w = c.netWeights_;
  r.setNets(limits, cells, xo, yo, w);
  return r;
}

static bool pin(bool single, int cpuHint) {
  cpu_set_t all;
  CPU_ZERO(&all);
  long n = sysconf(_SC_NPROCESSORS_ONLN);
  if (single) CPU_SET(cpuHint % n, &all);
  else
    for (long i = 0; i < n; ++i) CPU_SET(i, &all);
  return sched_setaffinity(0, sizeof all, &all) == 0;
}

static double uni(vh::Rng &g, double lo, double hi) { return lo + (hi - lo) * (g.range(0, 1 << 20) / (double)(1 << 20)); }
static double logUni(vh::Rng &g, double lo, double hi) { return std::exp(uni(g, std::log(lo), std::log(hi))); }

// Parameter sets accepted by ColoquinteParameters::check().  mode 0: defaults of an effort; 1: detailed /
// legalization knobs; 2..3: + the global knobs (same "moderate" box as C06/C07: CG tolerance >= 1e-6,
// approximation / cutoff distances >= 0.1).  The number of steps is kept small (time), everything else
// covers the accepted range.
static ColoquinteParameters pickParams(vh::Rng &g, int &mode) {
  for (int attempt = 0; attempt < 50; ++attempt) {
    mode = g.range(0, 3);
    ColoquinteParameters p = vc::genParams(g, mode >= 1);
    p.seed = g.range(0, 100000);
    p.global.maxNbSteps = std::min<int>(p.global.maxNbSteps, g.range(4, 14));
    if (g.chance(1, 3)) p.global.noise = g.range(1, 100) / 1000.0;  // exercises rgen_
    if (mode >= 1) {
      if (g.chance(1, 6)) p.detailed.nbPasses = 0;
      if (g.chance(1, 6)) p.detailed.localSearchNbNeighbours = 0;
      if (g.chance(1, 6)) p.detailed.shiftMaxNbCells = g.range(0, 1);
      if (g.chance(1, 6)) p.detailed.reorderingMaxNbCells = 0;
    }
    if (mode >= 2) {
      auto &G = p.global;
      G.maxNbSteps = g.range(2, 14);
      G.nbInitialSteps = g.chance(1, 4) ? 0 : g.range(1, std::min(4, G.maxNbSteps - 1));
      G.nbStepsBeforeRoughLegalization = g.range(1, 3);
      G.gapTolerance = g.chance(1, 3) ? 0.0 : uni(g, 0.0, 1.0);
      G.distanceTolerance = g.chance(1, 3) ? 0.0 : logUni(g, 0.01, 100.0);
      G.penaltyUpdateDistance = logUni(g, 0.01, 1000.0);
      G.penaltyUpdateBackoff = g.chance(1, 4) ? 1.0 : uni(g, 1.0, 10.0);
      G.exportBlending = g.chance(1, 4) ? (double)g.range(0, 1) : uni(g, -0.5, 1.5);
      int nz = g.range(0, 3);
      G.noise = nz == 0 ? 0.0 : nz == 1 ? G.noise : logUni(g, 1e-4, 2.0);
      auto &CM = G.continuousModel;
      CM.netModel = (NetModelOption)g.range(0, 3);
      CM.approximationDistance = logUni(g, 0.1, 1000.0);
      CM.approximationDistanceUpdateFactor = uni(g, 0.8, 1.2);
      CM.maxNbConjugateGradientSteps = g.chance(1, 4) ? g.range(1, 5) : g.range(1, 1000);
      CM.conjugateGradientErrorTolerance = logUni(g, 1e-6, 1.0);
      auto &R = G.roughLegalization;
      R.costModel = (LegalizationModel)g.range(0, 5);
      R.nbSteps = g.range(0, 3);
      R.binSize = g.chance(1, 4) ? (double)g.range(1, 25) : uni(g, 1.0, 25.0);
      R.lineReoptSize = g.chance(1, 8) ? g.range(1, 64) : g.range(1, 5);
      R.lineReoptOverlap = R.lineReoptSize > 1 ? g.range(1, R.lineReoptSize - 1) : g.range(1, 3);
      R.diagReoptSize = g.chance(1, 8) ? g.range(1, 64) : g.range(1, 5);
      R.diagReoptOverlap = R.diagReoptSize > 1 ? g.range(1, R.diagReoptSize - 1) : g.range(1, 3);
      R.squareReoptSize = g.range(1, g.chance(1, 4) ? 8 : 3);
      R.squareReoptOverlap = R.squareReoptSize > 1 ? g.range(1, R.squareReoptSize - 1) : g.range(1, 3);
      R.unidimensionalTransport = g.chance(1, 2);
      R.quadraticPenalty = g.chance(1, 3) ? 0.0 : logUni(g, 1e-5, 1.0);
      R.sideMargin = g.chance(1, 3) ? 0.0 : uni(g, 0.0, 1.5);
      R.coarseningLimit = logUni(g, 1.0, 1000.0);
      R.targetBlending = uni(g, -0.1, 0.9);
      auto &P = G.penalty;
      P.cutoffDistance = logUni(g, 0.1, 1000.0);
      P.cutoffDistanceUpdateFactor = uni(g, 0.8, 1.2);
      P.areaExponent = uni(g, 0.49, 1.01);
      P.initialValue = logUni(g, 1e-4, 10.0);
      P.updateFactor = uni(g, 1.01, 1.99);
      P.targetBlending = uni(g, 0.1, 1.1);
    }
    try {
      p.check();
      return p;
    } catch (const std::exception &) {
      // rejected by the parameter check: not in the quantifier, draw again
    }
  }
  mode = 0;
  ColoquinteParameters p(g.range(1, 9));
  p.global.maxNbSteps = 8;
  return p;
}

static std::string paramString(const ColoquinteParameters &p, int mode) {
  std::ostringstream os;
  const auto &G = p.global;
  os << "mode=" << mode << " seed=" << p.seed << " noise=" << G.noise << " steps=" << G.maxNbSteps << "/" << G.nbInitialSteps << "/"
     << G.nbStepsBeforeRoughLegalization << " net=" << (int)G.continuousModel.netModel << " cost=" << (int)G.roughLegalization.costModel
     << " rl=" << G.roughLegalization.nbSteps << "," << G.roughLegalization.lineReoptSize << "," << G.roughLegalization.diagReoptSize << ","
     << G.roughLegalization.squareReoptSize << "," << G.roughLegalization.unidimensionalTransport << " cg=" << G.continuousModel.maxNbConjugateGradientSteps
     << " blend=" << G.exportBlending << " det=" << p.detailed.nbPasses << "," << p.detailed.localSearchNbNeighbours << ","
     << p.detailed.localSearchNbRows << "," << p.detailed.shiftNbRows << "," << p.detailed.shiftMaxNbCells << "," << p.detailed.reorderingNbRows
     << "," << p.detailed.reorderingMaxNbCells << " leg=" << p.legalization.orderingWidth << "," << p.legalization.orderingHeight << ","
     << p.legalization.orderingY;
  return os.str();
}

static void countParams(ChildOut &co, const ColoquinteParameters &p, int mode, const std::string &seq) {
  co.count("params:mode" + std::to_string(mode));
  if (seq.find('G') == std::string::npos) return;
  const auto &G = p.global;
  co.count(G.nbInitialSteps > 0 ? "params:G:nbInitialSteps>0" : "params:G:nbInitialSteps=0");
  co.count(G.nbStepsBeforeRoughLegalization > 1 ? "params:G:stepsBeforeRL>1" : "params:G:stepsBeforeRL=1");
  co.count(G.noise == 0.0 ? "params:G:noise=0" : G.noise == GlobalPlacerParameters(3).noise ? "params:G:noise=default" : "params:G:noise=other");
  co.count("params:G:netModel=" + std::to_string((int)G.continuousModel.netModel));
  co.count("params:G:costModel=" + std::to_string((int)G.roughLegalization.costModel));
}

// run f in a fresh forked process; "ok" + its text, or how the process ended
static std::string forked(const std::function<std::string()> &f, std::string &text) {
  std::string diag;
  static const std::string sentinel = "\x01" "C08-END";
  std::string how = vh::isolated([&](std::ostream &os) { os << f() << sentinel; }, text, 240, &diag);
  if (how == "ok") {
    // the text is complete only with the sentinel (a failed fork() / a broken pipe is not a result)
    if (text.size() >= sentinel.size() && text.compare(text.size() - sentinel.size(), sentinel.size(), sentinel) == 0)
      text.erase(text.size() - sentinel.size());
    else
      how = "unavailable";
  }
  // a ThreadSanitizer report of the grandchild belongs to this case (the pool reads this child's stderr)
  if (diag.find("WARNING: ThreadSanitizer") != std::string::npos && write(2, diag.data(), diag.size()) < 0) how = "stderr-unwritable";
  if (how != "ok") {
    std::string first;
    std::istringstream is(diag);
    std::string l;
    while (std::getline(is, l))
      if (l.find("Assertion") != std::string::npos || l.find("ERROR") != std::string::npos || l.find("runtime error") != std::string::npos) {
        first = l.substr(0, 200);
        break;
      }
    text = first;
  }
  return how;
}

static void detCase(ChildOut &co, const std::string &id, vh::Rng &g, bool thoroughTier) {
  vc::GenOpts o;
  int sizeClass = g.range(0, 11);  // 1/12 larger circuits, 1/3 medium, the rest small
  o.maxCells = sizeClass == 0 ? 80 : sizeClass < 5 ? 30 : 15;
  o.maxRows = sizeClass == 0 ? 14 : g.chance(1, 3) ? 10 : 6;
  vc::GenInfo gi;
  Circuit c = vc::genCircuit(g, o, &gi);
  Circuit other = vc::genCircuit(g, o, nullptr);
  static const std::vector<std::string> seqs = {"G", "G", "L", "D", "GL", "GLD", "LD", "GG"};
  std::string seq = g.pick(seqs);
  int mode = 0, modeOther = 0;
  ColoquinteParameters p = pickParams(g, mode);
  ColoquinteParameters pOther = pickParams(g, modeOther);
  std::ostringstream hdr;
  hdr << "stages=" << seq << " " << paramString(p, mode) << "|";
  std::string input = hdr.str() + vc::circuitString(c);
  auto expect = [&](const char *what, const RunResult &ref, const RunResult &got) {
    co.eval();
    co.count(std::string("compared:") + what);
    if (!(ref == got)) co.fail(std::string("result differs from the reference run: ") + what + " | reference " + ref.text + " | got " + got.text, input);
  };
  co.op("case " + id);
  co.impl("case " + id);
  RunResult ref = runSeq(c, seq, p, false);
  co.count("stages:" + seq);
  countParams(co, p, mode, seq);
  co.count(ref.text.find("throw") == std::string::npos ? "outcome:all_returned" : "outcome:some_stage_threw");
  expect("repeat", ref, runSeq(c, seq, p, false));
  expect("rebuilt_circuit", ref, runSeq(rebuild(c), seq, p, false));
  {
    RunResult o1 = runSeq(c, seq, p, true);
    expect("observing_callback", ref, o1);
    RunResult o2 = runSeq(c, seq, p, true);
    co.eval();
    co.count("compared:observing_callback_trace_repeat");
    if (o1.trace != o2.trace || !(o1 == o2))
      co.fail("two runs with the same observing callback were shown different intermediate placements | first " + o1.trace + " | second " + o2.trace, input);
  }
  // permuted order in one process: other-then-c and c-then-other
  RunResult refOther = runSeq(other, "GL", pOther, false);
  expect("after_other_run", ref, runSeq(c, seq, p, false));
  expect("other_after_this_run", refOther, runSeq(other, "GL", pOther, false));
  // a different seed in between must not leak either
  {
    ColoquinteParameters p2 = p;
    p2.seed = p.seed + 1;
    p2.global.noise = 0.05;
    (void)runSeq(c, seq, p2, false);
    expect("after_run_with_other_seed", ref, runSeq(c, seq, p, false));
  }
  if (pin(true, (int)g.range(0, 63))) {
    expect("single_core_affinity", ref, runSeq(c, seq, p, false));
    pin(false, 0);
    expect("multi_core_affinity", ref, runSeq(c, seq, p, false));
  } else {
    co.count("affinity_unavailable");
  }
  bool hasG = seq.find('G') != std::string::npos;
#ifdef COLOQUINTE_VERIF_HAS_H1
  if (hasG) {
    struct F { Force f; const char *name; const char *order; };
    for (F f : {F{Force::XFirst, "forced_x_first", "XY"}, F{Force::YFirst, "forced_y_first", "YX"}, F{Force::Random, "random_delays", ""}}) {
      if (f.f == Force::Random && !thoroughTier && !g.chance(1, 2)) continue;
      gHook.xCalls = gHook.yCalls = gHook.otherCalls = 0;
      RunResult got = runSeq(c, seq, p, false, f.f, g.next());
      expect(f.name, ref, got);
      co.count(std::string("h1_calls_x"), gHook.xCalls);
      co.count(std::string("h1_calls_y"), gHook.yCalls);
      if (gHook.xCalls != gHook.yCalls) co.fail("hook H1 saw a different number of x and y solves", input);
      if (f.order[0] && gHook.xCalls > 0) {
        co.op(std::string("order ") + f.order);
        co.impl(std::string("order ") + f.order + " consistent " + (ref == got ? "same-result" : "different-result"));
      }
    }
    if (pin(true, (int)g.range(0, 63))) {
      expect("forced_y_first_single_core", ref, runSeq(c, seq, p, false, Force::YFirst, 0));
      pin(false, 0);
    }
  }
#else
  if (hasG) co.count("forced_order_skipped_no_hook_H1");
#endif
  // the same run in fresh forked processes whose dead stack / freed heap (plain malloc: M_PERTURB too) hold
  // byte patterns: an abnormal end of such a run is a difference to the reference as well
  {
    std::vector<Pat> pats = {Pat::Zero, Pat::Ones, Pat::A5, Pat::Random};
    if (!thoroughTier) {
      size_t keep = g.range(0, 3);
      pats = {pats[keep], pats[(keep + 1 + g.range(0, 2)) % 4]};
    }
    for (Pat pt : pats) {
      uint64_t serial = g.next() >> 8;
      std::string text;
      std::string how = forked([&] {
        gPerturbPat = pt;
        gPerturbAlternate = false;
        gPerturbSerial = serial;
        return runSeq(c, seq, p, false).text;
      }, text);
      Perturb name;
      name.pat = pt;
      co.eval();
      co.count(std::string("compared:forked_perturbed_") + name.name());
      if (how == "timeout" || how == "unavailable") {
        co.count("forked_run_timeout");
        continue;
      }
      if (how != "ok")
        co.fail(std::string("the reference run returned, the same run in a forked process with perturbed dead memory (") + name.name() +
                    ") ended by " + how + ": " + text + " | reference " + ref.text, input);
      else if (text != ref.text)
        co.fail(std::string("result differs from the reference run: forked process with perturbed dead memory (") + name.name() +
                    ") | reference " + ref.text + " | got " + text, input);
    }
  }
  co.nontrivial(vh::hashStr(input));
  co.sample(id + ": " + hdr.str() + " cells=" + std::to_string(c.nbCells()) + " movable=" + std::to_string(gi.nMovable) + " " + ref.text.substr(0, 120));
}

// ------------------------------------------------------------------ stream o: run order / call history

struct HJob {
  Circuit c{0};
  std::string seq;
  ColoquinteParameters p;
  int mode = 0;
};

static void orderCase(ChildOut &co, const std::string &id, vh::Rng &g, bool thoroughTier) {
  (void)thoroughTier;
  vc::GenOpts o;
  int sizeClass = g.range(0, 11);  // 1/12 larger circuits, 1/3 medium, the rest small
  o.maxCells = sizeClass == 0 ? 80 : sizeClass < 5 ? 30 : 15;
  o.maxRows = sizeClass == 0 ? 14 : g.chance(1, 3) ? 10 : 6;
  int n = g.chance(1, 4) ? 3 : 2;
  bool sameCircuit = g.chance(1, 2);
  // which part of the flow the jobs exercise: global placement (+ legalization, detailed) or the detailed side only
  static const std::vector<std::string> seqsG = {"G", "GL", "GLD", "GG"}, seqsD = {"L", "LD", "D", "LD"};
  bool globalSide = g.chance(2, 3);
  std::vector<HJob> jobs((size_t)n);
  Circuit shared = vc::genCircuit(g, o, nullptr);
  std::string sharedSeq = g.pick(globalSide ? seqsG : seqsD);
  std::vector<double> usedNoise;
  auto makeJob = [&](int j) {
    HJob &hj = jobs[j];
    hj.c = sameCircuit ? shared : vc::genCircuit(g, o, nullptr);
    hj.seq = sameCircuit ? sharedSeq : g.pick(globalSide ? seqsG : seqsD);
    hj.p = pickParams(g, hj.mode);
    if (sameCircuit && j > 0 && g.chance(1, 2)) hj.p.seed = jobs[0].p.seed;  // then only the knobs differ
    // distinct non-zero noise values (the default 1e-4 for at most one job), so that anything a first run
    // keeps from its parameters is wrong for the next one
    if (globalSide && g.chance(7, 8)) {
      for (int t = 0; t < 20; ++t) {
        double nz = (j == 0 && g.chance(1, 3)) ? GlobalPlacerParameters(3).noise : logUni(g, 1e-3, 1.5);
        bool fresh = true;
        for (double u : usedNoise) fresh = fresh && u != nz;
        if (fresh) {
          hj.p.global.noise = nz;
          break;
        }
      }
    }
  };
  uint64_t serialBase = g.next() >> 16;
  // half of the cases: every run has an observing callback, the placements it is shown are part of the result
  bool observe = g.chance(1, 2);
  // the process runs the jobs in the given order and reports one line per job
  auto runOrder = [&](const std::vector<int> &order) {
    // every process starts with other patterns in its dead memory
    uint64_t h = serialBase;
    for (int j : order) h = h * 31 + (uint64_t)j + 1;
    gPerturbSerial = h % 1000003;
    std::string outText;
    for (int j : order) {
      RunResult r = runSeq(jobs[j].c, jobs[j].seq, jobs[j].p, observe);
      outText += std::to_string(j) + "\t" + r.text + (observe ? " intermediate placements shown to the callback: " + r.trace : "") + "\n";
    }
    return outText;
  };
  co.op("case " + id);
  co.impl("case " + id);
  // every job alone in a fresh process; a job that does not return on its own (assertion / sanitizer stop inside
  // the real code: C07's subject) is drawn again, at most three times
  std::vector<std::string> alone((size_t)n);
  for (int j = 0; j < n; ++j) {
    bool usable = false;
    for (int attempt = 0; attempt < 4 && !usable; ++attempt) {
      makeJob(j);
      std::string text;
      std::string how = forked([&] { return runOrder({j}); }, text);
      if (how != "ok") {
        co.count("o:job_alone_ended_by_" + how + "_redrawn");
        continue;
      }
      size_t t = text.find('\t');
      alone[j] = t == std::string::npos ? "" : text.substr(t + 1, text.find('\n') - t - 1);
      usable = true;
    }
    if (!usable) {
      co.count("o:skipped_case");
      return;
    }
    usedNoise.push_back(jobs[j].p.global.noise);
    co.count(alone[j].find("throw") == std::string::npos ? "o:outcome:all_returned" : "o:outcome:some_stage_threw");
  }
  std::ostringstream hdr;
  hdr << "jobs=" << n << " same_circuit=" << sameCircuit << "|";
  for (int j = 0; j < n; ++j) hdr << "job" << j << ": stages=" << jobs[j].seq << " " << paramString(jobs[j].p, jobs[j].mode) << "|";
  std::string input = hdr.str();
  for (int j = 0; j < n; ++j)
    if (j == 0 || !sameCircuit) input += "circuit of job" + std::to_string(j) + (sameCircuit ? " (all jobs)" : "") + ":|" + vc::circuitString(jobs[j].c);
  co.count(std::string("o:jobs=") + std::to_string(n));
  co.count(sameCircuit ? "o:same_circuit" : "o:different_circuits");
  co.count(globalSide ? "o:global_side" : "o:detailed_side");
  co.count(observe ? "o:with_observing_callback" : "o:without_callback");
  bool noiseDiffer = true;
  for (int j = 0; j < n; ++j) {
    countParams(co, jobs[j].p, jobs[j].mode, jobs[j].seq);
    co.count("o:stages:" + jobs[j].seq);
    for (int k = 0; k < j; ++k) noiseDiffer = noiseDiffer && jobs[j].p.global.noise != jobs[k].p.global.noise;
    noiseDiffer = noiseDiffer && jobs[j].p.global.noise > 0;
  }
  if (globalSide) co.count(noiseDiffer ? "o:noise_distinct_nonzero" : "o:noise_not_all_distinct_nonzero");
  std::vector<std::vector<int>> orders;
  {
    std::vector<int> fwd, rev;
    for (int j = 0; j < n; ++j) fwd.push_back(j), rev.insert(rev.begin(), j);
    orders = {fwd, rev};
    if (n == 3) orders.push_back(g.chance(1, 2) ? std::vector<int>{1, 0, 2} : std::vector<int>{2, 0, 1});
    if (g.chance(1, 3)) {  // a job twice in one process, around another one
      std::vector<int> tw = {0, n - 1, 0};
      orders.push_back(tw);
    }
  }
  for (const auto &order : orders) {
    std::string oname = "order " + vh::join(order, ",");
    std::string text;
    std::string how = forked([&] { return runOrder(order); }, text);
    co.eval();
    co.count("compared:o:orders");
    if (how == "timeout" || how == "unavailable") {
      co.count("forked_run_timeout");
      continue;
    }
    if (how != "ok") {
      co.fail("every job returns when run alone in a fresh process, the process running them in " + oname + " ended by " + how + ": " + text, input);
      continue;
    }
    // a job may appear twice: every occurrence must give the result of the job alone
    std::istringstream is(text);
    std::string l;
    size_t pos = 0;
    while (std::getline(is, l)) {
      size_t t = l.find('\t');
      if (t == std::string::npos) continue;
      int j = atoi(l.c_str());
      std::string got = l.substr(t + 1);
      co.eval();
      co.count("compared:o:job_results");
      if (j < 0 || j >= n || got != alone[j])
        co.fail("the result of job" + std::to_string(j) + " depends on what ran before it in the process: position " + std::to_string(pos) + " of " +
                    oname + " | alone in a fresh process " + (j >= 0 && j < n ? alone[j] : "?") + " | got " + got, input);
      ++pos;
    }
    if (pos != order.size()) co.fail("process running " + oname + " reported " + std::to_string(pos) + " results", input);
  }
  co.nontrivial(vh::hashStr(input));
  co.sample(id + ": " + hdr.str().substr(0, 300));
}

#include "c08_history.hpp"

// number of linearisations of the two-task protocol (independent enumeration for the summary line):
// main: launchX launchY getX getY callback; task t: readT writeT, after launch t, before get t
static long long countSchedules() {
  long long n = 0;
  // state: main pc (0..5), x pc (0..2), y pc (0..2)
  std::function<void(int, int, int)> rec = [&](int m, int x, int y) {
    if (m == 5 && x == 2 && y == 2) { ++n; return; }
    if (m < 5) {
      bool ok = true;
      if (m == 2 && x != 2) ok = false;  // getX joins task x
      if (m == 3 && y != 2) ok = false;  // getY joins task y
      if (ok) rec(m + 1, x, y);
    }
    if (x < 2 && m >= 1) rec(m, x + 1, y);
    if (y < 2 && m >= 2) rec(m, x, y + 1);
  };
  rec(0, 0, 0);
  return n;
}

// ------------------------------------------------------------------ tier vg: few cases in-process, for valgrind
//
// tools/props/C08.py runs the sanitizer-free build under `valgrind --error-exitcode`; every case prints a marker to stderr
// (where valgrind reports), so that a use of an uninitialised value is attributed to a case.
static int vgMain(const vh::Args &a, vh::Out &out) {
  long long n = a.only >= 0 ? 1 : a.tier == "vgmore" ? 150 : 12;
  std::ofstream inputs(a.out + "/vg-cases.txt");
  int nul = open("/dev/null", O_WRONLY);
  dup2(nul, 1);  // the library reports progress on stdout
  for (long long k = 0; k < n; ++k) {
    long long kk = a.only >= 0 ? a.only : k;
    vh::Rng g = vh::Rng::forCase(a.seed ^ 0x7676ull, kk);
    vc::GenOpts o;
    o.maxCells = 12;
    o.maxRows = 5;
    Circuit c = vc::genCircuit(g, o, nullptr);
    static const std::vector<std::string> seqs = {"G", "GL", "GLD", "LD", "G"};
    std::string seq = g.pick(seqs);
    int mode = 0;
    ColoquinteParameters p = pickParams(g, mode);
    p.global.maxNbSteps = std::min(p.global.maxNbSteps, 5);
    if (p.global.nbInitialSteps >= p.global.maxNbSteps) p.global.nbInitialSteps = p.global.maxNbSteps - 1;
    std::string id = "v" + std::to_string(a.seed) + "_" + std::to_string(kk);
    std::string input = "stages=" + seq + " " + paramString(p, mode) + "|" + vc::circuitString(c);
    for (char &ch : input)
      if (ch == '\n') ch = '|';
    inputs << id << "\t" << input << "\n";
    inputs.flush();
    std::string marker = "C08-VG-CASE " + id + "\n";
    if (write(2, marker.data(), marker.size()) < 0) return 3;
    gPerturbAlternate = true;
    RunResult r1 = runSeq(c, seq, p, false);
    RunResult r2 = runSeq(c, seq, p, true);
    out.evaluations++;
    out.count("vg:stages:" + seq);
    if (!(r1 == r2)) out.fail(id, "result differs from the reference run: observing_callback (under valgrind)", input);
  }
  std::string marker = "C08-VG-END\n";
  if (write(2, marker.data(), marker.size()) < 0) return 3;
  out.finish();
  return 0;
}

int main(int argc, char **argv) {
  vh::Args a = vh::parseArgs(argc, argv);
  vh::Out out(a.out);
  out.rule =
      "stream d: case = circuit (vc::genCircuit) x stage sequence x parameters (effort defaults / detailed+legalization knobs / "
      "global knobs of the box accepted by check(), incl. nbInitialSteps>0, all net and cost models, seed, noise); every case is "
      "compared bitwise against its reference under repeat / rebuilt circuit / observing callback (+ its trace twice) / permuted "
      "run order / other seed in between / 1-core and all-core affinity (+ forced x-first, y-first, random delays with hook H1) / "
      "fresh forked processes with byte-pattern dead memory; dead stack, helper-thread stacks and freed heap are overwritten with "
      "a different pattern before every run.  stream o: 2-3 jobs with distinct non-zero noise / seeds / knobs, each alone in a "
      "fresh process and all of them in 2-4 orders in further fresh processes, per-job results compared.  stream h: a random "
      "history on one object (placement stages, report/computeRows/hpwl/toString, expandCellsToDensity, every public mutator; "
      "h:op:* / h:shape:* keys) and then the same stage sequence on the object, on a twin rebuilt through the public setters "
      "from the object's getters and on a copy, compared bitwise.  All cases are "
      "non-trivial (a placement stage really runs); distinct by canonical text of the input";
#ifdef COLOQUINTE_VERIF_HAS_H1
  out.notes.push_back("hook H1 present: forced-order runs executed");
#else
  out.notes.push_back("hook H1 (fixes/hook-h1-solve-start.diff) not applied to this tree: forced-order runs skipped");
#endif
#if C08_PLAIN_MALLOC
  out.notes.push_back("plain glibc malloc: M_PERTURB switched before every run");
#else
  out.notes.push_back("sanitizer allocator: heap perturbation limited to scribbled freed blocks (quarantine); see the `fast` build step");
#endif
  if (a.tier == "vg" || a.tier == "vgmore") return vgMain(a, out);
  // protocol summary for the driver
  out.ops << "case summary\n";
  out.impl << "case summary\n";
  out.ops << "summary\n";
  out.impl << "summary schedules=" << countSchedules() << " independent=true conflicts=0 hb-matches-scheduler=true\n";
  std::vector<Job> jobs;
  auto parseId = [&](const std::string &id) {
    if (id.size() < 3 || (id[0] != 'd' && id[0] != 'o' && id[0] != 'h')) return false;
    size_t us = id.find('_');
    if (us == std::string::npos) return false;
    jobs.push_back(mkJob(id[0], strtoull(id.substr(1, us - 1).c_str(), nullptr, 10), atoll(id.c_str() + us + 1)));
    return true;
  };
  if (!a.replay.empty()) {
    if (!parseId(fp::replayCaseId(a.replay))) {
      std::cerr << "cannot find a case id in " << a.replay << "\n";
      return 2;
    }
  } else {
    if (!a.corpus.empty())
      for (auto &ln : vh::readLines(a.corpus + "/cases.txt"))
        if (parseId(ln)) out.count("corpus");
    // tier `perturb`: the sanitizer-free build driven by tools/props/C08.py (oracle only)
    long long n = a.thorough() ? 6000 : a.search() ? 800 : a.tier == "perturb" ? 1000 : a.tier == "perturbmore" ? 10000 : 400;
    long long no = a.thorough() ? 3000 : a.search() ? 600 : a.tier == "perturb" ? 500 : a.tier == "perturbmore" ? 5000 : 400;
    long long nh = a.thorough() ? 12000 : a.search() ? 4000 : a.tier == "perturb" ? 1500 : a.tier == "perturbmore" ? 12000 : 1500;
    if (a.only >= 0) jobs.push_back(mkJob('d', a.seed, a.only));
    else {
      // interleaved, so that all streams are reached early
      // development aid: C08_STREAMS=<letters of d o h> restricts the run to these streams
      const char *only = getenv("C08_STREAMS");
      auto on = [&](char s) { return !only || !*only || strchr(only, s); };
      for (long long k = 0; k < std::max(std::max(n, no), nh); ++k) {
        if (k < n && on('d')) jobs.push_back(mkJob('d', a.seed, k));
        if (k < no && on('o')) jobs.push_back(mkJob('o', a.seed, k));
        if (k < nh && on('h')) jobs.push_back(mkJob('h', a.seed, k));
      }
    }
  }
  long ncpu = sysconf(_SC_NPROCESSORS_ONLN);
  bool th = a.thorough();
  // leave room for the two solver threads of each child
  fp::runJobs(out, jobs, (int)std::max(2l, std::min(16l, ncpu) * 3 / 4), [th](ChildOut &co, const Job &j) {
    vh::Rng g = vh::Rng::forCase(j.seed ^ (j.stream == 'o' ? 0x6f6f6f6full : j.stream == 'h' ? 0x68686868ull : 0), j.k);
    if (j.stream == 'o') orderCase(co, j.id, g, th);
    else if (j.stream == 'h') historyCase(co, j.id, g, th);
    else detCase(co, j.id, g, th);
  });
  out.finish();
  return 0;
}
