// C08 — placement is deterministic and independent of thread scheduling.
//
// Every case (forked child): a vc::genCircuit circuit, parameters (with seed) and a stage
// sequence.  The reference result is the sequence of Circuit::solution() after each stage plus how
// each stage ended.  It is compared bit for bit (integers and enum values) with
//   repeat      the same run on another copy,
//   rebuilt     a Circuit rebuilt from scratch through the public setters,
//   callback    the same run with an observing callback (reads the circuit, changes nothing),
//   permuted    the same run executed after / before runs on a different circuit in this process,
//   1cpu/ncpu   the same run pinned to one core and on all cores (sched_setaffinity),
// and, when hook H1 (coloquinte::verif::onSolveStart, COLOQUINTE_VERIF_HAS_H1) is present in the
// tree, with the x solve delayed (y completes first), the y solve delayed (x completes first) and
// random delays on both.  Without H1 those runs are skipped and counted.
//
// The op stream is small: the driver enumerates the schedules of the two-task protocol
// (Model/Sched.lean, facts from Gen/Async.lean) and, for every forced order observed through H1,
// states that this linearisation gives the canonical result; the harness answers from its own
// enumeration and from the bitwise comparison.
#include <sched.h>

#include <atomic>
#include <chrono>
#include <cstring>
#include <optional>
#include <thread>

#include "common/circuit.hpp"
#include "forkpool/forkpool.hpp"
#include "place_global/net_model.hpp"
#include "place_global/place_global.hpp"

using namespace coloquinte;
using fp::ChildOut;
using fp::Job;
using fp::mkJob;

// ------------------------------------------------------------------ runs

struct RunResult {
  std::string text;  // per stage: outcome + solution
  bool operator==(const RunResult &o) const { return text == o.text; }
};

enum class Force { None, XFirst, YFirst, Random };

#ifdef COLOQUINTE_VERIF_HAS_H1
struct HookState {
  std::atomic<const NetModel *> x{nullptr}, y{nullptr};
  Force force = Force::None;
  std::atomic<uint64_t> rnd{0};
  std::atomic<long long> xCalls{0}, yCalls{0}, otherCalls{0};
};
static HookState gHook;

static void onSolveStart(const NetModel *m) {
  const NetModel *x = gHook.x.load(), *y = gHook.y.load();
  bool isX = m == x, isY = m == y;
  if (isX) gHook.xCalls++;
  else if (isY) gHook.yCalls++;
  else gHook.otherCalls++;
  int us = 0;
  if (gHook.force == Force::XFirst && isY) us = 3000;  // y starts late: x completes first
  if (gHook.force == Force::YFirst && isX) us = 3000;
  if (gHook.force == Force::Random) {
    uint64_t r = gHook.rnd.fetch_add(0x9E3779B97F4A7C15ull) * 0xBF58476D1CE4E5B9ull;
    us = (int)((r >> 33) % 2500);
  }
  if (us > 0) std::this_thread::sleep_for(std::chrono::microseconds(us));
}
#endif

static std::string stageRun(Circuit &c, char st, const ColoquinteParameters &p, const std::optional<PlacementCallback> &cb,
                            Force force, uint64_t rnd) {
  try {
    if (st == 'G') {
#ifdef COLOQUINTE_VERIF_HAS_H1
      if (force != Force::None) {
        // same statements as GlobalPlacer::place (minus the progress output) so that the addresses of the
        // two net models are known to the hook
        c.isInUse_ = true;
        p.check();
        GlobalPlacer pl(c, p);
        pl.callback_ = cb;
        gHook.x = &pl.xtopo_;
        gHook.y = &pl.ytopo_;
        gHook.force = force;
        gHook.rnd = rnd;
        coloquinte::verif::onSolveStart = &onSolveStart;
        struct Reset {
          ~Reset() {
            coloquinte::verif::onSolveStart = nullptr;
            gHook.force = Force::None;
          }
        } reset;
        pl.run();
        pl.exportPlacement(c);
        c.isInUse_ = false;
        return "ok";
      }
#endif
      (void)force;
      (void)rnd;
      c.placeGlobal(p, cb);
    } else if (st == 'L') c.legalize(p, cb);
    else c.placeDetailed(p, cb);
  } catch (const std::exception &e) {
    return vc::exClass(e);
  }
  return "ok";
}

static RunResult runSeq(Circuit c, const std::string &seq, const ColoquinteParameters &p, bool observe, Force force = Force::None,
                        uint64_t rnd = 0) {
  RunResult r;
  long long observed = 0;
  std::optional<PlacementCallback> cb;
  if (observe)
    cb = [&](PlacementStep) {
      // an observer: reads everything a client may read during a callback
      observed += c.hpwl() + (long long)c.solution().size();
    };
  for (char st : seq) {
    std::string res = stageRun(c, st, p, cb, force, rnd);
    r.text += std::string(1, st) + ":" + res + " " + vc::solutionString(c) + "|";
  }
  return r;
}

static Circuit rebuild(const Circuit &c) {
  Circuit r(c.nbCells());
  r.setCellWidth(c.cellWidth());
  r.setCellHeight(c.cellHeight());
  r.setCellX(c.cellX());
  r.setCellY(c.cellY());
  r.setCellIsFixed(c.cellIsFixed());
  r.setCellIsObstruction(c.cellIsObstruction());
  r.setCellOrientation(c.cellOrientation());
  r.setCellRowPolarity(c.cellRowPolarity());
  r.setRows(c.rows());
  std::vector<int> limits = c.netLimits_, cells = c.pinCells_, xo = c.pinXOffsets_, yo = c.pinYOffsets_;
  std::vector<float> w = c.netWeights_;
  r.setNets(limits, cells, xo, yo, w);
  return r;
}

static bool pin(bool single, int cpuHint) {
  cpu_set_t all;
  CPU_ZERO(&all);
  long n = sysconf(_SC_NPROCESSORS_ONLN);
  if (single) CPU_SET(cpuHint % n, &all);
  else
    for (long i = 0; i < n; ++i) CPU_SET(i, &all);
  return sched_setaffinity(0, sizeof all, &all) == 0;
}

static ColoquinteParameters pickParams(vh::Rng &g) {
  ColoquinteParameters p = vc::genParams(g, g.chance(1, 2));
  p.seed = g.range(0, 100000);
  p.global.maxNbSteps = std::min<int>(p.global.maxNbSteps, g.range(4, 14));
  if (p.global.nbInitialSteps >= p.global.maxNbSteps) p.global.nbInitialSteps = p.global.maxNbSteps - 1;
  if (g.chance(1, 3)) p.global.noise = g.range(1, 100) / 1000.0;  // exercises rgen_
  return p;
}

static void detCase(ChildOut &co, const std::string &id, vh::Rng &g, bool thoroughTier) {
  vc::GenOpts o;
  o.maxCells = g.chance(1, 3) ? 30 : 15;
  o.maxRows = g.chance(1, 3) ? 10 : 6;
  vc::GenInfo gi;
  Circuit c = vc::genCircuit(g, o, &gi);
  Circuit other = vc::genCircuit(g, o, nullptr);
  static const std::vector<std::string> seqs = {"G", "G", "L", "D", "GL", "GLD", "LD", "GG"};
  std::string seq = g.pick(seqs);
  ColoquinteParameters p = pickParams(g);
  ColoquinteParameters pOther = pickParams(g);
  std::ostringstream hdr;
  hdr << "stages=" << seq << " seed=" << p.seed << " noise=" << p.global.noise << "|";
  std::string input = hdr.str() + vc::circuitString(c);
  auto expect = [&](const char *what, const RunResult &ref, const RunResult &got) {
    co.eval();
    co.count(std::string("compared:") + what);
    if (!(ref == got)) co.fail(std::string("result differs from the reference run: ") + what + " | reference " + ref.text + " | got " + got.text, input);
  };
  co.op("case " + id);
  co.impl("case " + id);
  RunResult ref = runSeq(c, seq, p, false);
  co.count("stages:" + seq);
  co.count(ref.text.find("throw") == std::string::npos ? "outcome:all_returned" : "outcome:some_stage_threw");
  expect("repeat", ref, runSeq(c, seq, p, false));
  expect("rebuilt_circuit", ref, runSeq(rebuild(c), seq, p, false));
  expect("observing_callback", ref, runSeq(c, seq, p, true));
  // permuted order in one process: other-then-c and c-then-other
  RunResult refOther = runSeq(other, "GL", pOther, false);
  expect("after_other_run", ref, runSeq(c, seq, p, false));
  expect("other_after_this_run", refOther, runSeq(other, "GL", pOther, false));
  // a different seed in between must not leak either
  {
    ColoquinteParameters p2 = p;
    p2.seed = p.seed + 1;
    p2.global.noise = 0.05;
    (void)runSeq(c, seq, p2, false);
    expect("after_run_with_other_seed", ref, runSeq(c, seq, p, false));
  }
  if (pin(true, (int)g.range(0, 63))) {
    expect("single_core_affinity", ref, runSeq(c, seq, p, false));
    pin(false, 0);
    expect("multi_core_affinity", ref, runSeq(c, seq, p, false));
  } else {
    co.count("affinity_unavailable");
  }
  bool hasG = seq.find('G') != std::string::npos;
#ifdef COLOQUINTE_VERIF_HAS_H1
  if (hasG) {
    struct F { Force f; const char *name; const char *order; };
    for (F f : {F{Force::XFirst, "forced_x_first", "XY"}, F{Force::YFirst, "forced_y_first", "YX"}, F{Force::Random, "random_delays", ""}}) {
      if (f.f == Force::Random && !thoroughTier && !g.chance(1, 2)) continue;
      gHook.xCalls = gHook.yCalls = gHook.otherCalls = 0;
      RunResult got = runSeq(c, seq, p, false, f.f, g.next());
      expect(f.name, ref, got);
      co.count(std::string("h1_calls_x"), gHook.xCalls);
      co.count(std::string("h1_calls_y"), gHook.yCalls);
      if (gHook.xCalls != gHook.yCalls) co.fail("hook H1 saw a different number of x and y solves", input);
      if (f.order[0] && gHook.xCalls > 0) {
        co.op(std::string("order ") + f.order);
        co.impl(std::string("order ") + f.order + " consistent " + (ref == got ? "same-result" : "different-result"));
      }
    }
    if (pin(true, (int)g.range(0, 63))) {
      expect("forced_y_first_single_core", ref, runSeq(c, seq, p, false, Force::YFirst, 0));
      pin(false, 0);
    }
  }
#else
  (void)thoroughTier;
  if (hasG) co.count("forced_order_skipped_no_hook_H1");
#endif
  co.nontrivial(vh::hashStr(input));
  co.sample(id + ": " + hdr.str() + " cells=" + std::to_string(c.nbCells()) + " movable=" + std::to_string(gi.nMovable) + " " + ref.text.substr(0, 120));
}

// number of linearisations of the two-task protocol (independent enumeration for the summary line):
// main: launchX launchY getX getY callback; task t: readT writeT, after launch t, before get t
static long long countSchedules() {
  long long n = 0;
  // state: main pc (0..5), x pc (0..2), y pc (0..2)
  std::function<void(int, int, int)> rec = [&](int m, int x, int y) {
    if (m == 5 && x == 2 && y == 2) { ++n; return; }
    if (m < 5) {
      bool ok = true;
      if (m == 2 && x != 2) ok = false;  // getX joins task x
      if (m == 3 && y != 2) ok = false;  // getY joins task y
      if (ok) rec(m + 1, x, y);
    }
    if (x < 2 && m >= 1) rec(m, x + 1, y);
    if (y < 2 && m >= 2) rec(m, x, y + 1);
  };
  rec(0, 0, 0);
  return n;
}

int main(int argc, char **argv) {
  vh::Args a = vh::parseArgs(argc, argv);
  vh::Out out(a.out);
  out.rule =
      "case = circuit (vc::genCircuit) x stage sequence x parameters incl. seed/noise; every case is compared bitwise "
      "against its reference under repeat / rebuilt circuit / observing callback / permuted run order / other seed in "
      "between / 1-core and all-core affinity (+ forced x-first, y-first, random delays with hook H1); all cases are "
      "non-trivial (a placement stage really runs); distinct by canonical text of the input";
#ifdef COLOQUINTE_VERIF_HAS_H1
  out.notes.push_back("hook H1 present: forced-order runs executed");
#else
  out.notes.push_back("hook H1 (fixes/hook-h1-solve-start.diff) not applied to this tree: forced-order runs skipped");
#endif
  // protocol summary for the driver
  out.ops << "case summary\n";
  out.impl << "case summary\n";
  out.ops << "summary\n";
  out.impl << "summary schedules=" << countSchedules() << " independent=true conflicts=0 hb-matches-scheduler=true\n";
  std::vector<Job> jobs;
  auto parseId = [&](const std::string &id) {
    if (id.size() < 3 || id[0] != 'd') return false;
    size_t us = id.find('_');
    if (us == std::string::npos) return false;
    jobs.push_back(mkJob('d', strtoull(id.substr(1, us - 1).c_str(), nullptr, 10), atoll(id.c_str() + us + 1)));
    return true;
  };
  if (!a.replay.empty()) {
    if (!parseId(fp::replayCaseId(a.replay))) {
      std::cerr << "cannot find a case id in " << a.replay << "\n";
      return 2;
    }
  } else {
    if (!a.corpus.empty())
      for (auto &ln : vh::readLines(a.corpus + "/cases.txt"))
        if (parseId(ln)) out.count("corpus");
    long long n = a.thorough() ? 6000 : a.search() ? 800 : 400;
    if (a.only >= 0) jobs.push_back(mkJob('d', a.seed, a.only));
    else
      for (long long k = 0; k < n; ++k) jobs.push_back(mkJob('d', a.seed, k));
  }
  long ncpu = sysconf(_SC_NPROCESSORS_ONLN);
  bool th = a.thorough();
  // leave room for the two solver threads of each child
  fp::runJobs(out, jobs, (int)std::max(2l, std::min(16l, ncpu) * 3 / 4), [th](ChildOut &co, const Job &j) {
    vh::Rng g = vh::Rng::forCase(j.seed, j.k);
    detCase(co, j.id, g, th);
  });
  out.finish();
  return 0;
}
