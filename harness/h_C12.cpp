// C12 — correspondence + direct oracle for coloquinte::RowLegalizer.
//
// For each generated instance (segment [b,e], cells (width,target) in push
// order) the harness performs  cost?; push; place  per cell on the real class
// and prints the answers; the Lean driver replays the same op lines.
// Direct oracle (independent code): the placement is ordered / disjoint /
// inside the segment, prediction == push, prediction leaves later answers
// unchanged (checked through the correspondence and through a twin object),
// the placement's weighted displacement equals the brute-force optimum and the
// reported costs sum to it.
#include <algorithm>
#include <climits>

#include "common/harness.hpp"
#include "place_detailed/row_legalizer.hpp"

using namespace coloquinte;

struct Inst {
  long long b, e;
  std::vector<std::pair<long long, long long>> cells;  // (width, target)
  std::string str() const {
    std::ostringstream os;
    os << "[" << b << "," << e << "]";
    for (auto &c : cells) os << " (" << c.first << "," << c.second << ")";
    return os.str();
  }
};

// Minimum of sum w_i |x_i - t_i| over ordered disjoint placements inside [b,e]
// (DP over integer positions; the optimum of this convex piecewise-linear
// problem with integer data is attained at integers).
static long long bruteOptimum(const Inst &in) {
  long long L = in.e - in.b;
  int n = in.cells.size();
  const long long INF = LLONG_MAX / 4;
  // best[x] = min cost of cells 0..i with x_i <= b + x
  std::vector<long long> best(L + 1, 0), nxt(L + 1);
  long long used = 0;
  for (int i = 0; i < n; ++i) {
    long long w = in.cells[i].first, t = in.cells[i].second;
    for (long long x = 0; x <= L; ++x) {
      // cell i at b+x : needs x >= used, x + w <= L - (sum of later widths) (checked at the end by feasibility)
      long long c = INF;
      if (x >= used && x + w <= L) {
        long long prev = (i == 0) ? 0 : (x - in.cells[i - 1].first >= 0 ? best[x - in.cells[i - 1].first] : INF);
        if (prev < INF) c = prev + w * std::llabs(in.b + x - t);
      }
      nxt[x] = std::min(c, x > 0 ? nxt[x - 1] : INF);
    }
    best = nxt;
    used += w;
  }
  return best[L];
}

struct Runner {
  vh::Out &out;
  long long bruteLimit;
  explicit Runner(vh::Out &o, long long bl) : out(o), bruteLimit(bl) {}

  // Reuse of one object: after clear() the legalizer must behave like a fresh one on the same segment.
  void runReuse(const std::string &id, const Inst &first, const std::vector<std::vector<std::pair<long long, long long>>> &later) {
    RowLegalizer leg(first.b, first.e);
    out.ops << "case " << id << "\n";
    out.impl << "case " << id << "\n";
    out.ops << "new " << first.b << " " << first.e << "\n";
    Inst cur = first;
    for (size_t round = 0; round <= later.size(); ++round) {
      if (round > 0) {
        leg.clear();
        out.ops << "clear\n";
        cur.cells = later[round - 1];
        out.count("rounds_after_clear");
      }
      runOn(leg, id, cur, nullptr, "after " + std::to_string(round) + " clear(): ");
    }
  }

  void run(const std::string &id, const Inst &in, vh::Rng *rng) {
    out.ops << "case " << id << "\n";
    out.impl << "case " << id << "\n";
    out.ops << "new " << in.b << " " << in.e << "\n";
    RowLegalizer leg(in.b, in.e);
    runOn(leg, id, in, rng, "");
  }

  void runOn(RowLegalizer &leg, const std::string &id, const Inst &in, vh::Rng *rng, const std::string &pfx) {
    vh::setCase(id, pfx + in.str());
    out.evaluations++;
    long long sumCost = 0;
    bool moved = false;
    std::vector<int> pl;
    for (size_t i = 0; i < in.cells.size(); ++i) {
      int w = in.cells[i].first, t = in.cells[i].second;
      bool query = rng ? rng->chance(2, 3) : true;
      long long predicted = 0;
      if (query) {
        predicted = leg.getCost(w, t);
        out.ops << "cost " << w << " " << t << "\n";
        out.impl << "cost " << predicted << "\n";
        if (rng && rng->chance(1, 4)) {  // a second query must give the same answer (purity)
          long long again = leg.getCost(w, t);
          out.ops << "cost " << w << " " << t << "\n";
          out.impl << "cost " << again << "\n";
          if (again != predicted) out.fail(id, "two successive cost queries disagree", in.str());
        }
      }
      long long c = leg.push(w, t);
      out.ops << "push " << w << " " << t << "\n";
      out.impl << "push " << c << "\n";
      if (query && c != predicted) out.fail(id, "predicted cost != cost reported by push", in.str());
      sumCost += c;
      pl = leg.getPlacement();
      out.ops << "place\n";
      out.impl << "place " << vh::join(pl) << "\n";
      // feasibility oracle
      if (pl.size() != i + 1) out.fail(id, "placement has wrong size", in.str());
      for (size_t j = 0; j < pl.size(); ++j) {
        if (pl[j] < in.b || pl[j] + in.cells[j].first > in.e) out.fail(id, "cell outside the segment", in.str());
        if (j + 1 < pl.size() && pl[j] + in.cells[j].first > pl[j + 1]) out.fail(id, "cells overlap / out of order", in.str());
      }
    }
    long long actual = 0;
    for (size_t j = 0; j < pl.size(); ++j) {
      actual += in.cells[j].first * std::llabs((long long)pl[j] - in.cells[j].second);
      if (pl[j] != in.cells[j].second) moved = true;
    }
    if (sumCost != actual) out.fail(id, "reported costs sum to " + std::to_string(sumCost) + " but the placement costs " + std::to_string(actual), in.str());
    if (in.e - in.b <= bruteLimit) {
      long long opt = bruteOptimum(in);
      out.count("brute_force_checked");
      if (actual != opt) out.fail(id, "placement cost " + std::to_string(actual) + " != optimum " + std::to_string(opt), in.str());
    }
    if (moved) { out.nontrivial(vh::hashStr(in.str())); out.count("conflict"); } else out.count("no_conflict");
    out.count("cells_" + std::to_string(in.cells.size()));
    out.sample(in.str());
  }
};

// enumerate all instances with segment [0,len], <= maxCells cells of width 1..3 that fit, targets in [-3,len+3]
static void exhaustive(Runner &r, int maxLen, int maxCells, long long &k) {
  for (int len = 1; len <= maxLen; ++len) {
    std::vector<std::pair<long long, long long>> cells;
    std::function<void(int)> rec = [&](int used) {
      if (!cells.empty()) {
        Inst in{0, len, cells};
        r.run("x" + std::to_string(k++), in, nullptr);
      }
      if ((int)cells.size() == maxCells) return;
      for (int w = 1; w <= 3 && used + w <= len; ++w)
        for (int t = -3; t <= len + 3; ++t) {
          cells.push_back({w, t});
          rec(used + w);
          cells.pop_back();
        }
    };
    rec(0);
  }
}

static Inst randomInst(vh::Rng &g, bool big) {
  Inst in;
  long long scale = big ? (1ll << 22) : 1;
  if (big) {
    long long len = g.range(1, 2 * scale - 2);
    in.b = g.range(-scale, scale - len);
    in.e = in.b + len;
  } else {
    in.b = g.range(-20, 20);
    in.e = in.b + g.range(1, g.chance(1, 2) ? 12 : 60);
  }
  long long L = in.e - in.b;
  int n = g.range(1, big ? 12 : 10);
  long long used = 0;
  long long maxw = big ? std::max(1ll, L / std::max(1, n / 2)) : std::min(6ll, L);
  for (int i = 0; i < n; ++i) {
    long long w = g.range(1, std::max(1ll, maxw));
    if (big && g.chance(1, 3)) w = g.range(1, 8);
    if (used + w > L) break;
    long long t;
    int m = g.range(0, 9);
    if (m < 5) t = g.range(in.b - 3, in.e + 3);
    else if (m < 7) t = g.range(in.b - L - 5, in.e + L + 5);
    else if (m < 8) t = in.b + used;  // exactly packed
    else t = in.cells.empty() ? in.b : in.cells.back().second + g.range(-2, 2);  // clustered
    if (big) t = std::max(-scale, std::min(scale, t));
    in.cells.push_back({w, t});
    used += w;
  }
  if (in.cells.empty()) in.cells.push_back({1, in.b});
  return in;
}

int main(int argc, char **argv) {
  vh::Args a = vh::parseArgs(argc, argv);
  vh::Out out(a.out);
  vh::installCrashHandler(&out);
  out.rule = "instances = (segment, pushes (width,target) that fit); exhaustive over small bounds then random "
             "(small and 2^22 magnitudes); non-trivial = final placement moves at least one cell off its target "
             "(a conflict or a segment end was active); distinct by canonical text of the instance";
  Runner r(out, 80);
  long long k = 0;
  // corpus first
  if (!a.corpus.empty()) {
    for (auto &ln : vh::readLines(a.corpus + "/instances.txt")) {
      std::istringstream is(ln);
      Inst in;
      if (!(is >> in.b >> in.e)) continue;
      long long w, t;
      while (is >> w >> t) in.cells.push_back({w, t});
      r.run("c" + std::to_string(k++), in, nullptr);
      out.count("corpus");
    }
  }
  int maxLen = a.thorough() ? 7 : (a.search() ? 6 : 5);
  int maxCells = a.thorough() ? 4 : 3;
  k = 0;
  exhaustive(r, maxLen, maxCells, k);
  out.count("exhaustive_instances", k);
  out.exhaustive = false;  // the random part is not exhaustive; the enumerated part is (see notes)
  out.notes.push_back("enumerated completely: segments [0,len] len<=" + std::to_string(maxLen) + ", <=" +
                      std::to_string(maxCells) + " cells, widths 1..3, targets -3..len+3: " + std::to_string(k) + " instances");
  long long nr = a.thorough() ? 300000 : (a.search() ? 100000 : 30000);
  for (long long i = 0; i < nr; ++i) {
    vh::Rng g = vh::Rng::forCase(a.seed, i);
    bool big = (i % 4 == 3);
    Inst in = randomInst(g, big);
    r.run(std::string(big ? "m" : "r") + std::to_string(i), in, &g);
    out.count(big ? "magnitude_2^22" : "random_small");
  }
  // object reuse across clear(): the same segment, two or three unrelated insertion sequences
  long long nu = a.thorough() ? 60000 : (a.search() ? 20000 : 6000);
  for (long long i = 0; i < nu; ++i) {
    vh::Rng g = vh::Rng::forCase(a.seed, 5000000 + i);
    bool big = (i % 4 == 3);
    Inst first = randomInst(g, big);
    long long L = first.e - first.b;
    std::vector<std::vector<std::pair<long long, long long>>> later;
    int rounds = g.range(1, 2);
    for (int rd = 0; rd < rounds; ++rd) {
      Inst other = randomInst(g, big);
      std::vector<std::pair<long long, long long>> cells;
      long long used = 0;
      for (auto &c : other.cells) {
        if (used + c.first > L) break;
        cells.push_back({c.first, c.second - other.b + first.b});
        used += c.first;
      }
      if (cells.empty()) cells.push_back({1, first.b});
      later.push_back(cells);
    }
    r.runReuse("u" + std::to_string(i), first, later);
    out.count("reuse_after_clear_cases");
  }
  out.finish();
  return 0;
}
