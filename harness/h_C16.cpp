// C16 — correspondence + direct oracle for the density grid, the hierarchical
// cell-to-bin allocation and the rough legalizer
// (src/place_global/density_grid.{hpp,cpp}, density_legalizer.{hpp,cpp}, utils/helpers.hpp).
//
// Every case builds a grid (from random regions incl. obstruction-like gaps, or from a
// vc::genCircuit circuit through fromIspdCircuit with random sizeFactor/sideMargin), a
// DensityLegalizer on it (random demands incl. zeros, random float targets inside / outside /
// coincident, a parameter set accepted by RoughLegalizationParameters::check mapped as in
// GlobalPlacer), and then walks a random sequence of
//   exact steps      refineX/refineY/coarsenX/coarsenY/setBinCells        (model must reproduce the state)
//   skeleton steps   rebisect / reoptimize / improveRectangle / improveX/YTransport (private members,
//                    reached with -fno-access-control): the permutation / split / assignment the
//                    real code chose is read off the result and handed to the Lean skeleton, which
//                    must then reproduce the state exactly
//   public passes    run / runCoarsening / runRefinement / refine / improve.  With the op-log hook H4
//                    (COLOQUINTE_VERIF_HAS_H4, fixes/hook-h4-density-legalizer-oplog.diff) every private
//                    rebisect / reoptimize / improveX/YTransport call and every level change the pass
//                    makes is logged; the Lean driver computes the pass' schedule from the integer
//                    parameters and the hierarchy (Model/GridSched.lean) and checks call by call that the
//                    logged call is the next scheduled one and that the skeleton of the scheduled call,
//                    with the observed permutation / split / assignment, reproduces the bins it touched
//                    (whole allocation after transports, level changes and at the end of the pass).
//                    Without the hook: snapshot of the allocation after the pass; the driver checks the
//                    allocation invariant on it.
//   demand updates   (family "error path with a partial write": a mutator that validates AFTER it has started to
//                    write.)  updateCellDemand(circuit) is called on the live placement at any point of its life (fresh,
//                    after level changes, after redistribution passes) with a circuit whose areas changed between
//                    non-zero values (accepted), or in which some cell's area changed to / from zero -- width 0, height 0,
//                    cell toggled fixed / movable -- (refused with an exception, which is caught); also the
//                    updateCellDemand(std::vector<int>) overload (no validation: non-zero -> non-zero changes only).  The
//                    Lean driver models the call branch for branch (`updemand` / `setdemand`: refused => nothing written)
//                    and the walk goes on; the direct oracle evaluates the statement with the demands the object reports
//                    after the call (it does NOT demand that a refused call leaves the state untouched -- only that the
//                    object still satisfies the statement, now and through the following steps).
// The direct oracle below is independent C++ evaluating the property statement on the real object
// after every step.  Each case runs in a forked child (the code's own check() asserts are compiled in).
#include <algorithm>
#include <climits>
#include <cmath>
#include <fcntl.h>
#include <map>
#include <memory>
#include <thread>

#include "common/circuit.hpp"
#include "place_global/density_legalizer.hpp"
#include "utils/helpers.hpp"

using namespace coloquinte;

namespace {

struct Sink {  // per-case output collected in the child
  std::ostream &os;
  explicit Sink(std::ostream &o) : os(o) {}
  void op(const std::string &s) { os << "O " << s << "\n"; }
  void impl(const std::string &s) { os << "I " << s << "\n"; }
  void both(const std::string &s) { op(s); impl(s); }
  int nbFail = 0;
  void fail(const std::string &s) { nbFail++; os << "F " << s << "\n"; }
  void hist(const std::string &s) { os << "H " << s << "\n"; }  // the object's history, appended to a failing input
  void count(const std::string &s) { os << "C " << s << "\n"; }
  void countN(const std::string &s, long long n) { if (n) os << "M " << n << " " << s << "\n"; }
  void nontrivial() { os << "N\n"; }
};

std::string line(const std::string &tag, const std::string &body) { return body.empty() ? tag : tag + " " + body; }

template <class T>
std::string showBin(const std::vector<T> &v) { return v.empty() ? std::string("-") : vh::join(v, ","); }

void dumpGrid(Sink &k, const DensityGrid &g) {
  std::vector<long long> lx, ly, cap;
  for (int i = 0; i <= g.nbBinsX(); ++i) lx.push_back(g.binLimitX(i));
  for (int j = 0; j <= g.nbBinsY(); ++j) ly.push_back(g.binLimitY(j));
  for (int i = 0; i < g.nbBinsX(); ++i)
    for (int j = 0; j < g.nbBinsY(); ++j) cap.push_back(g.binCapacity(i, j));
  k.impl(line("limx", vh::join(lx)));
  k.impl(line("limy", vh::join(ly)));
  k.impl(line("cap", vh::join(cap)));
  k.impl("total " + std::to_string(g.totalCapacity()));
}

void dumpHier(Sink &k, const char *tag, const std::vector<std::vector<int>> &lim, const std::vector<std::vector<int>> &par) {
  for (size_t l = 0; l < lim.size(); ++l)
    k.impl(std::string(tag) + " " + std::to_string(l) + " " + vh::join(lim[l]) + " | " + (l < par.size() ? vh::join(par[l]) : ""));
}

std::string binsString(const HierarchicalDensityPlacement &h) {
  std::vector<std::string> b;
  for (int i = 0; i < h.nbBinsX(); ++i)
    for (int j = 0; j < h.nbBinsY(); ++j) b.push_back(showBin(h.binCells(i, j)));
  return vh::join(b);
}
std::string cbString(const HierarchicalDensityPlacement &h, bool x) {
  std::vector<int> v;
  for (int c = 0; c < h.nbCells(); ++c) v.push_back(x ? h.cellBinX(c) : h.cellBinY(c));
  return vh::join(v);
}

void dumpAlloc(Sink &k, const HierarchicalDensityPlacement &h) {
  k.impl("st " + std::to_string(h.levelX()) + " " + std::to_string(h.levelY()) + " " + std::to_string(h.nbBinsX()) + " " + std::to_string(h.nbBinsY()));
  k.impl(line("bins", binsString(h)));
  k.impl(line("cbx", cbString(h, true)));
  k.impl(line("cby", cbString(h, false)));
}

void dumpView(Sink &k, const HierarchicalDensityPlacement &h) {
  std::vector<long long> cap, use, lx, ly;
  std::vector<int> px, py;
  for (int i = 0; i < h.nbBinsX(); ++i)
    for (int j = 0; j < h.nbBinsY(); ++j) { cap.push_back(h.binCapacity(i, j)); use.push_back(h.binUsage(i, j)); }
  for (int i = 0; i <= h.nbBinsX(); ++i) lx.push_back(h.binLimitX(i));
  for (int j = 0; j <= h.nbBinsY(); ++j) ly.push_back(h.binLimitY(j));
  for (int i = 0; i < h.nbBinsX(); ++i) px.push_back(h.parentX(i));
  for (int j = 0; j < h.nbBinsY(); ++j) py.push_back(h.parentY(j));
  k.impl(line("vcap", vh::join(cap)));
  k.impl(line("vuse", vh::join(use)));
  k.impl(line("vlx", vh::join(lx)));
  k.impl(line("vly", vh::join(ly)));
  k.impl(line("parx", vh::join(px)));
  k.impl(line("pary", vh::join(py)));
}

// ------------------------------------------------------------------ direct oracle (independent)

struct Ground {
  std::vector<Rectangle> regions;  // the free regions the grid was built from (computed independently for circuits)
  bool disjoint = true;            // pairwise disjoint (the property's domain for "capacity = free area")
  Rectangle area;                  // bounding box ((0,0,0,0) if empty)
};

bool regionsDisjoint(const std::vector<Rectangle> &r) {
  for (size_t a = 0; a < r.size(); ++a)
    for (size_t b = a + 1; b < r.size(); ++b) {
      long long w = std::min<long long>(r[a].maxX, r[b].maxX) - std::max<long long>(r[a].minX, r[b].minX);
      long long h = std::min<long long>(r[a].maxY, r[b].maxY) - std::max<long long>(r[a].minY, r[b].minY);
      if (w > 0 && h > 0) return false;
    }
  return true;
}

Rectangle boundingBox(const std::vector<Rectangle> &r) {
  if (r.empty()) return Rectangle(0, 0, 0, 0);
  Rectangle a = r[0];
  for (auto &q : r) { a.minX = std::min(a.minX, q.minX); a.maxX = std::max(a.maxX, q.maxX); a.minY = std::min(a.minY, q.minY); a.maxY = std::max(a.maxY, q.maxY); }
  return a;
}

// area of (union of regions) ∩ [x0,x1)×[y0,y1) by coordinate compression
long long freeAreaIn(const std::vector<Rectangle> &regs, long long x0, long long x1, long long y0, long long y1) {
  if (x1 <= x0 || y1 <= y0) return 0;
  std::vector<long long> xs = {x0, x1}, ys = {y0, y1};
  for (auto &r : regs) {
    for (long long v : {(long long)r.minX, (long long)r.maxX}) if (v > x0 && v < x1) xs.push_back(v);
    for (long long v : {(long long)r.minY, (long long)r.maxY}) if (v > y0 && v < y1) ys.push_back(v);
  }
  std::sort(xs.begin(), xs.end()); xs.erase(std::unique(xs.begin(), xs.end()), xs.end());
  std::sort(ys.begin(), ys.end()); ys.erase(std::unique(ys.begin(), ys.end()), ys.end());
  long long tot = 0;
  for (size_t a = 0; a + 1 < xs.size(); ++a)
    for (size_t b = 0; b + 1 < ys.size(); ++b) {
      bool cov = false;
      for (auto &r : regs)
        if (r.minX <= xs[a] && xs[a + 1] <= r.maxX && r.minY <= ys[b] && ys[b + 1] <= r.maxY) { cov = true; break; }
      if (cov) tot += (xs[a + 1] - xs[a]) * (ys[b + 1] - ys[b]);
    }
  return tot;
}

// bins tile the area; fine capacities = free area; totals
void oracleGrid(Sink &k, const DensityGrid &g, const Ground &gr) {
  if (g.binLimitX(0) != gr.area.minX || g.binLimitX(g.nbBinsX()) != gr.area.maxX || g.binLimitY(0) != gr.area.minY ||
      g.binLimitY(g.nbBinsY()) != gr.area.maxY)
    k.fail("grid limits do not span the placement area");
  for (int i = 0; i < g.nbBinsX(); ++i) if (g.binLimitX(i) > g.binLimitX(i + 1)) k.fail("x limits not monotone");
  for (int j = 0; j < g.nbBinsY(); ++j) if (g.binLimitY(j) > g.binLimitY(j + 1)) k.fail("y limits not monotone");
  if (!gr.disjoint) return;
  long long tot = 0, regArea = 0;
  for (auto &r : gr.regions) regArea += (long long)(r.maxX - r.minX) * (r.maxY - r.minY);
  for (int i = 0; i < g.nbBinsX(); ++i)
    for (int j = 0; j < g.nbBinsY(); ++j) {
      long long want = freeAreaIn(gr.regions, g.binLimitX(i), g.binLimitX(i + 1), g.binLimitY(j), g.binLimitY(j + 1));
      if (g.binCapacity(i, j) != want)
        k.fail("fine bin (" + std::to_string(i) + "," + std::to_string(j) + ") capacity " + std::to_string(g.binCapacity(i, j)) + " != free area " + std::to_string(want));
      tot += g.binCapacity(i, j);
    }
  if (tot != regArea) k.fail("sum of bin capacities " + std::to_string(tot) + " != free area " + std::to_string(regArea));
  if (g.totalCapacity() != regArea) k.fail("totalCapacity != free area");
}

// the whole statement on the current view
void oracleView(Sink &k, const DensityLegalizer &h, const Ground &gr, const std::vector<int> &demand,
                const std::vector<float> &tx, const std::vector<float> &ty, const std::string &after) {
  auto F = [&](const std::string &w) { k.fail("after " + after + ": " + w); };
  int nx = h.nbBinsX(), ny = h.nbBinsY();
  // view bins tile the area
  if (h.binLimitX(0) != gr.area.minX || h.binLimitX(nx) != gr.area.maxX || h.binLimitY(0) != gr.area.minY || h.binLimitY(ny) != gr.area.maxY)
    F("view limits do not span the placement area");
  for (int i = 0; i < nx; ++i) if (h.binLimitX(i) > h.binLimitX(i + 1)) F("view x limits not monotone");
  for (int j = 0; j < ny; ++j) if (h.binLimitY(j) > h.binLimitY(j + 1)) F("view y limits not monotone");
  // capacities: free area inside the bin; coarse = sum of the fine bins it covers
  const DensityGrid &g = h.grid();
  long long tot = 0;
  for (int i = 0; i < nx; ++i)
    for (int j = 0; j < ny; ++j) {
      long long x0 = h.binLimitX(i), x1 = h.binLimitX(i + 1), y0 = h.binLimitY(j), y1 = h.binLimitY(j + 1);
      long long cap = h.binCapacity(i, j);
      tot += cap;
      if (gr.disjoint) {
        long long want = freeAreaIn(gr.regions, x0, x1, y0, y1);
        if (cap != want) F("bin (" + std::to_string(i) + "," + std::to_string(j) + ") capacity " + std::to_string(cap) + " != free area " + std::to_string(want));
      }
      if (gr.area.minX < gr.area.maxX && gr.area.minY < gr.area.maxY) {
        long long fine = 0;
        for (int a = 0; a < g.nbBinsX(); ++a)
          for (int b = 0; b < g.nbBinsY(); ++b)
            if (g.binLimitX(a) >= x0 && g.binLimitX(a + 1) <= x1 && g.binLimitY(b) >= y0 && g.binLimitY(b + 1) <= y1) fine += g.binCapacity(a, b);
        if (fine != cap) F("bin (" + std::to_string(i) + "," + std::to_string(j) + ") capacity " + std::to_string(cap) + " != sum of its fine bins " + std::to_string(fine));
      }
    }
  if (tot != g.totalCapacity()) F("view capacities sum to " + std::to_string(tot) + " != total " + std::to_string(g.totalCapacity()));
  // allocation
  int n = demand.size();
  std::vector<int> cnt(n, 0), bx(n, -1), by(n, -1);
  for (int i = 0; i < nx; ++i)
    for (int j = 0; j < ny; ++j)
      for (int c : h.binCells(i, j)) {
        if (c < 0 || c >= n) { F("cell index out of range in a bin"); continue; }
        cnt[c]++; bx[c] = i; by[c] = j;
      }
  for (int c = 0; c < n; ++c) {
    if (demand[c] != 0 && cnt[c] != 1) F("cell " + std::to_string(c) + " of demand " + std::to_string(demand[c]) + " is in " + std::to_string(cnt[c]) + " bins");
    if (demand[c] == 0 && cnt[c] != 0) F("zero-demand cell " + std::to_string(c) + " is in " + std::to_string(cnt[c]) + " bins");
    if (cnt[c] == 1 && (h.cellBinX(c) != bx[c] || h.cellBinY(c) != by[c])) F("cellBinX/Y of cell " + std::to_string(c) + " disagree with binCells");
  }
  // demand totals: the areas are the ones the object works with, and (every non-zero cell being in exactly one bin,
  // the others in none) the bins' usage adds up to the total area of the cells
  {
    long long sum = 0, use = 0;
    bool same = h.nbCells() == n;
    for (int c = 0; c < n && same; ++c) if (h.cellDemand(c) != demand[c]) same = false;
    for (int c = 0; c < n; ++c) sum += demand[c];
    for (int i = 0; i < nx; ++i)
      for (int j = 0; j < ny; ++j) use += h.binUsage(i, j);
    if (!same) F("cellDemand() differs from the cells' areas");
    if (h.totalDemand() != sum) F("totalDemand " + std::to_string(h.totalDemand()) + " != sum of the cells' areas " + std::to_string(sum));
    if (use != sum) F("bin usages sum to " + std::to_string(use) + " != sum of the cells' areas " + std::to_string(sum));
  }
  // reported coordinates inside the bin.  On an axis where the whole placement area has zero extent
  // (min == max; only reachable through DensityGrid(binSize, regions) with degenerate rectangles, never
  // through fromIspdCircuit) the binary32 convex combination dem*max + (1-dem)*min may be one ulp off
  // max == min; that axis is outside the statement's domain and is skipped (counted).
  bool degX = gr.area.minX >= gr.area.maxX, degY = gr.area.minY >= gr.area.maxY;
  if (degX || degY) k.count("coords_axis_skipped_zero_extent_area");
  std::vector<float> sx = h.spreadCoordX(tx), sy = h.spreadCoordY(ty);
  std::vector<float> px = h.simpleCoordX(), py = h.simpleCoordY();
  for (int c = 0; c < n; ++c) {
    if (cnt[c] != 1) continue;
    float x0 = h.binLimitX(bx[c]), x1 = h.binLimitX(bx[c] + 1), y0 = h.binLimitY(by[c]), y1 = h.binLimitY(by[c] + 1);
    if (!degX && !(sx[c] >= x0 && sx[c] <= x1)) F("spreadCoordX of cell " + std::to_string(c) + " outside its bin");
    if (!degY && !(sy[c] >= y0 && sy[c] <= y1)) F("spreadCoordY of cell " + std::to_string(c) + " outside its bin");
    if (!(px[c] >= x0 && px[c] <= x1)) F("simpleCoordX of cell " + std::to_string(c) + " outside its bin");
    if (!(py[c] >= y0 && py[c] <= y1)) F("simpleCoordY of cell " + std::to_string(c) + " outside its bin");
  }
}

// ------------------------------------------------------------------ generators

std::vector<Rectangle> genRegions(vh::Rng &g, bool &overlapping, Sink &k) {
  std::vector<Rectangle> regs;
  int mode = g.range(0, 9);
  long long S = g.chance(1, 8) ? g.range(100, 4000) : 1;  // magnitude
  int x0 = g.range(-30, 30), y0 = g.range(-30, 30);
  if (mode == 0) {  // one plain rectangle (what the repository's tests use)
    regs.emplace_back(x0 * S, (x0 + g.range(1, 60)) * S, y0 * S, (y0 + g.range(1, 40)) * S);
    k.count("regions_single");
  } else if (mode <= 6) {  // rows of equal height cut by obstructions, ragged ends
    int H = g.range(1, 8), nr = g.range(1, 8), W = g.range(4, 60);
    int y = y0;
    for (int r = 0; r < nr; ++r) {
      if (g.chance(1, 8)) y += H * g.range(1, 2);
      int a = x0 + (g.chance(1, 3) ? g.range(-4, 4) : 0), b = a + W + (g.chance(1, 3) ? g.range(-3, 3) : 0);
      int cur = a;
      int cuts = g.chance(1, 2) ? g.range(1, 3) : 0;
      for (int c = 0; c < cuts && cur < b; ++c) {
        int e = g.range(cur, b);
        if (e > cur || g.chance(1, 6)) regs.emplace_back(cur * S, e * S, y * S, (y + H) * S);
        cur = e + g.range(0, 5);
      }
      if (cur < b) regs.emplace_back(cur * S, b * S, y * S, (y + H) * S);
      y += H;
    }
    if (regs.empty()) regs.emplace_back(x0 * S, (x0 + W) * S, y0 * S, (y0 + H) * S);
    k.count("regions_rows_with_obstructions");
  } else if (mode <= 8) {  // arbitrary disjoint rectangles on a coarse lattice
    int nxc = g.range(1, 6), nyc = g.range(1, 5);
    std::vector<int> xs = {x0}, ys = {y0};
    for (int i = 0; i < nxc; ++i) xs.push_back(xs.back() + g.range(0, 12));
    for (int j = 0; j < nyc; ++j) ys.push_back(ys.back() + g.range(0, 9));
    for (int i = 0; i < nxc; ++i)
      for (int j = 0; j < nyc; ++j)
        if (g.chance(3, 5)) regs.emplace_back(xs[i] * S, xs[i + 1] * S, ys[j] * S, ys[j + 1] * S);
    if (regs.empty()) regs.emplace_back(xs[0] * S, xs[nxc] * S, ys[0] * S, ys[nyc] * S);
    k.count("regions_lattice_incl_degenerate");
  } else {  // arbitrary, possibly overlapping (correspondence only)
    int n = g.range(1, 6);
    for (int i = 0; i < n; ++i) {
      int a = x0 + g.range(0, 30), c = y0 + g.range(0, 20);
      regs.emplace_back(a * S, (a + g.range(0, 25)) * S, c * S, (c + g.range(0, 15)) * S);
    }
    k.count("regions_arbitrary_maybe_overlapping");
  }
  // shuffle
  for (size_t i = regs.size(); i > 1; --i) std::swap(regs[i - 1], regs[g.range(0, i - 1)]);
  overlapping = !regionsDisjoint(regs);
  return regs;
}

float genFactor(vh::Rng &g, bool margin) {
  if (margin) {
    static const std::vector<double> v = {0.0, 0.0, 0.25, 0.5, 0.9, 0.9, 1.0, 1.5, 2.3};
    return g.chance(2, 3) ? (float)g.pick(v) : (float)(g.range(0, 3000000) / 1000000.0);
  }
  static const std::vector<double> v = {1.0, 1.5, 2.0, 2.5, 3.3, 5.0, 5.0, 7.7, 10.0, 25.0};
  return g.chance(2, 3) ? (float)g.pick(v) : (float)(1.0 + g.range(0, 24000000) / 1000000.0);
}

DensityLegalizer::Parameters genParams(vh::Rng &g, const Rectangle &area, Sink &k) {
  // a RoughLegalizationParameters set accepted by check(), mapped as GlobalPlacer's constructor does
  RoughLegalizationParameters r(g.range(1, 9));
  for (;;) {
    r.costModel = (LegalizationModel)g.range(0, 5);
    r.nbSteps = g.range(0, 2);
    r.lineReoptSize = g.chance(1, 4) ? 1 : g.range(2, g.chance(1, 6) ? 64 : 5);
    r.lineReoptOverlap = r.lineReoptSize > 1 ? g.range(1, std::min(r.lineReoptSize - 1, 4)) : g.range(1, 3);
    r.diagReoptSize = g.chance(1, 4) ? 1 : g.range(2, g.chance(1, 6) ? 64 : 4);
    r.diagReoptOverlap = r.diagReoptSize > 1 ? g.range(1, std::min(r.diagReoptSize - 1, 3)) : g.range(1, 3);
    r.squareReoptSize = g.chance(1, 2) ? 1 : g.range(2, g.chance(1, 5) ? 8 : 3);
    r.squareReoptOverlap = r.squareReoptSize > 1 ? g.range(1, r.squareReoptSize - 1) : g.range(1, 3);
    r.unidimensionalTransport = g.chance(1, 2);
    static const std::vector<double> cl = {0.0, 0.5, 1.0, 100.0};
    r.coarseningLimit = g.pick(cl);
    static const std::vector<double> qp = {0.0, 0.001, 0.1, 1.0};
    r.quadraticPenalty = g.pick(qp);
    try { r.check(); break; } catch (const std::exception &) { k.count("params_rejected_by_check"); }
  }
  DensityLegalizer::Parameters p;
  p.nbSteps = r.nbSteps;
  p.costModel = r.costModel;
  p.lineReoptSize = r.lineReoptSize; p.lineReoptOverlap = r.lineReoptOverlap;
  p.diagReoptSize = r.diagReoptSize; p.diagReoptOverlap = r.diagReoptOverlap;
  p.squareReoptSize = r.squareReoptSize; p.squareReoptOverlap = r.squareReoptOverlap;
  p.unidimensionalTransport = r.unidimensionalTransport && r.costModel == LegalizationModel::L1;
  p.coarseningLimit = r.coarseningLimit;
  LegalizationModel m = r.costModel;
  if (m == LegalizationModel::L1 || m == LegalizationModel::L2 || m == LegalizationModel::LInf) {
    float dist = area.width() + area.height();
    p.quadraticPenaltyFactor = r.quadraticPenalty / dist;
  }
  k.count(std::string("cost_model_") + std::to_string((int)m));
  if (p.unidimensionalTransport) k.count("params_unidimensional_transport");
  if (p.squareReoptSize >= 2) k.count("params_square_reopt");
  return p;
}

// ------------------------------------------------------------------ one case

struct Walker {
  Sink &k;
  vh::Rng &g;
  DensityLegalizer &leg;
  const Ground &gr;
  std::vector<int> demand;
  std::vector<float> tx, ty;
  bool changed = false;
  // demand updates: own random stream (the walk's stream stays the one of the cases without updates), the circuit
  // the current demands were read from (a synthetic one when the grid was built from regions), the life so far
  vh::Rng gu = vh::Rng(0);
  Circuit *circ = nullptr;
  int nLevelOps = 0, nRedistributions = 0, nUpdates = 0;
  bool stop = false;  // the statement failed right after an update: the walk ends (the object is not in a state the code's own asserts accept)

  using Snapshot = std::vector<std::vector<std::vector<int>>>;
  Snapshot snap() const {
    Snapshot s(leg.nbBinsX(), std::vector<std::vector<int>>(leg.nbBinsY()));
    for (int i = 0; i < leg.nbBinsX(); ++i)
      for (int j = 0; j < leg.nbBinsY(); ++j) s[i][j] = leg.binCells(i, j);
    return s;
  }
  void oracle(const std::string &after) { oracleView(k, leg, gr, demand, tx, ty, after); }

  std::pair<int, int> randomBin() { return {(int)g.range(0, leg.nbBinsX() - 1), (int)g.range(0, leg.nbBinsY() - 1)}; }

  void levelOp(const std::string &name) {
    k.op(name);
    k.hist(name);
    nLevelOps++;
    if (name == "refineX") leg.refineX();
    else if (name == "refineY") leg.refineY();
    else if (name == "coarsenX") leg.coarsenX();
    else leg.coarsenY();
    dumpAlloc(k, leg);
    dumpView(k, leg);
    k.count("op_" + name);
    oracle(name);
  }

  void setBins() {
    auto a = randomBin(), b = randomBin();
    std::vector<int> all = leg.binCells(a.first, a.second);
    if (a != b) all.insert(all.end(), leg.binCells(b.first, b.second).begin(), leg.binCells(b.first, b.second).end());
    for (size_t i = all.size(); i > 1; --i) std::swap(all[i - 1], all[g.range(0, i - 1)]);
    size_t cut = a == b ? all.size() : g.range(0, all.size());
    std::vector<int> na(all.begin(), all.begin() + cut), nb(all.begin() + cut, all.end());
    k.hist("setBinCells " + std::to_string(a.first) + " " + std::to_string(a.second) + " {" + vh::join(na, ",") + "}" +
           (a != b ? " ; setBinCells " + std::to_string(b.first) + " " + std::to_string(b.second) + " {" + vh::join(nb, ",") + "}" : ""));
    nRedistributions++;
    k.op("setbin " + std::to_string(a.first) + " " + std::to_string(a.second) + (na.empty() ? "" : " " + vh::join(na)));
    leg.setBinCells(a.first, a.second, na);
    dumpAlloc(k, leg);
    if (a != b) {
      k.op("setbin " + std::to_string(b.first) + " " + std::to_string(b.second) + (nb.empty() ? "" : " " + vh::join(nb)));
      leg.setBinCells(b.first, b.second, nb);
      dumpAlloc(k, leg);
    }
    k.count("op_setBinCells");
    oracle("setBinCells");
  }

  void rebisect() {
    auto a = randomBin(), b = randomBin();
    int m = g.range(0, 9);
    if (m < 4 && a.first + 1 < leg.nbBinsX()) b = {a.first + 1, a.second};
    else if (m < 8 && a.second + 1 < leg.nbBinsY()) b = {a.first, a.second + 1};
    Snapshot before = snap();
    k.hist("rebisect " + std::to_string(a.first) + " " + std::to_string(a.second) + " " + std::to_string(b.first) + " " + std::to_string(b.second));
    nRedistributions++;
    leg.rebisect(a.first, a.second, b.first, b.second);
    std::vector<int> order = leg.binCells(a.first, a.second);
    size_t split = order.size();
    order.insert(order.end(), leg.binCells(b.first, b.second).begin(), leg.binCells(b.first, b.second).end());
    k.op("rebisect " + std::to_string(a.first) + " " + std::to_string(a.second) + " " + std::to_string(b.first) + " " + std::to_string(b.second) + " " +
         std::to_string(split) + (order.empty() ? "" : " " + vh::join(order)));
    dumpAlloc(k, leg);
    k.count("op_rebisect");
    if (before != snap()) { changed = true; k.count("op_rebisect_changed"); }
    oracle("rebisect");
  }

  // emits the op line for reoptimize(cands) from the before/after states
  void emitReopt(const std::vector<std::pair<int, int>> &cands, const Snapshot &before) {
    std::ostringstream os;
    os << "reopt";
    for (auto &c : cands) os << " " << c.first << " " << c.second;
    os << " |";
    if (cands.size() == 2) {
      std::vector<int> order = leg.binCells(cands[0].first, cands[0].second);
      os << " " << order.size() << " |";
      if (cands[0] != cands[1]) order.insert(order.end(), leg.binCells(cands[1].first, cands[1].second).begin(), leg.binCells(cands[1].first, cands[1].second).end());
      for (int c : order) os << " " << c;
      os << " |";
    } else {
      os << " 0 | |";
      std::vector<std::pair<int, int>> pos;
      for (auto &c : cands) if (leg.binCapacity(c.first, c.second) > 0) pos.push_back(c);
      for (auto &c : cands)
        for (int cell : before[c.first][c.second]) {
          int r = 999;
          for (size_t q = 0; q < pos.size(); ++q)
            if (pos[q].first == leg.cellBinX(cell) && pos[q].second == leg.cellBinY(cell)) r = q;
          os << " " << r;
        }
    }
    k.op(os.str());
    dumpAlloc(k, leg);
    if (before != snap()) { changed = true; k.count("op_reoptimize_changed"); }
  }

  void reoptimize() {
    std::vector<std::pair<int, int>> cands;
    int nx = leg.nbBinsX(), ny = leg.nbBinsY();
    int shape = g.range(0, 3);
    auto a = randomBin();
    if (shape == 0) {  // rectangle, as improveRectangle
      int w = g.range(1, 3), h = g.range(1, 3);
      for (int x = a.first; x < nx && x < a.first + w; ++x)
        for (int y = a.second; y < ny && y < a.second + h; ++y) cands.push_back({x, y});
    } else if (shape == 1) {  // diagonal, as improveDiagonalRectangles
      int xmy = g.range(1, 3), xpy = g.range(1, 3);
      for (int q = 0; q < xmy; ++q)
        for (int l = 0; l < xpy; ++l) {
          int x = a.first + q + l, y = a.second - q + l;
          if (x >= 0 && x < nx && y >= 0 && y < ny) cands.push_back({x, y});
        }
    } else {  // arbitrary distinct bins
      int n = g.range(0, 6);
      for (int q = 0; q < n; ++q) {
        auto b = randomBin();
        if (std::find(cands.begin(), cands.end(), b) == cands.end()) cands.push_back(b);
      }
    }
    Snapshot before = snap();
    {
      std::string h = "reoptimize";
      for (auto &c : cands) h += " (" + std::to_string(c.first) + "," + std::to_string(c.second) + ")";
      k.hist(h);
    }
    nRedistributions++;
    leg.reoptimize(cands);
    emitReopt(cands, before);
    k.count("op_reoptimize_" + std::to_string(std::min<size_t>(cands.size(), 7)) + "bins");
    oracle("reoptimize");
  }

  void improveRectangle() {
    auto a = randomBin();
    int w = g.range(1, 4), h = g.range(1, 3);
    std::vector<std::pair<int, int>> cands;
    for (int x = a.first; x < leg.nbBinsX() && x < a.first + w; ++x)
      for (int y = a.second; y < leg.nbBinsY() && y < a.second + h; ++y) cands.push_back({x, y});
    Snapshot before = snap();
    k.hist("improveRectangle " + std::to_string(a.first) + " " + std::to_string(a.second) + " " + std::to_string(w) + " " + std::to_string(h));
    nRedistributions++;
    leg.improveRectangle(a.first, a.second, w, h);
    emitReopt(cands, before);
    k.count("op_improveRectangle");
    oracle("improveRectangle");
  }

  void transport(bool xdir) {
    Snapshot before = snap();
    k.hist(xdir ? "improveXTransport" : "improveYTransport");
    nRedistributions++;
    if (xdir) leg.improveXTransport(); else leg.improveYTransport();
    std::ostringstream os;
    os << (xdir ? "xtrans" : "ytrans");
    int outer = xdir ? leg.nbBinsY() : leg.nbBinsX(), inner = xdir ? leg.nbBinsX() : leg.nbBinsY();
    for (int o = 0; o < outer; ++o) {
      os << " |";
      for (int i = 0; i < inner; ++i)
        for (int c : (xdir ? before[i][o] : before[o][i])) os << " " << (xdir ? leg.cellBinX(c) : leg.cellBinY(c));
    }
    k.op(os.str());
    dumpAlloc(k, leg);
    k.count(xdir ? "op_improveXTransport" : "op_improveYTransport");
    if (before != snap()) { changed = true; k.count("op_transport_changed"); }
    oracle(xdir ? "improveXTransport" : "improveYTransport");
  }

  void runPass(const std::string &name) {
    if (name == "run") leg.run();
    else if (name == "runCoarsening") leg.runCoarsening();
    else if (name == "runRefinement") leg.runRefinement();
    else if (name == "refine") leg.refine();
    else leg.improve();
  }

#ifdef COLOQUINTE_VERIF_HAS_H4
  // ---- op-log replay of a public pass (hook H4)
  std::ostringstream passBuf;  // O/I lines of the calls, emitted after the `pass` line
  int depth = 0;
  long long nbCalls = 0, nbChoices = 0, nbNested = 0;
  std::string choices;
  std::string logged;  // the outermost call and the calls nested in it
  std::string curKind;
  std::vector<int> curArgs;
  std::vector<std::vector<int>> candBefore;  // contents of the candidate bins on entry of reoptimize
  Snapshot allBefore;                        // all bins on entry of a transport pass

  static Walker *&active() { static Walker *w = nullptr; return w; }
  static void hook(const char *kind, const int *args, int n) {
    if (active()) active()->onOp(kind, std::vector<int>(args, args + n));
  }

  void onOp(const std::string &kind, const std::vector<int> &args) {
    Sink kb(passBuf);
    if (kind == "coarsenChoice") {
      choices += " " + std::to_string(args.at(0)) + " " + std::to_string(args.at(1));
      nbChoices++;
      return;
    }
    if (kind == "refineX" || kind == "refineY" || kind == "coarsenX" || kind == "coarsenY") {
      if (depth != 0) kb.fail("level change logged inside a redistribution call");
      kb.op("pcall " + kind);
      kb.impl("pcall ok");
      dumpAlloc(kb, leg);
      dumpView(kb, leg);
      nbCalls++;
      return;
    }
    if (kind == "end") {
      if (--depth == 0) finishCall(kb);
      return;
    }
    std::string text = kind + (args.empty() ? "" : " " + vh::join(args));
    if (depth == 0) {
      logged = text;
      curKind = kind;
      curArgs = args;
      candBefore.clear();
      if (kind == "reoptimize")
        for (size_t q = 0; q + 1 < args.size(); q += 2) candBefore.push_back(leg.binCells(args[q], args[q + 1]));
      else if (kind != "rebisect")
        allBefore = snap();
    } else {
      logged += " ; " + text;
      nbNested++;
    }
    depth++;
  }

  void touchedLine(Sink &kb, const std::vector<std::pair<int, int>> &touched) {
    std::vector<std::string> b;
    std::vector<int> cx, cy;
    for (auto &t : touched) {
      b.push_back(showBin(leg.binCells(t.first, t.second)));
      for (int c : leg.binCells(t.first, t.second)) { cx.push_back(leg.cellBinX(c)); cy.push_back(leg.cellBinY(c)); }
    }
    kb.impl(line("tb", vh::join(b)) + " | " + vh::join(cx) + " | " + vh::join(cy));
  }

  // the outermost call returned: read the float-dependent choices off the result
  void finishCall(Sink &kb) {
    nbCalls++;
    std::ostringstream os;
    os << "pcall " << logged << " |";
    std::vector<std::pair<int, int>> touched;
    if (curKind == "rebisect" || (curKind == "reoptimize" && curArgs.size() == 4)) {
      std::pair<int, int> a{curArgs[0], curArgs[1]}, b{curArgs[2], curArgs[3]};
      std::vector<int> order = leg.binCells(a.first, a.second);
      os << " " << order.size() << " |";
      if (a != b) order.insert(order.end(), leg.binCells(b.first, b.second).begin(), leg.binCells(b.first, b.second).end());
      for (int c : order) os << " " << c;
      os << " |";
      touched.push_back(a);
      if (a != b || curKind == "reoptimize") touched.push_back(b);
    } else if (curKind == "reoptimize") {
      for (size_t q = 0; q + 1 < curArgs.size(); q += 2) touched.push_back({curArgs[q], curArgs[q + 1]});
      os << " 0 | |";
      std::vector<std::pair<int, int>> pos;
      for (auto &c : touched) if (leg.binCapacity(c.first, c.second) > 0) pos.push_back(c);
      for (auto &cells : candBefore)
        for (int cell : cells) {
          int r = 999;
          for (size_t q = 0; q < pos.size(); ++q)
            if (pos[q].first == leg.cellBinX(cell) && pos[q].second == leg.cellBinY(cell)) r = q;
          os << " " << r;
        }
    } else {
      bool xdir = curKind == "improveXTransport";
      int outer = xdir ? leg.nbBinsY() : leg.nbBinsX(), inner = xdir ? leg.nbBinsX() : leg.nbBinsY();
      for (int o = 0; o < outer; ++o) {
        if (o) os << " |";
        for (int i = 0; i < inner; ++i)
          for (int c : (xdir ? allBefore[i][o] : allBefore[o][i])) os << " " << (xdir ? leg.cellBinX(c) : leg.cellBinY(c));
      }
      kb.op(os.str());
      kb.impl("pcall ok");
      dumpAlloc(kb, leg);
      return;
    }
    kb.op(os.str());
    kb.impl("pcall ok");
    touchedLine(kb, touched);
  }

  void replayPass(const std::string &name) {
    passBuf.str("");
    depth = 0; nbCalls = nbChoices = nbNested = 0;
    choices.clear();
    active() = this;
    verif::onDensityLegalizerOp = &Walker::hook;
    runPass(name);
    verif::onDensityLegalizerOp = nullptr;
    active() = nullptr;
    if (depth != 0) k.fail("after " + name + ": unbalanced call log");
    k.op("pass " + name + " |" + choices);
    k.impl("pass " + name + " " + std::to_string(nbCalls) + " " + std::to_string(nbChoices));
    k.os << passBuf.str();
    k.op("endpass");
    k.impl("endpass 0");
    dumpAlloc(k, leg);
    k.count("pass_replayed_by_oplog");
    k.countN("pass_calls_checked_against_schedule", nbCalls);
    k.countN("pass_nested_rebisect_calls", nbNested);
    k.countN("pass_coarsening_decisions", nbChoices);
    if (nbCalls == 0) k.count("pass_with_empty_schedule");
  }
#endif

  void publicPass(const std::string &name) {
    Snapshot before = snap();
    k.hist(name);
    nRedistributions++;
#ifdef COLOQUINTE_VERIF_HAS_H4
    replayPass(name);
#else
    runPass(name);
    k.op("snap " + std::to_string(leg.levelX()) + " " + std::to_string(leg.levelY()) + " | " + binsString(leg) + " | " + cbString(leg, true) + " | " + cbString(leg, false));
    k.impl("snap ok");
    k.count("pass_checked_by_snapshot_only");
#endif
    dumpView(k, leg);
    k.count("pass_" + name);
    if (before != snap()) { changed = true; k.count("pass_changed_allocation"); }
    oracle(name);
  }

  // ---- demand updates on the live placement (family: error path with a partial write)
  static long long areaOf(bool fixed, int w, int h) { return fixed ? 0 : (long long)w * h; }

  // a circuit description whose demand for cell c is d (used when the grid did not come from a circuit, or to resync)
  void describe(int c, int d, std::vector<int> &w, std::vector<int> &h, std::vector<bool> &f) {
    if (d != 0) {
      static const std::vector<int> hs = {1, 1, 2, 3, 4, 5, 6, 8, 10};
      int hh = gu.pick(hs);
      if (d % hh != 0) hh = 1;
      f[c] = false; h[c] = hh; w[c] = d / hh;
    } else {
      int r = gu.range(0, 3);
      f[c] = r == 0 || r == 3;
      w[c] = (r == 1 || r == 3) ? 0 : (int)gu.range(1, 9);
      h[c] = r == 2 ? 0 : (int)gu.range(1, 6);
    }
  }

  void afterUpdate(const std::string &what, bool threw) {
    int before = k.nbFail;
    for (size_t c = 0; c < demand.size(); ++c) demand[c] = leg.cellDemand(c);  // the areas the object now works with
    oracle(what);
    if (k.nbFail > before) { stop = true; return; }
    if (!threw) return;
    // the caller caught the exception and keeps using the placement
    bool degenerate = gr.area.minX >= gr.area.maxX || gr.area.minY >= gr.area.maxY || leg.totalCapacity() <= 0;
    bool canRX = leg.levelX() >= 1, canRY = leg.levelY() >= 1;
    bool canCX = leg.levelX() + 1 < leg.nbLevelX(), canCY = leg.levelY() + 1 < leg.nbLevelY();
    std::vector<std::string> lv;
    if (canRX) lv.push_back("refineX");
    if (canRY) lv.push_back("refineY");
    if (canCX) lv.push_back("coarsenX");
    if (canCY) lv.push_back("coarsenY");
    int m = gu.range(0, 9);
    if (m < 5 || degenerate) {
      if (!lv.empty()) { levelOp(gu.pick(lv)); k.count("update_refused_then_level_change"); }
    } else if (m < 9) {
      if (gu.chance(1, 2)) rebisect(); else reoptimize();
      k.count("update_refused_then_rebisect/reoptimize");
    } else {
      static const std::vector<std::string> ps = {"improve", "run", "runCoarsening", "runRefinement"};
      publicPass(gu.pick(ps));
      k.count("update_refused_then_public_pass");
    }
  }

  void updateDemand() {
    int n = leg.nbCells();
    nUpdates++;
    k.count(nLevelOps + nRedistributions == 0 ? "update_on_fresh_placement" : nRedistributions == 0 ? "update_after_level_changes_only" : "update_after_redistribution_steps");
    if (changed) k.count("update_after_allocation_changed_by_legalizer");
    // the circuit the current demands came from (resynchronised with what the object reports)
    std::vector<int> w = circ->cellWidth(), h = circ->cellHeight();
    std::vector<bool> f = circ->cellIsFixed();
    for (int c = 0; c < n; ++c)
      if (areaOf(f[c], w[c], h[c]) != leg.cellDemand(c)) describe(c, leg.cellDemand(c), w, h, f);
    int mode = gu.range(0, 9);
    if (mode >= 8) {  // the vector overload: no validation, areas change between non-zero values only
      std::vector<int> nd(n);
      int nchg = 0;
      for (int c = 0; c < n; ++c) {
        int d = leg.cellDemand(c);
        nd[c] = d != 0 && gu.chance(2, 3) ? (int)gu.range(1, std::min(4000, 2 * d + 2)) : d;
        if (nd[c] != d) { nchg++; w[c] = nd[c]; h[c] = 1; f[c] = false; }
      }
      k.hist("updateCellDemand(vector) {" + vh::join(nd, ",") + "}");
      k.op(line("setdemand", vh::join(nd)));
      leg.updateCellDemand(nd);
      circ->setCellWidth(w); circ->setCellHeight(h); circ->setCellIsFixed(f);
      k.impl("setdemand ok");
      dumpAlloc(k, leg); dumpView(k, leg);
      { std::vector<int> dd; for (int c = 0; c < n; ++c) dd.push_back(leg.cellDemand(c)); k.impl(line("demands", vh::join(dd))); }
      for (int c = 0; c < n; ++c) if (leg.cellDemand(c) != nd[c]) { k.fail("after updateCellDemand(vector): cell " + std::to_string(c) + " has demand " + std::to_string(leg.cellDemand(c)) + ", not the area given " + std::to_string(nd[c])); break; }
      k.count("update_vector_overload_accepted");
      if (nchg) k.count("update_accepted_changed_some_area");
      afterUpdate("updateCellDemand(vector)", false);
      return;
    }
    bool wantRefused = mode < 4 && n > 0;
    std::vector<int> nw = w, nh = h;
    std::vector<bool> nf = f;
    int nchg = 0;
    for (int c = 0; c < n; ++c) {
      if (leg.cellDemand(c) != 0) {  // another non-zero area
        if (!gu.chance(2, 3)) continue;
        nw[c] = gu.range(1, std::min(1000, 2 * w[c] + 2));
        if (gu.chance(1, 4)) nh[c] = gu.range(1, std::min(64, 2 * h[c] + 1));
        if (areaOf(nf[c], nw[c], nh[c]) != leg.cellDemand(c)) nchg++;
      } else if (gu.chance(1, 2)) {  // another way of having no area: fixed / zero width / zero height
        describe(c, 0, nw, nh, nf);
        k.count("update_zero_cell_redescribed_(fixed<->zero_size)");
      }
    }
    if (wantRefused) {
      int q = gu.range(1, std::min(3, n));
      for (int t = 0; t < q; ++t) {
        int c = gu.range(0, n - 1);
        if (leg.cellDemand(c) != 0) {
          int r = gu.range(0, 2);
          // restore a non-zero area first so that each cause is seen alone
          if (areaOf(nf[c], nw[c], nh[c]) == 0) continue;  // already flipped by a previous pick
          if (r == 0) { nw[c] = 0; k.count("update_refused_area_to_zero_by_width"); }
          else if (r == 1) { nh[c] = 0; k.count("update_refused_area_to_zero_by_height"); }
          else { nf[c] = true; k.count("update_refused_area_to_zero_by_fixing_the_cell"); }
        } else {
          if (areaOf(nf[c], nw[c], nh[c]) != 0) continue;
          bool wasFixedOnly = nf[c] && nw[c] > 0 && nh[c] > 0;
          nf[c] = false;
          if (nw[c] <= 0) nw[c] = gu.range(1, 9);
          if (nh[c] <= 0) nh[c] = gu.range(1, 6);
          k.count(wasFixedOnly ? "update_refused_area_from_zero_by_unfixing_the_cell" : "update_refused_area_from_zero_by_size");
        }
      }
    }
    std::vector<int> nd(n);
    bool zeroFlip = false;
    for (int c = 0; c < n; ++c) {
      nd[c] = (int)areaOf(nf[c], nw[c], nh[c]);
      if ((nd[c] == 0) != (leg.cellDemand(c) == 0)) zeroFlip = true;
    }
    Circuit next = *circ;
    next.setCellWidth(nw); next.setCellHeight(nh); next.setCellIsFixed(nf);
    {
      std::vector<int> fi;
      for (int c = 0; c < n; ++c) fi.push_back(nf[c] ? 1 : 0);
      k.hist("updateCellDemand(circuit) widths={" + vh::join(nw, ",") + "} heights={" + vh::join(nh, ",") + "} fixed={" + vh::join(fi, ",") + "} areas={" + vh::join(nd, ",") + "}" +
             (zeroFlip ? " [some area changes to/from zero]" : ""));
    }
    k.op(line("updemand", vh::join(nd)));
    std::string res = "ok";
    try { leg.updateCellDemand(next); }
    catch (const std::runtime_error &) { res = "throw:runtime_error"; }
    catch (const std::exception &) { res = "throw:exception"; }
    k.hist(std::string("  -> ") + res);
    k.impl("updemand " + res);
    dumpAlloc(k, leg); dumpView(k, leg);
    { std::vector<int> dd; for (int c = 0; c < n; ++c) dd.push_back(leg.cellDemand(c)); k.impl(line("demands", vh::join(dd))); }
    bool threw = res != "ok";
    if (!threw) {
      *circ = next;
      // the statement's areas are now the ones of the circuit handed over
      for (int c = 0; c < n; ++c) if (leg.cellDemand(c) != nd[c]) { k.fail("after accepted updateCellDemand(circuit): cell " + std::to_string(c) + " has demand " + std::to_string(leg.cellDemand(c)) + ", not the movable cell's area " + std::to_string(nd[c])); break; }
    }
    k.count(threw ? "update_circuit_refused_(exception_caught)" : "update_circuit_accepted");
    if (!threw && nchg) k.count("update_accepted_changed_some_area");
    if (n == 0) k.count("update_on_placement_without_cells");
    afterUpdate(threw ? "refused updateCellDemand(circuit)" : "accepted updateCellDemand(circuit)", threw);
  }

  void maybeUpdate() {
    if (!stop && gu.chance(1, 10)) updateDemand();
  }

  void walk(int steps) {
    bool degenerate = gr.area.minX >= gr.area.maxX || gr.area.minY >= gr.area.maxY || leg.totalCapacity() <= 0;
    // most walks first descend a random number of levels (the constructor leaves the single-bin view)
    maybeUpdate();  // on the fresh placement
    if (g.chance(4, 5)) {
      int d = g.range(1, leg.nbLevelX() + leg.nbLevelY());
      for (int q = 0; q < d && !stop; ++q) {
        bool rx = leg.levelX() >= 1, ry = leg.levelY() >= 1;
        if (!rx && !ry) break;
        if (rx && (!ry || g.chance(1, 2))) levelOp("refineX"); else levelOp("refineY");
        if (!degenerate && g.chance(1, 3)) { if (g.chance(1, 2)) rebisect(); else reoptimize(); }
      }
      maybeUpdate();
    }
    for (int s = 0; s < steps && !stop; ++s, maybeUpdate()) {
      int m = g.range(0, 99);
      bool canRX = leg.levelX() >= 1, canRY = leg.levelY() >= 1;
      bool canCX = leg.levelX() + 1 < leg.nbLevelX(), canCY = leg.levelY() + 1 < leg.nbLevelY();
      if (m < 12) { if (canRX) levelOp("refineX"); else if (canRY) levelOp("refineY"); }
      else if (m < 24) { if (canRY) levelOp("refineY"); else if (canRX) levelOp("refineX"); }
      else if (m < 34) { if (canCX) levelOp("coarsenX"); }
      else if (m < 44) { if (canCY) levelOp("coarsenY"); }
      else if (m < 52) { if (!degenerate) reoptimize(); }
      else if (m < 57) setBins();
      else if (degenerate) continue;  // the float passes divide by the area's width/height
      else if (m < 66) rebisect();
      else if (m < 76) reoptimize();
      else if (m < 80) improveRectangle();
      else if (m < 84) transport(true);
      else if (m < 88) transport(false);
      else if (m < 91) publicPass("improve");
      else if (m < 94) { if (canRX || canRY) publicPass("refine"); }
      else if (m < 96) publicPass("run");
      else if (m < 98) publicPass("runCoarsening");
      else publicPass("runRefinement");
    }
  }
};

void runCase(std::ostream &os, uint64_t seed, long long idx, const std::string &id, std::string *inputOut) {
  Sink k(os);
  vh::Rng g = vh::Rng::forCase(seed, idx);
  k.both("case " + id);
  Ground gr;
  std::vector<int> demand;
  bool fromCircuit = g.chance(1, 3);
  std::unique_ptr<DensityLegalizer> leg;
  std::unique_ptr<Circuit> circ;  // the circuit the demands come from (demand updates)
  std::ostringstream input;
  if (fromCircuit) {
    vc::GenOpts o;
    o.maxRows = 8; o.maxCells = 25;
    Circuit c = vc::genCircuit(g, o);
    if (g.chance(1, 25)) {  // sometimes a fixed obstruction covers every row (fromIspdCircuit's last fallback)
      for (int i = 0; i < c.nbCells(); ++i) {
        if (!c.isFixed(i) || !c.isObstruction(i)) continue;
        std::vector<Rectangle> rr(c.rows().begin(), c.rows().end());
        Rectangle bb = boundingBox(rr);
        std::vector<int> w = c.cellWidth(), h = c.cellHeight(), x = c.cellX(), y = c.cellY();
        std::vector<CellOrientation> orr = c.cellOrientation();
        w[i] = bb.width() + 2; h[i] = bb.height() + 2; x[i] = bb.minX - 1; y[i] = bb.minY - 1; orr[i] = CellOrientation::N;
        c.setCellWidth(w); c.setCellHeight(h); c.setCellX(x); c.setCellY(y); c.setCellOrientation(orr);
        k.count("circuit_forced_full_obstruction");
        break;
      }
    }
    float sf = genFactor(g, false), sm = genFactor(g, true);
    // keep the grid small enough for the dumps
    for (int t = 0; t < 6; ++t) {
      DensityGrid probe = DensityGrid::fromIspdCircuit(c, sf, sm);
      if (probe.nbBins() <= 160) break;
      sf = std::min(25.0f, sf * 1.7f);
    }
    std::ostringstream cs;
    vc::dumpCircuit(cs, c);
    std::istringstream is(cs.str());
    std::string ln;
    while (std::getline(is, ln)) k.op(ln);
    input << "circuit sizeFactor=" << vc::exactDouble(sf) << " sideMargin=" << vc::exactDouble(sm) << "\n" << cs.str();
    k.op("ispd " + vc::exactDouble(sf) + " " + vc::exactDouble(sm));
    // independent ground truth: free row segments (1-D interval code of common/circuit.hpp, no boost), minus the margin
    int mh = INT_MAX;
    for (int i = 0; i < c.nbCells(); ++i) if (c.cellHeight()[i] > 0) mh = std::min(mh, c.cellHeight()[i]);
    int margin = sm * mh;
    int binSize = sf * mh;
    for (const Row &r : c.rows())
      for (const vc::Seg &s : vc::freeSegments(c, r))
        if (s.hi - s.lo > 2LL * margin) gr.regions.emplace_back(s.lo + margin, s.hi - margin, r.minY, r.maxY);
    if (gr.regions.empty()) {
      // documented fallback of fromIspdCircuit: the margin removed every row -> the free rows without margin;
      // no free row at all -> the bounding box of the circuit's rows
      for (const Row &r : c.rows())
        for (const vc::Seg &s : vc::freeSegments(c, r)) gr.regions.emplace_back(s.lo, s.hi, r.minY, r.maxY);
      k.count("grid_fallback_margin_waived");
      if (gr.regions.empty() && c.nbRows() > 0) {
        std::vector<Rectangle> rr(c.rows().begin(), c.rows().end());
        gr.regions.push_back(boundingBox(rr));
        k.count("grid_fallback_fully_obstructed_whole_area");
      }
    }
    HierarchicalDensityPlacement hp = HierarchicalDensityPlacement::fromIspdCircuit(c, sf, sm);
    k.impl("ispd " + std::to_string(mh) + " " + std::to_string(binSize) + " " + std::to_string(margin));
    {
      // the domain of the Lean theorem circuit_grid_capacity_is_free_area (RowsDom), evaluated independently
      bool dom = c.nbRows() > 0;
      std::vector<Rectangle> rr(c.rows().begin(), c.rows().end());
      for (size_t q = 0; q < rr.size(); ++q) {
        if (rr[q].maxY - rr[q].minY <= 0 || rr[q].maxY - rr[q].minY != rr[0].maxY - rr[0].minY || rr[q].minX >= rr[q].maxX) dom = false;
        for (size_t q2 = q + 1; q2 < rr.size(); ++q2)
          if (rr[q].minX < rr[q2].maxX && rr[q2].minX < rr[q].maxX && rr[q].minY < rr[q2].maxY && rr[q2].minY < rr[q].maxY) dom = false;
      }
      k.impl(std::string("rowsdom ") + (dom ? "1" : "0"));
      k.count(dom ? "circuit_rows_in_theorem_domain_(RowsDom)" : "circuit_rows_outside_theorem_domain");
    }
    dumpGrid(k, hp.grid());
    for (int i = 0; i < c.nbCells(); ++i) demand.push_back(hp.cellDemand(i));
    k.impl(line("demands", vh::join(demand)));
    // demands as the statement defines them
    for (int i = 0; i < c.nbCells(); ++i) {
      long long want = c.isFixed(i) ? 0 : (long long)c.cellWidth()[i] * c.cellHeight()[i];
      if (demand[i] != want) k.fail("cell demand differs from the movable cell's area");
    }
    leg.reset(new DensityLegalizer(hp));
    circ.reset(new Circuit(c));
    k.count("grid_from_circuit");
    if (margin > 0) k.count("grid_margin_positive");
    bool obstructed = false;
    for (int i = 0; i < c.nbCells(); ++i) if (c.isFixed(i) && c.isObstruction(i) && c.cellWidth()[i] > 0 && c.cellHeight()[i] > 0) obstructed = true;
    if (obstructed) k.count("grid_circuit_with_obstruction");
  } else {
    bool overlapping = false;
    gr.regions = genRegions(g, overlapping, k);
    Rectangle bb = boundingBox(gr.regions);
    int lo = std::max<long long>(1, std::max(bb.width(), bb.height()) / 12);
    int binSize = g.chance(1, 10) ? g.range(lo, std::max(lo, std::max(bb.width(), bb.height()) + 3)) : g.range(lo, 3 * lo + 2);
    std::ostringstream rs;
    rs << "regions " << binSize;
    for (auto &r : gr.regions) rs << " " << r.minX << " " << r.maxX << " " << r.minY << " " << r.maxY;
    k.op(rs.str());
    input << rs.str();
    DensityGrid grid(binSize, gr.regions);
    dumpGrid(k, grid);
    // computeSubdivisions itself, on the same extent with another count
    int n = g.range(1, 40);
    k.op("subdiv " + std::to_string(bb.minX) + " " + std::to_string(bb.maxX) + " " + std::to_string(n));
    k.impl(line("subdiv", vh::join(computeSubdivisions(bb.minX, bb.maxX, n))));
    int nc = g.range(0, 25);
    long long capa = grid.totalCapacity();
    int dmax = g.chance(1, 4) ? 60 : (int)std::max<long long>(2, std::min<long long>(40, capa / std::max(1, nc) + 1));
    for (int i = 0; i < nc; ++i) demand.push_back(g.chance(1, 5) ? 0 : g.range(1, dmax));
    leg.reset(new DensityLegalizer(grid, demand));
    k.count("grid_from_regions");
    if (overlapping) k.count("grid_regions_overlapping_(correspondence_only)");
  }
  gr.disjoint = regionsDisjoint(gr.regions);
  gr.area = boundingBox(gr.regions);
  if (inputOut) *inputOut = input.str();
  const DensityGrid &grid = leg->grid();
  oracleGrid(k, grid, gr);
  k.op(line("hplace", vh::join(demand)));
  dumpHier(k, "hx", leg->xLimits_, leg->parentX_);
  dumpHier(k, "hy", leg->yLimits_, leg->parentY_);
  dumpAlloc(k, *leg);
  dumpView(k, *leg);
  // targets: inside, outside, coincident
  int n = demand.size();
  std::vector<float> tx(n), ty(n);
  int tmode = g.range(0, 4);
  float cx = gr.area.minX + (gr.area.maxX - gr.area.minX) * (g.range(0, 100) / 100.0f), cy = gr.area.minY + (gr.area.maxY - gr.area.minY) * (g.range(0, 100) / 100.0f);
  for (int i = 0; i < n; ++i) {
    int m = tmode == 4 ? g.range(0, 3) : tmode;
    if (m == 0) { tx[i] = gr.area.minX + (gr.area.maxX - gr.area.minX) * (g.range(0, 1000) / 1000.0f); ty[i] = gr.area.minY + (gr.area.maxY - gr.area.minY) * (g.range(0, 1000) / 1000.0f); }
    else if (m == 1) { tx[i] = g.range(-100000, 100000) / 7.0f; ty[i] = g.range(-100000, 100000) / 7.0f; }
    else if (m == 2) { tx[i] = cx; ty[i] = cy; }
    else { tx[i] = (float)grid.binLimitX(g.range(0, grid.nbBinsX())); ty[i] = (float)grid.binLimitY(g.range(0, grid.nbBinsY())); }
  }
  k.count("targets_mode_" + std::to_string(tmode));
  leg->updateCellTargetX(tx);
  leg->updateCellTargetY(ty);
  leg->setParams(genParams(g, gr.area, k));
  {
    const DensityLegalizer::Parameters &p = leg->params();
    k.op("params " + std::to_string(p.nbSteps) + " " + std::to_string(p.lineReoptSize) + " " + std::to_string(p.lineReoptOverlap) + " " +
         std::to_string(p.diagReoptSize) + " " + std::to_string(p.diagReoptOverlap) + " " + std::to_string(p.squareReoptSize) + " " +
         std::to_string(p.squareReoptOverlap) + " " + (p.unidimensionalTransport ? "1" : "0"));
  }
  Walker w{k, g, *leg, gr, demand, tx, ty};
  w.gu = vh::Rng::forCase(seed ^ 0x5DEECE66Dull, idx);
  if (!circ) {  // grid from regions: a circuit of n cells with these areas (updateCellDemand reads isFixed and the sizes only)
    circ.reset(new Circuit(n));
    std::vector<int> cw(n, 0), ch(n, 0);
    std::vector<bool> cf(n, false);
    for (int c = 0; c < n; ++c) w.describe(c, demand[c], cw, ch, cf);
    circ->setCellWidth(cw); circ->setCellHeight(ch); circ->setCellIsFixed(cf);
  }
  w.circ = circ.get();
  w.oracle("construction");
  int bins = grid.nbBins();
  k.count(bins == 1 ? "grid_1_bin" : bins <= 8 ? "grid_2-8_bins" : bins <= 40 ? "grid_9-40_bins" : "grid_41+_bins");
  bool nonUniform = false;
  for (int i = 0; i < grid.nbBinsX(); ++i)
    for (int j = 0; j < grid.nbBinsY(); ++j)
      if (grid.binCapacity(i, j) != (long long)(grid.binLimitX(i + 1) - grid.binLimitX(i)) * (grid.binLimitY(j + 1) - grid.binLimitY(j))) nonUniform = true;
  if (nonUniform) k.count("grid_obstructed_capacity");
  w.walk(g.range(4, 14));
  int positive = 0;
  for (int d : demand) if (d > 0) positive++;
  if (bins > 1 && positive > 0 && w.changed) k.nontrivial();
  if (w.nUpdates) k.count("cases_with_demand_updates");
  if (w.nUpdates >= 2) k.count("cases_with_2+_demand_updates");
}

}  // namespace

int main(int argc, char **argv) {
  vh::Args a = vh::parseArgs(argc, argv);
  vh::Out out(a.out);
  out.rule = "case = grid (random disjoint/obstructed/degenerate regions, or vc::genCircuit through fromIspdCircuit with random "
             "sizeFactor/sideMargin) + demands (zeros included) + float targets (inside/outside/coincident/on limits) + a parameter "
             "set accepted by RoughLegalizationParameters::check + a random walk of refine/coarsen/setBinCells/rebisect/reoptimize/"
             "improveRectangle/improveX/YTransport/run/refine/improve, interleaved (1 step in 10, own random stream) with demand updates on the "
             "live placement: updateCellDemand(circuit) accepted (areas change between non-zero values; counters update_circuit_accepted, "
             "update_accepted_changed_some_area) or refused and caught (an area changes to/from zero by width 0 / height 0 / fixing / unfixing "
             "a cell; counters update_circuit_refused_*, update_refused_area_*, then a level change / rebisect / reoptimize / public pass: "
             "update_refused_then_*), updateCellDemand(vector) (update_vector_overload_accepted), at every stage of the object's life "
             "(update_on_fresh_placement / update_after_level_changes_only / update_after_redistribution_steps); the statement is evaluated "
             "after each with the demands the object reports; non-trivial = more than one bin, at least one positive-demand "
             "cell and at least one redistribution step that changed the allocation; distinct by case input";
  long long n = a.thorough() ? 100000 : (a.search() ? 5000 : 6000);
  std::vector<long long> todo;
  if (!a.replay.empty()) {
    // replay file: JSON written by check.py; the case id "k<idx>" identifies the generator index
    std::ifstream f(a.replay);
    std::string all((std::istreambuf_iterator<char>(f)), std::istreambuf_iterator<char>());
    size_t p = all.find("\"case\": \"k");
    if (p != std::string::npos) todo.push_back(atoll(all.c_str() + p + 10));
    // the case (grid, demands, targets, parameters, the whole history of calls incl. the demand updates and their
    // circuits) is regenerated from (seed, index); the seed is the one recorded in the failing input
    size_t q = all.find("\"input\": \"seed=");
    if (q != std::string::npos) a.seed = strtoull(all.c_str() + q + 15, nullptr, 10);
  }
  if (todo.empty())
    for (long long i = 0; i < n; ++i) todo.push_back(i);
  // one case's streams -> ops.txt / impl.txt / oracle.txt / stats
  auto absorb = [&](long long i, const std::string &st, const std::string &output, const std::string &diag) {
    std::string id = "k" + std::to_string(i);
    std::string input;
    out.evaluations++;
    // the input description is the first op lines of the case
    std::istringstream is(output);
    std::string ln;
    std::vector<std::string> ops, impl, fails;
    std::string history;  // the calls made on the placement up to the first failure
    bool nontrivial = false;
    while (std::getline(is, ln)) {
      if (ln.size() < 1) continue;
      char t = ln[0];
      std::string body = ln.size() > 2 ? ln.substr(2) : "";
      if (t == 'O') ops.push_back(body);
      else if (t == 'I') impl.push_back(body);
      else if (t == 'F') fails.push_back(body);
      else if (t == 'H') { if (fails.empty()) history += "  " + body + "\n"; }
      else if (t == 'C') out.count(body);
      else if (t == 'M') { size_t sp = body.find(' '); if (sp != std::string::npos) out.count(body.substr(sp + 1), atoll(body.c_str())); }
      else if (t == 'N') nontrivial = true;
    }
    for (size_t q = 0; q < ops.size() && q < 40; ++q)
      if (ops[q].rfind("case", 0) != 0) { input += ops[q] + "\n"; if (ops[q].rfind("hplace", 0) == 0) break; }
    input = "seed=" + std::to_string(a.seed) + " index=" + std::to_string(i) + "\n" + input;
    if (st != "ok") {
      // what the case had written before it died (a case run alone writes through an unbuffered file)
      std::string soFar = input + "history of calls on the placement before the crash (regenerated from seed/index on replay):\n" + history;
      for (auto &s : fails) out.fail(id, s, soFar);
      out.fail(id, "crash inside the real code (" + st + "): " + diag.substr(0, 600), soFar);
      out.count("crashed_cases");
      return;  // nothing of this case goes to the streams
    }
    for (auto &s : ops) out.ops << s << "\n";
    for (auto &s : impl) out.impl << s << "\n";
    std::string failInput = input + "history of calls on the placement (regenerated from seed/index on replay):\n" + history;
    for (auto &s : fails) out.fail(id, s, failInput);
    if (nontrivial) out.nontrivial(vh::hashStr(input));
    if (out.samples.size() < 4) out.sample(input.substr(0, 300));
  };
  auto runAlone = [&](long long i) {
    std::string output, diag;
    std::string part = a.out + "/alone-" + std::to_string(i) + ".txt";
    std::string st = vh::isolated([&](std::ostream &os) {
      { std::ofstream f(part); f << std::unitbuf; runCase(f, a.seed, i, "k" + std::to_string(i), nullptr); }
      std::ifstream r(part);
      os << r.rdbuf();
    }, output, 120, &diag);
    if (st != "ok") { std::ifstream r(part); output.assign((std::istreambuf_iterator<char>(r)), std::istreambuf_iterator<char>()); }
    unlink(part.c_str());
    absorb(i, st, output, diag);
  };
  if (a.only >= 0) {
    std::vector<long long> t2;
    for (long long i : todo) if (i == a.only) t2.push_back(i);
    todo = t2;
  }
  if (todo.size() <= 4) {
    for (long long i : todo) runAlone(i);
  } else {
    // Batches of cases per forked child (the fork of a sanitized process costs more than a case), several
    // children at a time; results are absorbed in case order.  A case whose batch died before finishing it
    // is run again alone, so that a crash is attributed to its case and costs nothing to the others.
    const size_t B = 12;
    const size_t P = std::max(1u, std::min(16u, std::thread::hardware_concurrency()));
    struct Batch { std::vector<long long> idx; pid_t pid = -1; std::string file; };
    std::vector<Batch> batches;
    for (size_t q = 0; q < todo.size(); q += B) {
      Batch b;
      b.idx.assign(todo.begin() + q, todo.begin() + std::min(todo.size(), q + B));
      b.file = a.out + "/batch-" + std::to_string(batches.size()) + ".txt";
      batches.push_back(b);
    }
    auto start = [&](Batch &b) {
      fflush(nullptr);
      b.pid = fork();
      if (b.pid != 0) return;
      int efd = open((b.file + ".err").c_str(), O_WRONLY | O_CREAT | O_TRUNC, 0644);
      if (efd >= 0) dup2(efd, 2);
      alarm(900);
      std::ofstream f(b.file);
      for (long long i : b.idx) {
        std::ostringstream os;
        runCase(os, a.seed, i, "k" + std::to_string(i), nullptr);
        f << "K " << i << "\n" << os.str() << "D " << i << "\n";
        f.flush();
      }
      f.close();
      _exit(0);
    };
    size_t started = 0;
    for (size_t cur = 0; cur < batches.size(); ++cur) {
      while (started < batches.size() && started < cur + P) start(batches[started++]);
      Batch &b = batches[cur];
      int st = 0;
      if (b.pid > 0) waitpid(b.pid, &st, 0);
      std::map<long long, std::string> done;
      {
        std::ifstream f(b.file);
        std::string ln, acc;
        long long curCase = -1;
        while (std::getline(f, ln)) {
          if (ln.rfind("K ", 0) == 0) { curCase = atoll(ln.c_str() + 2); acc.clear(); }
          else if (ln.rfind("D ", 0) == 0) { if (curCase == atoll(ln.c_str() + 2)) done[curCase] = acc; curCase = -1; }
          else if (curCase >= 0) { acc += ln; acc += "\n"; }
        }
      }
      for (long long i : b.idx) {
        auto it = done.find(i);
        if (it != done.end()) absorb(i, "ok", it->second, "");
        else { out.count("cases_rerun_alone_after_batch_died"); runAlone(i); }
      }
      unlink(b.file.c_str());
      unlink((b.file + ".err").c_str());
    }
  }
  out.finish();
  return 0;
}
