// C19 — invalid inputs are refused with an error, not undefined behaviour.
//
// Everything that touches the real code runs in a forked child (vh::isolated) of an
// ASan/UBSan build, so an abort or a sanitizer report is observed as a result
// ("abort"/"sanitizer") instead of killing the harness.  tools/props/C19.py builds and runs
// this harness twice: against the assertion-enabled library (-UNDEBUG) and against the
// assertions-off one (-DNDEBUG); the expectations below hold for both.  Items are grouped per fork;
// when a group dies its items are re-run one per fork.
//
//   A  effort:   every constructor of the seven *Parameters records for every effort in
//                -16..32 and random 32-bit values; valid efforts must pass check();
//                Circuit::place*(int effort) with invalid efforts.
//   B  checks:   every field driven just below / at / above each bound translated from the
//                check() bodies (c19_params.hpp, written by tools/gen/Params.py),
//                int-int comparisons, every enum value, both bool values, random combinations;
//                rejected sets are also passed to the three placement calls (must throw the
//                same error, invoke no callback, leave the circuit equal).
//   C  lengths:  every length-checked setter with every length 0..n+2.
//   D  nets:     addNet / setNets with pin cells -2..n+1, inconsistent lengths, malformed limits.
//   E  expansion: expandCellsByFactor with every length 0..n+2, factors around 0.999f / 1 (one ulp), both at once,
//                unvalidated maxDensity / rowSideMargin; expandCellsToDensity with targets <= 0, in (0,1), >= 1,
//                negative margins / maximum widths (nothing is validated: observed, compared with the model);
//                computeCellExpansion with fixedPenalty / penaltyFactor one ulp below / at their bounds;
//                mean/rms/maxDisruption with every wrong length of either solution.
//   F  constructor: Circuit(n) for negative n down to INT_MIN (std::length_error expected from std::vector) and small n >= 0.
//
// Correspondence: drv_C19 evaluates the translated check predicates (Gen/Params), the
// constructor event lists and the setter IR (Gen/Api, Gen/ApiExpansion under Model/Busy) on the same op lines.
// Direct oracle: hand-written expectations below (independent of the translator).
//
//   h_C19 --dump-defaults   prints the nine default parameter sets as exact numbers (used by
//                           tools/gen/Params.py to build the Lean table).
#include <cfloat>
#include <climits>
#include <cmath>
#include <type_traits>

#include "common/circuit.hpp"
#include "common/harness.hpp"
#include "c19_params.hpp"  // generated: $VERIF_CACHE/gen (tools/gen/Params.py), passed with -I

using namespace coloquinte;
using CP = ColoquinteParameters;

namespace {

template <class T>
double getv(const T &lv) {
  if constexpr (std::is_enum_v<T>) return (double)(int)lv;
  else return (double)lv;
}
template <class T>
void setv(T &lv, double x) {
  if constexpr (std::is_enum_v<T>) lv = (T)(int)x;
  else if constexpr (std::is_same_v<T, bool>) lv = (x != 0);
  else if constexpr (std::is_integral_v<T>) lv = (T)(long long)x;
  else lv = x;
}

struct Field {
  std::string name;
  char kind;
  std::function<double(const CP &)> get;
  std::function<void(CP &, double)> set;
};

const std::vector<Field> &fields() {
  static std::vector<Field> v = [] {
    std::vector<Field> r;
#define X(LV, K, T, NAME) \
  r.push_back({NAME, #K[0], [](const CP &p) { return getv(LV); }, [](CP &p, double x) { setv(LV, x); }});
    C19_FIELDS(X)
#undef X
    return r;
  }();
  return v;
}
const Field &fieldByName(const std::string &n) {
  for (auto &f : fields()) if (f.name == n) return f;
  fprintf(stderr, "unknown field %s\n", n.c_str());
  exit(3);
}

struct Bound { std::string rec, field; char kind; double lit; };
const std::vector<Bound> &bounds() {
  static std::vector<Bound> v = [] {
    std::vector<Bound> r;
#define B(REC, F, K, LIT) r.push_back({REC, F, #K[0], LIT});
    C19_BOUNDS(B)
#undef B
    return r;
  }();
  return v;
}
struct Pair { std::string rec, a, b; };
const std::vector<Pair> &pairsList() {
  static std::vector<Pair> v = [] {
    std::vector<Pair> r;
#define P(REC, A, BB) r.push_back({REC, A, BB});
    C19_PAIRS(P)
#undef P
    return r;
  }();
  return v;
}

std::string paramsLine(const CP &p) {
  std::string s = "params";
  for (auto &f : fields()) s += " " + vc::exactDouble(f.get(p));
  return s;
}

// run record `rec`'s check() on the matching sub-object
std::string runCheck(const CP &p, const std::string &rec) {
  try {
#define S(REC, OBJ) if (rec == #REC) { (OBJ).check(); return "ok"; }
    C19_STRUCTS(S)
#undef S
    return "unknown-record";
  } catch (const std::exception &e) {
    return vc::exClass(e) + " " + e.what();
  }
}

std::string snap(const Circuit &c) {
  std::ostringstream os;
  auto vi = [&](const char *n, const std::vector<int> &v) { os << n << ":" << vh::join(v, ",") << ";"; };
  vi("nl", c.netLimits_); vi("pc", c.pinCells_); vi("px", c.pinXOffsets_); vi("py", c.pinYOffsets_);
  os << "nw:";
  for (float w : c.netWeights_) os << vc::exactDouble(w) << ",";
  os << ";";
  vi("w", c.cellWidth_); vi("h", c.cellHeight_); vi("x", c.cellX_); vi("y", c.cellY_);
  os << "f:"; for (bool b : c.cellIsFixed_) os << (int)b; os << ";";
  os << "o:"; for (bool b : c.cellIsObstruction_) os << (int)b; os << ";";
  os << "p:"; for (auto p : c.cellRowPolarity_) os << (int)p << ","; os << ";";
  os << "or:"; for (auto p : c.cellOrientation_) os << (int)p << ","; os << ";";
  os << "r:"; for (const Row &r : c.rows_) os << r.minX << "," << r.maxX << "," << r.minY << "," << r.maxY << "," << (int)r.orientation << "|";
  return os.str();
}

// ------------------------------------------------------------------ items
struct Result {
  std::string impl;                 // the single answer line (without the tag)
  std::vector<std::string> fails;   // direct-oracle failures
  std::vector<std::string> counts;  // counters measured inside the fork (reported to out.count by the parent)
};
struct Item {
  std::string caseId;
  std::vector<std::string> ops;     // op lines; exactly the last one produces an answer
  std::string tag;                  // answer line prefix
  std::string input;                // human-readable input for the replay
  std::function<Result()> run;
  std::string onCrash;              // oracle text when the item dies (empty: a crash is not a failure of this property)
};

struct Runner {
  vh::Out &out;
  std::vector<Item> pending;
  std::string lastCase;
  bool capped = false;
  explicit Runner(vh::Out &o) : out(o) {}

  static std::string encode(const Result &r) {
    std::string s = "I " + r.impl + "\n";
    for (auto &f : r.fails) s += "F " + f + "\n";
    for (auto &c : r.counts) s += "C " + c + "\n";
    return s + "E\n";
  }
  void emit(const Item &it, const std::string &impl, const std::vector<std::string> &fails) {
    if (it.caseId != lastCase) {
      out.ops << "case " << it.caseId << "\n";
      out.impl << "case " << it.caseId << "\n";
      lastCase = it.caseId;
    }
    for (auto &o : it.ops) out.ops << o << "\n";
    out.impl << it.tag << " " << impl << "\n";
    out.evaluations++;
    for (auto &f : fails) out.fail(it.caseId, f, it.input);
  }
  void flush() {
    if (pending.empty()) return;
    std::string output;
    std::string st = vh::isolated([&](std::ostream &os) { for (auto &it : pending) os << encode(it.run()); }, output, 120);
    if (st == "ok") {
      std::istringstream is(output);
      std::string ln;
      size_t i = 0;
      std::string impl;
      std::vector<std::string> fails;
      while (std::getline(is, ln)) {
        if (ln.rfind("I ", 0) == 0) impl = ln.substr(2);
        else if (ln.rfind("F ", 0) == 0) fails.push_back(ln.substr(2));
        else if (ln.rfind("C ", 0) == 0) out.count(ln.substr(2));
        else if (ln == "E") { emit(pending[i++], impl, fails); fails.clear(); }
      }
    } else {
      out.count("group_died_rerun_singly");
      for (auto &it : pending) {
        std::string o2, diag;
        std::string s2 = vh::isolated([&](std::ostream &os) { os << encode(it.run()); }, o2, 120, &diag);
        if (s2 == "ok") {
          std::istringstream is(o2);
          std::string ln, impl;
          std::vector<std::string> fails;
          while (std::getline(is, ln)) {
            if (ln.rfind("I ", 0) == 0) impl = ln.substr(2);
            else if (ln.rfind("F ", 0) == 0) fails.push_back(ln.substr(2));
            else if (ln.rfind("C ", 0) == 0) out.count(ln.substr(2));
          }
          emit(it, impl, fails);
        } else {
          out.count("died_" + s2);
          std::vector<std::string> fails;
          if (!it.onCrash.empty()) {
            std::string d = diag.substr(0, 400);
            for (char &ch : d) if (ch == '\n') ch = ' ';
            fails.push_back(it.onCrash + " [" + s2 + "] " + d);
          }
          emit(it, s2, fails);
        }
      }
    }
    pending.clear();
  }
  void add(Item it, bool endGroup = false) {
    // a badly broken tree produces one slow sanitizer death per item: enough evidence after 60 failures
    if (out.failures > 60) {
      if (!capped) { capped = true; out.notes.push_back("stopped evaluating after 60 direct-oracle failures"); }
      out.count("items_skipped_after_failure_cap");
      return;
    }
    pending.push_back(std::move(it));
    if (endGroup || pending.size() >= 64) flush();
  }
};

// ------------------------------------------------------------------ A: effort
std::string ctorOutcome(const std::string &rec, int effort, bool &checkOk) {
  checkOk = true;
  try {
    if (rec == "ColoquinteParameters") { CP p(effort); try { p.check(); } catch (...) { checkOk = false; } }
    else if (rec == "GlobalPlacerParameters") { GlobalPlacerParameters p(effort); try { p.check(); } catch (...) { checkOk = false; } }
    else if (rec == "ContinuousModelParameters") { ContinuousModelParameters p(effort); try { p.check(); } catch (...) { checkOk = false; } }
    else if (rec == "RoughLegalizationParameters") { RoughLegalizationParameters p(effort); try { p.check(); } catch (...) { checkOk = false; } }
    else if (rec == "PenaltyParameters") { PenaltyParameters p(effort); try { p.check(); } catch (...) { checkOk = false; } }
    else if (rec == "LegalizationParameters") { LegalizationParameters p(effort); try { p.check(); } catch (...) { checkOk = false; } }
    else if (rec == "DetailedPlacerParameters") { DetailedPlacerParameters p(effort); try { p.check(); } catch (...) { checkOk = false; } }
    else return "unknown-record";
    return "ok";
  } catch (const std::exception &e) {
    return vc::exClass(e);
  } catch (...) {
    return "throw:other";
  }
}

Circuit tinyCircuit() {
  Circuit c(3);
  c.setCellWidth({2, 3, 2});
  c.setCellHeight({2, 2, 2});
  c.setCellX({0, 1, 2});
  c.setCellY({0, 0, 2});
  c.setRows({Row(0, 10, 0, 2, CellOrientation::N), Row(0, 10, 2, 4, CellOrientation::FS)});
  c.addNet({0, 1}, {0, 0}, {0, 0});
  c.addNet({1, 2}, {1, 0}, {0, 1});
  return c;
}

// Boundary circuits.  Family addressed: an entry point that short-circuits on a degenerate circuit ("nothing to place": no
// cell, one cell, no row, no net, nothing movable, no area) BEFORE it validates its parameters, so that a rejected parameter set
// or effort is silently accepted there.  The property quantifies over parameter values, not over circuits: a set that check()
// rejects must be refused whatever circuit it is passed with.  Every rejected set / invalid effort is passed to the entry
// points on tinyCircuit() and on one of these shapes in rotation (the shape is part of the reported input).
const int kShapes = 10;
const char *shapeName(int k) {
  static const char *nm[] = {"0 cells, no row, no net", "0 cells, 2 rows", "1 movable cell, 1 row, no net", "1 fixed cell, 1 row, no net",
                             "3 cells, 2 nets, no row", "3 cells, 2 rows, no net", "3 cells all fixed, 2 rows, 2 nets",
                             "3 cells of zero width, 2 rows, 2 nets", "1 cell, no row, no net", "0 cells, 1 row, one net without pins"};
  return nm[k % kShapes];
}
Circuit shapeCircuit(int k) {
  const std::vector<Row> rows = {Row(0, 10, 0, 2, CellOrientation::N), Row(0, 10, 2, 4, CellOrientation::FS)};
  switch (k % kShapes) {
    case 0: return Circuit(0);
    case 1: { Circuit c(0); c.setRows(rows); return c; }
    case 2: { Circuit c(1); c.setCellWidth({2}); c.setCellHeight({2}); c.setRows({rows[0]}); return c; }
    case 3: { Circuit c(1); c.setCellWidth({2}); c.setCellHeight({2}); c.setCellIsFixed({true}); c.setRows({rows[0]}); return c; }
    case 4: { Circuit c = tinyCircuit(); c.setRows({}); return c; }
    case 5: { Circuit c = tinyCircuit(); c.setNets({0}, {}, {}, {}); return c; }
    case 6: { Circuit c = tinyCircuit(); c.setCellIsFixed({true, true, true}); return c; }
    case 7: { Circuit c = tinyCircuit(); c.setCellWidth({0, 0, 0}); return c; }
    case 8: { Circuit c(1); c.setCellWidth({2}); c.setCellHeight({2}); return c; }
    default: { Circuit c(0); c.setRows({rows[0]}); c.addNet({}, {}, {}); return c; }
  }
}
int shapeCounter = 0;

void effortItems(Runner &R, const std::string &caseId, int effort) {
  static const char *recs[] = {"ColoquinteParameters", "GlobalPlacerParameters", "ContinuousModelParameters", "RoughLegalizationParameters",
                               "PenaltyParameters", "LegalizationParameters", "DetailedPlacerParameters"};
  bool valid = effort >= 1 && effort <= 9;
  for (const char *rc : recs) {
    std::string rec = rc;
    Item it;
    it.caseId = caseId;
    it.ops = {"ctor " + rec + " " + std::to_string(effort)};
    it.tag = "ctor " + rec;
    it.input = rec + "(" + std::to_string(effort) + ")";
    it.onCrash = rec + "(effort=" + std::to_string(effort) + ") aborts / has undefined behaviour instead of throwing";
    it.run = [rec, effort, valid]() {
      Result r;
      bool checkOk;
      r.impl = ctorOutcome(rec, effort, checkOk);
      if (valid && r.impl != "ok") r.fails.push_back(rec + " refuses the valid effort " + std::to_string(effort) + ": " + r.impl);
      if (valid && r.impl == "ok" && !checkOk) r.fails.push_back("defaults of " + rec + " for effort " + std::to_string(effort) + " do not pass check()");
      // an invalid effort must be refused where the documented range applies: the full parameter set
      if (!valid && rec == "ColoquinteParameters" && r.impl == "ok") r.fails.push_back("ColoquinteParameters accepts the effort " + std::to_string(effort));
      return r;
    };
    R.add(std::move(it));
  }
  if (valid) {
    Item it;
    it.caseId = caseId;
    it.ops = {"defaults " + std::to_string(effort)};
    it.tag = "defaults " + std::to_string(effort);
    it.input = "ColoquinteParameters(" + std::to_string(effort) + ")";
    it.run = [effort]() {
      Result r;
      CP p(effort);
      r.impl = paramsLine(p).substr(7);
      return r;
    };
    R.add(std::move(it));
  } else {
    // the int-effort entry points of Circuit
    const int rot = shapeCounter++;
    for (int w2 = 0; w2 < 8; ++w2) {
      const int which = w2 % 4;
      const int shape = w2 < 4 ? -1 : rot;   // -1: tinyCircuit()
      static const char *nm[] = {"place", "placeGlobal", "legalize", "placeDetailed"};
      Item it;
      it.caseId = caseId;
      it.ops = {std::string("placeeffort ") + nm[which] + " " + std::to_string(effort)};
      it.tag = std::string("placeeffort ") + nm[which];
      it.input = std::string("Circuit::") + nm[which] + "(" + std::to_string(effort) + ")" + (shape < 0 ? std::string() : std::string(" on the circuit: ") + shapeName(shape));
      it.onCrash = it.input + " aborts / has undefined behaviour instead of throwing";
      it.run = [which, effort, shape]() {
        Result r;
        Circuit c = shape < 0 ? tinyCircuit() : shapeCircuit(shape);
        if (shape >= 0) r.counts.push_back(std::string("invalid_effort_on_boundary_circuit: ") + shapeName(shape));
        std::string before = snap(c);
        try {
          if (which == 0) c.place(effort);
          else if (which == 1) c.placeGlobal(effort);
          else if (which == 2) c.legalize(effort);
          else c.placeDetailed(effort);
          r.impl = "ok";
          r.fails.push_back(std::string("Circuit::") + nm[which] + " accepts the effort " + std::to_string(effort));
        } catch (const std::exception &e) {
          r.impl = vc::exClass(e);
        } catch (...) {
          r.impl = "throw:other";
        }
        if (snap(c) != before) r.fails.push_back(std::string("Circuit::") + nm[which] + " with a refused effort modified the circuit");
        return r;
      };
      R.add(std::move(it));
    }
  }
}

// ------------------------------------------------------------------ B: checks
void checkItems(Runner &R, const std::string &caseId, const CP &p, const std::vector<std::string> &recs, const std::string &how,
                bool expectKnown, bool expectReject) {
  for (auto &rec : recs) {
    Item it;
    it.caseId = caseId;
    it.ops = {paramsLine(p), "check " + rec};
    it.tag = "check " + rec;
    it.input = how;
    it.onCrash = rec + "::check() aborts / has undefined behaviour (" + how + ")";
    it.run = [p, rec, how, expectKnown, expectReject]() {
      Result r;
      r.impl = runCheck(p, rec);
      if (r.impl != "ok" && r.impl.rfind("throw:runtime_error", 0) != 0) r.fails.push_back(rec + "::check() ends with " + r.impl);
      if (expectKnown && expectReject && r.impl == "ok") r.fails.push_back(rec + "::check() accepts " + how);
      if (expectKnown && !expectReject && r.impl != "ok") r.fails.push_back(rec + "::check() rejects " + how + ": " + r.impl);
      return r;
    };
    R.add(std::move(it));
  }
}

// placement calls with a parameter set: when check() rejects it, each call must throw that error, run no callback
// and leave the circuit equal
void placeItems(Runner &R, const std::string &caseId, const CP &p, const std::string &how0) {
  const int rot = shapeCounter++;
  for (int s2 = 0; s2 < 6; ++s2) {
    const int st = s2 % 3;
    const int shape = s2 < 3 ? -1 : rot + (s2 - 3) * 3;   // -1: tinyCircuit(); the three entry points get different shapes
    static const char *nm[] = {"placeGlobal", "legalize", "placeDetailed"};
    const std::string how = how0 + (shape < 0 ? std::string() : std::string("; on the circuit: ") + shapeName(shape));
    Item it;
    it.caseId = caseId;
    it.ops = {paramsLine(p), std::string("place ") + nm[st]};
    it.tag = std::string("place ") + nm[st];
    it.input = how;
    it.onCrash = std::string(nm[st]) + " aborts / has undefined behaviour with " + how;
    it.run = [p, st, how, shape]() {
      Result r;
      std::string verdict = runCheck(p, "ColoquinteParameters");
      if (verdict == "ok") { r.impl = "accepted"; return r; }   // valid sets: no placement work is started here
      Circuit c = shape < 0 ? tinyCircuit() : shapeCircuit(shape);
      if (shape >= 0) r.counts.push_back(std::string("rejected_set_on_boundary_circuit_") + nm[st] + ": " + shapeName(shape));
      std::string before = snap(c);
      int callbacks = 0;
      PlacementCallback cb = [&](PlacementStep) { ++callbacks; };
      std::string got = "ok";
      try {
        if (st == 0) c.placeGlobal(p, cb);
        else if (st == 1) c.legalize(p, cb);
        else c.placeDetailed(p, cb);
      } catch (const std::exception &e) {
        got = vc::exClass(e) + " " + e.what();
      } catch (...) {
        got = "throw:other";
      }
      r.impl = "rejected " + got;
      if (got == "ok") r.fails.push_back(std::string(nm[st]) + " accepted parameters that check() rejects: " + how);
      else if (got != verdict) r.fails.push_back(std::string(nm[st]) + " failed with '" + got + "' instead of the check error '" + verdict + "'");
      if (callbacks != 0) r.fails.push_back(std::string(nm[st]) + " invoked a callback before rejecting the parameters");
      if (snap(c) != before) r.fails.push_back(std::string(nm[st]) + " modified the circuit although it rejected the parameters: " + how);
      try { c.setRows(c.rows()); } catch (...) { r.fails.push_back(std::string(nm[st]) + " left the circuit busy after rejecting the parameters"); }
      return r;
    };
    R.add(std::move(it));
  }
}

std::vector<double> around(char kind, double lit) {
  if (kind == 'D') return {std::nextafter(lit, -INFINITY), lit, std::nextafter(lit, INFINITY)};
  return {lit - 1, lit, lit + 1};
}

std::string valStr(double v) {
  char b[64];
  snprintf(b, sizeof b, "%a", v);
  return b;
}

// ------------------------------------------------------------------ C / D: setters
struct SetterOp {
  std::string name, args;
  std::function<void(Circuit &)> run;
  bool expectThrow;
  std::string how;
  bool unspecified = false;    // no expectation either way (the property does not say): correspondence and crash only
  std::string verb = "set";    // "xset": tables of Gen/ApiExpansion
};

std::string vecShape(size_t len) { return "v " + std::to_string(len) + " 0"; }
std::string vecVals(const std::vector<int> &v) {
  std::string s = "v " + std::to_string(v.size()) + " 1";
  for (int x : v) s += " " + std::to_string(x);
  return s;
}

void setterItem(Runner &R, const std::string &caseId, const Circuit &base, const SetterOp &op) {
  Item it;
  it.caseId = caseId;
  it.ops = {op.verb + " " + op.name + " " + std::to_string(base.nbCells()) + " " + std::to_string(base.nbNets()) + " " + op.args};
  it.tag = op.verb + " " + op.name;
  it.input = op.how;
  it.onCrash = op.name + " aborts / has undefined behaviour instead of throwing: " + op.how;
  it.run = [base, op]() {
    Result r;
    Circuit c = base;
    std::string before = snap(c);
    std::string outcome = "ok";
    try {
      op.run(c);
    } catch (const std::exception &e) {
      outcome = vc::exClass(e);
    } catch (...) {
      outcome = "throw:other";
    }
    bool changed = snap(c) != before;
    r.impl = outcome + (outcome == "ok" ? "" : (changed ? " changed" : " w=0"));
    if (!op.unspecified && op.expectThrow && outcome == "ok") r.fails.push_back(op.name + " accepted " + op.how);
    if (!op.unspecified && !op.expectThrow && outcome != "ok") r.fails.push_back(op.name + " refused (" + outcome + ") " + op.how);
    if (outcome != "ok" && changed) r.fails.push_back(op.name + " threw but modified the circuit: " + op.how);
    if (outcome == "ok") {
      // what was accepted must be usable: consistency check and a wirelength evaluation (under the sanitizers)
      try { c.check(); } catch (...) { r.fails.push_back("Circuit::check() fails after " + op.name + " accepted " + op.how); }
      (void)c.hpwl();
    }
    return r;
  };
  R.add(std::move(it));
}

void lengthOps(std::vector<SetterOp> &ops, const Circuit &c) {
  int n = c.nbCells();
  for (int len = 0; len <= n + 2; ++len) {
    bool bad = len != n;
    std::string how = "a vector of length " + std::to_string(len) + " for " + std::to_string(n) + " cells";
    std::vector<int> vi(len, 1);
    std::vector<bool> vb(len, false);
    ops.push_back({"setCellX", vecShape(len), [=](Circuit &k) { k.setCellX(vi); }, bad, how});
    ops.push_back({"setCellY", vecShape(len), [=](Circuit &k) { k.setCellY(vi); }, bad, how});
    ops.push_back({"setCellWidth", vecShape(len), [=](Circuit &k) { k.setCellWidth(vi); }, bad, how});
    ops.push_back({"setCellHeight", vecShape(len), [=](Circuit &k) { k.setCellHeight(vi); }, bad, how});
    ops.push_back({"setCellIsFixed", vecShape(len), [=](Circuit &k) { k.setCellIsFixed(vb); }, bad, how});
    ops.push_back({"setCellIsObstruction", vecShape(len), [=](Circuit &k) { k.setCellIsObstruction(vb); }, bad, how});
    std::vector<CellOrientation> vo(len, CellOrientation::N);
    ops.push_back({"setCellOrientation", vecShape(len), [=](Circuit &k) { k.setCellOrientation(vo); }, bad, how});
    std::vector<CellRowPolarity> vp(len, CellRowPolarity::SAME);
    ops.push_back({"setCellRowPolarity", vecShape(len), [=](Circuit &k) { k.setCellRowPolarity(vp); }, bad, how});
    PlacementSolution sol(len);
    ops.push_back({"setSolution", vecShape(len), [=](Circuit &k) { k.setSolution(sol); }, bad, how});
  }
  int m = c.nbNets();
  for (int len = 0; len <= m + 2; ++len) {
    std::vector<float> w(len, 2.0f);
    ops.push_back({"setNetWeights", vecShape(len), [=](Circuit &k) { k.setNetWeights(w); }, len != m,
                   "a weight vector of length " + std::to_string(len) + " for " + std::to_string(m) + " nets"});
  }
}

void netOps(std::vector<SetterOp> &ops, const Circuit &c, vh::Rng &g) {
  int n = c.nbCells();
  auto addNetOp = [&](std::vector<int> cells, std::vector<int> xs, std::vector<int> ys, const std::string &how) {
    bool bad = cells.size() != xs.size() || cells.size() != ys.size();
    for (int v : cells) if (v < 0 || v >= n) bad = true;
    ops.push_back({"addNet", vecVals(cells) + " " + vecShape(xs.size()) + " " + vecShape(ys.size()) + " i 0",
                   [=](Circuit &k) { k.addNet(cells, xs, ys); }, bad, how});
  };
  // pin indices -2..n+1 at every position of a short pin list
  for (int v = -2; v <= n + 1; ++v) {
    int deg = g.range(1, 4), pos = g.range(0, deg - 1);
    std::vector<int> cells(deg), xs(deg, 0), ys(deg, 1);
    for (int &x : cells) x = n > 0 ? g.range(0, n - 1) : 0;
    cells[pos] = v;
    addNetOp(cells, xs, ys, "addNet with pin cell " + std::to_string(v) + " of " + std::to_string(n) + " cells");
  }
  if (n > 0) {
    addNetOp({0}, {0, 1}, {0}, "addNet with 1 cell and 2 x offsets");
    addNetOp({0, 0}, {0, 1}, {0}, "addNet with 2 cells and 1 y offset");
    addNetOp({}, {0}, {0}, "addNet with 0 cells and 1 offset");
  }
  addNetOp({}, {}, {}, "addNet with no pin");
  // setNets
  auto setNetsOp = [&](std::vector<int> lim, std::vector<int> pc, std::vector<int> px, std::vector<int> py, std::vector<float> w,
                       const std::string &how) {
    bool bad = lim.empty() || lim.front() != 0 || !std::is_sorted(lim.begin(), lim.end());
    if (!bad) bad = lim.back() != (int)pc.size() || lim.back() != (int)px.size() || lim.back() != (int)py.size();
    if (!lim.empty() && !w.empty() && w.size() + 1 != lim.size()) bad = true;
    for (int v : pc) if (v < 0 || v >= n) bad = true;
    ops.push_back({"setNets", vecVals(lim) + " " + vecVals(pc) + " " + vecShape(px.size()) + " " + vecShape(py.size()) + " " + vecShape(w.size()),
                   [=](Circuit &k) { k.setNets(lim, pc, px, py, w); }, bad, how});
  };
  std::vector<int> lim = c.netLimits_, pc = c.pinCells_, px = c.pinXOffsets_, py = c.pinYOffsets_;
  std::vector<float> w = c.netWeights_;
  setNetsOp(lim, pc, px, py, w, "setNets with the circuit's own nets");
  setNetsOp(lim, pc, px, py, {}, "setNets without weights");
  if (!pc.empty()) {
    for (int v = -2; v <= n + 1; ++v) {
      auto pc2 = pc;
      pc2[g.range(0, pc.size() - 1)] = v;
      setNetsOp(lim, pc2, px, py, w, "setNets with pin cell " + std::to_string(v) + " of " + std::to_string(n) + " cells");
    }
  }
  setNetsOp({}, {}, {}, {}, {}, "setNets with empty limits");
  { auto l2 = lim; l2[0] = 1; setNetsOp(l2, pc, px, py, w, "setNets with limits not starting at 0"); }
  { auto l2 = lim; l2[0] = -1; setNetsOp(l2, pc, px, py, w, "setNets with limits starting at -1"); }
  if (lim.size() >= 3) {
    auto l2 = lim;
    std::swap(l2[1], l2[l2.size() - 2]);
    if (l2.size() == 3) l2[1] = l2[2] + 1;
    setNetsOp(l2, pc, px, py, w, "setNets with unsorted limits");
    auto l3 = lim;
    l3[1] = l3.back() + 3;
    setNetsOp(l3, pc, px, py, w, "setNets with a limit beyond the pins");
  }
  { auto l2 = lim; l2.back() += 1; setNetsOp(l2, pc, px, py, w, "setNets with last limit one past the pins"); }
  if (lim.back() > 0 && lim.size() >= 2 && lim[lim.size() - 2] < lim.back()) { auto l2 = lim; l2.back() -= 1; setNetsOp(l2, pc, px, py, w, "setNets with last limit one short"); }
  { auto v = px; v.push_back(0); setNetsOp(lim, pc, v, py, w, "setNets with one x offset too many"); }
  if (!py.empty()) { auto v = py; v.pop_back(); setNetsOp(lim, pc, px, v, w, "setNets with one y offset missing"); }
  { auto v = pc; v.push_back(0); setNetsOp(lim, v, px, py, w, "setNets with one pin cell too many"); }
  { auto v = w; v.push_back(1.0f); setNetsOp(lim, pc, px, py, v, "setNets with one weight too many"); }
  if (w.size() >= 2) { auto v = w; v.pop_back(); setNetsOp(lim, pc, px, py, v, "setNets with one weight missing"); }
}

// ------------------------------------------------------------------ E: expansion API, Disruption methods
std::string vecF(const std::vector<float> &v) {
  std::string s = "vf " + std::to_string(v.size());
  for (float x : v) s += " " + vc::exactDouble((double)x);
  return s;
}
std::string fStr(float x) {
  char b[64];
  snprintf(b, sizeof b, "%a", (double)x);
  return b;
}

void expansionOps(std::vector<SetterOp> &ops, const Circuit &c, vh::Rng &g, vh::Out &out) {
  int n = c.nbCells();
  std::string ncells = " for " + std::to_string(n) + " cells";
  auto X = [&](SetterOp op) { op.verb = "xset"; ops.push_back(std::move(op)); };
  static const float okF[] = {1.0f, 1.25f, 1.5f, 2.0f};
  auto validFactors = [&](int len) {
    std::vector<float> v(len);
    for (float &x : v) x = okF[g.range(0, 3)];
    return v;
  };
  // expandCellsByFactor: every length 0..n+2, factors valid
  for (int len = 0; len <= n + 2; ++len) {
    std::vector<float> v = validFactors(len);
    X({"expandCellsByFactor", vecF(v) + " i 0 i 0", [=](Circuit &k) { k.expandCellsByFactor(v); }, len != n,
       "a factor vector of length " + std::to_string(len) + ncells});
  }
  if (n > 0) {
    // factors around the tolerance 0.999f of the documented minimum 1 (hand-written: below 0.999f must be refused,
    // 1 and above must be accepted, [0.999f, 1) is the tolerance: no expectation)
    const float lim = 0.999f;
    const float specials[] = {0.9989f, std::nextafterf(lim, 0.0f), lim, std::nextafterf(lim, 2.0f), std::nextafterf(1.0f, 0.0f), 1.0f,
                              std::nextafterf(1.0f, 2.0f), 0.0f, -0.0f, -1.0f, 0.5f, 1e-45f, -FLT_MAX, 1000.0f};
    for (float sv : specials) {
      std::vector<float> v = validFactors(n);
      v[g.range(0, n - 1)] = sv;
      bool refuse = sv < lim;
      SetterOp op{"expandCellsByFactor", vecF(v) + " i 0 i 0", [=](Circuit &k) { k.expandCellsByFactor(v); }, refuse,
                  "a factor " + fStr(sv) + " among the factors" + ncells};
      op.unspecified = !refuse && sv < 1.0f;
      X(op);
      out.count(refuse ? "factor_below_tolerance" : (op.unspecified ? "factor_in_tolerance" : "factor_valid"));
    }
    {
      std::vector<float> v = validFactors(n + 1);
      v[g.range(0, n)] = 0.5f;
      X({"expandCellsByFactor", vecF(v) + " i 0 i 0", [=](Circuit &k) { k.expandCellsByFactor(v); }, true,
         "a factor vector of length " + std::to_string(n + 1) + " with a factor 0.5" + ncells});
    }
    // maxDensity / rowSideMargin are not validated: observed only
    static const double dens[] = {1.0, 0.5, 0.0, -1.0, 2.0}, marg[] = {0.0, 1.0, -1.0};
    for (int j = 0; j < 3; ++j) {
      double md = dens[g.range(0, 4)], mg = marg[g.range(0, 2)];
      std::vector<float> v = validFactors(n);
      SetterOp op{"expandCellsByFactor", vecF(v) + " i 0 i 0", [=](Circuit &k) { k.expandCellsByFactor(v, md, mg); }, false,
                  "valid factors with maxDensity " + valStr(md) + ", rowSideMargin " + valStr(mg)};
      op.unspecified = true;
      X(op);
      out.count("factor_unvalidated_scalars");
    }
  }
  // expandCellsToDensity validates nothing: observed only (the model says: never refused)
  {
    struct D { double t, m, w; };
    std::vector<D> ds = {{-1, 0, 1}, {0, 0, 1}, {0.5, 0, 1}, {0.9, 0, 1}, {1, 0, 1}, {2, 0, 1}};
    static const double ts[] = {-1, 0, 0.5, 0.9, 1, 2}, ms[] = {0, 1, -1}, ws[] = {1, 0.5, 0, -1};
    for (int j = 0; j < 3; ++j) ds.push_back({ts[g.range(0, 5)], ms[g.range(0, 2)], ws[g.range(0, 3)]});
    for (D d : ds) {
      SetterOp op{"expandCellsToDensity", "i 0 i 0 i 0", [=](Circuit &k) { k.expandCellsToDensity(d.t, d.m, d.w); }, false,
                  "targetDensity " + valStr(d.t) + ", rowSideMargin " + valStr(d.m) + ", maxExpandedWidth " + valStr(d.w)};
      op.unspecified = true;
      X(op);
      out.count(d.t <= 0 ? "density_target_nonpositive" : (d.t < 1 ? "density_target_in_range" : "density_target_ge_1"));
    }
  }
  // computeCellExpansion: fixedPenalty >= 0, penaltyFactor >= 1
  {
    std::vector<std::pair<Rectangle, float>> cmap = {{Rectangle(-100, 100, -100, 100), 1.5f}};
    struct P { float fp, pf; };
    const P ps[] = {{0.0f, 1.0f}, {-0.0f, 1.0f}, {std::nextafterf(0.0f, -1.0f), 1.0f}, {-1.0f, 1.0f}, {0.0f, std::nextafterf(1.0f, 0.0f)},
                    {0.0f, 0.999f}, {0.0f, 0.0f}, {0.0f, -1.0f}, {0.5f, 2.0f}, {-1.0f, 0.5f}, {1e-45f, std::nextafterf(1.0f, 2.0f)}};
    for (P p : ps) {
      bool refuse = p.fp < 0.0f || p.pf < 1.0f;
      X({"computeCellExpansion", "v 1 0 f " + vc::exactDouble((double)p.fp) + " f " + vc::exactDouble((double)p.pf),
         [=](Circuit &k) { (void)k.computeCellExpansion(cmap, p.fp, p.pf); }, refuse,
         "fixedPenalty " + fStr(p.fp) + ", penaltyFactor " + fStr(p.pf)});
      out.count(refuse ? "cell_expansion_invalid" : "cell_expansion_valid");
    }
  }
  // Disruption methods: every wrong length of either solution
  {
    std::vector<std::pair<int, int>> lens;
    for (int l = 0; l <= n + 2; ++l) { lens.push_back({l, n}); if (l != n) lens.push_back({n, l}); }
    lens.push_back({n + 1, n + 1});
    if (n > 0) lens.push_back({0, 0});
    static const char *nm[] = {"meanDisruption", "rmsDisruption", "maxDisruption"};
    for (int m = 0; m < 3; ++m) {
      for (auto [la, lb] : lens) {
        bool bad = la != n || lb != n;
        if (!bad && n == 0 && m == 2) { out.count("maxDisruption_valid_call_on_0_cells_skipped"); continue; }
        PlacementSolution a(la, CellPlacement(0, 0, CellOrientation::N)), b(lb, CellPlacement(0, 0, CellOrientation::N));
        if (!bad) {
          a = c.solution();
          b = a;
          for (auto &p : b) { p.position.x += 1; p.position.y -= 2; }
        }
        X({nm[m], vecShape(la) + " " + vecShape(lb) + " i 0",
           [=](Circuit &k) {
             if (m == 0) (void)k.meanDisruption(a, b, LegalizationModel::L1);
             else if (m == 1) (void)k.rmsDisruption(a, b, LegalizationModel::L1);
             else (void)k.maxDisruption(a, b, LegalizationModel::L1);
           },
           bad, "solutions of lengths " + std::to_string(la) + " and " + std::to_string(lb) + ncells});
      }
    }
  }
}

// ------------------------------------------------------------------ F: constructor
void ctorItem(Runner &R, const std::string &caseId, int n) {
  Item it;
  it.caseId = caseId;
  it.ops = {"newcircuit " + std::to_string(n)};
  it.tag = "newcircuit";
  it.input = "Circuit(" + std::to_string(n) + ")";
  it.onCrash = it.input + " aborts / has undefined behaviour instead of throwing";
  it.run = [n]() {
    Result r;
    try {
      Circuit c(n);
      r.impl = "ok";
      if (c.nbCells() != n) r.fails.push_back("Circuit(" + std::to_string(n) + ") has " + std::to_string(c.nbCells()) + " cells");
    } catch (const std::length_error &) {
      r.impl = "throw:length_error";
    } catch (const std::exception &e) {
      r.impl = vc::exClass(e);
    } catch (...) {
      r.impl = "throw:other";
    }
    if (n < 0 && r.impl == "ok") r.fails.push_back("Circuit accepts the negative cell count " + std::to_string(n));
    if (n >= 0 && r.impl != "ok") r.fails.push_back("Circuit refuses the cell count " + std::to_string(n) + ": " + r.impl);
    return r;
  };
  R.add(std::move(it));
}

}  // namespace

int main(int argc, char **argv) {
  for (int i = 1; i < argc; ++i) {
    if (std::string(argv[i]) == "--dump-defaults") {
      for (int e = 1; e <= 9; ++e) {
        CP p(e);
        std::cout << "defaults " << e << paramsLine(p).substr(6) << "\n";
      }
      return 0;
    }
  }
  vh::Args a = vh::parseArgs(argc, argv);
  if (!freopen("/dev/null", "w", stdout)) return 3;
  vh::Out out(a.out);
  out.rule = "A: each of the 7 parameter constructors x efforts -16..32 (exhaustive) + random 32-bit efforts, Circuit::place*(int) "
             "for invalid efforts; B: every field at just-below/at/just-above each translated check bound, int-int comparisons, "
             "enum and bool values, random combinations of 1-3 perturbed fields, rejected sets passed to the 3 placement calls, each on the "
             "3-cell circuit and on one of 10 boundary circuits in rotation (0 cells with/without rows, 1 cell, no row, no net, all fixed, "
             "zero width, a net without pins; counters rejected_set_on_boundary_circuit_*, invalid_effort_on_boundary_circuit) ; "
             "C: the 10 length-checked setters x lengths 0..n+2 on random circuits; D: addNet/setNets with pin cells -2..n+1, "
             "inconsistent lengths, malformed limits; E: expandCellsByFactor x lengths 0..n+2 and factors one ulp around 0.999f and 1, "
             "expandCellsToDensity / maxDensity / margins with nonsense values (unvalidated: observed), computeCellExpansion at its "
             "two bounds, the 3 Disruption methods x every wrong length of either solution; F: Circuit(n) for negative n down to "
             "INT_MIN.  non-trivial = evaluation whose input is invalid (must be refused); "
             "distinct by op text";
  Runner R(out);
  long long caseNo = 0;
  auto nextCase = [&](const char *pfx) { return std::string(pfx) + std::to_string(caseNo++); };
  auto noteNontrivial = [&](const std::string &s) { out.nontrivial(vh::hashStr(s)); };

  // ---- A
  {
    std::vector<long long> efforts;
    for (int e = -16; e <= 32; ++e) efforts.push_back(e);
    for (long long e : {(long long)INT_MIN, (long long)INT_MIN + 1, (long long)INT_MAX, (long long)INT_MAX - 1, 1000000LL, -1000000LL}) efforts.push_back(e);
    int nr = a.thorough() ? 3000 : (a.search() ? 500 : 200);
    vh::Rng g = vh::Rng::forCase(a.seed, 1000000);
    for (int i = 0; i < nr; ++i) efforts.push_back((int)(uint32_t)g.next());
    for (long long e : efforts) {
      std::string id = nextCase("e");
      effortItems(R, id, (int)e);
      R.flush();
      bool valid = e >= 1 && e <= 9;
      out.count(valid ? "effort_valid" : (e >= -16 && e <= 32 ? "effort_invalid_window" : "effort_invalid_far"));
      if (!valid) noteNontrivial("effort " + std::to_string(e));
    }
    out.sample("efforts -16..32, INT_MIN, INT_MAX, " + std::to_string(nr) + " random 32-bit values");
  }

  // ---- B
  {
    vh::Rng g = vh::Rng::forCase(a.seed, 2000000);
    std::vector<std::string> both(2);
    for (auto &b : bounds()) {
      const Field &f = fieldByName(b.field);
      std::string id = nextCase("b");
      for (double v : around(b.kind, b.lit)) {
        CP p(g.range(1, 9));
        f.set(p, v);
        std::string how = b.field + " = " + valStr(v) + " (bound " + valStr(b.lit) + " of " + b.rec + "::check)";
        checkItems(R, id, p, {b.rec, "ColoquinteParameters"}, how, false, false);
        placeItems(R, id, p, how);
        out.count("bound_points");
        noteNontrivial(how);
      }
      R.flush();
    }
    for (auto &pr : pairsList()) {
      const Field &fa = fieldByName(pr.a), &fb = fieldByName(pr.b);
      std::string id = nextCase("p");
      for (int d = -1; d <= 1; ++d) {
        CP p(g.range(1, 9));
        fa.set(p, fb.get(p) + d);
        std::string how = pr.a + " = " + pr.b + (d < 0 ? " - 1" : d > 0 ? " + 1" : "");
        checkItems(R, id, p, {pr.rec, "ColoquinteParameters"}, how, false, false);
        placeItems(R, id, p, how);
        out.count("pair_points");
        noteNontrivial(how);
      }
      R.flush();
    }
    for (auto &f : fields()) {
      if (f.kind != 'E' && f.kind != 'B') continue;
      std::string id = nextCase("v");
      for (int v = 0; v <= (f.kind == 'E' ? 5 : 1); ++v) {
        CP p(g.range(1, 9));
        f.set(p, v);
        std::string how = f.name + " = " + std::to_string(v);
        checkItems(R, id, p, {"ColoquinteParameters", "GlobalPlacerParameters", "RoughLegalizationParameters", "LegalizationParameters"}, how, false, false);
        placeItems(R, id, p, how);
        out.count("enum_bool_points");
      }
      R.flush();
    }
    // hand-written expectations (independent of the translator) for a few documented ranges
    {
      struct Ex { const char *field; double v; bool reject; };
      static const Ex exs[] = {
          {"global.gapTolerance", -0.01, true}, {"global.gapTolerance", 0.5, false}, {"global.gapTolerance", 1.5, true},
          {"detailed.nbPasses", -1, true}, {"detailed.nbPasses", 0, false}, {"detailed.shiftNbRows", 0, true},
          {"legalization.orderingY", 0.3, true}, {"legalization.orderingY", 0.1, false}, {"legalization.orderingWidth", 3.0, true},
          {"global.roughLegalization.binSize", 0.5, true}, {"global.roughLegalization.binSize", 30, true},
          {"global.roughLegalization.binSize", 5, false}, {"global.penalty.updateFactor", 1.0, true},
          {"global.penalty.updateFactor", 2.0, true}, {"global.penalty.updateFactor", 1.5, false},
          {"global.roughLegalization.targetBlending", 0.9, true},   // 0.9 > 0.9f
          {"global.penalty.targetBlending", 0.1, true},             // the double 0.1 is below the float 0.1f
          {"global.continuousModel.maxNbConjugateGradientSteps", 0, true}, {"global.maxNbSteps", -1, true},
          {"global.nbStepsBeforeRoughLegalization", 0, true}, {"global.noise", 2.5, true}, {"legalization.costModel", 1, true},
      };
      std::string id = nextCase("h");
      for (auto &ex : exs) {
        CP p(g.range(1, 9));
        fieldByName(ex.field).set(p, ex.v);
        std::string how = std::string(ex.field) + " = " + valStr(ex.v);
        checkItems(R, id, p, {"ColoquinteParameters"}, how, true, ex.reject);
        placeItems(R, id, p, how);
        out.count("hand_expectations");
      }
      R.flush();
    }
    int nc = a.thorough() ? 20000 : (a.search() ? 3000 : 1500);
    for (int i = 0; i < nc; ++i) {
      CP p(g.range(1, 9));
      std::string how;
      int k = g.range(1, 3);
      for (int j = 0; j < k; ++j) {
        const Bound &b = bounds()[g.range(0, bounds().size() - 1)];
        auto vs = around(b.kind, b.lit);
        double v = g.chance(1, 5) ? b.lit + (g.chance(1, 2) ? 1 : -1) * std::ldexp(1.0, (int)g.range(-20, 20)) : vs[g.range(0, 2)];
        if (b.kind != 'D') v = std::round(v);
        fieldByName(b.field).set(p, v);
        how += (j ? ", " : "") + b.field + " = " + valStr(v);
      }
      std::string id = nextCase("c");
      checkItems(R, id, p, {"ColoquinteParameters", "GlobalPlacerParameters", "RoughLegalizationParameters", "PenaltyParameters",
                            "ContinuousModelParameters", "LegalizationParameters", "DetailedPlacerParameters"}, how, false, false);
      if (i % 4 == 0) placeItems(R, id, p, how);
      out.count("combination_sets");
      noteNontrivial(how);
      if (i % 8 == 7) R.flush();
    }
    R.flush();
    out.sample(std::to_string(bounds().size()) + " bounds x {below, at, above}; " + std::to_string(pairsList().size()) + " int-int comparisons; " +
               std::to_string(nc) + " random combinations");
  }

  // ---- C, D
  {
    int ni = a.thorough() ? 600 : (a.search() ? 150 : 60);
    for (int i = 0; i < ni; ++i) {
      vh::Rng g = vh::Rng::forCase(a.seed, 3000000 + i);
      vc::GenOpts o;
      o.maxRows = 3;
      o.maxCells = i % 5 == 0 ? 1 : 6;
      Circuit c = vc::genCircuit(g, o);
      std::vector<SetterOp> ops;
      lengthOps(ops, c);
      netOps(ops, c, g);
      size_t nSetterOps = ops.size();
      expansionOps(ops, c, g, out);
      std::string id = nextCase("s");
      for (size_t k = 0; k < ops.size(); ++k) {
        auto &op = ops[k];
        setterItem(R, id, c, op);
        if (k < nSetterOps) out.count(op.expectThrow ? "setter_invalid" : "setter_valid");
        else out.count(op.unspecified ? "expansion_unspecified" : (op.expectThrow ? "expansion_invalid" : "expansion_valid"));
        if (op.expectThrow && !op.unspecified) noteNontrivial(std::to_string(i) + op.name + op.args);
      }
      R.flush();
      if (i == 0) out.sample("circuit with " + std::to_string(c.nbCells()) + " cells, " + std::to_string(c.nbNets()) + " nets: " + std::to_string(ops.size()) + " setter calls");
    }
  }
  R.flush();

  // ---- F
  {
    std::vector<int> counts = {-1, -2, -3, -16, -1000, -(1 << 30), INT_MIN + 1, INT_MIN, 0, 1, 2, 7, 64};
    vh::Rng g = vh::Rng::forCase(a.seed, 4000000);
    int nr = a.thorough() ? 300 : (a.search() ? 100 : 30);
    for (int i = 0; i < nr; ++i) counts.push_back(-(int)(g.next() % 2147483648u) - 1);
    std::string id = nextCase("n");
    for (int n : counts) {
      ctorItem(R, id, n);
      out.count(n < 0 ? "ctor_negative" : "ctor_valid");
      if (n < 0) noteNontrivial("Circuit " + std::to_string(n));
    }
    R.flush();
    out.sample("Circuit(n): 8 fixed + " + std::to_string(nr) + " random negative counts, 5 small valid counts");
  }
  out.finish();
  return 0;
}
