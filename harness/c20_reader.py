#!/usr/bin/env python3
"""Reader half of the C20 harness.

Imports the package's own reader ($COLOQUINTE_REPO/pycoloquinte/coloquinte.py)
against the pure-Python stand-in harness/pystub/coloquinte_pybind.py, reads each
benchmark listed in the jobs file with `Circuit.read_ispd`, and prints

    == <id>
    circuit … end            (harness/common/circuit.hpp `vc::dumpCircuit` format)
    hpwl <v>                 (computed here, independently of the C++ and of the stand-in)
or  throw:<ExceptionClass>

A line `bindings` in the jobs file prints `enum <PyEnum> <name> <int value>` for
every Python-visible enum value.  Standard library only.
"""
import math
import os
import sys

HERE = os.path.dirname(os.path.abspath(__file__))
REPO = os.environ.get("COLOQUINTE_REPO", "/repo")
sys.path.insert(0, os.path.join(HERE, "pystub"))
sys.path.insert(0, os.path.join(REPO, "pycoloquinte"))

import coloquinte_pybind  # noqa: E402  (the stand-in)
import coloquinte  # noqa: E402  (the code under test)


def exact_double(v):
    if v == 0.0 or not math.isfinite(v):
        return "0 0"
    m, e = math.frexp(v)
    mant = int(math.ldexp(m, 53))
    e -= 53
    while mant % 2 == 0 and mant != 0:
        mant //= 2
        e += 1
    return "%d %d" % (mant, e)


# position of the point (x, y) of an unrotated w x h cell once the cell is placed with orientation o,
# relative to the lower-left corner of the placed cell: the eight symmetries written out
PLACED = {
    "N": lambda w, h, x, y: (x, y),
    "S": lambda w, h, x, y: (w - x, h - y),
    "W": lambda w, h, x, y: (h - y, x),
    "E": lambda w, h, x, y: (y, w - x),
    "FN": lambda w, h, x, y: (w - x, y),
    "FS": lambda w, h, x, y: (x, h - y),
    "FW": lambda w, h, x, y: (y, x),
    "FE": lambda w, h, x, y: (h - y, w - x),
}


def hpwl(c):
    w, h, xs, ys, o = c.cell_width, c.cell_height, c.cell_x, c.cell_y, c.cell_orientation
    total = 0
    for cells, xo, yo, _ in c._nets:
        px, py = [], []
        for k, cell in enumerate(cells):
            dx, dy = PLACED[o[cell].name](w[cell], h[cell], xo[k], yo[k])
            px.append(xs[cell] + dx)
            py.append(ys[cell] + dy)
        total += (max(px) - min(px)) + (max(py) - min(py))
    return total


def dump(c, out):
    out.append("circuit %d" % c.nb_cells)
    w, h, xs, ys = c.cell_width, c.cell_height, c.cell_x, c.cell_y
    o, f, ob, pol = c.cell_orientation, c.cell_is_fixed, c.cell_is_obstruction, c.cell_row_polarity
    for i in range(c.nb_cells):
        out.append("cell %d %d %d %d %d %d %d %d" % (w[i], h[i], xs[i], ys[i], o[i].value, int(f[i]), int(ob[i]), pol[i].value))
    for r in c.rows:
        out.append("row %d %d %d %d %d" % (r.min_x, r.max_x, r.min_y, r.max_y, r.orientation.value))
    for cells, xo, yo, wt in c._nets:
        out.append("net %s %d%s" % (exact_double(wt), len(cells),
                                    "".join(" %d %d %d" % (cells[k], xo[k], yo[k]) for k in range(len(cells)))))
    out.append("end")
    # values of the remaining read-only properties / methods, through the bindings
    out.append("py %d %d %d %d %d %d" % (c.nb_cells, c.nb_nets, c.nb_rows, c.nb_pins, c.row_height, c.hpwl()))


def esc(line):
    """one line as a token of the driver protocol (lean/Driver/C20.lean)"""
    if line == "":
        return "\\e"
    r = []
    for ch in line:
        if ch == " ":
            r.append("\\s")
        elif ch == "\t":
            r.append("\\t")
        elif ch == "\\":
            r.append("\\\\")
        elif ord(ch) < 33 or ord(ch) > 126:
            r.append("\\u%d;" % ord(ch))
        else:
            r.append(ch)
    return "".join(r)


def emit(c, out):
    blk = []
    dump(c, blk)
    blk.append("hpwl %d" % hpwl(c))
    out.extend(blk)


def placement_job(t, out):
    """wplp <id> <aux> <sol>: write_placement, then load_placement into a blanked re-read circuit;
    lp <id> <aux> <pl>: load_placement of a given file.  Nothing is printed when read_ispd itself fails
    (the plain job of the same case reports that)."""
    kind, cid, aux, path = t
    try:
        c = coloquinte.Circuit.read_ispd(aux)
    except Exception:
        return
    if kind == "wplp":
        out.append("== %s.wp" % cid)
        try:
            c.write_placement(path)
            text = open(path).read()
            lines = text.split("\n")
            if lines and lines[-1] == "":
                lines.pop()
            out.extend("sol " + esc(l) for l in lines)
        except Exception as e:
            out.append("throw:" + type(e).__name__)
            return
        out.append("== %s.lp" % cid)
        try:
            c2 = coloquinte.Circuit.read_ispd(aux)
            n = c2.nb_cells
            c2.cell_x = [0] * n
            c2.cell_y = [0] * n
            c2.cell_orientation = [coloquinte.CellOrientation.N] * n
            c2.load_placement(path)
            emit(c2, out)
        except Exception as e:
            out.append("throw:" + type(e).__name__)
    else:
        out.append("== %s.lp" % cid)
        try:
            c.load_placement(path)
            emit(c, out)
        except Exception as e:
            out.append("throw:" + type(e).__name__)


def main():
    jobs = sys.argv[1]
    out = []
    for line in open(jobs):
        t = line.split()
        if not t:
            continue
        if t[0] == "cd":   # relative-prefix cases: the paths of the following jobs are relative to this directory
            os.chdir(t[1])
            continue
        if t[0] in ("wplp", "lp"):
            placement_job(t, out)
            continue
        if t[0] == "bindings":
            out.append("== bindings")
            for name in ("CellOrientation", "CellRowPolarity", "LegalizationModel", "NetModel", "PlacementStep"):
                typ = getattr(coloquinte_pybind, name)
                for n, v in typ.__members__.items():
                    out.append("enum %s %s %d" % (name, n, v.value))
            continue
        out.append("== " + t[0])
        try:
            c = coloquinte.Circuit.read_ispd(t[1])
            blk = []
            dump(c, blk)
            blk.append("hpwl %d" % hpwl(c))
            out.extend(blk)
        except Exception as e:  # the class is part of the observable behaviour
            out.append("throw:" + type(e).__name__)
    sys.stdout.write("\n".join(out) + "\n")


if __name__ == "__main__":
    main()
