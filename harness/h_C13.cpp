// C13 — correspondence + direct oracle for coloquinte::TransportationProblem.
//
// Per instance (capacities, demands, integer or float costs, optional increaseCapacity) the
// harness runs  constructor; [increaseCapacity]; solve; toAssignment; [setAllocations; toAssignment]
// on the real class and prints the integer results; the Lean driver replays the same op lines on the
// model and additionally has to answer `cert ok` (verified optimality certificate accepted) and
// `bound ok` (3*|cost| < INT_MAX, the hypothesis of the universal Lean theorems ssp_optimal/ssp_terminates).
// Direct oracle (independent code, on the real output): every source fully allocated, no sink over
// capacity, no negative entry, total cost (exact integers, in the stored fixed-point costs) equal to
// a brute-force optimum when the instance is tiny (<= 5 sources x <= 4 sinks, demands <= 4); for
// float costs also the real-valued cost (long double) within the rigorous fixed-point rounding
// bound of the real-valued brute-force optimum; toAssignment = a sink receiving most of the source.
// Floats are never printed: costs cross to the driver as the bit pattern of (double)cost.
// Float inputs: the Lean model executes costsFromIntegers over exact rationals with explicit binary64 rounding; the scaled
// integer costs are compared entry by entry on dyadic, non-dyadic (full 24-bit mantissas, decimals, thirds), subnormal,
// all-below-1e-8f, near-FLT_MAX, full-exponent-range (spreads beyond 1e30) and negative inputs; `fdomain ok|outside`
// is the domain predicate of costsFromFloats_bound evaluated independently here.
#include <algorithm>
#include <climits>
#include <memory>
#include <cmath>
#include <stdexcept>
#include <unordered_map>

#include "common/harness.hpp"
#include "place_global/transportation.hpp"

using namespace coloquinte;
typedef long long ll;

struct Inst {
  std::vector<ll> caps, dems;
  bool isFloat = false;
  std::vector<std::vector<int>> icosts;    // [sink][source]
  std::vector<std::vector<float>> fcosts;  // [sink][source]
  bool inc = false;                        // call increaseCapacity() before solve()
  std::vector<std::vector<ll>> extraAlloc; // optional setAllocations + toAssignment afterwards
  // object history (family "state carried across calls"): when non-empty the problem is built once and these steps are
  // applied to the SAME object in order.  S solve, ID increaseDemand, IC increaseCapacity, AS:d addSource(d), AK:c addSink(c),
  // DC addDummyCapacity, DD addDummyDemand, RA resetAllocations, SA:p setAllocations(pattern p), SG:p setAssignment(pattern p),
  // MF makeFeasible, CP continue on a copy of the object.  Carried in the failure input (`;hist=`) and read back on replay.
  std::vector<std::string> hist;
  std::string tag;

  int n() const { return caps.size(); }
  int m() const { return dems.size(); }
  static uint32_t fbits(float f) { uint32_t b; memcpy(&b, &f, 4); return b; }
  static float ffrom(uint32_t b) { float f; memcpy(&f, &b, 4); return f; }
  std::string str() const {
    std::ostringstream os;
    os << "caps=" << vh::join(caps, ",") << ";dems=" << vh::join(dems, ",") << ";kind=" << (isFloat ? "f" : "i")
       << ";inc=" << (inc ? 1 : 0) << ";costs=";
    size_t rows = isFloat ? fcosts.size() : icosts.size();
    for (size_t i = 0; i < rows; ++i) {
      if (i) os << "|";
      if (isFloat) {
        for (size_t j = 0; j < fcosts[i].size(); ++j) os << (j ? "," : "") << "0x" << std::hex << fbits(fcosts[i][j]) << std::dec;
      } else {
        os << vh::join(icosts[i], ",");
      }
    }
    if (!hist.empty()) { os << ";hist="; for (size_t i = 0; i < hist.size(); ++i) os << (i ? "," : "") << hist[i]; }
    return os.str();
  }
  static std::vector<std::string> split(const std::string &s, char c) {
    std::vector<std::string> r;
    std::string cur;
    for (char ch : s) { if (ch == c) { r.push_back(cur); cur.clear(); } else cur += ch; }
    r.push_back(cur);
    return r;
  }
  static bool parse(const std::string &s, Inst &in) {
    in = Inst();
    for (auto &kv : split(s, ';')) {
      size_t e = kv.find('=');
      if (e == std::string::npos) continue;
      std::string k = kv.substr(0, e), v = kv.substr(e + 1);
      while (!k.empty() && k[0] == ' ') k.erase(0, 1);
      if (k == "caps") { for (auto &x : split(v, ',')) if (!x.empty()) in.caps.push_back(atoll(x.c_str())); }
      else if (k == "dems") { for (auto &x : split(v, ',')) if (!x.empty()) in.dems.push_back(atoll(x.c_str())); }
      else if (k == "kind") in.isFloat = (v == "f");
      else if (k == "inc") in.inc = (v == "1");
      else if (k == "hist") { for (auto &x : split(v, ',')) if (!x.empty()) in.hist.push_back(x); }
      else if (k == "costs") {
        for (auto &row : split(v, '|')) {
          std::vector<int> ir; std::vector<float> fr;
          for (auto &x : split(row, ',')) {
            if (x.empty()) continue;
            if (in.isFloat) fr.push_back(ffrom((uint32_t)strtoul(x.c_str(), nullptr, 16)));
            else ir.push_back(atoi(x.c_str()));
          }
          if (in.isFloat) in.fcosts.push_back(fr); else in.icosts.push_back(ir);
        }
      }
    }
    return !in.caps.empty() && !in.dems.empty();
  }
};

static std::string matStr(const std::vector<std::vector<ll>> &m) {
  std::ostringstream os;
  for (size_t i = 0; i < m.size(); ++i) { if (i) os << " | "; os << vh::join(m[i]); }
  return os.str();
}
static std::string matStrI(const std::vector<std::vector<int>> &m) {
  std::ostringstream os;
  for (size_t i = 0; i < m.size(); ++i) { if (i) os << " | "; os << vh::join(m[i]); }
  return os.str();
}

// ---- independent brute force: minimum of sum cost[i][j]*x[i][j] over all integer plans ---------
// DP over sources; state = remaining capacities (each clipped to the total demand).
template <class C>
struct Brute {
  int n, m;
  std::vector<ll> dems;
  const std::vector<std::vector<C>> &cost;
  std::vector<std::unordered_map<uint64_t, C>> memo;
  bool feasible = true;
  Brute(const std::vector<ll> &caps, const std::vector<ll> &d, const std::vector<std::vector<C>> &c)
      : n(caps.size()), m(d.size()), dems(d), cost(c), memo(d.size()) {
    (void)caps;
  }
  static uint64_t key(const std::vector<ll> &rem) {
    uint64_t k = 0;
    for (ll r : rem) k = k * 64 + (uint64_t)r;
    return k;
  }
  // best cost for sources j.. with remaining capacities rem; returns false if infeasible
  bool go(int j, std::vector<ll> &rem, C &res) {
    if (j == m) { res = 0; return true; }
    uint64_t k = key(rem);
    auto it = memo[j].find(k);
    if (it != memo[j].end()) { res = it->second; return res == res && res < inf(); }
    C best = inf();
    bool any = false;
    distribute(j, 0, dems[j], rem, 0, best, any);
    memo[j][k] = any ? best : inf();
    res = best;
    return any;
  }
  static C inf() { return std::numeric_limits<C>::max() / 4; }
  void distribute(int j, int i, ll left, std::vector<ll> &rem, C acc, C &best, bool &any) {
    if (i == n - 1) {
      if (left > rem[i]) return;
      rem[i] -= left;
      C sub;
      if (go(j + 1, rem, sub)) { C tot = acc + cost[i][j] * (C)left + sub; if (!any || tot < best) best = tot; any = true; }
      rem[i] += left;
      return;
    }
    for (ll q = 0; q <= left && q <= rem[i]; ++q) {
      rem[i] -= q;
      distribute(j, i + 1, left - q, rem, acc + cost[i][j] * (C)q, best, any);
      rem[i] += q;
    }
  }
};

template <class C>
static bool bruteOptimum(std::vector<ll> caps, const std::vector<ll> &dems, const std::vector<std::vector<C>> &cost, C &res) {
  ll tot = 0;
  for (ll d : dems) tot += d;
  for (ll &c : caps) c = std::min(c, tot);
  Brute<C> b(caps, dems, cost);
  return b.go(0, caps, res);
}

// floatCostsOk of Model/TranspFloat.lean: every cost <= FLT_MAX (finite) and >= -nbSinks * maxVal
static bool floatDomain(const std::vector<std::vector<float>> &fc) {
  long double maxVal = 1.0e-8f;
  for (auto &r : fc) for (float f : r) { if (!std::isfinite(f)) return false; maxVal = std::max(maxVal, (long double)f); }
  long double lo = -(long double)fc.size() * maxVal;
  for (auto &r : fc) for (float f : r) if ((long double)f < lo) return false;
  return true;
}

static void classifyFloats(const std::vector<std::vector<float>> &fc, vh::Out &out) {
  bool den = false, zero = false, neg = false, nondy = false, big = false, allTiny = true;
  float mx = 0, mnpos = 0;
  for (auto &r : fc) for (float f : r) {
    if (f == 0.0f) zero = true;
    if (f != 0.0f && std::fabs(f) < 1.17549435e-38f) den = true;
    if (f < 0.0f) neg = true;
    uint32_t b; memcpy(&b, &f, 4);
    if ((b & 0xFFFu) != 0) nondy = true;          // more than 12 significant fraction bits used
    if (std::fabs(f) > 1e30f) big = true;
    if (f > 1.0e-8f) allTiny = false;
    if (f > 0.0f) { mx = std::max(mx, f); mnpos = mnpos == 0 ? f : std::min(mnpos, f); }
  }
  if (den) out.count("float_has_denormal");
  if (zero) out.count("float_has_zero");
  if (neg) out.count("float_has_negative");
  if (nondy) out.count("float_has_full_mantissa");
  if (big) out.count("float_has_magnitude_gt_1e30");
  if (allTiny) out.count("float_all_le_1e-8_maxVal_is_eps");
  if (mnpos > 0 && (long double)mx / mnpos >= 1e12L) out.count("float_spread_ge_1e12");
  if (mnpos > 0 && (long double)mx / mnpos >= 1e30L) out.count("float_spread_ge_1e30");
}

struct Runner {
  vh::Out &out;
  long long bruteBudget;
  explicit Runner(vh::Out &o, long long bb) : out(o), bruteBudget(bb) {}

  void emitProblem(const Inst &in) {
    out.ops << "caps " << vh::join(in.caps) << "\n";
    out.ops << "dems " << vh::join(in.dems) << "\n";
    if (in.isFloat) {
      for (auto &r : in.fcosts) {
        out.ops << "frow";
        for (float f : r) { double d = f; uint64_t b; memcpy(&b, &d, 8); out.ops << " " << b; }
        out.ops << "\n";
      }
    } else {
      for (auto &r : in.icosts) out.ops << "irow " << vh::join(r) << "\n";
    }
    out.ops << "build\n";
  }

  void run(const std::string &id, const Inst &in) {
    std::string input = in.str();
    vh::setCase(id, input);
    out.evaluations++;
    out.ops << "case " << id << "\n";
    out.impl << "case " << id << "\n";
    emitProblem(in);
    std::unique_ptr<TransportationProblem> pbp;
    try {
      if (in.isFloat) pbp.reset(new TransportationProblem(in.caps, in.dems, in.fcosts));
      else pbp.reset(new TransportationProblem(in.caps, in.dems, in.icosts));
    } catch (const std::runtime_error &) {
      out.impl << "throw:runtime_error\n";
      out.count("constructor_throws");
      return;
    }
    TransportationProblem &pb = *pbp;
    out.impl << "costs " << matStrI(pb.costs()) << "\n";
    if (in.isFloat) {
      // the domain of the Lean theorem costsFromFloats_bound (floatCostsOk), evaluated independently and exactly:
      // n * maxVal has at most 24 + 5 significant bits (n <= 16), exact in long double
      bool dom = floatDomain(in.fcosts);
      out.impl << (dom ? "fdomain ok\n" : "fdomain outside\n");
      out.count(dom ? "float_domain_ok" : "float_domain_outside");
      classifyFloats(in.fcosts, out);
      // oracle on the scaled costs (independent of the solver): |cost| <= 2^29 on the domain, and every stored cost is
      // within 1/2 + 2^-24 of cost * factor for the ideal factor up to its relative error 3 * 2^-53 (long double)
      if (dom) {
        long double maxVal = 1.0e-8f;
        for (auto &r : in.fcosts) for (float f : r) maxVal = std::max(maxVal, (long double)f);
        long double f = 2147483647.0L / maxVal / 4.0L / (long double)in.fcosts.size();
        for (size_t i = 0; i < in.fcosts.size(); ++i)
          for (size_t j = 0; j < in.fcosts[i].size(); ++j) {
            long long c = pb.costs()[i][j];
            if (c > 536870912LL || c < -536870912LL) out.fail(id, "scaled float cost beyond 2^29 on the domain", input);
            long double ideal = (long double)in.fcosts[i][j] * f;
            if (fabsl((long double)c - ideal) > 0.5L + 1.0L / 16777216.0L + fabsl(ideal) * 1e-15L)
              out.fail(id, "scaled float cost further than 1/2 + 2^-24 from cost * factor", input);
          }
      }
    }
    const int n = pb.nbSinks(), m = pb.nbSources();
    if (in.inc) {
      ll before = pb.totalCapacity();
      std::vector<ll> capsBefore = pb.capacities();
      pb.increaseCapacity();
      out.ops << "inc\n";
      out.impl << "caps " << vh::join(pb.capacities()) << "\n";
      // oracle for the normalisation: capacity now covers the demand, no capacity decreased
      if (pb.totalCapacity() < pb.totalDemand()) out.fail(id, "increaseCapacity: capacity still below demand", input);
      for (int i = 0; i < n; ++i)
        if (pb.capacities()[i] < capsBefore[i]) out.fail(id, "increaseCapacity: a capacity decreased", input);
      out.count(before < pb.totalDemand() ? "inc_needed" : "inc_noop");
    }
    if (pb.totalDemand() > pb.totalCapacity()) {  // outside the property's precondition: not solved
      out.count("skipped_demand_exceeds_capacity");
      return;
    }
    pb.solve();
    out.ops << "solve\n";
    out.impl << "status ok\n";
    out.impl << "alloc " << matStr(pb.allocations()) << "\n";
    out.impl << "cert ok\n";
    // hypothesis of the universal theorems (3*|cost| < INT_MAX) holds on every generated instance,
    // integer costs by construction of the generator, float costs by costsFromIntegers' scaling
    out.impl << "bound ok\n";
    std::vector<int> asg = pb.toAssignment();
    out.ops << "assign\n";
    out.impl << "assign " << vh::join(asg) << "\n";

    // ---- direct oracle on the real output ----
    const auto &x = pb.allocations();
    const auto &caps = pb.capacities();
    bool shape = (int)x.size() == n;
    for (auto &r : x) shape = shape && (int)r.size() == m;
    if (!shape) { out.fail(id, "allocation matrix has the wrong shape", input); return; }
    bool feasible = true;
    for (int j = 0; j < m; ++j) {
      ll s = 0;
      for (int i = 0; i < n; ++i) s += x[i][j];
      if (s != in.dems[j]) { out.fail(id, "source " + std::to_string(j) + " not fully allocated", input); feasible = false; break; }
    }
    for (int i = 0; i < n; ++i) {
      ll s = 0;
      for (int j = 0; j < m; ++j) {
        s += x[i][j];
        if (x[i][j] < 0) { out.fail(id, "negative allocation", input); feasible = false; }
      }
      if (s > caps[i]) { out.fail(id, "sink " + std::to_string(i) + " over capacity", input); feasible = false; }
    }
    if ((int)asg.size() != m) out.fail(id, "toAssignment has the wrong size", input);
    else
      for (int j = 0; j < m; ++j) {
        bool ok = asg[j] >= 0 && asg[j] < n;
        for (int i = 0; ok && i < n; ++i) ok = x[asg[j]][j] >= x[i][j];
        if (!ok) { out.fail(id, "toAssignment: source " + std::to_string(j) + " not given the sink receiving most of it", input); break; }
      }
    // non-trivial: the capacity constraints were binding (some source is not entirely in one of its cheapest sinks)
    bool binding = false;
    for (int j = 0; j < m && !binding; ++j) {
      int best = pb.costs()[0][j];
      for (int i = 0; i < n; ++i) best = std::min(best, pb.costs()[i][j]);
      for (int i = 0; i < n; ++i) if (x[i][j] > 0 && pb.costs()[i][j] != best) binding = true;
    }
    if (binding) { out.nontrivial(vh::hashStr(input)); out.count("capacity_binding"); } else out.count("capacity_not_binding");
    bool split = false;
    for (int j = 0; j < m; ++j) { int nz = 0; for (int i = 0; i < n; ++i) nz += x[i][j] != 0; if (nz > 1) split = true; }
    if (split) out.count("some_source_split");
    {
      int fullSinks = 0;
      for (int i = 0; i < n; ++i) { ll rs = 0; for (int j = 0; j < m; ++j) rs += x[i][j]; if (rs == caps[i]) ++fullSinks; }
      if (n >= 3 && fullSinks >= 2) out.count("sinks_ge3_and_full_sinks_ge2");
      if (n >= 3 && fullSinks >= 2 && binding) out.count("sinks_ge3_full_ge2_negative_moving_cost");
      bool bigSplit = false;  // a source split over >= 2 sinks whose largest share is >= 2^31
      for (int j = 0; j < m; ++j) { int nz = 0; ll mx = 0; for (int i = 0; i < n; ++i) { nz += x[i][j] != 0; mx = std::max(mx, x[i][j]); } if (nz > 1 && mx >= (1LL << 31)) bigSplit = true; }
      if (bigSplit) out.count("split_source_with_share_ge_2^31");
    }
    ll maxd = 0;
    for (ll d : in.dems) maxd = std::max(maxd, d);
    if (feasible && m <= 5 && n <= 4 && maxd <= 4 && bruteBudget > 0) {
      --bruteBudget;
      out.count("brute_force_checked");
      // exact integers, in the stored costs
      std::vector<std::vector<ll>> c(n, std::vector<ll>(m));
      for (int i = 0; i < n; ++i) for (int j = 0; j < m; ++j) c[i][j] = pb.costs()[i][j];
      ll actual = 0;
      for (int i = 0; i < n; ++i) for (int j = 0; j < m; ++j) actual += c[i][j] * x[i][j];
      ll opt = 0;
      if (!bruteOptimum<ll>(caps, in.dems, c, opt)) out.fail(id, "oracle: brute force found no plan", input);
      else if (actual != opt) out.fail(id, "plan cost " + std::to_string(actual) + " != brute-force optimum " + std::to_string(opt), input);
      if (in.isFloat) {
        // real-valued costs: |round(c*f) - c*f| <= 1/2 (+ rounding of the product), f = INT_MAX/(4 n maxVal);
        // hence real cost <= real optimum + 2 * totalDemand * (1/2 + slack)/f
        std::vector<std::vector<long double>> fc(n, std::vector<long double>(m));
        long double maxVal = 1.0e-8f, totd = 0;
        for (int i = 0; i < n; ++i) for (int j = 0; j < m; ++j) { fc[i][j] = in.fcosts[i][j]; maxVal = std::max(maxVal, fc[i][j]); }
        for (ll d : in.dems) totd += d;
        long double real = 0, ropt = 0;
        for (int i = 0; i < n; ++i) for (int j = 0; j < m; ++j) real += fc[i][j] * x[i][j];
        if (bruteOptimum<long double>(caps, in.dems, fc, ropt)) {
          long double f = 2147483647.0L / maxVal / 4.0L / n;
          long double tol = 2.0L * totd * 0.75L / f + 1e-12L * (fabsl(ropt) + 1e-30L);
          if (real > ropt + tol) out.fail(id, "real-valued plan cost exceeds the real-valued optimum beyond the fixed-point rounding bound", input);
          out.count("real_cost_checked");
        }
      }
    }
    // toAssignment on an arbitrary allocation matrix (ties, zeros)
    if (!in.extraAlloc.empty()) {
      for (auto &r : in.extraAlloc) out.ops << "arow " << vh::join(r) << "\n";
      out.ops << "setalloc\n";
      try {
        pb.setAllocations(in.extraAlloc);
        out.impl << "setalloc ok\n";
        std::vector<int> a2 = pb.toAssignment();
        out.ops << "assign\n";
        out.impl << "assign " << vh::join(a2) << "\n";
        for (int j = 0; j < m; ++j) {
          bool ok = a2[j] >= 0 && a2[j] < n;
          for (int i = 0; ok && i < n; ++i) ok = in.extraAlloc[a2[j]][j] >= in.extraAlloc[i][j];
          if (!ok) { out.fail(id, "toAssignment (set allocation): not an argmax", input + ";alloc=" + matStr(in.extraAlloc)); break; }
        }
        out.count("assign_on_set_allocation");
        { bool big = false; for (auto &r2 : in.extraAlloc) for (ll v : r2) big = big || v >= (1LL << 31); if (big) out.count("assign_on_set_allocation_with_entry_ge_2^31"); }
      } catch (const std::runtime_error &) {
        out.impl << "throw:runtime_error\n";
      }
    }
    out.count("sinks_" + std::string(n < 10 ? "0" : "") + std::to_string(n));
    out.count(m <= 5 ? "sources_1-5" : (m <= 20 ? "sources_6-20" : (m <= 100 ? "sources_21-100" : "sources_101+")));
    out.count(in.isFloat ? "float_costs" : "int_costs");
    ll td = pb.totalDemand(), tc = pb.totalCapacity();
    out.count(td == tc ? "balanced" : "slack");
    out.count("tag_" + in.tag);
    if (maxd >= 1000000) out.count("max_demand_ge_1e6");
    out.sample(input);
  }

  // ---- objects with a past (family: state carried across calls on one TransportationProblem) ---------------------
  // The property speaks about solve() on *any* problem whose total demand does not exceed its total capacity, hence also
  // about an object that was solved before and then changed through its public mutators.  Everything demanded below is
  // stated w.r.t. the data the object itself reports NOW (capacities(), demands(), costs()):
  //  * correspondence: the Lean model of a FRESH problem built from that data must return the same plan/assignment;
  //  * oracle: every source fully allocated, no sink over capacity, no negative entry, argmax assignment, and total cost
  //    (exact, 128-bit) equal to the cost of the plan a fresh object with the same data returns (both must be minimal,
  //    so the two costs must be equal - the plans themselves are not compared by the oracle), brute force when tiny.
  typedef __int128 i128;
  static std::string str128(i128 v) {
    if (v == 0) return "0";
    bool neg = v < 0; if (neg) v = -v;
    std::string r; while (v > 0) { r += (char)('0' + (int)(v % 10)); v /= 10; }
    if (neg) r += '-';
    std::reverse(r.begin(), r.end());
    return r;
  }
  static i128 planCost(const std::vector<std::vector<int>> &c, const std::vector<std::vector<ll>> &x) {
    i128 t = 0;
    for (size_t i = 0; i < c.size() && i < x.size(); ++i)
      for (size_t j = 0; j < c[i].size() && j < x[i].size(); ++j) t += (i128)c[i][j] * (i128)x[i][j];
    return t;
  }

  bool checkSolved(const std::string &id, int solveNo, TransportationProblem &pb, const std::string &input, const std::string &past) {
    const int n = pb.nbSinks(), m = pb.nbSources();
    const std::vector<std::vector<ll>> x = pb.allocations();
    const std::vector<ll> caps = pb.capacities(), dems = pb.demands();
    const std::vector<std::vector<int>> costs = pb.costs();
    const std::string cid = id + "@" + std::to_string(solveNo);
    const std::string where = " (solve #" + std::to_string(solveNo) + " of the object, after: " + (past.empty() ? "nothing" : past) + ")";
    out.ops << "case " << cid << "\n";
    out.impl << "case " << cid << "\n";
    out.ops << "caps " << vh::join(caps) << "\n" << "dems " << vh::join(dems) << "\n";
    for (auto &r : costs) out.ops << "irow " << vh::join(r) << "\n";
    out.ops << "build\nsolve\nassign\n";
    std::vector<int> asg = pb.toAssignment();
    out.impl << "costs " << matStrI(costs) << "\n" << "status ok\n" << "alloc " << matStr(x) << "\n" << "cert ok\nbound ok\n"
             << "assign " << vh::join(asg) << "\n";
    out.count("history_solve_checked");
    bool shape = (int)x.size() == n && (int)costs.size() == n && (int)caps.size() == n && (int)dems.size() == m;
    for (auto &r : x) shape = shape && (int)r.size() == m;
    for (auto &r : costs) shape = shape && (int)r.size() == m;
    if (!shape) { out.fail(id, "allocation/cost matrix has the wrong shape" + where, input); return false; }
    bool feasible = true;
    for (int j = 0; j < m && feasible; ++j) {
      ll s = 0;
      for (int i = 0; i < n; ++i) s += x[i][j];
      if (s != dems[j]) { out.fail(id, "source " + std::to_string(j) + " not fully allocated: " + std::to_string(s) + " of " + std::to_string(dems[j]) + where, input); feasible = false; }
    }
    for (int i = 0; i < n; ++i) {
      ll s = 0;
      for (int j = 0; j < m; ++j) {
        s += x[i][j];
        if (x[i][j] < 0) { out.fail(id, "negative allocation" + where, input); feasible = false; }
      }
      if (s > caps[i]) { out.fail(id, "sink " + std::to_string(i) + " over capacity" + where, input); feasible = false; }
    }
    if ((int)asg.size() != m) out.fail(id, "toAssignment has the wrong size" + where, input);
    else
      for (int j = 0; j < m; ++j) {
        bool ok = asg[j] >= 0 && asg[j] < n;
        for (int i = 0; ok && i < n; ++i) ok = x[asg[j]][j] >= x[i][j];
        if (!ok) { out.fail(id, "toAssignment: source " + std::to_string(j) + " not given the sink receiving most of it" + where, input); break; }
      }
    if (!feasible) return false;
    // minimality: a fresh object with the same data (solved once, no past)
    i128 actual = planCost(costs, x);
    {
      TransportationProblem fresh(caps, dems, costs);
      fresh.solve();
      i128 fc = planCost(costs, fresh.allocations());
      if (fc != actual) {
        out.fail(id, "plan cost " + str128(actual) + " != cost " + str128(fc) + " of the plan returned by a fresh object with the same capacities/demands/costs "
                     "(both are claimed minimal)" + where, input);
        return false;
      }
      out.count(fresh.allocations() == x ? "history_plan_equals_fresh_plan" : "history_plan_differs_from_fresh_plan_same_cost");
    }
    ll maxd = 0;
    for (ll d : dems) maxd = std::max(maxd, d);
    if (m <= 5 && n <= 4 && maxd <= 8 && bruteBudget > 0) {
      --bruteBudget;
      out.count("history_brute_force_checked");
      std::vector<std::vector<ll>> c(n, std::vector<ll>(m));
      for (int i = 0; i < n; ++i) for (int j = 0; j < m; ++j) c[i][j] = costs[i][j];
      ll opt = 0;
      if (!bruteOptimum<ll>(caps, dems, c, opt)) out.fail(id, "oracle: brute force found no plan" + where, input);
      else if ((i128)opt != actual) { out.fail(id, "plan cost " + str128(actual) + " != brute-force optimum " + std::to_string(opt) + where, input); return false; }
    }
    return true;
  }

  static bool sameData(const TransportationProblem &pb, const std::vector<ll> &c, const std::vector<ll> &d, const std::vector<std::vector<int>> &k) {
    return pb.capacities() == c && pb.demands() == d && pb.costs() == k;
  }

  void runHistory(const std::string &id, const Inst &in) {
    std::string input = in.str();
    vh::setCase(id, input);
    out.evaluations++;
    out.count("history_cases");
    std::unique_ptr<TransportationProblem> pbp;
    try {
      if (in.isFloat) pbp.reset(new TransportationProblem(in.caps, in.dems, in.fcosts));
      else pbp.reset(new TransportationProblem(in.caps, in.dems, in.icosts));
    } catch (const std::runtime_error &) {
      out.count("constructor_throws");
      return;
    }
    int solves = 0;
    std::string past;                 // mutators since the last solve
    bool dataChanged = false, allocChanged = false;
    bool ok = true;
    for (size_t s = 0; s < in.hist.size() && ok; ++s) {
      std::string op = in.hist[s];
      ll arg = 0;
      size_t colon = op.find(':');
      if (colon != std::string::npos) { arg = atoll(op.c_str() + colon + 1); op = op.substr(0, colon); }
      TransportationProblem &pb = *pbp;
      const int n = pb.nbSinks(), m = pb.nbSources();
      if (op == "S") {
        if (pb.totalDemand() > pb.totalCapacity()) { out.count("history_solve_skipped_demand_exceeds_capacity"); continue; }  // outside the precondition
        pb.solve();
        ++solves;
        if (solves >= 2) {
          out.count(past.empty() ? "history_resolve_with_nothing_between" : "history_resolve_after_mutators");
          if (dataChanged) out.count("history_resolve_after_data_changed");
          else if (allocChanged) out.count("history_resolve_after_plan_overwritten");
        }
        ok = checkSolved(id, solves, pb, input, past);
        past.clear();
        dataChanged = allocChanged = false;
        continue;
      }
      const std::vector<ll> c0 = pb.capacities(), d0 = pb.demands();
      const std::vector<std::vector<int>> k0 = pb.costs();
      const std::vector<std::vector<ll>> a0 = pb.allocations();
      bool done = true;
      try {
        if (op == "ID") pb.increaseDemand();
        else if (op == "IC") pb.increaseCapacity();
        else if (op == "AS") pb.addSource(std::max<ll>(1, arg));
        else if (op == "AK") { if (n < 16) pb.addSink(std::max<ll>(1, arg)); else done = false; }
        else if (op == "DC") { if (n < 16) pb.addDummyCapacity(); else done = false; }
        else if (op == "DD") pb.addDummyDemand();
        else if (op == "RA") pb.resetAllocations();
        else if (op == "SA") {
          std::vector<std::vector<ll>> a(n, std::vector<ll>(m));
          for (int i = 0; i < n; ++i) for (int j = 0; j < m; ++j) a[i][j] = (ll)((i * 7 + j * 3 + arg) % 5) * (arg % 3 == 0 ? 1 : (ll)(j + 1));
          pb.setAllocations(a);
        } else if (op == "SG") {
          std::vector<int> a(m);
          for (int j = 0; j < m; ++j) a[j] = (int)((j * (arg + 1) + arg) % n);
          pb.setAssignment(a);
        } else if (op == "MF") pb.makeFeasible();
        else if (op == "CP") { std::unique_ptr<TransportationProblem> cp(new TransportationProblem(pb)); pbp.swap(cp); }
        else done = false;
      } catch (const std::runtime_error &) {
        out.count("history_step_" + op + "_throws");   // e.g. makeFeasible with demand > capacity: documented refusal
      }
      if (!done) continue;
      TransportationProblem &q = *pbp;
      bool dc = !sameData(q, c0, d0, k0), ac = q.allocations() != a0;
      out.count("history_step_" + op);
      if (solves >= 1 && dc) out.count("history_step_" + op + "_after_a_solve_changed_problem_data");
      if (solves >= 1 && !dc && ac) out.count("history_step_" + op + "_after_a_solve_overwrote_plan");
      dataChanged = dataChanged || dc;
      allocChanged = allocChanged || ac;
      past += (past.empty() ? "" : ",") + in.hist[s];
      // the mutators' own contracts, as far as the property names them (the capacity-increase normalisation)
      if (op == "IC" && q.totalCapacity() < q.totalDemand()) out.fail(id, "increaseCapacity: capacity still below demand", input);
    }
    out.count("tag_" + in.tag);
    out.count(in.isFloat ? "history_float_costs" : "history_int_costs");
    out.count("history_solves_" + std::to_string(std::min(solves, 4)));
    if (solves >= 2) out.nontrivial(vh::hashStr(input));
    out.sample(input);
  }
};

// ---- generators -------------------------------------------------------------------------------

static void exhaustive(Runner &r, int n, int m, const std::vector<int> &costVals, const std::vector<ll> &demVals,
                       const std::vector<ll> &capVals, bool asFloat, long long &k, long long stride) {
  int cells = n * m;
  long long nc = 1;
  for (int i = 0; i < cells; ++i) nc *= costVals.size();
  long long nd = 1;
  for (int j = 0; j < m; ++j) nd *= demVals.size();
  long long ncap = 1;
  for (int i = 0; i < n; ++i) ncap *= capVals.size();
  long long idx = 0;
  for (long long a = 0; a < nc; ++a)
    for (long long b = 0; b < nd; ++b)
      for (long long c = 0; c < ncap; ++c) {
        if ((idx++ % stride) != 0) continue;
        Inst in;
        in.tag = "exhaustive";
        long long t = a;
        in.isFloat = asFloat;
        if (asFloat) in.fcosts.assign(n, std::vector<float>(m)); else in.icosts.assign(n, std::vector<int>(m));
        for (int i = 0; i < n; ++i)
          for (int j = 0; j < m; ++j) {
            int v = costVals[t % costVals.size()];
            t /= costVals.size();
            if (asFloat) in.fcosts[i][j] = v * 0.5f; else in.icosts[i][j] = v;
          }
        t = b;
        for (int j = 0; j < m; ++j) { in.dems.push_back(demVals[t % demVals.size()]); t /= demVals.size(); }
        t = c;
        for (int i = 0; i < n; ++i) { in.caps.push_back(capVals[t % capVals.size()]); t /= capVals.size(); }
        ll td = 0, tc = 0;
        for (ll d : in.dems) td += d;
        for (ll cc : in.caps) tc += cc;
        in.inc = td > tc;
        r.run("x" + std::to_string(k++), in);
      }
}

static float randFloatCost(vh::Rng &g, int mode) {
  switch (mode) {
    case 0: return 0.0f;                                   // all zeros
    case 1: return (float)g.range(0, 2);                   // ties
    case 2: return (float)g.range(0, 1000) / 16.0f;        // dyadic, many ties
    case 3: return (float)((double)g.range(0, (1 << 24) - 1) / (double)(1 << 24));  // uniform [0,1)
    case 4: {                                              // large spread 1e-6 .. 1e6
      double e = (double)g.range(-20, 20);
      return (float)(std::ldexp(1.0 + (double)g.range(0, 1023) / 1024.0, (int)e));
    }
    case 5: {                                              // distances
      float dx = (float)g.range(-500, 500), dy = (float)g.range(-500, 500);
      return std::sqrt(dx * dx + dy * dy);
    }
    case 7: {                                              // subnormals and the smallest normals (and zero)
      uint32_t b = (uint32_t)g.range(0, (1 << 24) - 1);    // exponent field 0 or 1
      return Inst::ffrom(b);
    }
    case 8: {                                              // any finite non-negative float: full exponent range, full mantissa
      uint32_t b = ((uint32_t)g.range(0, 254) << 23) | (uint32_t)g.range(0, (1 << 23) - 1);
      return Inst::ffrom(b);
    }
    case 9: {                                              // non-dyadic decimals and thirds
      int k = g.range(0, 3);
      if (k == 0) return 0.1f * (float)g.range(0, 1000);
      if (k == 1) return (float)g.range(0, 100000) / 3.0f;
      if (k == 2) return (float)g.range(1, 1000) * 1e-3f;
      return (float)g.range(0, 1000000) / 7.0f * 1e-4f;
    }
    case 10: {                                             // everything at most 1e-8f: maxVal stays the constant
      int k = g.range(0, 3);
      if (k == 0) return 0.0f;
      if (k == 1) return Inst::ffrom((uint32_t)g.range(0, (1 << 23) - 1));   // subnormal
      return Inst::ffrom((uint32_t)g.range(0, 0x322BCC77));                   // any float in [0, 1e-8f]
    }
    default: {                                             // near FLT_MAX
      uint32_t b = ((uint32_t)g.range(250, 254) << 23) | (uint32_t)g.range(0, (1 << 23) - 1);
      return g.chance(1, 4) ? 3.40282347e+38f : Inst::ffrom(b);
    }
  }
}

// negative costs: `maxVal` ignores them.  inDomain: every negative entry >= -n * maxVal (exactly; the domain of
// costsFromFloats_bound); otherwise one entry in [-1.3 n maxVal, -n maxVal) (outside the domain, the stored costs still
// satisfy 3|c| < INT_MAX, so solve() is still covered by ssp_optimal)
static void addNegatives(vh::Rng &g, std::vector<std::vector<float>> &fc, bool inDomain) {
  const int n = fc.size(), m = fc[0].size();
  long double maxVal = 1.0e-8f;
  for (auto &r : fc) for (float f : r) maxVal = std::max(maxVal, (long double)f);
  int imax = -1, jmax = -1;
  for (int i = 0; i < n && imax < 0; ++i) for (int j = 0; j < m; ++j) if ((long double)fc[i][j] == maxVal) { imax = i; jmax = j; break; }
  long double lim = (long double)n * maxVal;
  if (lim > 3.0e38L) lim = 3.0e38L;
  auto below = [&](long double x) {   // largest-magnitude float v with -x <= v <= 0
    float v = -(float)x;
    while ((long double)v < -x) v = std::nextafterf(v, 0.0f);
    return v;
  };
  for (int i = 0; i < n; ++i)
    for (int j = 0; j < m; ++j) {
      if (i == imax && j == jmax) continue;   // keep maxVal
      if (!g.chance(1, 3)) continue;
      int k = g.range(0, 3);
      long double mag = k == 0 ? lim : (k == 1 ? maxVal : lim * (long double)g.range(0, 1 << 20) / (long double)(1 << 20));
      fc[i][j] = below(mag);
    }
  if (!inDomain && lim < 2.0e38L) {
    int i = g.range(0, n - 1), j = g.range(0, m - 1);
    if (i == imax && j == jmax) { if (m > 1) j = (j + 1) % m; else if (n > 1) i = (i + 1) % n; else return; }
    float v = -(float)(lim * (1.0L + (long double)g.range(1, 300) / 1000.0L));
    if ((long double)v >= -lim) v = std::nextafterf(v, -INFINITY);
    fc[i][j] = v;
  }
}

static Inst randomInst(vh::Rng &g, bool tiny, bool huge = false, bool noScale = false) {
  Inst in;
  int n, m;
  if (tiny) { n = g.range(1, 4); m = g.range(1, 5); in.tag = "tiny"; }
  else {
    int sz = g.range(0, 9);
    n = sz < 4 ? g.range(1, 4) : (sz < 8 ? g.range(2, 9) : g.range(10, 16));
    m = sz < 3 ? g.range(1, 8) : (sz < 7 ? g.range(4, 40) : (sz < 9 ? g.range(20, 120) : g.range(100, 300)));
    in.tag = "random";
  }
  // demands.  Large magnitudes are a small instance scaled by a common factor F: solve() is
  // pseudo-polynomial (a round moves at most the smallest allocation on its chain, e.g. caps 3,2e9 / demand 1e8 /
  // costs 0,1 takes 3.3e7 rounds), so unstructured huge demands would only measure that.
  int dmode = tiny ? 0 : (huge ? 4 : g.range(0, noScale ? 3 : 4));
  ll dmax = dmode == 0 ? 4 : (dmode == 1 ? 1 : (dmode == 2 ? 20 : (dmode == 3 ? 200 : 20)));
  ll F = 1;
  if (huge) { F = (1LL << g.range(28, 36)) + g.range(0, 1000); }
  else if (dmode == 4) { F = g.range(1, 6) == 1 ? g.range(2, 1000) : (1LL << g.range(10, 36)) + g.range(0, 1000); }
  ll td = 0;
  for (int j = 0; j < m; ++j) { ll d = g.range(1, dmax); in.dems.push_back(d); td += d; }
  // capacities: balanced / small slack / large slack / short (needs increaseCapacity) / very uneven
  int cmode = g.range(0, 5);
  if (F > 1 && cmode == 3) cmode = 1;
  std::vector<ll> w(n);
  ll tw = 0;
  for (int i = 0; i < n; ++i) { w[i] = (cmode == 4) ? (g.chance(1, 3) ? 1 : g.range(1, 50)) : g.range(1, 5); tw += w[i]; }
  ll target = td;
  if (cmode == 1) target = td + g.range(1, std::max<ll>(1, td / 10 + 1));
  if (cmode == 2) target = td * 2 + g.range(0, 10);
  if (cmode == 3) target = std::max<ll>(n, td - g.range(1, std::max<ll>(1, td / 2)));
  ll acc = 0;
  for (int i = 0; i < n; ++i) { ll c = std::max<ll>(1, target * w[i] / tw); in.caps.push_back(c); acc += c; }
  // fix up the total exactly for the balanced mode (and never fall short unless cmode==3)
  if (cmode != 3) {
    while (acc < target) { in.caps[g.range(0, n - 1)] += 1; ++acc; }
    if (cmode == 0) { int guard = 0; while (acc > target && guard++ < 100000) { int i = g.range(0, n - 1); if (in.caps[i] > 1) { --in.caps[i]; --acc; } } }
  }
  if (F > 1) { for (auto &d : in.dems) d *= F; for (auto &c : in.caps) c *= F; td *= F; acc *= F; in.tag += "_scaled"; }
  in.inc = (acc < td) || g.chance(1, 4);
  // costs
  in.isFloat = g.chance(2, 5);
  if (in.isFloat) {
    // 0..5 single family, 6 mixed 1..5, 7 subnormal, 8 any finite float, 9 non-dyadic, 10 all <= 1e-8f, 11 near FLT_MAX,
    // 12 mixed over all families (large spreads next to zeros and subnormals); then with chance 1/4 negative entries
    int mode = g.range(0, 12);
    in.fcosts.assign(n, std::vector<float>(m));
    for (int i = 0; i < n; ++i) for (int j = 0; j < m; ++j) {
      int fm = mode == 6 ? (int)g.range(1, 5) : (mode == 12 ? (int)(g.chance(1, 5) ? 0 : g.range(1, 11)) : mode);
      if (fm == 6) fm = 8;
      in.fcosts[i][j] = randFloatCost(g, fm);
    }
    in.tag += "_f" + std::to_string(mode);
    if (g.chance(1, 4)) {
      bool inDom = !g.chance(1, 6);
      addNegatives(g, in.fcosts, inDom);
      in.tag += inDom ? "_neg" : "_negout";
    }
  } else {
    int mode = g.range(0, 6);
    ll C = (ll)INT_MAX / (8 * n) - 1;  // |cost| <= C keeps every path cost inside int
    in.icosts.assign(n, std::vector<int>(m));
    for (int i = 0; i < n; ++i)
      for (int j = 0; j < m; ++j) {
        ll v = 0;
        switch (mode) {
          case 0: v = 0; break;
          case 1: v = g.range(0, 1); break;
          case 2: v = g.range(0, 3); break;
          case 3: v = g.range(0, 100); break;
          case 4: v = g.range(-C, C); break;                                   // large spread, both signs
          case 5: v = g.chance(1, 2) ? g.range(0, 3) : g.range(C - 3, C); break;  // tiny and huge mixed
          default: v = std::llabs((ll)(i * 7 % 5) - (ll)(j % 5)) + g.range(0, 1); break;  // structured (1-D like)
        }
        in.icosts[i][j] = (int)v;
      }
    in.tag += "_i" + std::to_string(mode);
  }
  // an arbitrary allocation matrix for toAssignment (ties / zeros)
  if (huge || g.chance(1, 3)) {
    in.extraAlloc.assign(n, std::vector<ll>(m));
    int amode = huge ? 4 : g.range(0, 4);
    for (int i = 0; i < n; ++i)
      for (int j = 0; j < m; ++j) {
        ll v = amode == 0 ? 0 : (amode == 1 ? g.range(0, 2) : g.range(0, 1000));
        // shares beyond 2^31 / 2^32 next to small ones (e.g. 3e9 in one sink, 1000 in another)
        if (amode >= 3) { int k = g.range(0, 5); v = k == 0 ? 0 : (k == 1 ? g.range(1, 1000) : (k == 2 ? (1LL << 31) + g.range(-2, 2000000000LL) : (k == 3 ? (1LL << 32) + g.range(-2, 5) : g.range(1, 1LL << 40)))); }
        in.extraAlloc[i][j] = v;
      }
  }
  return in;
}

// Objects with a past.  Family addressed: state carried across calls on one TransportationProblem - anything solve() (or a
// getter) remembers from an earlier call and a mutator forgets to invalidate (memoised solve, cached totals/orderings, a plan kept
// from before), for EVERY public mutator, alone and in short combinations, and for copies taken after a solve.
// Shapes: solve;solve  |  solve; 1..3 mutators; solve  |  two such rounds  |  a mutator before the first solve.
// Quantities stay unscaled and the added sinks/sources small: solve() is pseudo-polynomial in demand / smallest share.
static Inst historyInst(vh::Rng &g, bool tiny) {
  Inst in = randomInst(g, tiny, false, true);
  in.extraAlloc.clear();
  in.tag = tiny ? "history_tiny" : "history";
  // sinks may be added later (<= 3): keep |int cost| <= INT_MAX/(8 * final sinks) like the other streams
  if (!in.isFloat) for (auto &r : in.icosts) for (int &v : r) if (v > 1000 || v < -1000) v /= 4;
  const ll q = tiny ? 4 : 20;
  int sinksAdded = 0;
  std::vector<std::string> &h = in.hist;
  auto mutator = [&]() {
    int k = g.range(0, 11);
    if ((k == 4 || k == 5) && (in.n() + sinksAdded >= 16 || sinksAdded >= 3)) k = 0;
    switch (k) {
      case 0: case 1: h.push_back("ID"); break;
      case 2: h.push_back("IC"); break;
      case 3:
        h.push_back("AS:" + std::to_string(g.range(1, q)));
        if (!g.chance(1, 3)) {   // usually restore demand <= capacity the documented ways
          if (g.chance(1, 2) && in.n() + sinksAdded < 16 && sinksAdded < 3) { h.push_back("DC"); ++sinksAdded; } else h.push_back("IC");
        }
        break;
      case 4: h.push_back("AK:" + std::to_string(g.range(1, q))); ++sinksAdded; break;
      case 5: h.push_back("DC"); ++sinksAdded; break;
      case 6: h.push_back("DD"); break;
      case 7: h.push_back("RA"); break;
      case 8: h.push_back("SA:" + std::to_string(g.range(0, 8))); break;
      case 9: h.push_back("SG:" + std::to_string(g.range(0, 8))); break;
      case 10: h.push_back("MF"); break;
      default: h.push_back("CP"); break;
    }
  };
  if (in.inc) h.push_back("IC");
  in.inc = false;
  if (g.chance(1, 6)) mutator();
  h.push_back("S");
  int rounds = g.chance(1, 10) ? 0 : (g.chance(1, 3) ? 2 : 1);
  if (rounds == 0) { if (g.chance(1, 3)) h.push_back("CP"); h.push_back("S"); }
  for (int r = 0; r < rounds; ++r) {
    int k = g.chance(1, 2) ? 1 : g.range(2, 3);
    for (int i = 0; i < k; ++i) mutator();
    h.push_back("S");
  }
  return in;
}

static Inst invalidInst(vh::Rng &g) {
  Inst in = randomInst(g, true);
  in.tag = "invalid";
  in.extraAlloc.clear();
  int what = g.range(0, 3);
  if (what == 0) in.dems[g.range(0, in.m() - 1)] = g.range(-2, 0);
  else if (what == 1) in.caps[g.range(0, in.n() - 1)] = g.range(-2, 0);
  else if (what == 2) { if (in.isFloat) in.fcosts.pop_back(); else in.icosts.pop_back(); }
  else { if (in.isFloat) in.fcosts[0].push_back(1.0f); else in.icosts[0].push_back(1); }
  return in;
}

static bool extractInput(const std::string &file, std::string &input) {
  std::ifstream f(file);
  std::stringstream ss;
  ss << f.rdbuf();
  std::string s = ss.str();
  size_t p = s.find("\"input\"");
  if (p == std::string::npos) { input = s; return !s.empty(); }
  p = s.find('"', s.find(':', p));
  if (p == std::string::npos) return false;
  size_t q = s.find('"', p + 1);
  input = s.substr(p + 1, q - p - 1);
  return true;
}

int main(int argc, char **argv) {
  vh::Args a = vh::parseArgs(argc, argv);
  vh::Out out(a.out);
  vh::installCrashHandler(&out);
  out.rule = "instances = (capacities, demands, costs[sink][source] int or float, increaseCapacity yes/no) with total demand <= "
             "total capacity at solve(); corpus, then exhaustive tiny grids, then random (tiny for brute force, and up to 16 sinks x 300 "
             "sources, demands to 1e9, |int cost| to INT_MAX/(8 sinks); float costs: 13 families over the whole finite float range - zeros, ties, "
             "dyadic, full mantissas, spreads 1e-6..1e6, distances, subnormals, any exponent, decimals/thirds, all <= 1e-8f, near FLT_MAX, "
             "mixtures - a quarter of them with negative entries down to -nbSinks*maxVal and a few just below); non-trivial = the capacity constraints were binding "
             "(some source has units outside its cheapest sinks, so units had to be routed/moved between sinks); distinct by canonical text. "
             "Objects with a past (ids p*, counters history_*): one TransportationProblem is solved, changed through its public mutators "
             "(increaseDemand, increaseCapacity, addSource, addSink, addDummyCapacity/Demand, resetAllocations, setAllocations, setAssignment, "
             "makeFeasible, copy) and solved again - also twice with nothing in between; after every solve the plan is checked against the data the "
             "object reports then (getters), against a fresh object and against the Lean model of a fresh problem with that data; such a case is "
             "non-trivial when the object was solved at least twice";
  Runner r(out, a.thorough() ? 400000 : (a.search() ? 120000 : 60000));
  long long k = 0;
  if (!a.replay.empty()) {
    std::string input;
    Inst in;
    if (extractInput(a.replay, input) && Inst::parse(input, in)) { in.tag = "replay"; if (in.hist.empty()) r.run("replay", in); else r.runHistory("replay", in); }
    else out.notes.push_back("could not parse the replay file");
    out.finish();
    return 0;
  }
  if (!a.corpus.empty()) {
    for (auto &ln : vh::readLines(a.corpus + "/instances.txt")) {
      if (ln.empty() || ln[0] == '#') continue;
      Inst in;
      if (!Inst::parse(ln, in)) continue;
      in.tag = "corpus";
      if (in.hist.empty()) r.run("c" + std::to_string(k++), in); else r.runHistory("c" + std::to_string(k++), in);
    }
  }
  k = 0;
  // exhaustive tiny grids (stride > 1 = every stride-th instance of the grid in the quick tier)
  long long st = a.thorough() ? 1 : 1;
  exhaustive(r, 1, 1, {0, 1, 3}, {1, 2, 3}, {1, 2, 4}, false, k, 1);
  exhaustive(r, 1, 2, {0, 1, 3}, {1, 2, 3}, {1, 2, 4}, false, k, 1);
  exhaustive(r, 2, 1, {0, 1, 3}, {1, 2, 3}, {1, 2, 4}, false, k, 1);
  exhaustive(r, 2, 2, {0, 1, 3}, {1, 2, 3}, {1, 2, 4}, false, k, st);
  exhaustive(r, 2, 2, {0, 1, 3}, {1, 2, 3}, {1, 2, 4}, true, k, st);
  exhaustive(r, 2, 3, {0, 1, 3}, {1, 2}, {1, 2, 4}, false, k, a.thorough() ? 1 : 3);
  exhaustive(r, 3, 2, {0, 1}, {1, 2, 3}, {1, 2, 4}, false, k, st);
  if (a.thorough()) {
    exhaustive(r, 3, 2, {0, 1, 3}, {1, 2}, {1, 2, 4}, false, k, 1);
    exhaustive(r, 3, 3, {0, 1}, {1, 2}, {1, 3}, false, k, 1);
    exhaustive(r, 2, 3, {0, 1, 3}, {1, 2}, {1, 2, 4}, true, k, 1);
  }
  out.count("exhaustive_instances", k);
  out.notes.push_back("enumerated grids (sinks x sources; cost values; demands; capacities; increaseCapacity iff demand > capacity): " +
                      std::to_string(k) + " instances");
  long long nr = a.thorough() ? 400000 : (a.search() ? 120000 : 24000);
  for (long long i = 0; i < nr; ++i) {
    vh::Rng g = vh::Rng::forCase(a.seed, i);
    bool huge = (i % 8 == 7);
    Inst in = (i % 97 == 96) ? invalidInst(g) : randomInst(g, !huge && i % 2 == 0, huge);
    r.run(std::string(huge ? "h" : (i % 2 == 0 ? "t" : "r")) + std::to_string(i), in);
  }
  // objects with a past (ids p<i>): one for every six fresh-object instances
  long long nh = nr / 6;
  for (long long i = 0; i < nh; ++i) {
    vh::Rng g = vh::Rng::forCase(a.seed, 10000000 + i);
    Inst in = historyInst(g, i % 2 == 0);
    r.runHistory("p" + std::to_string(i), in);
  }
  out.finish();
  return 0;
}
