// C04 — row polarity / orientation constraints are honoured.
//
// Part 1 (correspondence, ops.txt/impl.txt): one case "tables" that dumps the
//   complete tables of oppositeRowOrientation (10 entries), cellOrientationInRow
//   (5 x 10), isTurn (10), the pin-offset flip flags of the eight real
//   orientations as observed through Circuit::pinXOffset / pinYOffset, and the
//   orientation assignment LegalizerBase::getOrientation for every (polarity,
//   row orientation, current orientation) (5 x 10 x 10).  The Lean
//   driver answers the same queries from the translated tables (Gen/OrientTables).
//
// Part 2 (direct oracle, oracle.txt only): random circuits of the C01 domain
//   (vc::genCircuit, polarities on); Circuit::legalize then Circuit::placeDetailed
//   with a callback, inside vh::isolated.  An independent orientation-only oracle
//   is evaluated after legalize, at every PlacementStep::Detailed callback and
//   after placeDetailed returns:
//     * every movable cell with polarity != ANY has exactly
//       cellOrientationInRow(pol, orientation of the free row segment under its
//       bottom edge) and that is not INVALID;
//     * cells with polarity ANY and all fixed cells keep their initial orientation.
//   Legality (overlaps, cells outside rows), throws and aborts are NOT failures
//   here (C01/C02/C07); they are counted.  A polarised cell that does not sit in
//   a free row segment is skipped and counted.
//   Row listing (family: code that relies on the rows being listed bottom-up / left to right within a y, or that sorts
//   them only partially -- by y alone, or not at all when a cheaper test says "sorted"): four cases in ten have their rows
//   cut into segments of independently drawn orientations (so that the segments of one y prescribe different
//   orientations) and/or listed in another order (reversed, shuffled, bottom-up but right to left within a y, top-down,
//   one adjacent pair exchanged).  The oracle looks the segment up by geometry, so it does not depend on the listing.
//
// Part 3 (object histories, harness/common/history.hpp; oracle.txt + a correspondence case per observation): ONE Circuit
//   object goes through a random sequence of public mutators (setRows, setupRows with all flag combinations,
//   setCellX/Y/Width/Height, setCellIsFixed, setCellIsObstruction, setCellOrientation, setCellRowPolarity, setSolution,
//   addNet; kept inside the C01 domain) interleaved with the observed calls Circuit::legalize and Circuit::placeDetailed
//   (both with a callback): several observations per object, the same one twice, observation -> one mutator -> same
//   observation.  After every observation
//     (a) the orientation oracle of part 2 is evaluated against rows() / the fixed obstructions as they are NOW (at every
//         Detailed callback and after the call returns);
//     (b) the same call is made on a freshly constructed Circuit rebuilt from the getters through the public setters
//         (a copy would carry hidden members): outcome (return / exception class), final solution, the solution at every
//         callback and the rest of the observable state must be identical; the twin runs first, and a history object
//         that dies (assert / sanitizer) in a call its twin completed is reported as well;
//     (c) for every movable cell that sits in a free row segment the line `assign <polarity> <row orientation now>
//         <orientation before the call>` goes to the Lean driver, whose answer (OrientRule.assignedOrientation, the model
//         of LegalizerBase::getOrientation / DetailedPlacement::place) must be the orientation the cell has now.
//   The whole history runs in one forked child.  A failure's input is the history up to the failing observation
//   ("history / circuit..end / mut ... / obs legalize|placeDetailed <params fields> / endhistory"); --replay accepts it.
//
// Input string of a case (also the corpus / replay format): the text of
// vc::dumpCircuit followed by one line
//   params <effort> <nbPasses> <lsNbNeighbours> <lsNbRows> <shiftNbRows> <shiftMaxNbCells>
//          <reordNbRows> <reordMaxNbCells> <costModel> <orderingWidth m e> <orderingHeight m e> <orderingY m e>
// (doubles as exact "<mantissa> <exp2>").  --replay FILE re-runs the oracle on the
// "input" of a replay JSON written by check.py (tables stream is still written).
#include <algorithm>
#include <thread>

#include "common/circuit.hpp"
#include "common/history.hpp"
#include "legalize_common.hpp"  // lg::resegmentRows, lg::relistRows
#include "place_detailed/legalizer.hpp"

using namespace coloquinte;

// ------------------------------------------------------------------ part 1

static void tableStream(vh::Out &out) {
  out.evaluations++;
  out.ops << "case tables\n";
  out.impl << "case tables\n";
  for (int o = 0; o < 10; ++o) {
    out.ops << "opp " << o << "\n";
    out.impl << "opp " << (int)oppositeRowOrientation((CellOrientation)o) << "\n";
  }
  for (int p = 0; p < 5; ++p)
    for (int o = 0; o < 10; ++o) {
      out.ops << "oir " << p << " " << o << "\n";
      out.impl << "oir " << (int)cellOrientationInRow((CellRowPolarity)p, (CellOrientation)o) << "\n";
    }
  for (int o = 0; o < 10; ++o) {
    out.ops << "turn " << o << "\n";
    out.impl << "turn " << (isTurn((CellOrientation)o) ? 1 : 0) << "\n";
  }
  for (int o = 0; o < 8; ++o) {
    Circuit c(1);
    c.setCellWidth({7});
    c.setCellHeight({11});
    c.setCellOrientation({(CellOrientation)o});
    c.addNet({0}, {0}, {0});
    out.ops << "flip " << o << "\n";
    out.impl << "flip " << (c.pinXOffset(0, 0) != 0 ? 1 : 0) << " " << (c.pinYOffset(0, 0) != 0 ? 1 : 0) << "\n";
  }
  // orientation assignment as done by the legalizers: LegalizerBase::getOrientation(cell, row)
  for (int p = 0; p < 5; ++p)
    for (int o = 0; o < 10; ++o)
      for (int cur = 0; cur < 10; ++cur) {
        LegalizerBase leg({Row(0, 10, 0, 2, (CellOrientation)o)}, {1}, {2}, {(CellRowPolarity)p}, {0}, {0},
                          {(CellOrientation)cur});
        out.ops << "assign " << p << " " << o << " " << cur << "\n";
        out.impl << "assign " << (int)leg.getOrientation(0, 0) << "\n";
      }
  out.count("table_entries", 10 + 50 + 10 + 8 + 500);
}

// ------------------------------------------------------------- case inputs

static std::string paramsLine(const ColoquinteParameters &p, int effort) {
  std::ostringstream os;
  os << "params " << effort << " " << p.detailed.nbPasses << " " << p.detailed.localSearchNbNeighbours << " "
     << p.detailed.localSearchNbRows << " " << p.detailed.shiftNbRows << " " << p.detailed.shiftMaxNbCells << " "
     << p.detailed.reorderingNbRows << " " << p.detailed.reorderingMaxNbCells << " " << (int)p.legalization.costModel << " "
     << vc::exactDouble(p.legalization.orderingWidth) << " " << vc::exactDouble(p.legalization.orderingHeight) << " "
     << vc::exactDouble(p.legalization.orderingY);
  return os.str();
}

// Independent specification of the orientation a polarity prescribes in a row (written from the
// documentation of CellRowPolarity in coloquinte.hpp, NOT calling the library's tables, so that a
// wrong table entry in the library yields a concrete failing input and not only a broken theorem).
static CellOrientation specOpposite(CellOrientation o) {
  switch (o) {  // mirror about the x axis: N<->FS, S<->FN, E<->FW, W<->FE
    case CellOrientation::N: return CellOrientation::FS;
    case CellOrientation::FS: return CellOrientation::N;
    case CellOrientation::S: return CellOrientation::FN;
    case CellOrientation::FN: return CellOrientation::S;
    case CellOrientation::E: return CellOrientation::FW;
    case CellOrientation::FW: return CellOrientation::E;
    case CellOrientation::W: return CellOrientation::FE;
    case CellOrientation::FE: return CellOrientation::W;
    default: return CellOrientation::INVALID;
  }
}
static CellOrientation specOrientationInRow(CellRowPolarity pol, CellOrientation row) {
  switch (pol) {
    case CellRowPolarity::ANY: return CellOrientation::UNKNOWN;
    case CellRowPolarity::SAME: return row;
    case CellRowPolarity::OPPOSITE: return specOpposite(row);
    case CellRowPolarity::NW:
      return (row == CellOrientation::N || row == CellOrientation::FN || row == CellOrientation::W || row == CellOrientation::FW)
                 ? row : CellOrientation::INVALID;
    case CellRowPolarity::SE:
      return (row == CellOrientation::S || row == CellOrientation::FS || row == CellOrientation::E || row == CellOrientation::FE)
                 ? row : CellOrientation::INVALID;
  }
  return CellOrientation::INVALID;
}

struct Case {
  std::string id;
  Circuit circ{0};
  ColoquinteParameters params{3};
  int effort = 3;
  std::string stream;
  std::vector<std::string> tags;  // further counters of the measured distribution (row listing)
  std::string input() const { return vc::circuitString(circ) + paramsLine(params, effort) + "\n"; }
};

// Parses the text written by Case::input() (params line optional: default effort 3).
// Returns false when no complete circuit was found.  `pos` is advanced past the case.
static bool parseCase(const std::vector<std::string> &lines, size_t &pos, Case &cs) {
  while (pos < lines.size() && lines[pos].rfind("circuit ", 0) != 0) ++pos;
  if (pos >= lines.size()) return false;
  int n = atoi(lines[pos].c_str() + 8);
  ++pos;
  std::vector<int> w, h, x, y;
  std::vector<bool> fx, ob;
  std::vector<CellOrientation> orr;
  std::vector<CellRowPolarity> pol;
  std::vector<Row> rows;
  struct Net { double wgt; std::vector<int> c, px, py; };
  std::vector<Net> nets;
  bool ended = false;
  for (; pos < lines.size(); ++pos) {
    std::istringstream is(lines[pos]);
    std::string kw;
    is >> kw;
    if (kw == "cell") {
      long long a, b, c, d;
      int o, f, ob1, p;
      if (!(is >> a >> b >> c >> d >> o >> f >> ob1 >> p)) return false;
      w.push_back(a); h.push_back(b); x.push_back(c); y.push_back(d);
      orr.push_back((CellOrientation)o); fx.push_back(f != 0); ob.push_back(ob1 != 0); pol.push_back((CellRowPolarity)p);
    } else if (kw == "row") {
      int a, b, c, d, o;
      if (!(is >> a >> b >> c >> d >> o)) return false;
      rows.emplace_back(a, b, c, d, (CellOrientation)o);
    } else if (kw == "net") {
      long long m;
      int e, np;
      if (!(is >> m >> e >> np)) return false;
      Net nt;
      nt.wgt = std::ldexp((double)m, e);
      for (int i = 0; i < np; ++i) {
        int c, px, py;
        if (!(is >> c >> px >> py)) return false;
        nt.c.push_back(c); nt.px.push_back(px); nt.py.push_back(py);
      }
      nets.push_back(nt);
    } else if (kw == "end") {
      ended = true;
      ++pos;
      break;
    }
  }
  if (!ended || (int)w.size() != n) return false;
  for (auto p : pol) if ((int)p < 0 || (int)p > 4) return false;
  for (auto &nt : nets) for (int c : nt.c) if (c < 0 || c >= n) return false;
  Circuit circ(n);
  circ.setCellWidth(w); circ.setCellHeight(h); circ.setCellX(x); circ.setCellY(y);
  circ.setCellIsFixed(fx); circ.setCellIsObstruction(ob); circ.setCellOrientation(orr); circ.setCellRowPolarity(pol);
  circ.setRows(rows);
  for (auto &nt : nets) circ.addNet(nt.c, nt.px, nt.py, (float)nt.wgt);
  cs.circ = circ;
  cs.effort = 3;
  cs.params = ColoquinteParameters(3);
  // optional params line
  size_t q = pos;
  while (q < lines.size() && lines[q].empty()) ++q;
  if (q < lines.size() && lines[q].rfind("params ", 0) == 0) {
    std::istringstream is(lines[q]);
    std::string kw;
    int eff, v[7], cm;
    long long m[3];
    int e[3];
    is >> kw >> eff;
    for (int &t : v) is >> t;
    is >> cm;
    for (int i = 0; i < 3; ++i) is >> m[i] >> e[i];
    if (is && eff >= 1 && eff <= 9) {
      ColoquinteParameters p(eff);
      p.detailed.nbPasses = v[0]; p.detailed.localSearchNbNeighbours = v[1]; p.detailed.localSearchNbRows = v[2];
      p.detailed.shiftNbRows = v[3]; p.detailed.shiftMaxNbCells = v[4]; p.detailed.reorderingNbRows = v[5];
      p.detailed.reorderingMaxNbCells = v[6];
      p.legalization.costModel = (LegalizationModel)cm;
      p.legalization.orderingWidth = std::ldexp((double)m[0], e[0]);
      p.legalization.orderingHeight = std::ldexp((double)m[1], e[1]);
      p.legalization.orderingY = std::ldexp((double)m[2], e[2]);
      cs.params = p;
      cs.effort = eff;
    }
    pos = q + 1;
  }
  return true;
}

static std::vector<std::string> splitLines(const std::string &s) {
  std::vector<std::string> r;
  std::istringstream is(s);
  std::string l;
  while (std::getline(is, l)) r.push_back(l);
  return r;
}

// value of the string field `key` of a JSON document (as written by json.dump)
static std::string jsonStringField(const std::string &doc, const std::string &key) {
  std::string pat = "\"" + key + "\"";
  size_t p = 0;
  while ((p = doc.find(pat, p)) != std::string::npos) {
    size_t q = p + pat.size();
    while (q < doc.size() && isspace((unsigned char)doc[q])) ++q;
    if (q >= doc.size() || doc[q] != ':') { p = q; continue; }
    ++q;
    while (q < doc.size() && isspace((unsigned char)doc[q])) ++q;
    if (q >= doc.size() || doc[q] != '"') { p = q; continue; }
    ++q;
    std::string v;
    for (; q < doc.size() && doc[q] != '"'; ++q) {
      if (doc[q] != '\\') { v += doc[q]; continue; }
      ++q;
      if (q >= doc.size()) break;
      switch (doc[q]) {
        case 'n': v += '\n'; break;
        case 't': v += '\t'; break;
        case 'r': v += '\r'; break;
        case 'b': v += '\b'; break;
        case 'f': v += '\f'; break;
        case 'u': {
          unsigned code = strtoul(doc.substr(q + 1, 4).c_str(), nullptr, 16);
          v += (char)(code < 0x80 ? code : '?');
          q += 4;
          break;
        }
        default: v += doc[q];
      }
    }
    return v;
  }
  return "";
}

// The random case k of the run (deterministic in (seed, k)).
static Case makeCase(uint64_t seed, long long k) {
  vh::Rng g = vh::Rng::forCase(seed, k);
  Case cs;
  cs.id = "r" + std::to_string(k);
  vc::GenOpts o;
  int sel = k % 10;
  if (sel == 9) {
    // turned (E/W/FW/FE) unpolarised cells present: the legalizer is known to mishandle turned
    // multi-row cells (C01); only orientations are looked at here
    o.turned = true;
    cs.stream = "turned";
  } else if (sel == 8) {
    // larger, single-row cells only: many polarised cells compete for rows in detailed placement
    o.turned = false;
    o.multiRow = false;
    o.maxRows = 8;
    o.maxCells = 30;
    cs.stream = "single_row_dense";
  } else {
    o.turned = false;
    cs.stream = "main";
  }
  cs.circ = vc::genCircuit(g, o);
  {
    // the listing of the rows (drawn from a generator of its own so that the rest of the case stays what it was)
    vh::Rng gr = vh::Rng::forCase(seed, 7000000000ll + k);
    int sel2 = gr.range(0, 9);
    if (sel2 < 4) {
      bool reseg = sel2 != 3;  // 0-2: resegmented and relisted, 3: relisted only
      if (reseg) { lg::resegmentRows(gr, cs.circ, 1, 2, 3); cs.tags.push_back("rows_resegmented_independent_orientations"); }
      static const int modes[] = {2, 2, 4, 0, 1, 3};  // the listings a partial sort gets wrong are drawn most often
      int m = modes[gr.range(0, 5)];
      lg::relistRows(gr, cs.circ, m);
      cs.tags.push_back(std::string("rows_listed_") + lg::rowListingName(m));
    }
  }
  if (g.chance(1, 8)) { vc::translate(cs.circ, g.range(-(1ll << 26), 1ll << 26), g.range(-(1ll << 26), 1ll << 26)); cs.stream += "+far"; }
  bool nonDefault = g.chance(1, 2);
  // genParams draws the effort first: read it from a copy of the generator state (every field
  // legalize/placeDetailed look at is recorded in the params line anyway)
  vh::Rng peek = g;
  cs.effort = peek.range(1, 9);
  cs.params = vc::genParams(g, nonDefault);
  cs.stream += nonDefault ? "/params_nondefault" : "/params_effort";
  return cs;
}

// ---------------------------------------------------------- the oracle

struct SegRef { bool found = false; CellOrientation orient = CellOrientation::UNKNOWN; };

// free row segment under the bottom edge of cell i: a segment of a row with minY == y that
// contains [x, x + placedWidth)
static SegRef segmentUnder(const Circuit &c, int i) {
  long long x = c.cellX()[i], y = c.cellY()[i];
  long long w = c.placedWidth(i);
  for (const Row &r : c.rows()) {
    if (r.minY != y) continue;
    if (x + w <= r.minX || x >= r.maxX) continue;
    for (const vc::Seg &s : vc::freeSegments(c, r))
      if (s.lo <= x && x + w <= s.hi) return {true, s.orient};
  }
  return {};
}

struct Check {
  std::vector<std::string> fails;
  long long checkedPolarised = 0, skippedNoSegment = 0;
};

static void checkOrientations(const Circuit &c, const std::vector<CellOrientation> &before, const std::string &when, Check &ck) {
  for (int i = 0; i < c.nbCells(); ++i) {
    CellRowPolarity pol = c.cellRowPolarity()[i];
    CellOrientation cur = c.cellOrientation()[i];
    if (c.isFixed(i) || pol == CellRowPolarity::ANY) {
      if (cur != before[i]) {
        std::ostringstream os;
        os << when << ": " << (c.isFixed(i) ? "fixed" : "unpolarised (ANY)") << " cell " << i << " changed orientation from "
           << (int)before[i] << " to " << (int)cur;
        ck.fails.push_back(os.str());
      }
      continue;
    }
    SegRef s = segmentUnder(c, i);
    if (!s.found) { ck.skippedNoSegment++; continue; }  // illegal placement: C01/C02's matter
    ck.checkedPolarised++;
    CellOrientation want = specOrientationInRow(pol, s.orient);
    if (want == CellOrientation::INVALID || cur != want) {
      std::ostringstream os;
      os << when << ": cell " << i << " polarity " << toString(pol) << " at (" << c.cellX()[i] << "," << c.cellY()[i]
         << ") on a row of orientation " << toString(s.orient) << " has orientation " << toString(cur) << ", prescribed "
         << toString(want) << (want == CellOrientation::INVALID ? " (row forbidden for this polarity)" : "");
      ck.fails.push_back(os.str());
    }
  }
}

// Runs in the forked child.  Records go to the isolated() stream and, prefixed, to fd 2 so that
// what was found before a later abort of the real code is not lost.
static void childRun(Case cs, std::ostream &os) {
  auto emit = [&](const std::string &line) {
    os << line << "\n";
    std::string e = "C04|" + line + "\n";
    ssize_t r = write(2, e.data(), e.size());
    (void)r;
  };
  Circuit &c = cs.circ;
  std::vector<CellOrientation> before = c.cellOrientation();
  std::vector<int> polarised;
  for (int i = 0; i < c.nbCells(); ++i)
    if (!c.isFixed(i) && c.cellRowPolarity()[i] != CellRowPolarity::ANY) polarised.push_back(i);
  Check ck;
  size_t reported = 0;
  bool verbose = getenv("C04_VERBOSE") != nullptr;
  auto info = [&](const std::string &when) { if (verbose) emit("info " + when + ": " + vc::solutionString(c)); };
  // at most one failure is listed per stage (after legalize / in callbacks / after placeDetailed)
  int listed = 0;
  auto flushStage = [&](bool &stageListed) {
    if (reported < ck.fails.size() && !stageListed) { emit("fail " + ck.fails[reported]); stageListed = true; ++listed; }
    reported = ck.fails.size();
  };
  bool listedLeg = false, listedCb = false, listedEnd = false;
  try {
    c.legalize(cs.params);
  } catch (const std::exception &e) {
    emit("stat legalize_" + vc::exClass(e));
    if (verbose) emit(std::string("info legalize threw: ") + e.what());
    return;
  }
  emit("stat legalize_ok");
  if (!polarised.empty()) emit("nontrivial");
  checkOrientations(c, before, "after legalize", ck);
  info("after legalize");
  flushStage(listedLeg);
  if (!ck.fails.empty()) emit("stat fail_after_legalize");
  size_t failsLeg = ck.fails.size();
  // detailed placement (legalizes again, then optimises); row changes are measured against the
  // state of the first Detailed callback (the legalized placement the optimisation starts from)
  int cb = 0;
  std::vector<int> y0;
  std::vector<CellOrientation> rowOr0;
  bool rowChange = false, rowOrientChange = false, failCb = false;
  auto track = [&]() {
    if (y0.empty() && !polarised.empty()) {
      for (int i : polarised) { y0.push_back(c.cellY()[i]); rowOr0.push_back(segmentUnder(c, i).orient); }
      return;
    }
    for (size_t j = 0; j < polarised.size(); ++j) {
      int i = polarised[j];
      if (c.cellY()[i] != y0[j]) rowChange = true;
      SegRef s = segmentUnder(c, i);
      if (s.found && s.orient != rowOr0[j]) rowOrientChange = true;
    }
  };
  bool threw = false;
  try {
    c.placeDetailed(cs.params, [&](PlacementStep st) {
      if (st != PlacementStep::Detailed) return;
      ++cb;
      size_t n0 = ck.fails.size();
      checkOrientations(c, before, "Detailed callback #" + std::to_string(cb), ck);
      if (ck.fails.size() != n0) failCb = true;
      info("callback " + std::to_string(cb));
      flushStage(listedCb);
      track();
    });
  } catch (const std::exception &e) {
    emit("stat placeDetailed_" + vc::exClass(e));
    if (verbose) emit(std::string("info placeDetailed threw: ") + e.what());
    threw = true;
  }
  emit("stat detailed_callbacks " + std::to_string(cb));
  if (!threw) {
    emit("stat placeDetailed_ok");
    size_t n0 = ck.fails.size();
    checkOrientations(c, before, "after placeDetailed", ck);
    info("after placeDetailed");
    flushStage(listedEnd);
    track();
    if (ck.fails.size() != n0) emit("stat fail_after_placeDetailed");
  }
  if (failCb) emit("stat fail_in_callback");
  if (failsLeg == 0 && !ck.fails.empty()) emit("stat fail_only_in_detailed_placement");
  if (rowChange) emit("stat polarised_cell_changed_row_in_detailed");
  if (rowOrientChange) emit("stat polarised_cell_changed_row_orientation_in_detailed");
  emit("stat polarised_checks " + std::to_string(ck.checkedPolarised));
  if (ck.skippedNoSegment) emit("stat polarised_skipped_no_segment " + std::to_string(ck.skippedNoSegment));
  if ((int)ck.fails.size() > listed) emit("stat further_failures_not_listed " + std::to_string(ck.fails.size() - listed));
}

// ------------------------------------------------------------ part 3: object histories

// the fields of paramsLine after the keyword
static bool parseParamFields(std::istream &is, ColoquinteParameters &params, int &effort) {
  int eff, v[7], cm;
  long long m[3];
  int e[3];
  if (!(is >> eff)) return false;
  for (int &t : v) is >> t;
  is >> cm;
  for (int i = 0; i < 3; ++i) is >> m[i] >> e[i];
  if (!is || eff < 1 || eff > 9) return false;
  ColoquinteParameters p(eff);
  p.detailed.nbPasses = v[0]; p.detailed.localSearchNbNeighbours = v[1]; p.detailed.localSearchNbRows = v[2];
  p.detailed.shiftNbRows = v[3]; p.detailed.shiftMaxNbCells = v[4]; p.detailed.reorderingNbRows = v[5];
  p.detailed.reorderingMaxNbCells = v[6];
  p.legalization.costModel = (LegalizationModel)cm;
  p.legalization.orderingWidth = std::ldexp((double)m[0], e[0]);
  p.legalization.orderingHeight = std::ldexp((double)m[1], e[1]);
  p.legalization.orderingY = std::ldexp((double)m[2], e[2]);
  params = p;
  effort = eff;
  return true;
}

struct OpOutcome {
  std::string status;          // "ok" or the exception class
  std::vector<uint64_t> cb;    // hash of the solution at every Detailed callback
};

// Runs in the forked child: the whole history on one object.
static void childHistory(const vhist::State &init, vhist::StepSource src, std::ostream &os) {
  auto emit = [&](const std::string &line, bool salvage = true) {
    os << line << "\n";
    if (!salvage) return;
    std::string e = "C04|" + line + "\n";
    ssize_t r = write(2, e.data(), e.size());
    (void)r;
  };
  emit("hist history");
  for (auto &l : vhist::splitLines(vhist::stateText(init))) emit("hist " + l);
  Circuit obj = vhist::rebuild(init);
  vhist::Tracker tr;
  vhist::Step st;
  int j = 0;
  long long checked = 0, skipped = 0;
  while (src(obj, st)) {
    emit("hist " + st.text());
    if (st.isMut) {
      try {
        st.mut.apply(obj);
        tr.mut(st.mut.name());
        emit("stat hist_mutators_applied");
      } catch (const std::exception &e) {
        emit(std::string("stat hist_mutator_threw_") + vhist::mkName(st.mut.kind));
      }
      continue;
    }
    std::istringstream is(st.obs);
    std::string kw, kind;
    is >> kw >> kind;
    ColoquinteParameters params(3);
    int effort = 3;
    if ((kind != "legalize" && kind != "placeDetailed") || !parseParamFields(is, params, effort)) { emit("stat hist_obs_unparsed"); continue; }
    int oj = j++;
    emit("obs_begin " + std::to_string(oj));
    for (auto &k : tr.obs(st.obs)) emit("stat " + k);
    emit("stat hist_obs_" + kind);
    vhist::State s0 = vhist::snapshot(obj);
    const std::vector<CellOrientation> before = s0.orient;
    bool anyPolarised = false;
    for (int i = 0; i < obj.nbCells(); ++i)
      if (!obj.isFixed(i) && obj.cellRowPolarity()[i] != CellRowPolarity::ANY) anyPolarised = true;
    auto runOp = [&](Circuit &c, const std::function<void(int)> &onCb) {
      OpOutcome o;
      int n = 0;
      auto cb = [&](PlacementStep stp) {
        if (stp != PlacementStep::Detailed) return;
        ++n;
        o.cb.push_back(vh::hashStr(vc::solutionString(c)));
        if (onCb) onCb(n);
      };
      try {
        if (kind == "legalize") c.legalize(params, cb);
        else c.placeDetailed(params, cb);
        o.status = "ok";
      } catch (const std::exception &e) {
        o.status = vc::exClass(e);
      }
      return o;
    };
    // (b) the fresh twin first
    Circuit twin = vhist::rebuild(s0);
    OpOutcome to = runOp(twin, nullptr);
    emit("twin_done " + std::to_string(oj));
    // the history object, with the orientation oracle at every callback
    Check ck;
    OpOutcome oo = runOp(obj, [&](int n) { checkOrientations(obj, before, "Detailed callback #" + std::to_string(n) + " of " + kind, ck); });
    emit("obj_done " + std::to_string(oj));
    emit("stat hist_" + kind + "_" + oo.status);
    std::string what;
    // (a) direct oracle against the public state as it is now
    if (oo.status == "ok") {
      checkOrientations(obj, before, "after " + kind, ck);
      if (anyPolarised) emit("nontrivial");
    }
    if (!ck.fails.empty()) {
      what = ck.fails[0];
      if (ck.fails.size() > 1) what += " (+" + std::to_string(ck.fails.size() - 1) + " more)";
      emit("stat hist_fail_orientation_oracle");
    }
    checked += ck.checkedPolarised;
    skipped += ck.skippedNoSegment;
    // (b) metamorphic comparison
    std::string diff;
    if (oo.status != to.status) diff = "the call on the object ends with [" + oo.status + "] but on the fresh circuit with [" + to.status + "]";
    else if (vc::solutionString(obj) != vc::solutionString(twin))
      diff = "the object ends at [" + vc::solutionString(obj) + "] but the fresh circuit at [" + vc::solutionString(twin) + "]";
    else if (vc::circuitString(obj) != vc::circuitString(twin)) diff = "the observable states differ after the call";
    else if (oo.cb != to.cb) diff = "the solutions seen at the Detailed callbacks differ (" + std::to_string(oo.cb.size()) + " vs " + std::to_string(to.cb.size()) + " callbacks)";
    if (!diff.empty()) {
      emit("stat hist_fail_fresh_twin_differs");
      if (what.empty()) what = "object history: " + kind + " on the history object and on a freshly constructed circuit with the same observable state differ: " + diff;
    }
    if (!what.empty()) emit("fail " + what);
    emit("stat hist_detailed_callbacks " + std::to_string(oo.cb.size()));
    // (c) model correspondence: the orientation of every movable cell that sits in a free row segment
    if (oo.status == "ok") {
      emit("corrcase " + std::to_string(oj), false);
      for (int i = 0; i < obj.nbCells(); ++i) {
        if (obj.isFixed(i)) continue;
        SegRef sg = segmentUnder(obj, i);
        if (!sg.found) continue;
        emit("corr assign " + std::to_string((int)obj.cellRowPolarity()[i]) + " " + std::to_string((int)sg.orient) + " " + std::to_string((int)before[i]) +
                 "|assign " + std::to_string((int)obj.cellOrientation()[i]), false);
      }
    }
  }
  emit("stat hist_polarised_checks " + std::to_string(checked));
  if (skipped) emit("stat hist_polarised_skipped_no_segment " + std::to_string(skipped));
}

static std::string paramFields(const ColoquinteParameters &p, int effort) { return paramsLine(p, effort).substr(7); }

// The random history k of the run (deterministic in (seed, k)): initial circuit and step source.
static void makeHistory(uint64_t seed, long long k, vhist::State &init, vhist::StepSource &src) {
  vh::Rng g = vh::Rng::forCase(seed, 5000000000ll + k);
  vc::GenOpts o;
  o.turned = false;
  if (k % 5 == 4) { o.multiRow = false; o.maxRows = 8; o.maxCells = 24; }
  o.maxUtil = 0.8;
  init = vhist::snapshot(vc::genCircuit(g, o));
  vhist::MutProfile prof;
  prof.domain = true;
  prof.maxWidth = 5;
  prof.kinds = vhist::allKinds();
  for (vhist::MK extra : {vhist::MK::SetupRows, vhist::MK::SetupRows, vhist::MK::SetRows, vhist::MK::SetCellRowPolarity}) prof.kinds.push_back(extra);
  auto fields = std::make_shared<std::string>();
  auto genObs = [fields](vh::Rng &gg, const Circuit &) {
    if (fields->empty() || gg.chance(1, 5)) {
      bool nonDefault = gg.chance(1, 2);
      vh::Rng peek = gg;
      int effort = peek.range(1, 9);
      *fields = paramFields(vc::genParams(gg, nonDefault), effort);
    }
    return std::string("obs ") + (gg.chance(2, 5) ? "legalize " : "placeDetailed ") + *fields;
  };
  int rounds = g.range(3, 6);
  auto plan = std::make_shared<vhist::Plan>(g, prof, genObs, rounds);
  src = [plan](const Circuit &c, vhist::Step &st) { return plan->next(c, st); };
}

static std::string runIsolatedHistory(const vhist::State &init, vhist::StepSource src) {
  std::string output, diag;
  std::string status = vh::isolated([&](std::ostream &os) { childHistory(init, src, os); }, output, 300, &diag);
  std::string rec = "status " + status + "\n";
  if (status == "ok") return rec + output;
  for (auto &l : splitLines(diag))
    if (l.rfind("C04|", 0) == 0) rec += l.substr(4) + "\n";
  return rec;
}

// static description of the input (measured distribution)
static std::vector<std::string> staticStats(const Case &cs) {
  std::vector<std::string> st;
  const Circuit &c = cs.circ;
  st.push_back("stream_" + cs.stream);
  for (auto &t : cs.tags) st.push_back(t);
  int H = c.nbRows() ? c.rows()[0].height() : 1;
  int nPol = 0;
  for (int i = 0; i < c.nbCells(); ++i) {
    if (c.isFixed(i)) {
      if (c.cellRowPolarity()[i] != CellRowPolarity::ANY) st.push_back("cells_fixed_polarised");
      continue;
    }
    CellRowPolarity p = c.cellRowPolarity()[i];
    st.push_back("cells_movable_pol_" + toString(p));
    if (p == CellRowPolarity::ANY) {
      if (isTurn(c.cellOrientation()[i])) st.push_back("cells_movable_ANY_turned");
      continue;
    }
    ++nPol;
    int rh = H > 0 ? c.placedHeight(i) / H : 1;
    if (rh > 1) st.push_back("cells_polarised_multi_row");
    st.push_back(rh % 2 == 0 ? "cells_polarised_even_rows" : "cells_polarised_odd_rows");
  }
  st.push_back(nPol ? "cases_with_polarised_movable_cell" : "cases_without_polarised_movable_cell");
  // row orientation pattern by increasing y
  std::vector<std::pair<int, int>> ro;
  for (const Row &r : c.rows()) ro.push_back({r.minY, (int)r.orientation});
  std::sort(ro.begin(), ro.end());
  std::set<int> kinds;
  bool alternating = ro.size() >= 2, sameYMixed = false;
  for (size_t i = 0; i < ro.size(); ++i) {
    kinds.insert(ro[i].second);
    if (i > 0 && ro[i].first == ro[i - 1].first && ro[i].second != ro[i - 1].second) sameYMixed = true;
  }
  std::vector<int> perY;
  for (size_t i = 0; i < ro.size(); ++i)
    if (i == 0 || ro[i].first != ro[i - 1].first) perY.push_back(ro[i].second);
  for (size_t i = 0; i < perY.size(); ++i) {
    if (i >= 1 && perY[i] == perY[i - 1]) alternating = false;
    if (i >= 2 && perY[i] != perY[i - 2]) alternating = false;
  }
  if (sameYMixed) st.push_back("rows_same_y_segments_of_different_orientation");
  if (ro.size() == 1) st.push_back("rows_pattern_single_row");
  else if (kinds.size() == 1) st.push_back("rows_pattern_uniform");
  else if (alternating && !sameYMixed && perY.size() >= 2) st.push_back("rows_pattern_alternating");
  else st.push_back("rows_pattern_irregular");
  for (int k : kinds) st.push_back("cases_with_row_orientation_" + toString((CellOrientation)k));
  return st;
}

// One case, isolated; returns the record text: "status <s>" then the child's lines.
static std::string runIsolated(const Case &cs, std::string *diagOut = nullptr) {
  std::string output, diag;
  std::string status = vh::isolated([&](std::ostream &os) { childRun(cs, os); }, output, 120, &diag);
  std::string rec = "status " + status + "\n";
  if (status == "ok") {
    rec += output;
  } else {
    // salvage what the child had established before the real code died
    for (auto &l : splitLines(diag))
      if (l.rfind("C04|", 0) == 0) rec += l.substr(4) + "\n";
    size_t p = diag.find("Assertion `");
    if (p != std::string::npos) {
      size_t q = diag.find('\'', p);
      std::string as = diag.substr(p + 11, q == std::string::npos ? 40 : q - p - 11);
      for (char &ch : as) if (isspace((unsigned char)ch)) ch = '_';
      rec += "stat died_on_assert:" + as + "\n";
    }
  }
  if (diagOut) *diagOut = diag;
  return rec;
}

struct Merger {
  vh::Out &out;
  void apply(const Case &cs, const std::string &rec) {
    out.evaluations++;
    for (auto &s : staticStats(cs)) out.count(s);
    bool nontriv = false;
    std::string input;
    for (auto &l : splitLines(rec)) {
      if (l.rfind("status ", 0) == 0) {
        std::string s = l.substr(7);
        if (s != "ok") out.count("real_code_died_" + s + " (counted, not a C04 failure)");
      } else if (l.rfind("stat ", 0) == 0) {
        std::istringstream is(l.substr(5));
        std::string key;
        long long n = 1;
        is >> key;
        if (!(is >> n)) n = 1;
        out.count(key, n);
      } else if (l == "nontrivial") {
        nontriv = true;
      } else if (l.rfind("fail ", 0) == 0) {
        if (input.empty()) input = cs.input();
        out.fail(cs.id, l.substr(5), input);
        out.count("orientation_failures_reported");
      }
    }
    if (nontriv) {
      out.nontrivial(vh::hashStr(cs.input()));
      out.count("nontrivial_cases");
      out.sample(cs.input());
    }
  }
  // record of one object history (childHistory)
  void applyHistory(const std::string &id, const std::string &rec) {
    std::string status = "ok";
    std::vector<std::string> hist;
    std::vector<std::pair<std::string, std::vector<std::string>>> corr;  // observation -> "ops|impl" lines
    int twinDone = -1, objDone = -1, nObs = 0;
    bool nontriv = false;
    auto historySoFar = [&]() {
      std::string t;
      for (auto &h : hist) t += h + "\n";
      return t + "endhistory\n";
    };
    for (auto &l : splitLines(rec)) {
      if (l.rfind("status ", 0) == 0) status = l.substr(7);
      else if (l.rfind("hist ", 0) == 0) hist.push_back(l.substr(5));
      else if (l.rfind("stat ", 0) == 0) {
        std::istringstream is(l.substr(5));
        std::string key;
        long long n = 1;
        is >> key;
        if (!(is >> n)) n = 1;
        out.count(key, n);
      } else if (l == "nontrivial") nontriv = true;
      else if (l.rfind("obs_begin ", 0) == 0) ++nObs;
      else if (l.rfind("twin_done ", 0) == 0) twinDone = atoi(l.c_str() + 10);
      else if (l.rfind("obj_done ", 0) == 0) objDone = atoi(l.c_str() + 9);
      else if (l.rfind("corrcase ", 0) == 0) corr.push_back({l.substr(9), {}});
      else if (l.rfind("corr ", 0) == 0 && !corr.empty()) corr.back().second.push_back(l.substr(5));
      else if (l.rfind("fail ", 0) == 0) {
        out.fail(id + "_" + std::to_string(std::max(0, nObs - 1)), l.substr(5), historySoFar());
        out.count("hist_failures_reported");
      }
    }
    out.count("hist_histories");
    out.evaluations += std::max(1, nObs);
    if (status != "ok") {
      out.count("hist_real_code_died_" + status + " (counted, not a C04 failure unless the fresh twin survived the same call)");
      bool died = status == "abort" || status == "sanitizer" || status.rfind("signal:", 0) == 0;
      if (died && twinDone > objDone) {
        out.fail(id + "_" + std::to_string(twinDone),
                 "object history: the call completed on a freshly constructed circuit with the same observable state, but the history object died in it (" + status + ")",
                 historySoFar());
        out.count("hist_failures_reported");
      }
    } else {
      for (auto &cc : corr) {
        out.ops << "case " << id << "_" << cc.first << "\n";
        out.impl << "case " << id << "_" << cc.first << "\n";
        for (auto &pr : cc.second) {
          size_t bar = pr.find('|');
          out.ops << pr.substr(0, bar) << "\n";
          out.impl << pr.substr(bar + 1) << "\n";
          out.count("hist_orientations_compared_with_model");
        }
      }
    }
    if (nontriv) {
      out.nontrivial(vh::hashStr(historySoFar()));
      out.count("hist_nontrivial_histories");
      if (out.samples.size() < 6 && (hist.size() % 3 == 0)) out.sample(historySoFar());
    }
  }
};

int main(int argc, char **argv) {
  vh::Args a = vh::parseArgs(argc, argv);
  vh::Out out(a.out);
  std::cout.rdbuf(nullptr);  // the library reports progress on stdout
  out.rule = "part 1: the complete tables (10 + 50 + 10 entries, 8 flip pairs, 500 orientation assignments), exhaustive. part 2: circuits of the C01 domain "
             "(vc::genCircuit: 1-8 rows, alternating / uniform / irregular N,S,FN,FS row orientations, split rows, polarities "
             "ANY/SAME/OPPOSITE/NW/SE on cells of 1-4 rows, fixed cells, nets) with effort and non-default parameter streams; "
             "orientation oracle after legalize, at every Detailed callback and after placeDetailed; non-trivial = at least one "
             "movable cell with a polarity and Circuit::legalize returned; distinct by canonical text of circuit + parameters; "
             "four cases in ten have rows cut into segments of independent orientations and/or listed out of order (rows_* counters). "
             "part 3: object histories (public mutators and legalize / placeDetailed interleaved on one Circuit object, circuits kept in "
             "the C01 domain): every observation is one evaluation (orientation oracle against the current rows, comparison with the "
             "same call on a freshly rebuilt circuit, orientation of every placed movable cell compared with the model's "
             "assignedOrientation); a history is non-trivial when an observed call returned with a polarised movable cell present";
  tableStream(out);
  out.ops.flush();
  out.impl.flush();
  Merger mg{out};

  // --replay: only the recorded input
  if (!a.replay.empty()) {
    std::ifstream f(a.replay);
    std::stringstream ss;
    ss << f.rdbuf();
    std::string input = jsonStringField(ss.str(), "input");
    if (vhist::isHistoryText(input)) {
      vhist::History h;
      if (!vhist::parseHistory(input, h)) {
        out.notes.push_back("replay: the history in the input field of " + a.replay + " could not be parsed");
        out.count("replay_unparsed");
      } else {
        std::string rec = runIsolatedHistory(h.init, vhist::recorded(h.steps));
        if (getenv("C04_VERBOSE")) std::cerr << rec;
        mg.applyHistory("replay", rec);
        out.count("replayed_history");
      }
      out.finish();
      return 0;
    }
    std::vector<std::string> lines = splitLines(input);
    size_t pos = 0;
    Case cs;
    if (!parseCase(lines, pos, cs)) {
      out.notes.push_back("replay: no circuit text in the input field of " + a.replay);
      out.count("replay_unparsed");
    } else {
      cs.id = "replay";
      cs.stream = "replay";
      std::string rec = runIsolated(cs);
      if (getenv("C04_VERBOSE")) std::cerr << cs.input() << rec;
      mg.apply(cs, rec);
      out.count("replayed");
    }
    out.finish();
    return 0;
  }

  // corpus witnesses first
  if (!a.corpus.empty() && a.only < 0) {
    std::vector<std::string> lines = vh::readLines(a.corpus + "/witnesses.txt");
    size_t pos = 0;
    int k = 0;
    while (true) {
      Case cs;
      if (!parseCase(lines, pos, cs)) break;
      cs.id = "w" + std::to_string(k++);
      cs.stream = "corpus";
      mg.apply(cs, runIsolated(cs));
      out.count("corpus");
    }
  }

  long long n = a.thorough() ? 24000 : (a.search() ? 24000 : 2400);
  // object histories follow the single-call cases in the same index space: k = n + history index
  long long nh = a.thorough() ? 16000 : (a.search() ? 4000 : 2000);
  if (getenv("C04_HISTORIES")) nh = atoll(getenv("C04_HISTORIES"));
  auto historyRecord = [&](long long hk) {
    vhist::State init;
    vhist::StepSource src;
    makeHistory(a.seed, hk, init, src);
    return runIsolatedHistory(init, src);
  };
  if (a.only >= n) {
    std::string rec = historyRecord(a.only - n);
    mg.applyHistory("h" + std::to_string(a.only - n), rec);
    std::cerr << rec;
    out.finish();
    return 0;
  }
  if (a.only >= 0) {
    Case cs = makeCase(a.seed, a.only);
    std::string diag;
    std::string rec = runIsolated(cs, &diag);
    mg.apply(cs, rec);
    std::cerr << cs.input() << rec << "--- stderr of the child ---\n" << diag;
    out.finish();
    return 0;
  }

  // Workers: worker w runs the cases k = w (mod W), each case in its own fork, and writes the
  // records to a file; the parent merges them in case order, so the output does not depend on W.
  int W = std::max(1u, std::min(16u, std::thread::hardware_concurrency()));
  if (getenv("C04_WORKERS")) W = std::max(1, atoi(getenv("C04_WORKERS")));
  std::vector<pid_t> pids;
  auto wfile = [&](int w) { return a.out + "/c04-worker-" + std::to_string(w) + ".tmp"; };
  fflush(nullptr);
  for (int w = 0; w < W; ++w) {
    pid_t pid = fork();
    if (pid < 0) { perror("fork"); return 3; }
    if (pid == 0) {
      std::ofstream wf(wfile(w));
      for (long long k = w; k < n + nh; k += W) {
        std::string rec;
        if (k >= n) rec = historyRecord(k - n);
        else rec = runIsolated(makeCase(a.seed, k));
        wf << "#case " << k << " " << rec.size() << "\n" << rec;
        wf.flush();
      }
      wf.close();
      _exit(0);
    }
    pids.push_back(pid);
  }
  bool workerDied = false;
  for (pid_t p : pids) {
    int st = 0;
    waitpid(p, &st, 0);
    if (!WIFEXITED(st) || WEXITSTATUS(st) != 0) workerDied = true;
  }
  std::vector<std::string> recs(n + nh);
  std::vector<bool> have(n + nh, false);
  for (int w = 0; w < W; ++w) {
    std::ifstream f(wfile(w));
    std::string hdr;
    while (std::getline(f, hdr)) {
      std::istringstream is(hdr);
      std::string kw;
      long long k;
      size_t sz;
      if (!(is >> kw >> k >> sz) || kw != "#case" || k < 0 || k >= n + nh) break;
      std::string rec(sz, '\0');
      f.read(&rec[0], sz);
      recs[k] = rec;
      have[k] = true;
    }
    f.close();
    unlink(wfile(w).c_str());
  }
  for (long long k = 0; k < n; ++k) {
    Case cs = makeCase(a.seed, k);
    if (!have[k]) { out.count("harness_worker_lost_case"); continue; }
    mg.apply(cs, recs[k]);
  }
  for (long long k = n; k < n + nh; ++k) {
    if (!have[k]) { out.count("harness_worker_lost_case"); continue; }
    mg.applyHistory("h" + std::to_string(k - n), recs[k]);
  }
  if (workerDied) out.notes.push_back("a harness worker process died; some cases were not evaluated (see harness_worker_lost_case)");
  out.count("random_cases", n);
  out.finish();
  return workerDied ? 4 : 0;
}
