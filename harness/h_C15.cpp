// C15 — correspondence + direct oracle for coloquinte::Row::freespace and
// coloquinte::Circuit::computeRows (src/coloquinte.cpp, boost::polygon based).
//
// Streams (see lean/Driver/C15.lean for the op grammar):
//   fs   : one row + explicit obstacle list, answer = the returned segments in the order returned
//   rows : a circuit block + extra obstacles, answer = Circuit::computeRows(extra)
//   enum : one row, *all* lists of <= 2 obstacles with corners on a small integer grid (inverted and
//          degenerate rectangles included); the answer is (count, 64-bit rolling digest of all results),
//          the Lean driver enumerates the same lists in the same order on the model.  Every enumerated
//          case also goes through the direct oracle here, which is what names a concrete failing input.
//
//   hist : object histories (harness/common/history.hpp): ONE Circuit object goes through a random sequence of
//          public mutators (setRows, setupRows with all flag combinations, setCellX/Y/Width/Height, setCellIsFixed,
//          setCellIsObstruction, setCellOrientation, setCellRowPolarity, setSolution, addNet) interleaved with
//          observations computeRows(), computeRows(extra) and rows()[i].freespace(obstacles); several observations
//          per object, the same observation twice, observation -> one mutator -> same observation.  Every
//          observation is (a) checked by the direct oracle against the object's current public state, (b) compared
//          with the answer of a freshly constructed Circuit rebuilt from the getters through the public setters
//          (a copy would carry hidden members), and (c) sent to the Lean driver as one more `rows` / `fs` case with
//          the circuit as it is now.  A failure's input is the whole history up to the observation
//          ("history / circuit..end / mut ... / obs ... / endhistory"); --replay re-runs such an input alone.
//
// Direct oracle (independent of boost and of the model; integer interval reasoning / literal column
// scan): the returned segments are pairwise disjoint, have the row's y-range and orientation, lie inside
// the row, contain no column touched by an obstacle, cover every column of the row that no obstacle
// touches, and no two of them are adjacent (maximality).  "Obstacle o touches column x of row r" means:
// o, with min/max put in order on both axes, has positive height, its open y-range meets the row's and
// its x-range contains x.  For rows the code's reading is used as well: maxX < minX is read as
// [maxX,minX); maxY <= minY or minX == maxX gives the empty row (no segment may be returned).
// For Circuit::computeRows the expectation is constructed independently (sort + sweep over the
// placements of the cells that are fixed and obstructions, plus the extra obstacles), and the
// "ignored cells" clause is checked metamorphically: arbitrary changes to movable or non-obstruction
// cells must leave the answer unchanged.
#include <algorithm>
#include <climits>

#include "common/circuit.hpp"
#include "common/harness.hpp"
#include "common/history.hpp"

using namespace coloquinte;

static std::string rectStr(const Rectangle &r) {
  std::ostringstream os;
  os << r.minX << " " << r.maxX << " " << r.minY << " " << r.maxY;
  return os.str();
}
static std::string rowStr(const Row &r) { return rectStr(r) + " " + std::to_string((int)r.orientation); }
static std::string rowsStr(const char *tag, const std::vector<Row> &v) {
  std::ostringstream os;
  os << tag << " " << v.size();
  for (auto &r : v) os << " " << rowStr(r);
  return os.str();
}
static std::string instStr(const Row &row, const std::vector<Rectangle> &obs) {
  std::ostringstream os;
  os << "row " << rowStr(row) << " obstacles";
  for (auto &o : obs) os << " [" << rectStr(o) << "]";
  return os.str();
}

// ---------------------------------------------------------------- direct oracle

struct NRect { long long x1, x2, y1, y2; };
static NRect norm(const Rectangle &r) {
  return {std::min(r.minX, r.maxX), std::max(r.minX, r.maxX), std::min(r.minY, r.maxY), std::max(r.minY, r.maxY)};
}

// does obstacle o touch column x (the unit square column [x,x+1) x row y-range)?
static bool touchesColumn(const NRect &o, long long rowY1, long long rowY2, long long x) {
  return o.y1 < o.y2 && o.y1 < rowY2 && rowY1 < o.y2 && o.x1 <= x && x < o.x2;
}

// Evaluates the property's clauses on one answer.  Returns "" or the first violated clause.
static std::string checkClauses(const Row &row, const std::vector<Rectangle> &obs, const std::vector<Row> &res,
                                bool *anyTouch = nullptr) {
  long long lo = std::min(row.minX, row.maxX), hi = std::max(row.minX, row.maxX);
  bool emptyRow = !(row.minY < row.maxY) || lo == hi;
  if (anyTouch) *anyTouch = false;
  if (emptyRow) return res.empty() ? "" : "segments returned for an empty row";
  std::vector<NRect> no;
  for (auto &o : obs) no.push_back(norm(o));
  for (auto &s : res) {
    if (s.minY != row.minY || s.maxY != row.maxY) return "segment is not full height";
    if (s.orientation != row.orientation) return "segment does not keep the row's orientation";
    if (!(s.minX < s.maxX)) return "empty or inverted segment";
    if (s.minX < lo || s.maxX > hi) return "segment is not inside the row";
  }
  for (size_t i = 0; i < res.size(); ++i)
    for (size_t j = i + 1; j < res.size(); ++j) {
      if (res[i].minX < res[j].maxX && res[j].minX < res[i].maxX) return "segments overlap";
      if (res[i].maxX == res[j].minX || res[j].maxX == res[i].minX) return "adjacent segments are not merged (not maximal)";
    }
  // the status of a column changes only at these breakpoints; p and p-1 for every breakpoint p
  std::vector<long long> cols;
  auto add = [&](long long p) { cols.push_back(p); cols.push_back(p - 1); };
  add(lo); add(hi);
  for (auto &o : no) { add(o.x1); add(o.x2); }
  for (auto &s : res) { add(s.minX); add(s.maxX); }
  if (hi - lo <= 64) for (long long x = lo; x < hi; ++x) cols.push_back(x);  // literal scan on small rows
  for (long long x : cols) {
    if (x < lo || x >= hi) continue;
    bool touched = false;
    for (auto &o : no) touched = touched || touchesColumn(o, row.minY, row.maxY, x);
    bool inSeg = false;
    for (auto &s : res) inSeg = inSeg || (s.minX <= x && x < s.maxX);
    if (touched && anyTouch) *anyTouch = true;
    if (touched && inSeg) return "a segment contains column " + std::to_string(x) + " which an obstacle touches";
    if (!touched && !inSeg) return "obstruction-free column " + std::to_string(x) + " is in no segment";
  }
  for (auto &s : res)
    for (auto &o : obs)
      if (o.minX < o.maxX && o.minY < o.maxY && Rectangle(s).intersects(o))  // obstacles with an interior, the library's own test
        return "a segment intersects an obstacle (Rectangle::intersects)";
  return "";
}

// Independent construction of the expected answer (used for Circuit::computeRows).
static std::vector<Row> expectedFree(const Row &row, const std::vector<Rectangle> &obs) {
  std::vector<Row> out;
  long long lo = std::min(row.minX, row.maxX), hi = std::max(row.minX, row.maxX);
  if (!(row.minY < row.maxY) || lo == hi) return out;
  std::vector<std::pair<long long, int>> ev;  // +1 at start, -1 at end of each touching obstacle
  for (auto &r : obs) {
    NRect o = norm(r);
    if (!(o.y1 < o.y2 && o.y1 < row.maxY && row.minY < o.y2 && o.x1 < o.x2)) continue;
    ev.push_back({o.x1, +1});
    ev.push_back({o.x2, -1});
  }
  std::sort(ev.begin(), ev.end());
  long long depth = 0, start = lo;  // start of the current free run, valid when depth == 0
  size_t k = 0;
  while (k < ev.size()) {
    long long x = ev[k].first;
    long long before = depth;
    while (k < ev.size() && ev[k].first == x) depth += ev[k++].second;
    if (before == 0 && depth > 0) {
      long long a = std::max(start, lo), b = std::min(x, hi);
      if (a < b) out.emplace_back(Rectangle(a, b, row.minY, row.maxY), row.orientation);
    }
    if (before > 0 && depth == 0) start = x;
  }
  long long a = std::max(start, lo);
  if (a < hi) out.emplace_back(Rectangle(a, hi, row.minY, row.maxY), row.orientation);
  return out;
}

static bool sameRows(std::vector<Row> a, std::vector<Row> b) {
  auto key = [](const Row &r) { return std::make_tuple(r.minX, r.maxX, r.minY, r.maxY, (int)r.orientation); };
  auto lt = [&](const Row &x, const Row &y) { return key(x) < key(y); };
  std::sort(a.begin(), a.end(), lt);
  std::sort(b.begin(), b.end(), lt);
  if (a.size() != b.size()) return false;
  for (size_t i = 0; i < a.size(); ++i)
    if (key(a[i]) != key(b[i])) return false;
  return true;
}

// ---------------------------------------------------------------------- runner

static inline uint64_t mix(uint64_t h, long long v) {
  return h * 6364136223846793005ull + (uint64_t)(v + 1099511627776ll) + 1442695040888963407ull;
}
static uint64_t mixRows(uint64_t h, const std::vector<Row> &v) {
  h = mix(h, (long long)v.size());
  for (auto &r : v) {
    h = mix(h, r.minX); h = mix(h, r.maxX); h = mix(h, r.minY); h = mix(h, r.maxY); h = mix(h, (int)r.orientation);
  }
  return h;
}

struct Runner {
  vh::Out &out;
  long long nontrivCap;
  long long enumNontrivial = 0;
  explicit Runner(vh::Out &o, long long cap) : out(o), nontrivCap(cap) {}
  // history stream: the input reported with a failure is the whole history, not the single instance
  const std::string *inputOverride = nullptr;
  std::string inputOr(const std::string &dflt) const { return inputOverride ? *inputOverride : dflt; }

  // one evaluation of the real code + the oracle; returns the answer
  std::vector<Row> eval(const std::string &id, const Row &row, const std::vector<Rectangle> &obs, bool stats) {
    out.evaluations++;
    std::vector<Row> res = row.freespace(obs);
    bool anyTouch = false;
    std::string err = checkClauses(row, obs, res, &anyTouch);
    if (!err.empty()) out.fail(id, err + "; returned " + rowsStr("", res), inputOr(instStr(row, obs)));
    else if (!sameRows(res, expectedFree(row, obs)))
      out.fail(id, "answer differs from the independently constructed free space; returned " + rowsStr("", res), inputOr(instStr(row, obs)));
    if (anyTouch) {
      if (stats) {
        out.nontrivial(vh::hashStr(instStr(row, obs)));
      } else {
        ++enumNontrivial;
        if ((long long)out.distinctNontrivial.size() < nontrivCap) out.nontrivial(mix(0x5eed, out.evaluations));
      }
    }
    if (stats) {
      out.count(anyTouch ? "row_touched" : "row_untouched");
      out.count("segments_" + std::to_string(std::min<size_t>(res.size(), 6)) + (res.size() >= 6 ? "+" : ""));
    }
    return res;
  }

  std::vector<Row> fs(const std::string &id, const Row &row, const std::vector<Rectangle> &obs, bool stats = true) {
    vh::setCase(id, inputOr(instStr(row, obs)));
    out.ops << "case " << id << "\nfs " << rowStr(row);
    for (auto &o : obs) out.ops << " " << rectStr(o);
    out.ops << "\n";
    std::vector<Row> res = eval(id, row, obs, stats);
    out.impl << "case " << id << "\n" << rowsStr("fs", res) << "\n";
    if (stats) out.sample(instStr(row, obs) + " -> " + rowsStr("", res));
    return res;
  }

  // all lists of <= 2 grid obstacles for this row, digest only
  struct EnumResult { long long cnt = 0, nontrivial = 0; uint64_t digest = 0; };
  EnumResult enumerateOne(const std::string &id, int gx, int gy, const Row &row) {
    std::vector<Rectangle> rs;
    for (int x1 = 0; x1 < gx; ++x1)
      for (int x2 = 0; x2 < gx; ++x2)
        for (int y1 = 0; y1 < gy; ++y1)
          for (int y2 = 0; y2 < gy; ++y2) rs.emplace_back(x1, x2, y1, y2);
    int n = rs.size();
    EnumResult er;
    uint64_t h = 0;
    long long nt0 = enumNontrivial;
    vh::setCase(id, "row " + rowStr(row) + " enumeration");
    h = mixRows(h, eval(id, row, {}, false)); ++er.cnt;
    for (int i = 0; i < n; ++i) { h = mixRows(h, eval(id, row, {rs[i]}, false)); ++er.cnt; }
    for (int i = 0; i < n; ++i)
      for (int j = i; j < n; ++j) {
        std::vector<Rectangle> obs = ((i + j) % 2 == 0) ? std::vector<Rectangle>{rs[i], rs[j]} : std::vector<Rectangle>{rs[j], rs[i]};
        h = mixRows(h, eval(id, row, obs, false));
        ++er.cnt;
      }
    er.digest = h;
    er.nontrivial = enumNontrivial - nt0;
    return er;
  }

  // Enumerations are independent: run them in forked workers (the real code and the oracle run in the
  // workers, oracle failures go straight to oracle.txt), collect (count, digest) through a file each.
  void enumerateMany(const std::string &prefix, int gx, int gy, const std::vector<Row> &rows) {
    int P = std::max(1, std::min<int>(16, sysconf(_SC_NPROCESSORS_ONLN)));
    out.ops.flush(); out.impl.flush(); out.oracle.flush();
    fflush(nullptr);
    std::vector<pid_t> pids;
    for (int w = 0; w < P; ++w) {
      pid_t pid = fork();
      if (pid == 0) {
        std::ofstream f(out.dir + "/enum_" + std::to_string(w) + ".txt");
        nontrivCap = 0;
        for (size_t ri = w; ri < rows.size(); ri += P) {
          EnumResult er = enumerateOne(prefix + std::to_string(ri), gx, gy, rows[ri]);
          f << ri << " " << er.cnt << " " << er.digest << " " << er.nontrivial << "\n";
        }
        f.close();
        out.oracle.flush();
        _exit(0);
      }
      pids.push_back(pid);
    }
    bool bad = false;
    for (pid_t p : pids) {
      int st = 0;
      waitpid(p, &st, 0);
      if (!(WIFEXITED(st) && WEXITSTATUS(st) == 0)) bad = true;
    }
    std::vector<EnumResult> res(rows.size());
    std::vector<bool> have(rows.size(), false);
    for (int w = 0; w < P; ++w) {
      std::string fn = out.dir + "/enum_" + std::to_string(w) + ".txt";
      std::ifstream f(fn);
      size_t ri;
      EnumResult er;
      while (f >> ri >> er.cnt >> er.digest >> er.nontrivial)
        if (ri < rows.size()) { res[ri] = er; have[ri] = true; }
      f.close();
      unlink(fn.c_str());
    }
    out.oracle.seekp(0, std::ios::end);
    for (size_t ri = 0; ri < rows.size(); ++ri) {
      std::string id = prefix + std::to_string(ri);
      if (!have[ri]) {
        bad = true;
        continue;
      }
      out.ops << "case " << id << "\nenum " << gx << " " << gy << " " << rowStr(rows[ri]) << "\n";
      out.impl << "case " << id << "\nenum " << res[ri].cnt << " " << res[ri].digest << "\n";
      out.evaluations += res[ri].cnt;
      enumNontrivial += res[ri].nontrivial;
      for (long long t = 0; t < res[ri].nontrivial && (long long)out.distinctNontrivial.size() < nontrivCap; ++t)
        out.nontrivial(mix(mix(0x5eed, gx * 1000 + gy), (long long)ri * 1000003 + t) ^ vh::hashStr(rowStr(rows[ri])));
      out.count("enumerated_rows_" + std::to_string(gx) + "x" + std::to_string(gy));
      out.count("enumerated_cases", res[ri].cnt);
    }
    if (bad) {
      out.fail(prefix, "an enumeration worker died (assertion failure or sanitizer report inside the real code)", "grid " + std::to_string(gx) + "x" + std::to_string(gy));
      out.finish();
      exit(97);
    }
  }

  // Circuit::computeRows + the metamorphic "ignored cells" check
  std::vector<Row> circuit(const std::string &id, Circuit &c, const std::vector<Rectangle> &extra, vh::Rng &g, bool ignoredCellsCheck = true) {
    std::string input = vc::circuitString(c) + "extra";
    for (auto &o : extra) input += " [" + rectStr(o) + "]";
    uint64_t instHash = vh::hashStr(input);
    if (inputOverride) input = *inputOverride;
    vh::setCase(id, input);
    out.evaluations++;
    out.ops << "case " << id << "\n";
    vc::dumpCircuit(out.ops, c);
    out.ops << "rows";
    for (auto &o : extra) out.ops << " " << rectStr(o);
    out.ops << "\n";
    std::vector<Row> res = c.computeRows(extra);
    out.impl << "case " << id << "\n" << rowsStr("rows", res) << "\n";
    // expectation: per row, free space w.r.t. extra + placements of fixed obstruction cells
    std::vector<Rectangle> obs = extra;
    int nObs = 0, nIgnFixed = 0, nMov = 0;
    for (int i = 0; i < c.nbCells(); ++i) {
      bool f = c.cellIsFixed()[i], ob = c.cellIsObstruction()[i];
      if (f && ob) {
        // placement computed here from the raw fields (independent of Circuit::placement)
        CellOrientation o = c.cellOrientation()[i];
        bool turn = (o == CellOrientation::E || o == CellOrientation::W || o == CellOrientation::FE || o == CellOrientation::FW);
        int w = turn ? c.cellHeight()[i] : c.cellWidth()[i], h = turn ? c.cellWidth()[i] : c.cellHeight()[i];
        obs.emplace_back(c.cellX()[i], c.cellX()[i] + w, c.cellY()[i], c.cellY()[i] + h);
        ++nObs;
      } else if (f) ++nIgnFixed; else ++nMov;
    }
    std::vector<Row> exp;
    bool touched = false;
    for (const Row &r : c.rows()) {
      auto e = expectedFree(r, obs);
      if (e.size() != 1 || e[0].minX != std::min(r.minX, r.maxX) || e[0].maxX != std::max(r.minX, r.maxX)) touched = true;
      exp.insert(exp.end(), e.begin(), e.end());
    }
    if (!sameRows(res, exp)) out.fail(id, "computeRows differs from rows minus fixed obstructions; returned " + rowsStr("", res), input);
    // every returned segment must satisfy the clauses w.r.t. one of the rows (rows may coincide/overlap)
    {
      // group by source row: computeRows concatenates per row in order; re-run per row through the public API
      size_t pos = 0;
      for (const Row &r : c.rows()) {
        std::vector<Row> part = r.freespace(obs);
        std::string err = checkClauses(r, obs, part);
        if (!err.empty()) out.fail(id, "row " + rowStr(r) + ": " + err, input);
        for (size_t k = 0; k < part.size(); ++k, ++pos) {
          if (pos >= res.size() || rowStr(res[pos]) != rowStr(part[k])) {
            out.fail(id, "computeRows is not the concatenation of the rows' free space", input);
            pos = res.size();
            break;
          }
        }
      }
      if (pos < res.size()) out.fail(id, "computeRows returns more segments than the rows' free space", input);
    }
    // metamorphic: change ignored cells (movable or non-obstruction) arbitrarily
    if (ignoredCellsCheck) {
      Circuit d = c;
      std::vector<int> w = d.cellWidth(), h = d.cellHeight(), x = d.cellX(), y = d.cellY();
      std::vector<CellOrientation> orr = d.cellOrientation();
      std::vector<bool> fx = d.cellIsFixed(), ob = d.cellIsObstruction();
      int changed = 0;
      for (int i = 0; i < d.nbCells(); ++i) {
        if (fx[i] && ob[i]) continue;
        int m = g.range(0, 4);
        if (m == 0) continue;
        ++changed;
        if (m == 1) { x[i] = g.range(-30, 60); y[i] = g.range(-30, 60); }
        if (m == 2) { w[i] = g.range(0, 40); h[i] = g.range(0, 40); orr[i] = (CellOrientation)g.range(0, 7); }
        if (m == 3) {  // move it right onto a row
          if (!c.rows().empty()) { const Row &r = g.pick(c.rows()); x[i] = r.minX; y[i] = r.minY; w[i] = std::max(1, r.width()); h[i] = std::max(1, r.height()); }
        }
        if (m == 4) {  // switch to another ignored flag combination
          int k = g.range(0, 2);
          fx[i] = (k == 2); ob[i] = (k == 1);
        }
      }
      d.setCellWidth(w); d.setCellHeight(h); d.setCellX(x); d.setCellY(y); d.setCellOrientation(orr);
      d.setCellIsFixed(fx); d.setCellIsObstruction(ob);
      std::vector<Row> res2 = d.computeRows(extra);
      if (rowsStr("", res2) != rowsStr("", res)) out.fail(id, "changing movable / non-obstruction cells changed computeRows; now " + rowsStr("", res2), input);
      out.count("metamorphic_cells_changed", changed);
    }
    out.count("circuit_fixed_obstruction_cells", nObs);
    out.count("circuit_fixed_nonobstruction_cells", nIgnFixed);
    out.count("circuit_movable_cells", nMov);
    out.count(touched ? "circuit_rows_touched" : "circuit_rows_untouched");
    if (touched) out.nontrivial(instHash);
    return res;
  }

  // placements of the fixed obstruction cells, from the raw fields (as in circuit())
  static std::vector<Rectangle> obstructionRects(const Circuit &c) {
    std::vector<Rectangle> obs;
    for (int i = 0; i < c.nbCells(); ++i) {
      if (!(c.cellIsFixed()[i] && c.cellIsObstruction()[i])) continue;
      bool turn = vhist::turned(c.cellOrientation()[i]);
      int w = turn ? c.cellHeight()[i] : c.cellWidth()[i], h = turn ? c.cellWidth()[i] : c.cellHeight()[i];
      obs.emplace_back(c.cellX()[i], c.cellX()[i] + w, c.cellY()[i], c.cellY()[i] + h);
    }
    return obs;
  }

  // One object history.  Observation lines:  obs rows | obs rowsx (<x1> <x2> <y1> <y2>)+ | obs fs <rowIndex> (<x1> <x2> <y1> <y2>)*
  void history(const std::string &id, const vhist::State &init, vhist::StepSource src) {
    Circuit obj = vhist::rebuild(init);
    const std::string initText = vhist::stateText(init);
    std::vector<std::string> lines;
    vhist::Tracker tr;
    vhist::Step st;
    vh::Rng dummy(1);
    int j = 0;
    out.count("hist_histories");
    while (src(obj, st)) {
      lines.push_back(st.text());
      std::string input = vhist::historyText(initText, lines);
      vh::setCase(id, input);
      if (st.isMut) {
        try {
          st.mut.apply(obj);
          tr.mut(st.mut.name());
          out.count("hist_mutators_applied");
        } catch (const std::exception &e) {
          out.count(std::string("hist_mutator_threw_") + vhist::mkName(st.mut.kind) + " (counted, object unchanged)");
        }
        continue;
      }
      std::istringstream is(st.obs);
      std::string kw, kind;
      is >> kw >> kind;
      std::string oid = id + "_" + std::to_string(j++);
      long long idx = 0;
      if (kind == "fs" && !(is >> idx)) idx = 0;
      std::vector<Rectangle> extra;
      int r4[4];
      while (is >> r4[0] >> r4[1] >> r4[2] >> r4[3]) extra.emplace_back(r4[0], r4[1], r4[2], r4[3]);
      if (kind == "fs" && obj.nbRows() == 0) { out.count("hist_obs_fs_skipped_no_rows"); continue; }
      for (auto &k : tr.obs(st.obs)) out.count(k);
      out.count("hist_obs_" + kind);
      inputOverride = &input;
      std::string before = vc::circuitString(obj);
      vhist::State s0 = vhist::snapshot(obj);
      std::string got, fresh;
      if (kind == "fs") {
        size_t ri = (size_t)(idx < 0 ? -idx : idx) % obj.nbRows();
        std::vector<Rectangle> obs = extra, cellObs = obstructionRects(obj);
        obs.insert(obs.end(), cellObs.begin(), cellObs.end());
        got = rowsStr("", fs(oid, obj.rows()[ri], obs, false));
        Circuit twin = vhist::rebuild(s0);
        fresh = rowsStr("", twin.rows()[ri].freespace(obs));
      } else {
        got = rowsStr("", circuit(oid, obj, extra, dummy, false));
        Circuit twin = vhist::rebuild(s0);
        fresh = rowsStr("", twin.computeRows(extra));
      }
      if (got != fresh)
        out.fail(oid, "object history: the object answers" + got + " but a freshly constructed circuit with the same observable state answers" + fresh, input);
      if (vc::circuitString(obj) != before) out.fail(oid, "object history: the observation changed the observable state of the circuit", input);
      inputOverride = nullptr;
    }
  }
};

// ------------------------------------------------------------------ generators

// a coordinate pair relative to [a,b): the modes name the relative position the property cares about
static std::pair<long long, long long> relRange(vh::Rng &g, long long a, long long b, long long S) {
  long long L = std::max(1ll, b - a);
  int m = g.range(0, 11);
  long long p, q;
  switch (m) {
    case 0: p = g.range(a, b); q = g.range(a, b); break;                       // inside (maybe inverted / empty)
    case 1: p = g.range(a - L, a); q = g.range(a, b); break;                   // over the low edge
    case 2: p = g.range(a, b); q = g.range(b, b + L); break;                   // over the high edge
    case 3: p = g.range(a - L, a); q = g.range(b, b + L); break;               // enclosing
    case 4: p = a; q = g.range(a, b + 1); break;                               // flush with the low edge
    case 5: p = g.range(a - 1, b); q = b; break;                               // flush with the high edge
    case 6: q = a; p = g.range(a - L, a); break;                               // touching from outside (low)
    case 7: p = b; q = g.range(b, b + L); break;                               // touching from outside (high)
    case 8: p = g.range(a - S, b + S); q = p; break;                           // degenerate
    case 9: p = g.range(a - S, b + S); q = g.range(a - S, b + S); break;       // anywhere
    case 10: p = g.range(a, b); q = p + g.range(1, 3); break;                  // thin
    default: p = a; q = b; break;                                              // exactly the range
  }
  if (g.chance(1, 12)) std::swap(p, q);  // inverted
  return {p, q};
}

static void randomInst(vh::Rng &g, bool big, Row &row, std::vector<Rectangle> &obs) {
  long long S = big ? (1ll << 22) : 24;
  long long w = big ? g.range(1, 2 * S - 2) : g.range(1, 30);
  long long hgt = big ? g.range(1, g.chance(1, 2) ? 64 : S) : g.range(1, 8);
  long long x0 = g.range(-S, S - w), y0 = g.range(-S, S - hgt);
  row = Row(Rectangle(x0, x0 + w, y0, y0 + hgt), (CellOrientation)g.range(0, 9));
  if (g.chance(1, 40)) std::swap(row.minX, row.maxX);
  if (g.chance(1, 60)) std::swap(row.minY, row.maxY);
  if (g.chance(1, 80)) row.maxX = row.minX;
  if (g.chance(1, 80)) row.maxY = row.minY;
  int n = g.range(0, 12);
  obs.clear();
  auto clamp = [&](long long v) { return (int)std::max(-S, std::min(S, v)); };
  for (int i = 0; i < n; ++i) {
    auto xr = relRange(g, x0, x0 + w, S);
    auto yr = relRange(g, y0, y0 + hgt, S);
    if (g.chance(1, 2)) {  // most obstacles should matter: cover the height, stay narrow
      yr = {y0 - g.range(0, 3), y0 + hgt + g.range(0, 3)};
      if (g.chance(1, 2)) { long long p = g.range(x0 - 2, x0 + w); xr = {p, p + g.range(1, std::max(1ll, w / (n + 1)))}; }
    }
    obs.emplace_back(clamp(xr.first), clamp(xr.second), clamp(yr.first), clamp(yr.second));
  }
  if (n >= 2 && g.chance(1, 6)) obs[1] = obs[0];  // duplicates
}

static Circuit smallCircuit(vh::Rng &g, std::vector<Rectangle> &extra) {
  int nRows = g.range(0, 4);
  std::vector<Row> rows;
  int H = g.range(1, 6), W = g.range(1, 30), x0 = g.range(-10, 10), y0 = g.range(-10, 10);
  for (int r = 0; r < nRows; ++r) {
    int a = x0 + (g.chance(1, 3) ? g.range(-4, 4) : 0), b = x0 + W + (g.chance(1, 3) ? g.range(-4, 4) : 0);
    int yy = y0 + r * H;
    if (g.chance(1, 10)) yy = y0 + g.range(0, nRows) * H + g.range(-1, 1);  // overlapping / duplicate rows
    rows.emplace_back(a, b, yy, yy + (g.chance(1, 8) ? g.range(0, 2 * H) : H), (CellOrientation)g.range(0, 9));
    if (g.chance(1, 30)) std::swap(rows.back().minX, rows.back().maxX);
  }
  int n = g.range(0, 10);
  Circuit c(n);
  std::vector<int> w(n), h(n), x(n), y(n);
  std::vector<bool> fx(n), ob(n);
  std::vector<CellOrientation> orr(n);
  for (int i = 0; i < n; ++i) {
    int combo = g.range(0, 3);
    fx[i] = combo & 1; ob[i] = combo & 2;
    orr[i] = (CellOrientation)g.range(0, 7);
    w[i] = g.range(0, 8); h[i] = g.range(0, 2 * H + 1);
    if (g.chance(1, 4)) { w[i] = g.range(0, W + 8); }
    x[i] = g.range(x0 - 6, x0 + W + 3);
    y[i] = g.range(y0 - H - 1, y0 + nRows * H + 1);
    if (g.chance(1, 3)) { y[i] = y0 + g.range(0, std::max(0, nRows - 1)) * H; if (g.chance(1, 2)) h[i] = H; }
  }
  c.setCellWidth(w); c.setCellHeight(h); c.setCellX(x); c.setCellY(y);
  c.setCellIsFixed(fx); c.setCellIsObstruction(ob); c.setCellOrientation(orr);
  c.setRows(rows);
  extra.clear();
  int ne = g.chance(1, 2) ? 0 : g.range(1, 3);
  for (int i = 0; i < ne; ++i) {
    auto xr = relRange(g, x0, x0 + W, 12);
    auto yr = relRange(g, y0, y0 + std::max(1, nRows) * H, 12);
    extra.emplace_back(xr.first, xr.second, yr.first, yr.second);
  }
  return c;
}

int main(int argc, char **argv) {
  vh::Args a = vh::parseArgs(argc, argv);
  vh::Out out(a.out);
  vh::installCrashHandler(&out);
  out.rule = "instance = (row, obstacle list) for Row::freespace or (circuit, extra obstacles) for Circuit::computeRows; "
             "non-trivial = at least one obstacle touches a column of the row (resp. some row of the circuit loses space); "
             "explicit and random instances are distinct by canonical text, enumerated instances are distinct by construction; "
             "object-history stream: every observation of a history (mutators and observations interleaved on one Circuit object) "
             "is one more instance, compared in addition with a freshly rebuilt circuit of the same observable state";
  Runner r(out, 3000000);
  long long k = 0;
  // --replay of a recorded object history: only that history
  if (!a.replay.empty()) {
    std::string input = vhist::replayInput(a.replay);
    if (vhist::isHistoryText(input)) {
      vhist::History h;
      if (vhist::parseHistory(input, h)) {
        r.history("replay", h.init, vhist::recorded(h.steps));
        out.count("replayed_history");
      } else {
        out.notes.push_back("replay: the history in the input field of " + a.replay + " could not be parsed");
        out.count("replay_unparsed");
      }
      out.finish();
      return 0;
    }
  }
  // corpus: lines "minX maxX minY maxY orient (ox1 ox2 oy1 oy2)*"
  if (!a.corpus.empty()) {
    for (auto &ln : vh::readLines(a.corpus + "/instances.txt")) {
      std::istringstream is(ln);
      int v[5];
      if (!(is >> v[0] >> v[1] >> v[2] >> v[3] >> v[4])) continue;
      Row row(Rectangle(v[0], v[1], v[2], v[3]), (CellOrientation)v[4]);
      std::vector<Rectangle> obs;
      int o[4];
      while (is >> o[0] >> o[1] >> o[2] >> o[3]) obs.emplace_back(o[0], o[1], o[2], o[3]);
      r.fs("k" + std::to_string(k++), row, obs);
      out.count("corpus");
    }
  }
  const int GX = 6, GY = 4;
  std::vector<Rectangle> grid;
  for (int x1 = 0; x1 < GX; ++x1)
    for (int x2 = 0; x2 < GX; ++x2)
      for (int y1 = 0; y1 < GY; ++y1)
        for (int y2 = 0; y2 < GY; ++y2) grid.emplace_back(x1, x2, y1, y2);
  // 1. explicit: every grid row (inverted and degenerate ones included) with 0 or 1 grid obstacle
  k = 0;
  if (!a.search()) {
    for (size_t ri = 0; ri < grid.size(); ++ri) {
      Row row(grid[ri], (CellOrientation)(ri % 10));
      r.fs("s" + std::to_string(k++), row, {}, false);
      for (auto &o : grid) r.fs("s" + std::to_string(k++), row, {o}, false);
    }
    out.count("explicit_grid_le1_obstacle", k);
    out.notes.push_back("enumerated completely with explicit answers: all " + std::to_string(grid.size()) +
                        " rows with corners on the 6x4 grid (inverted/degenerate included) x (no obstacle or one of the " +
                        std::to_string(grid.size()) + " grid rectangles): " + std::to_string(k) + " instances");
  }
  // 2. digests: rows x all lists of <= 2 grid obstacles
  {
    long long before = out.evaluations;
    size_t nEnum = 0;
    std::string which;
    if (a.thorough()) {
      std::vector<Row> rows;
      for (size_t ri = 0; ri < grid.size(); ++ri) rows.emplace_back(grid[ri], (CellOrientation)(ri % 10));
      r.enumerateMany("e", GX, GY, rows);
      nEnum = rows.size();
      which = "all " + std::to_string(rows.size()) + " rows of the 6x4 grid";
      out.exhaustive = true;
    } else {
      // quick: every row of the 4x3 grid against all <= 2 obstacles of that grid, plus a seed-dependent
      // sample of 6x4 rows against all <= 2 obstacles of the 6x4 grid
      std::vector<Row> rows43, rows64;
      for (int x1 = 0; x1 < 4; ++x1) for (int x2 = 0; x2 < 4; ++x2) for (int y1 = 0; y1 < 3; ++y1) for (int y2 = 0; y2 < 3; ++y2)
        rows43.emplace_back(Rectangle(x1, x2, y1, y2), (CellOrientation)(rows43.size() % 10));
      r.enumerateMany("f", 4, 3, rows43);
      vh::Rng g = vh::Rng::forCase(a.seed, 777777);
      int nSample = a.search() ? 64 : 48;
      std::vector<Rectangle> wide = {Rectangle(0, 5, 0, 3), Rectangle(0, 5, 1, 2), Rectangle(1, 4, 1, 2), Rectangle(1, 4, 0, 3),
                                     Rectangle(5, 0, 0, 3), Rectangle(0, 5, 0, 1), Rectangle(0, 5, 2, 3), Rectangle(2, 3, 1, 2)};
      for (int s = 0; s < nSample; ++s) {
        Rectangle rr = s < (int)wide.size() ? wide[s] : grid[g.range(0, grid.size() - 1)];
        rows64.emplace_back(rr, (CellOrientation)g.range(0, 9));
      }
      r.enumerateMany("e", GX, GY, rows64);
      nEnum = rows43.size() + rows64.size();
      which = "all " + std::to_string(rows43.size()) + " rows of the 4x3 grid (obstacles on the 4x3 grid) and " + std::to_string(nSample) +
              " rows of the 6x4 grid, 8 chosen and the rest drawn from the seed (obstacles on the 6x4 grid)";
    }
    out.notes.push_back("enumerated completely, compared by digest and checked case by case by the oracle: " + which +
                        " x every list of <= 2 grid rectangles (inverted/degenerate included): " +
                        std::to_string(out.evaluations - before) + " instances in " + std::to_string(nEnum) + " digests; " +
                        std::to_string(r.enumNontrivial) + " of them non-trivial");
  }
  // 3. random: <= 12 obstacles, small and 2^22 magnitudes
  long long nr = a.thorough() ? 600000 : (a.search() ? 200000 : 60000);
  for (long long i = 0; i < nr; ++i) {
    vh::Rng g = vh::Rng::forCase(a.seed, i);
    bool big = (i % 3 == 2);
    Row row(Rectangle(), CellOrientation::N);
    std::vector<Rectangle> obs;
    randomInst(g, big, row, obs);
    r.fs(std::string(big ? "m" : "r") + std::to_string(i), row, obs);
    out.count(big ? "random_2^22" : "random_small");
    out.count("obstacles_" + std::to_string(obs.size() / 4 * 4) + "-" + std::to_string(obs.size() / 4 * 4 + 3));
  }
  // 4. circuits: computeRows with all fixed/obstruction flag combinations and extra obstacles
  long long nc = a.thorough() ? 200000 : (a.search() ? 60000 : 20000);
  for (long long i = 0; i < nc; ++i) {
    vh::Rng g = vh::Rng::forCase(a.seed, 1000000000ll + i);
    std::vector<Rectangle> extra;
    if (i % 4 == 3) {
      vc::GenOpts o;
      o.nets = false;
      Circuit c = vc::genCircuit(g, o);
      if (g.chance(1, 2)) { auto pa = c.computePlacementArea(); int x = g.range(pa.minX - 2, pa.maxX); extra.emplace_back(x, x + g.range(1, 4), pa.minY - 1, pa.maxY + 1); }
      r.circuit("g" + std::to_string(i), c, extra, g);
      out.count("circuit_common_generator");
    } else {
      Circuit c = smallCircuit(g, extra);
      r.circuit("c" + std::to_string(i), c, extra, g);
      out.count("circuit_small");
    }
  }
  // 5. object histories: mutators and observations interleaved on one Circuit object
  long long nh = a.thorough() ? 40000 : (a.search() ? 12000 : 4000);
  for (long long i = 0; i < nh; ++i) {
    vh::Rng g = vh::Rng::forCase(a.seed, 3000000000ll + i);
    std::vector<Rectangle> unused;
    vhist::State init;
    if (i % 4 == 3) {
      vc::GenOpts o;
      o.nets = (i % 8 == 7);
      init = vhist::snapshot(vc::genCircuit(g, o));
      out.count("hist_init_common_generator");
    } else {
      init = vhist::snapshot(smallCircuit(g, unused));
      out.count("hist_init_small");
    }
    vhist::MutProfile prof;
    auto genObs = [](vh::Rng &gg, const Circuit &c) {
      vhist::Box b = vhist::boxOf(c);
      int m = gg.range(0, 19);
      std::ostringstream os;
      os << "obs " << (m < 8 ? "rows" : (m < 15 ? "rowsx" : "fs"));
      if (m >= 15) os << " " << gg.range(0, 7);
      int ne = m < 8 ? 0 : (m < 15 ? gg.range(1, 3) : gg.range(0, 2));
      for (int e = 0; e < ne; ++e) {
        auto xr = relRange(gg, b.minX, std::max(b.minX + 1, b.maxX), 12);
        auto yr = relRange(gg, b.minY, std::max(b.minY + 1, b.maxY), 12);
        os << " " << xr.first << " " << xr.second << " " << yr.first << " " << yr.second;
      }
      return os.str();
    };
    int rounds = g.range(3, 8);
    auto plan = std::make_shared<vhist::Plan>(g, prof, genObs, rounds);
    r.history("h" + std::to_string(i), init, [plan](const Circuit &c, vhist::Step &st) { return plan->next(c, st); });
  }
  out.finish();
  return 0;
}
