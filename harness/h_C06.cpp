// C06 — global placement stays inside the placement area and exports the blend.
//
// (a) correspondence stream (ops.txt / impl.txt): HierarchicalDensityPlacement::spreadCoordX/Y
//     (and through them the file-local spreadCells) on generated grids, bin assignments,
//     demands and targets.  Floats are never printed as decimals: every float is written as the
//     exact dyadic "mantissa exp2".
//       exact cases  (total demand a power of two, small integers: float arithmetic is exact)
//                    impl prints every coordinate as a reduced rational, the driver prints
//                    the model's rational; they must be equal.
//       approx cases the float results are part of the op line; the driver computes the rational
//                    model, the difference exactly, and prints `close`/`far` against
//                    2^-18 (|lo|+|hi|+1) (derivation below), plus the containment verdict it
//                    evaluates on the float value itself; impl prints what is expected.
//     Tolerance.  u = 2^-24.  Demands are integers with sum < 2^24 (exact sum); inv = fl(1/S)
//     has relative error u; each half share fl(fl(0.5 d) inv) relative error <= 2u; after the
//     2n additions dem carries <= (2n+2) u (1+o(1)); coords = fl(fl(dem hi) + fl(fl(1-dem) lo))
//     adds (|lo|+|hi|) 3u.  Total <= (2n+5) u (|lo|+|hi|) <= 2^-18 (|lo|+|hi|) for n <= 29
//     cells per bin; the generator keeps n <= 24.
// (a') grid stream: DensityGrid::fromIspdCircuit on vc::genCircuit circuits (any row widths, so the
//     fallbacks for "the margin removes every row" are hit) with size/margin factors k/8 (exact float
//     products); impl prints placement area and bin limits, the driver recomputes them from the circuit
//     (shared Freespace model -> clipRows -> gridRegions -> computeSubdivisions).  Direct oracle: every
//     bin limit inside the rows' bounding box.
// (b) direct oracle on Circuit::placeGlobal(params, callback), one forked child per case (cases are
//     spread over up to 16 worker processes; each case is seeded by (seed, k) alone).  Parameters: every
//     knob over the range the parameter check accepts, except the numeric box of the statement (see
//     genC06Params): in particular penalty.updateFactor over (1,2) together with the default 400 steps,
//     both stop tolerances down to 0, both distance update factors over [0.8,1.2].  Circuits: no net,
//     degree-1 nets only, all pins of a net on one cell, fixed pins only, and generic nets (addNets).
//     Failures are classified against two known findings (driftAfter / hasFloatingComponent); whatever
//     the classifiers do not cover is a violation.  e2e_digest.txt (one line per case: status, loop
//     steps, zero-wirelength flag, hash of every exposed and returned coordinate) lets two library
//     builds be compared bit for bit.
//     One generated case in three runs on an object with a PAST (family: state kept inside the Circuit between calls
//     that a setter forgets to refresh, e.g. a memoised computeRows() not invalidated by setupRows): the child builds
//     the object in a perturbed state, calls the cheap const observers, brings it to the case's public state through
//     only the setters needed (common/past.hpp; half of these circuits have the rows setupRows produces, so that
//     setupRows is the restoring setter) and then makes the measured call.  The statement quantifies over circuits,
//     not over how the object got there: the oracle below is unchanged.  The recipe is part of the failure input.
//     * at every UpperBound callback each movable cell's exposed centre x + placedWidth/2 lies in
//       the rows' bounding box enlarged by 1/2 (the exposed x is round(ub - w/2), so the exposed
//       centre differs from the float centre by at most 1/2: one rounding, derived not tuned);
//       checked in integers: 2 minX - 1 <= 2 x + w <= 2 maxX + 1;
//       (movable cells of zero area included: a share of the circuits has some);
//     * every exposed / returned coordinate is not the float->int overflow sentinel and is below
//       2^30 in magnitude;
//     * no exception, no abort, no sanitizer report;
//     * returned lower-left vs the last exposed LB and UB: exact equality with LB (UB) when the
//       float blending is 0 (1) — the same float goes through the same rounding —, otherwise
//       |ret - ((1-b) LB + b UB)| <= (|1-b| + |b| + 1)/2 + 4u(|1-b|(|LB|+w/2+1) + |b|(|UB|+w/2+1)):
//       three roundings to integer plus the four float roundings of blendPlacement.
// (c) control loop of GlobalPlacer::run (Lean model ColoVerif/Model/GlobalLoop.lean), per end-to-end case whose
//     child process completed:
//       gparams  the ints and doubles the loop reads, as exact dyadics
//       gshape   hook-free: the callback kinds in order (L/U/P), whether placeGlobal returned or threw the
//                non-finite error, and the number of loop iterations read from the progress log; the driver reads
//                the decisions off the sequence, runs the model on them and must reproduce sequence, outcome, count
//       gdrift   the KF-C06-1 classifier (driftOutOfBox below, exact integer arithmetic on the parameters) at
//                k = 0, the updates of this run, the step limit, and around the first k it turns true; the driver
//                answers with the model's `driftOutOfBox`
//       ginit/gstep/gexit/gend  with hook H5 (fixes/hook-h5-global-loop-log.diff; detected at compile time): the
//                per-iteration floats lb, ub, dist, gap, penalty_, penaltyCutoffDistance_, approximationDistance_,
//                nextPenaltyUpdateDistance and the stop reason.  The driver replays ub/lb/dist through the model
//                with IEEE roundings; impl.txt states what the code did (callback order, exit reason, iterations,
//                updates, step_ at exit) and expects every logged float to be reproduced bit for bit
//                (init-equal vars-equal pud-equal gap-equal) and the closed forms over Rat to be within
//                X_k((1+eps)^(k+1)-1), eps = 2^-24+2^-53+2^-77 (bound-ok; bound-skipped when some logged value is
//                not a normal float: the relative error bound of a rounding does not hold there).
//     rounding stream (cases r*): the driver's IEEE rounding model itself against the FPU on `float *= double`
//     (subnormal and overflowing results included), `double /= double` and the float gap expression; exact equality.
#include <algorithm>
#include <climits>
#include <cmath>
#include <fcntl.h>
#include <functional>
#include <iomanip>
#include <memory>
#include <sys/mman.h>
#include <sys/stat.h>
#include <sys/wait.h>
#include <thread>
#include <unistd.h>

#include <boost/multiprecision/cpp_int.hpp>

#include "common/circuit.hpp"
#include "common/harness.hpp"
#include "common/past.hpp"
#include "place_global/density_grid.hpp"
#include "place_global/place_global.hpp"  // defines COLOQUINTE_VERIF_HAS_H5 when hook H5 is in the tree

using namespace coloquinte;

// ------------------------------------------------------------------ exact numbers

struct Frac {  // exact rational with 128-bit parts, for printing floats as reduced fractions
  __int128 n, d;
};
static __int128 gcd128(__int128 a, __int128 b) {
  if (a < 0) a = -a;
  if (b < 0) b = -b;
  while (b != 0) { __int128 t = a % b; a = b; b = t; }
  return a;
}
static std::string str128(__int128 v) {
  if (v == 0) return "0";
  bool neg = v < 0;
  if (neg) v = -v;
  std::string s;
  while (v > 0) { s += char('0' + (int)(v % 10)); v /= 10; }
  if (neg) s += '-';
  std::reverse(s.begin(), s.end());
  return s;
}
// reduced "num/den" (den > 0) of a finite float; "nan" otherwise
static std::string ratOfFloat(float f) {
  if (!std::isfinite(f)) return "nan";
  if (f == 0.0f) return "0/1";
  int e;
  double m = std::frexp((double)f, &e);
  long long mant = (long long)std::ldexp(m, 30);  // float has 24 significant bits
  e -= 30;
  while (mant % 2 == 0) { mant /= 2; ++e; }
  __int128 n = mant, d = 1;
  if (e >= 0) { for (int i = 0; i < e; ++i) n *= 2; }
  else { for (int i = 0; i < -e; ++i) d *= 2; }
  __int128 g = gcd128(n, d);
  return str128(n / g) + "/" + str128(d / g);
}
// "mantissa exp2" of a finite float ("nan 0" otherwise: the driver answers `far`)
static std::string dyadic(float f) {
  if (!std::isfinite(f)) return "nan 0";
  return vc::exactDouble((double)f);
}

// ------------------------------------------------------------------ part (a)

struct BinSpec { int x, y; std::vector<int> cells; };

static void spreadCase(vh::Out &out, const std::string &id, vh::Rng &g, bool exact) {
  // a grid over one rectangle; bins by size
  int x0 = g.range(-60, 60), y0 = g.range(-60, 60);
  int W = g.range(1, exact ? 64 : 400), H = g.range(1, exact ? 64 : 400);
  if (!exact && g.chance(1, 8)) { x0 = g.range(-100000, 100000); W = g.range(1, 50000); }
  int binSize = g.chance(1, 3) ? std::max(W, H) + 1 : (int)g.range(1, std::max(1, std::max(W, H)));
  if (exact) binSize = std::max(binSize, std::max(W, H) / 4 + 1);
  else binSize = std::max(binSize, std::max(W, H) / 6 + 1);
  DensityGrid grid(binSize, Rectangle(x0, x0 + W, y0, y0 + H));
  int n = g.range(1, 24);
  std::vector<int> demand(n);
  for (int i = 0; i < n; ++i) demand[i] = g.chance(1, 6) ? 0 : (int)g.range(1, exact ? 12 : (g.chance(1, 5) ? 60000 : 40));
  HierarchicalDensityPlacement hp(grid, demand);
  // choose a view
  int mode = g.range(0, 3);
  if (mode == 1) hp.refineFully();
  else if (mode >= 2) {
    int rx = g.range(0, hp.levelX()), ry = g.range(0, hp.levelY());
    for (int i = 0; i < rx; ++i) hp.refineX();
    for (int i = 0; i < ry; ++i) hp.refineY();
  }
  int bx = hp.nbBinsX(), by = hp.nbBinsY();
  // distribute all cells (also zero-demand ones, sometimes) over the bins; a cell appears once
  std::vector<std::vector<std::vector<int>>> cellsOf(bx, std::vector<std::vector<int>>(by));
  int clusters = g.range(1, 3);
  std::vector<std::pair<int, int>> cl;
  for (int i = 0; i < clusters; ++i) cl.push_back({(int)g.range(0, bx - 1), (int)g.range(0, by - 1)});
  std::vector<int> perm(n);
  for (int i = 0; i < n; ++i) perm[i] = i;
  for (int i = n; i > 1; --i) std::swap(perm[i - 1], perm[g.range(0, i - 1)]);
  for (int c : perm) {
    if (demand[c] == 0 && g.chance(1, 2)) continue;  // as in the code: zero-demand cells are in no bin
    auto b = g.chance(3, 4) ? g.pick(cl) : std::make_pair((int)g.range(0, bx - 1), (int)g.range(0, by - 1));
    cellsOf[b.first][b.second].push_back(c);
  }
  if (exact) {
    // make the total demand of every bin a power of two by raising one positive demand
    for (int i = 0; i < bx; ++i)
      for (int j = 0; j < by; ++j) {
        long long s = 0;
        int last = -1;
        for (int c : cellsOf[i][j]) { s += demand[c]; if (demand[c] > 0) last = c; }
        if (last < 0) continue;
        long long p = 1;
        while (p < s) p *= 2;
        demand[last] += (int)(p - s);
      }
    hp.updateCellDemand(demand);
  }
  for (int i = 0; i < bx; ++i)
    for (int j = 0; j < by; ++j) hp.setBinCells(i, j, cellsOf[i][j]);
  // targets: small dyadics with ties, or arbitrary floats
  std::vector<float> target(n);
  int tm = g.range(0, 3);
  for (int i = 0; i < n; ++i) {
    if (tm == 0) target[i] = (float)g.range(-4, 4);
    else if (tm == 1) target[i] = g.range(-4000, 4000) / 8.0f;
    else if (tm == 2) target[i] = (float)(x0 + W * (g.range(0, 1 << 20) / (double)(1 << 20)));
    else target[i] = (float)((double)(long long)g.range(-(1ll << 40), 1ll << 40) / (double)(1 << 20)) * 1.0e-3f;
  }
  for (int axis = 0; axis < 2; ++axis) {
    std::vector<float> res = axis == 0 ? hp.spreadCoordX(target) : hp.spreadCoordY(target);
    std::ostringstream vw;  // the view: limits on both axes and binCells[i][j]
    vw << n << " " << bx << " " << by;
    std::ostringstream dt;
    for (int i = 0; i < n; ++i) dt << " " << demand[i] << " " << dyadic(target[i]);
    std::ostringstream lim;
    for (int i = 0; i <= bx; ++i) lim << " " << hp.binLimitX(i);
    for (int j = 0; j <= by; ++j) lim << " " << hp.binLimitY(j);
    for (int i = 0; i < bx; ++i)
      for (int j = 0; j < by; ++j) {
        lim << " " << cellsOf[i][j].size();
        for (int c : cellsOf[i][j]) lim << " " << c;
      }
    std::ostringstream op;
    op << (exact ? "spreadq " : "spreada ") << axis << " " << vw.str() << dt.str() << lim.str();
    int nb = 0;
    for (int i = 0; i < bx; ++i)
      for (int j = 0; j < by; ++j) {
        int lo = axis == 0 ? hp.binLimitX(i) : hp.binLimitY(j);
        int hi = axis == 0 ? hp.binLimitX(i + 1) : hp.binLimitY(j + 1);
        ++nb;
        // containment on the float result itself (direct oracle): positive-demand cells of a bin
        // with lo < hi lie in [lo, hi]
        for (int c : cellsOf[i][j]) {
          if (demand[c] <= 0) continue;
          float v = res[c];
          if (!(std::isfinite(v) && v >= (float)lo && v <= (float)hi)) {
            std::ostringstream w;
            w << "spreadCoord" << (axis ? "Y" : "X") << ": cell " << c << " of bin [" << lo << "," << hi << "] got "
              << dyadic(v) << " (mantissa exp2), outside the bin";
            out.fail(id, w.str(), op.str());
          }
          if (v > (float)lo && v < (float)hi) out.count("spread_strictly_inside"); else out.count("spread_on_edge");
        }
        if (cellsOf[i][j].size() >= 2) out.nontrivial(vh::hashStr(op.str()));  // one per case (a case with a bin holding >= 2 cells)
      }
    {  // every cell, in a bin or not, lies in the extent of placementArea() on the axis
      Rectangle pa = hp.placementArea();
      float amin = axis == 0 ? pa.minX : pa.minY, amax = axis == 0 ? pa.maxX : pa.maxY;
      std::vector<char> inBin(n, 0);
      for (int i = 0; i < bx; ++i)
        for (int j = 0; j < by; ++j)
          for (int c : cellsOf[i][j]) inBin[c] = 1;
      for (int c = 0; c < n; ++c) {
        if (inBin[c]) continue;
        out.count("spread_cells_in_no_bin");
        if (!(res[c] >= amin && res[c] <= amax))
          out.fail(id, std::string("spreadCoord") + (axis ? "Y" : "X") + ": cell " + std::to_string(c) + " (in no bin) got " + dyadic(res[c]) +
                           " (mantissa exp2), outside the placement area", op.str());
      }
    }
    if (exact) {
      out.ops << op.str() << "\n";
      std::ostringstream im;
      im << "coords";
      for (int i = 0; i < n; ++i) im << " " << ratOfFloat(res[i]);
      out.impl << im.str() << "\n";
    } else {
      op << " res";
      for (int i = 0; i < n; ++i) op << " " << dyadic(res[i]);
      out.ops << op.str() << "\n";
      out.impl << "close " << n << " inside ok\n";
    }
    if (exact) {  // simpleCoordX/Y: 0.5 * (int + int) is exact in single precision here
      std::vector<float> sres = axis == 0 ? hp.simpleCoordX() : hp.simpleCoordY();
      out.ops << "simple " << axis << " " << vw.str() << lim.str() << "\n";
      std::ostringstream im;
      im << "coords";
      for (int i = 0; i < n; ++i) im << " " << ratOfFloat(sres[i]);
      out.impl << im.str() << "\n";
    }
  }
  out.count(exact ? "spread_exact_cases" : "spread_approx_cases");
  out.count("spread_view_bins_" + std::string(bx * by == 1 ? "1" : (bx * by <= 4 ? "2-4" : "5+")));
}


// ------------------------------------------------------------------ part (a''): binary32-exact spreading
//
// spreadCoordX/Y on adversarial demand/limit mixes, every returned float compared EXACTLY with the Lean
// model ColoVerif/Model/SpreadF.lean (op `spreadf`, answer `coordsf` = canonical dyadic of every float).
// Families: witness (the inputs of corpus/C06/kf3-spread-drift.txt, replayed first as cases f0, f1, ...),
// small (small demands), mixed (a few huge demands up to INT_MAX among tiny ones; int -> float conversion
// inexact above 2^24), drift (one cell holding almost the whole demand of a bin whose total is just below a
// power of two, followed in target order by demand-1 and demand-2 cells: the running share `dem` is rounded up
// at every addition and ends well above 1 — before fixes/c06-spread-clamp.diff the last cells then landed
// outside the bin, up to 24.9 units), many (every 500th case: 32 769..34 768 or 65 537..70 036 cells in ONE bin that does
// not contain the origin — more than a 15-/16-bit rank can count; direct oracle only, no model line: the list-based
// Lean model needs minutes at that size).  Limits up to 2^22 in magnitude.
// Direct oracle (theorem spreadF_inside_closed_bin / ubF_every_cell_inside): every positive-demand cell of a bin
// gets a finite float in the CLOSED bin [lo, hi]; every cell in no bin gets a float in the placement area.
// Counted: spreadf_coord_{strictly_inside,on_edge_of}_bin.
struct SpreadWitness { int lo, hi; std::vector<int> demand; };
static std::vector<SpreadWitness> spreadWitnesses;
// lines "bin <lo> <hi> ; demands <d | dxk>... ; free text"
static void loadSpreadWitnesses(const std::string &path) {
  for (auto &l : vh::readLines(path)) {
    std::istringstream is(l);
    std::string kw;
    is >> kw;
    if (kw != "bin") continue;
    SpreadWitness w;
    std::string t;
    is >> w.lo >> w.hi >> t >> t;  // ";" "demands"
    while (is >> t && t != ";") {
      size_t x = t.find('x');
      int d = atoi(t.substr(0, x).c_str()), k = x == std::string::npos ? 1 : atoi(t.c_str() + x + 1);
      for (int i = 0; i < k; ++i) w.demand.push_back(d);
    }
    if (w.lo < w.hi && !w.demand.empty()) spreadWitnesses.push_back(w);
  }
}
static void spreadFCase(vh::Out &out, const std::string &id, long long idx, vh::Rng &g) {
  int x0 = 0, y0 = 0, W = 1, H = 1, binSize = 1, n = 1;
  std::vector<int> demand;
  std::vector<float> target;
  std::string family;
  bool oneBin = false;
  auto indexTargets = [&]() { target.resize(n); for (int i = 0; i < n; ++i) target[i] = (float)i; };
  if (idx < (long long)spreadWitnesses.size()) {
    family = "witness";
    oneBin = true;
    const SpreadWitness &w = spreadWitnesses[idx];
    demand = w.demand;
    x0 = w.lo; W = w.hi - w.lo;
    n = (int)demand.size();
    y0 = x0; H = W;  // same interval on both axes
    binSize = W + 1;
    indexTargets();
  } else if (idx % 500 == 499) {
    // more cells in ONE bin than a 15- or 16-bit index can count (a narrowed rank / index type inside spreadCells
    // leaves the cells beyond the wrap unvisited); the bin does not contain the origin
    family = "many";
    oneBin = true;
    n = g.chance(1, 3) ? 32768 + (int)g.range(1, 2000) : 65536 + (int)g.range(1, 4500);
    x0 = (int)g.range(100, 5000); W = (int)g.range(1000, 1 << 16);
    y0 = (int)g.range(-90000, -70000); H = (int)g.range(1000, 1 << 16);
    binSize = std::max(W, H) + 1;
    demand.resize(n);
    for (int i = 0; i < n; ++i) demand[i] = (int)g.range(1, 3);
    target.resize(n);
    bool byIndex = g.chance(1, 3);
    for (int i = 0; i < n; ++i) target[i] = byIndex ? (float)(n - i) : (float)(x0 + (double)W * (g.range(0, 1 << 20) / (double)(1 << 20)));
  } else {
    int fam = g.range(0, 9);
    family = fam < 3 ? "small" : (fam < 7 ? "mixed" : "drift");
    // limits up to 2^22 in magnitude
    auto span = [&](int &a, int &w) {
      int kind = g.range(0, 3);
      if (kind == 0) { a = g.range(-60, 60); w = g.range(1, 400); }
      else if (kind == 1) { a = g.range(-(1 << 22), (1 << 22) - 2); w = g.range(1, std::min<long long>((1 << 22) - a, 1 << 16)); }
      else if (kind == 2) { a = g.range(-(1 << 22), (1 << 22) - 2); w = g.range(1, (1 << 22) - a); }
      else { a = g.chance(1, 2) ? 0 : -(1 << 22); w = 1 << g.range(1, 22); }
    };
    span(x0, W);
    span(y0, H);
    int mx = std::max(W, H);
    binSize = g.chance(1, 2) ? mx + 1 : (int)g.range(mx / 6 + 1, mx);
    if (family == "drift") {
      oneBin = g.chance(3, 4);
      int m2 = g.range(0, 12), m1 = g.range(0, 2 * m2 + 4);
      int k = g.range(20, 24);
      long long S = (1ll << k) - g.range(1, 64);
      long long D = S - m1 - 2 * m2;
      int order = g.range(0, 2);  // big first / big last / big in the middle
      if (order == 1) demand.push_back((int)D);
      for (int i = 0; i < m1; ++i) demand.push_back(1);
      if (order == 2) demand.push_back((int)D);
      for (int i = 0; i < m2; ++i) demand.push_back(2);
      if (order == 0) demand.insert(demand.begin(), (int)D);
      n = (int)demand.size();
      indexTargets();
    } else {
      n = g.range(1, g.chance(1, 8) ? 120 : 30);
      demand.resize(n);
      for (int i = 0; i < n; ++i) {
        if (g.chance(1, 8)) demand[i] = 0;
        else if (family == "small") demand[i] = (int)g.range(1, 60);
        else {
          int kind = g.range(0, 9);
          if (kind < 6) demand[i] = (int)g.range(1, 20);
          else if (kind < 8) demand[i] = (int)g.range(1, 1ll << g.range(1, 24));
          else demand[i] = (int)g.range(1ll << 22, INT_MAX);
        }
      }
      target.resize(n);
      int tm = g.range(0, 3);
      for (int i = 0; i < n; ++i) {
        if (tm == 0) target[i] = (float)g.range(-4, 4);
        else if (tm == 1) target[i] = (float)i;
        else if (tm == 2) target[i] = (float)(x0 + (double)W * (g.range(0, 1 << 20) / (double)(1 << 20)));
        else target[i] = (float)((double)(long long)g.range(-(1ll << 44), 1ll << 44) / (double)(1 << 20));
      }
    }
  }
  out.count("spreadf_family_" + family);
  DensityGrid grid(binSize, Rectangle(x0, x0 + W, y0, y0 + H));
  HierarchicalDensityPlacement hp(grid, demand);
  if (!oneBin) {
    int mode = g.range(0, 2);
    if (mode == 1) hp.refineFully();
    else if (mode == 2) {
      int rx = g.range(0, hp.levelX()), ry = g.range(0, hp.levelY());
      for (int i = 0; i < rx; ++i) hp.refineX();
      for (int i = 0; i < ry; ++i) hp.refineY();
    }
  }
  int bx = hp.nbBinsX(), by = hp.nbBinsY();
  std::vector<std::vector<std::vector<int>>> cellsOf(bx, std::vector<std::vector<int>>(by));
  if (bx * by == 1 || family == "drift" || family == "witness") {
    int bi = family == "witness" ? 0 : (int)g.range(0, bx - 1), bj = family == "witness" ? 0 : (int)g.range(0, by - 1);
    for (int c = 0; c < n; ++c) if (demand[c] > 0) cellsOf[bi][bj].push_back(c);
  } else {
    int clusters = g.range(1, 3);
    std::vector<std::pair<int, int>> cl;
    for (int i = 0; i < clusters; ++i) cl.push_back({(int)g.range(0, bx - 1), (int)g.range(0, by - 1)});
    std::vector<int> perm(n);
    for (int i = 0; i < n; ++i) perm[i] = i;
    for (int i = n; i > 1; --i) std::swap(perm[i - 1], perm[g.range(0, i - 1)]);
    for (int c : perm) {
      if (demand[c] == 0 && g.chance(1, 2)) continue;
      auto b = g.chance(3, 4) ? g.pick(cl) : std::make_pair((int)g.range(0, bx - 1), (int)g.range(0, by - 1));
      cellsOf[b.first][b.second].push_back(c);
    }
  }
  for (int i = 0; i < bx; ++i)
    for (int j = 0; j < by; ++j) hp.setBinCells(i, j, cellsOf[i][j]);
  Rectangle pa = hp.placementArea();
  for (int axis = 0; axis < 2; ++axis) {
    std::vector<float> res = axis == 0 ? hp.spreadCoordX(target) : hp.spreadCoordY(target);
    std::ostringstream op;
    op << "spreadf " << axis << " " << n << " " << bx << " " << by;
    for (int i = 0; i < n; ++i) op << " " << demand[i] << " " << dyadic(target[i]);
    for (int i = 0; i <= bx; ++i) op << " " << hp.binLimitX(i);
    for (int j = 0; j <= by; ++j) op << " " << hp.binLimitY(j);
    for (int i = 0; i < bx; ++i)
      for (int j = 0; j < by; ++j) {
        op << " " << cellsOf[i][j].size();
        for (int c : cellsOf[i][j]) op << " " << c;
      }
    // family many is oracle-only: the list-based Lean model needs minutes for 70 000 cells
    if (family != "many") out.ops << op.str() << "\n";
    std::string failInput = family == "many" ? "case " + id + " (family many: " + std::to_string(n) + " cells in one bin; the op line is regenerated from the case id: h_C06 --only " + id + ")" : op.str();
    std::ostringstream im;
    im << "coordsf";
    for (int i = 0; i < n; ++i) im << " " << (std::isfinite(res[i]) ? dyadic(res[i]) : std::string("nan"));
    if (family != "many") out.impl << im.str() << "\n";
    double amin = axis == 0 ? pa.minX : pa.minY, amax = axis == 0 ? pa.maxX : pa.maxY;
    bool nt = false;
    std::vector<char> inBin(n, 0);
    for (int i = 0; i < bx; ++i)
      for (int j = 0; j < by; ++j) {
        int lo = axis == 0 ? hp.binLimitX(i) : hp.binLimitY(j);
        int hi = axis == 0 ? hp.binLimitX(i + 1) : hp.binLimitY(j + 1);
        int pos = 0;
        for (int c : cellsOf[i][j]) {
          inBin[c] = 1;
          if (demand[c] <= 0) continue;
          ++pos;
          float v = res[c];
          if (!(std::isfinite(v) && v >= (float)lo && v <= (float)hi)) {
            std::ostringstream w;
            w << "spreadCoord" << (axis ? "Y" : "X") << ": cell " << c << " (demand " << demand[c] << ") of bin [" << lo << "," << hi
              << "] got " << dyadic(v) << " (mantissa exp2) = " << std::setprecision(12) << (double)v << ", outside the closed bin ("
              << bx * by << " bins, " << cellsOf[i][j].size() << " cells in this bin)";
            out.fail(id, w.str(), failInput);
          } else if (v > (float)lo && v < (float)hi) out.count("spreadf_coord_strictly_inside_bin");
          else out.count("spreadf_coord_on_edge_of_bin");
        }
        if (pos >= 2) nt = true;
      }
    for (int c = 0; c < n; ++c) {
      if (inBin[c]) continue;
      out.count("spreadf_cells_in_no_bin");
      if (!(res[c] >= (float)amin && res[c] <= (float)amax))
        out.fail(id, std::string("spreadCoord") + (axis ? "Y" : "X") + ": cell " + std::to_string(c) + " (in no bin) got " + dyadic(res[c]) +
                         " (mantissa exp2), outside the placement area", failInput);
    }
    if (nt) out.nontrivial(vh::hashStr(op.str()));
  }
  out.count("spreadf_cases");
}

// ------------------------------------------------------------------ grid (bins from the clipped rows)

// the margin fromIspdCircuit uses, recomputed from the input alone
static int sideMarginOf(const Circuit &c, double sideMargin) {
  int minH = INT_MAX;
  for (int i = 0; i < c.nbCells(); ++i)
    if (c.cellHeight()[i] > 0) minH = std::min(minH, c.cellHeight()[i]);
  float m = (float)sideMargin * minH;
  // the harness itself must not overflow where the library would (a margin the parameter check ought to refuse)
  if (!(m > -2.0e9f)) return -2000000000;
  if (!(m < 2.0e9f)) return 2000000000;
  return (int)m;
}

// input-only description of the degenerate branch of fromIspdCircuit: every free row segment is
// at most two margins wide, so every clipped row is dropped (before the fix
// fixes/c06-empty-clipped-rows.diff the placement area then degenerated to (0,0,0,0))
static bool allRowsClippedAway(const Circuit &c, double sideMargin) {
  int margin = sideMarginOf(c, sideMargin);
  for (const Row &r : c.rows())
    for (const vc::Seg &sg : vc::freeSegments(c, r))
      if (sg.hi - sg.lo > 2LL * margin) return false;
  return true;
}

static void gridCase(vh::Out &out, const std::string &id, vh::Rng &g) {
  vc::GenOpts o;
  o.maxRows = 6;
  o.maxCells = 8;
  vc::GenInfo gi;
  Circuit c = vc::genCircuit(g, o, &gi);
  float sf = g.range(8, 200) / 8.0f;            // k/8: the float products below are exact
  float sm = g.chance(1, 3) ? 0.875f : g.range(0, 12) / 8.0f;
  if (allRowsClippedAway(c, sm)) out.count("grid_all_rows_clipped_away");
  DensityGrid grid = DensityGrid::fromIspdCircuit(c, sf, sm);
  vc::dumpCircuit(out.ops, c);
  out.ops << "grid " << dyadic(sf) << " " << dyadic(sm) << "\n";
  Rectangle a = grid.placementArea();
  out.impl << "grid " << a.minX << " " << a.maxX << " " << a.minY << " " << a.maxY << " |";
  for (int i = 0; i <= grid.nbBinsX(); ++i) out.impl << " " << grid.binLimitX(i);
  out.impl << " |";
  for (int j = 0; j <= grid.nbBinsY(); ++j) out.impl << " " << grid.binLimitY(j);
  out.impl << "\n";
  // direct oracle: every bin limit inside the rows' bounding box
  Rectangle box = c.computePlacementArea();
  bool in = true;
  for (int i = 0; i <= grid.nbBinsX(); ++i) in = in && box.minX <= grid.binLimitX(i) && grid.binLimitX(i) <= box.maxX;
  for (int j = 0; j <= grid.nbBinsY(); ++j) in = in && box.minY <= grid.binLimitY(j) && grid.binLimitY(j) <= box.maxY;
  if (!in) out.fail(id, "a bin limit of DensityGrid::fromIspdCircuit lies outside the rows' bounding box", vc::circuitString(c));
  out.count("grid_cases");
  if (grid.nbBins() > 1) out.nontrivial(vh::hashStr(vc::circuitString(c)));
}

// export rounding / blend in isolation is private to GlobalPlacer: it is exercised end to end in (b).

// ------------------------------------------------------------------ part (b)

struct Case {
  std::unique_ptr<Circuit> circ;
  ColoquinteParameters params{3};
  vc::GenInfo info;
  std::string desc;
  int effort = 0;
  int nZeroArea = 0;
  int redrawn = 0;
  int netKind = 0;
  // object with a past (common/past.hpp): the recipe the forked child executes before the measured call ("" = fresh object)
  std::string past;
  vc::Past pastRecipe;
  bool setupRowsShaped = false;
};

static double uni(vh::Rng &g, double lo, double hi) { return lo + (hi - lo) * (g.range(0, 1 << 20) / (double)(1 << 20)); }
static double logUni(vh::Rng &g, double lo, double hi) { return std::exp(uni(g, std::log(lo), std::log(hi))); }

static bool inDomain(const Circuit &c, const vc::GenInfo &gi) {
  if (c.nbRows() == 0) return false;
  for (const Row &r : c.rows())
    if (r.width() < 4LL * gi.rowHeight) return false;
  bool mov = false;
  for (int i = 0; i < c.nbCells(); ++i)
    if (!c.isFixed(i) && (long long)c.cellWidth()[i] * c.cellHeight()[i] > 0) mov = true;
  return mov;
}

static std::string describeParams(const ColoquinteParameters &p, int effort, bool knobs) {
  const auto &gp = p.global;
  std::ostringstream os;
  os << "effort=" << effort << " seed=" << p.seed << " steps=" << gp.maxNbSteps << "/" << gp.nbInitialSteps << "/"
     << gp.nbStepsBeforeRoughLegalization << " knobs=" << knobs << " net=" << (int)gp.continuousModel.netModel
     << " cost=" << (int)gp.roughLegalization.costModel << " win=" << gp.roughLegalization.lineReoptSize << ","
     << gp.roughLegalization.diagReoptSize << "," << gp.roughLegalization.squareReoptSize
     << " uni=" << gp.roughLegalization.unidimensionalTransport << " blend=" << vc::exactDouble(gp.exportBlending)
     << " bin=" << vc::exactDouble(gp.roughLegalization.binSize) << " margin=" << vc::exactDouble(gp.roughLegalization.sideMargin)
     << " cgtol=" << vc::exactDouble(gp.continuousModel.conjugateGradientErrorTolerance)
     << " approx=" << vc::exactDouble(gp.continuousModel.approximationDistance) << "*"
     << vc::exactDouble(gp.continuousModel.approximationDistanceUpdateFactor)
     << " cutoff=" << vc::exactDouble(gp.penalty.cutoffDistance) << "*" << vc::exactDouble(gp.penalty.cutoffDistanceUpdateFactor)
     << " penalty=" << vc::exactDouble(gp.penalty.initialValue) << "*" << vc::exactDouble(gp.penalty.updateFactor)
     << " gaptol=" << vc::exactDouble(gp.gapTolerance) << " disttol=" << vc::exactDouble(gp.distanceTolerance);
  return os.str();
}

// The float recurrence of GlobalPlacer::run, recomputed from the parameters alone: penalty_ after
// `updates` executions of `penalty_ *= penalty.updateFactor` (float times double, rounded to float).
static float penaltyAfter(const ColoquinteParameters &p, long long updates) {
  float pen = p.global.penalty.initialValue;
  for (long long i = 0; i < updates && std::isfinite(pen); ++i) pen *= p.global.penalty.updateFactor;
  return pen;
}

// KF-C06-1 classifier.  GlobalPlacer::run multiplies penalty_, penaltyCutoffDistance_ and
// approximationDistance_ by their update factors once per loop step, without bound.  The effective
// knobs after k updates are recomputed here from the parameters alone (penalty with the C++'s float
// recurrence for the text, exactly for the verdict; the two distances in units of the average cell length); the finding applies iff they
// have left the numeric box of the C06 statement (distances >= 0.1; the parameter check itself
// refuses approximation distances above 1e3) or the penalty-to-cutoff ratio — the weight of the
// penalty terms in the linear system — has reached 2^64 ~ sqrt(FLT_MAX), from where its square is
// not a single-precision number (the conjugate-gradient solver works with squared norms), or has fallen
// to 2^-24, below the single-precision resolution of unit net weights (the penalty no longer anchors
// the cells; inside the generator's box the initial ratio is at least 1e-5).
// KF-C06-2 classifier, from the circuit alone: some group of movable cells connected by nets (at
// least one net of degree >= 2) has no pin on a fixed cell.  Before the penalty terms anchor the cells
// (the solves of GlobalPlacer::runInitialLB) the linear system of such a group is singular, and the
// conjugate-gradient solver can break down to NaN on it.
static bool hasFloatingComponent(const Circuit &c) {
  const int n = c.nbCells();
  std::vector<int> parent(n);
  for (int i = 0; i < n; ++i) parent[i] = i;
  std::function<int(int)> find = [&](int a) { return parent[a] == a ? a : parent[a] = find(parent[a]); };
  std::vector<char> hasNet(n, 0);
  for (int net = 0; net < c.nbNets(); ++net) {
    int np = c.nbPinsNet(net);
    if (np < 2) continue;
    int first = c.pinCell(net, 0);
    for (int j = 0; j < np; ++j) {
      int cell = c.pinCell(net, j);
      hasNet[cell] = 1;
      parent[find(cell)] = find(first);
    }
  }
  std::vector<char> anchored(n, 0);
  for (int i = 0; i < n; ++i)
    if (c.isFixed(i)) anchored[find(i)] = 1;
  for (int i = 0; i < n; ++i)
    if (!c.isFixed(i) && hasNet[i] && !anchored[find(i)]) return true;
  return false;
}

// exact dyadic numbers m * 2^e (every float/double is one; products are exact)
using BigInt = boost::multiprecision::cpp_int;
struct Dy { BigInt m; long e; };
static Dy dyOf(double v) {
  if (v == 0.0 || !std::isfinite(v)) return {0, 0};
  int e;
  double m = std::frexp(v, &e);
  long long mant = (long long)std::ldexp(m, 53);
  return {BigInt(mant), (long)e - 53};
}
static Dy mulDy(const Dy &a, const Dy &b) { return {a.m * b.m, a.e + b.e}; }
static int cmpDy(const Dy &a, const Dy &b) {  // sign of a - b
  long e = std::min(a.e, b.e);
  BigInt x = a.m << (a.e - e), y = b.m << (b.e - e);
  return x < y ? -1 : (x > y ? 1 : 0);
}
// the loop variables after k updates in exact arithmetic, in units of the average cell length
struct DriftVars { Dy pen, cut, apx; };
static DriftVars driftInit(const ColoquinteParameters &p) {
  const auto &gp = p.global;
  return {dyOf(gp.penalty.initialValue), dyOf(gp.penalty.cutoffDistance), dyOf(gp.continuousModel.approximationDistance)};
}
static void driftStep(const ColoquinteParameters &p, DriftVars &v) {
  const auto &gp = p.global;
  v.pen = mulDy(v.pen, dyOf(gp.penalty.updateFactor));
  v.cut = mulDy(v.cut, dyOf(gp.penalty.cutoffDistanceUpdateFactor));
  v.apx = mulDy(v.apx, dyOf(gp.continuousModel.approximationDistanceUpdateFactor));
}
// KF-C06-1 classifier (= GlobalLoop.driftOutOfBox of the Lean model, compared per case by the `gdrift` op):
// apx < 1/10 or apx > 1000 or cut < 1/10 or pen >= 2^128 or pen >= 2^64 cut or 2^24 pen <= cut
static bool outOfBox(const DriftVars &v) {
  const Dy one{1, 0};
  return cmpDy(Dy{v.apx.m * 10, v.apx.e}, one) < 0 || cmpDy(Dy{1000, 0}, v.apx) < 0 || cmpDy(Dy{v.cut.m * 10, v.cut.e}, one) < 0 ||
         cmpDy(Dy{1, 128}, v.pen) <= 0 || cmpDy(Dy{v.cut.m, v.cut.e + 64}, v.pen) <= 0 || cmpDy(Dy{v.pen.m, v.pen.e + 24}, v.cut) <= 0;
}
static bool driftOutOfBox(const ColoquinteParameters &p, long long k) {
  DriftVars v = driftInit(p);
  for (long long i = 0; i < k; ++i) driftStep(p, v);
  return outOfBox(v);
}
// first k in [0, maxK] with the classifier true, or -1
static long long firstDrift(const ColoquinteParameters &p, long long maxK) {
  DriftVars v = driftInit(p);
  for (long long k = 0; k <= maxK; ++k) {
    if (outOfBox(v)) return k;
    driftStep(p, v);
  }
  return -1;
}

struct Drift { bool outOfBox = false; std::string text; };
static Drift driftAfter(const ColoquinteParameters &p, long long k) {
  const auto &gp = p.global;
  // the text shows approximate values; the verdict is exact
  double pen = penaltyAfter(p, k);
  double apx = gp.continuousModel.approximationDistance * std::pow(gp.continuousModel.approximationDistanceUpdateFactor, (double)k);
  double cut = gp.penalty.cutoffDistance * std::pow(gp.penalty.cutoffDistanceUpdateFactor, (double)k);
  Drift d;
  d.outOfBox = driftOutOfBox(p, k);
  std::ostringstream os;
  os << "penalty " << pen << ", cutoff distance " << cut << ", approximation distance " << apx
     << (d.outOfBox ? " (outside the numeric box)" : " (inside the numeric box)");
  d.text = os.str();
  return d;
}

static ColoquinteParameters genC06Params(vh::Rng &g, std::string &desc, int &effort, bool bigger) {
  effort = g.range(1, 9);
  ColoquinteParameters p(effort, (int)g.range(-1, 1000));
  auto &gp = p.global;
  bool knobs = g.chance(3, 4);  // otherwise: the effort's defaults (400 steps), sometimes with another step limit
  // step limit: every effort's default is 400, which is also the largest value drawn
  int sm = g.range(0, 9);
  if (!knobs) {
    if (sm < 3) gp.maxNbSteps = g.range(1, 10);
  } else {
    if (sm < 4) gp.maxNbSteps = g.range(1, 10);
    else if (sm < 6) gp.maxNbSteps = g.range(11, 60);
    else if (sm < 7) gp.maxNbSteps = g.range(61, 399);
    else gp.maxNbSteps = 400;
  }
  if (knobs) {
    gp.nbInitialSteps = std::min<int>(g.range(0, 2), gp.maxNbSteps - 1);
    gp.nbStepsBeforeRoughLegalization = g.range(1, 3);
    int tm = g.range(0, 5);  // the stop tests: defaults, disabled (0 is accepted), anything
    if (tm == 0) gp.gapTolerance = 0.0;
    else if (tm == 3 || tm == 4) gp.gapTolerance = logUni(g, 1.0e-3, 0.3);
    else if (tm == 5) gp.gapTolerance = uni(g, 0.0, 1.0);
    tm = g.range(0, 5);
    if (tm == 0) gp.distanceTolerance = 0.0;
    else if (tm >= 3) gp.distanceTolerance = uni(g, 0.0, 4.0);
    gp.penaltyUpdateDistance = logUni(g, 0.01, 100.0);
    gp.penaltyUpdateBackoff = uni(g, 1.0, 4.0);
    gp.noise = g.chance(1, 3) ? 0.0 : (g.chance(1, 2) ? 1.0e-4 : uni(g, 0.0, 2.0));
    auto &cm = gp.continuousModel;
    cm.netModel = g.chance(1, 2) ? NetModelOption::BoundToBound : NetModelOption::Star;
    cm.approximationDistance = logUni(g, 0.1, 100.0);
    cm.approximationDistanceUpdateFactor = g.chance(1, 4) ? 1.0 : (g.chance(1, 6) ? (g.chance(1, 2) ? 0.8 : 1.2) : uni(g, 0.8, 1.2));
    cm.maxNbConjugateGradientSteps = g.chance(1, 4) ? g.range(1, 10) : g.range(10, 1000);
    cm.conjugateGradientErrorTolerance = logUni(g, 1.0e-6, 1.0);
    auto &pe = gp.penalty;
    pe.cutoffDistance = logUni(g, 0.1, 100.0);
    pe.cutoffDistanceUpdateFactor = g.chance(1, 4) ? 1.0 : (g.chance(1, 6) ? (g.chance(1, 2) ? 0.8 : 1.2) : uni(g, 0.8, 1.2));
    pe.areaExponent = uni(g, 0.49, 1.01);
    pe.initialValue = logUni(g, 1.0e-3, 10.0);
    // check() accepts the open interval (1, 2)
    int um = g.range(0, 7);
    if (um == 0) pe.updateFactor = 1.0 + 1.0 / (1 << 20);
    else if (um == 1) pe.updateFactor = 2.0 - 1.0 / (1 << 20);
    else if (um == 2) pe.updateFactor = uni(g, 1.5, 2.0 - 1.0 / (1 << 20));
    else if (um >= 6) pe.updateFactor = uni(g, 1.0 + 1.0 / (1 << 20), 2.0 - 1.0 / (1 << 20));
    // else: the effort's default (1.07 .. 1.23)
    pe.targetBlending = uni(g, (double)0.1f, 1.1);   // check() compares with the float literals 0.1f / 1.1f
    auto &rl = gp.roughLegalization;
    rl.costModel = (LegalizationModel)g.range(0, 5);
    rl.nbSteps = g.range(0, 3);
    rl.binSize = g.chance(1, 2) ? uni(g, 1.0, 6.0) : uni(g, 1.0, 25.0);
    auto win = [&](int maxSize, int &size, int &overlap) {
      int m = g.range(0, 9);
      size = m < 2 ? 1 : (m < 8 ? (int)g.range(2, std::min(6, maxSize)) : (int)g.range(2, maxSize));
      overlap = size > 1 ? (int)g.range(1, size - 1) : (int)g.range(1, 3);
    };
    win(64, rl.lineReoptSize, rl.lineReoptOverlap);
    win(64, rl.diagReoptSize, rl.diagReoptOverlap);
    win(8, rl.squareReoptSize, rl.squareReoptOverlap);
    rl.unidimensionalTransport = g.chance(1, 2);
    if (rl.lineReoptSize < 2 && rl.diagReoptSize < 2 && rl.squareReoptSize < 2 &&
        (!rl.unidimensionalTransport || rl.costModel != LegalizationModel::L1)) {
      rl.squareReoptSize = 2;
      rl.squareReoptOverlap = 1;
    }
    rl.quadraticPenalty = g.chance(1, 3) ? 0.0 : logUni(g, 1.0e-4, 1.0);
    rl.targetBlending = uni(g, -0.1, (double)0.9f);  // check(): > 0.9f is rejected
    // the whole range the parameter check accepts (fix 07db192: 0..100); above ~2 most rows are narrower than the two
    // margins and are dropped, or all of them are and the unclipped rows are kept
    rl.sideMargin = g.chance(1, 2) ? 0.9 : (g.chance(1, 6) ? uni(g, 0.9, 100.0) : uni(g, 0.0, 0.9));
    rl.coarseningLimit = logUni(g, 1.0, 1000.0);
    // no check() constrains the coarsening limit (C19 `unpolicedFields`): one case in eight takes a value a user would
    // not choose — negative, zero, tiny, huge — which must change nothing the property speaks about
    if (g.chance(1, 8)) { static const double odd[] = {-5.0, 0.0, 1.0e-6, 1.0e12}; rl.coarseningLimit = odd[g.range(0, 3)]; }
  }
  (void)bigger;
  int bm = g.range(0, 9);
  if (bm == 0) gp.exportBlending = 0.0;
  else if (bm == 1) gp.exportBlending = 1.0;
  else if (bm == 2) gp.exportBlending = 0.99;
  else if (bm == 3) gp.exportBlending = 0.5;
  else if (bm == 4) gp.exportBlending = g.chance(1, 2) ? -0.5 : 1.5;
  else gp.exportBlending = uni(g, -0.5, 1.5);
  desc = describeParams(p, effort, knobs);
  return p;
}

// nets of the generated circuit, chosen here (vc::genCircuit is called without nets) so that the
// structures the stop test of GlobalPlacer::run depends on are all drawn:
//   0 as vc::genCircuit (here 1 .. 2n+1 nets of degree 1-5 over random cells), 1 no net at all,
//   2 only nets of degree 1, 3 every pin of every net on one cell (distinct offsets: constant,
//   non-zero wirelength; or equal offsets: zero wirelength), 4 nets over fixed cells only
static void addNets(vh::Rng &g, Circuit &c, int kind) {
  const int n = c.nbCells();
  auto pin = [&](int cell, std::vector<int> &pc, std::vector<int> &px, std::vector<int> &py) {
    pc.push_back(cell);
    px.push_back((int)g.range(-2, c.cellWidth()[cell] + 2));
    py.push_back((int)g.range(-2, c.cellHeight()[cell] + 2));
  };
  if (kind == 1 || n == 0) return;
  std::vector<int> fixed;
  for (int i = 0; i < n; ++i)
    if (c.isFixed(i)) fixed.push_back(i);
  if (kind == 4 && fixed.empty()) kind = 2;
  int nn = kind == 0 ? (int)g.range(1, 2 * n + 1) : (int)g.range(1, n + 1);
  for (int k = 0; k < nn; ++k) {
    std::vector<int> pc, px, py;
    if (kind == 0) {
      int deg = g.range(1, 5);
      for (int d = 0; d < deg; ++d) pin((int)g.range(0, n - 1), pc, px, py);
    } else if (kind == 2) {
      pin((int)g.range(0, n - 1), pc, px, py);
    } else if (kind == 3) {
      int cell = g.range(0, n - 1), deg = g.range(2, 4);
      for (int d = 0; d < deg; ++d) pin(cell, pc, px, py);
      if (g.chance(1, 2))
        for (int d = 1; d < deg; ++d) { px[d] = px[0]; py[d] = py[0]; }
    } else {
      int deg = g.range(1, 4);
      for (int d = 0; d < deg; ++d) pin(g.pick(fixed), pc, px, py);
    }
    c.addNet(pc, px, py);
  }
}

static Case genCase(uint64_t seed, long long k, bool bigger) {
  vh::Rng g = vh::Rng::forCase(seed, 1000000 + k);
  Case cs;
  vc::GenOpts o;
  o.maxRows = bigger ? 8 : 5;
  o.maxCells = bigger ? 30 : 10;
  o.splitRows = g.chance(1, 2);
  o.fixedCells = g.chance(3, 4);
  o.nets = false;
  for (int attempt = 0;; ++attempt) {
    Circuit c = vc::genCircuit(g, o, &cs.info);
    if (inDomain(c, cs.info)) { cs.circ.reset(new Circuit(c)); break; }
  }
  {
    int nk = g.range(0, 11);
    cs.netKind = nk < 7 ? 0 : nk - 7 + 1;  // 7/12 generic, 1/12 each: none, degree 1, one cell, fixed only; 1/12 generic again
    if (cs.netKind > 4) cs.netKind = 0;
    addNets(g, *cs.circ, cs.netKind);
  }
  // a share of circuits gets movable cells of zero area (zero width or zero height); at least one
  // movable cell of positive area remains (C06 domain)
  if (g.chance(1, 4)) {
    Circuit &c = *cs.circ;
    std::vector<int> mov;
    for (int i = 0; i < c.nbCells(); ++i)
      if (!c.isFixed(i)) mov.push_back(i);
    int nz = std::min<int>((int)mov.size() - 1, g.range(1, 2));
    std::vector<int> w = c.cellWidth(), h = c.cellHeight();
    for (int k = 0; k < nz; ++k) {
      int idx = g.range(0, mov.size() - 1);
      int z = mov[idx];
      mov.erase(mov.begin() + idx);
      if (g.chance(1, 2)) w[z] = 0; else h[z] = 0;
      cs.nZeroArea++;
    }
    c.setCellWidth(w);
    c.setCellHeight(h);
  }
  std::string pd;
  for (;;) {  // the domain is "accepted by the parameter check": redraw in the (unexpected) case of a rejection
    cs.params = genC06Params(g, pd, cs.effort, bigger);
    try { cs.params.check(); break; } catch (const std::exception &) { cs.redrawn++; }
  }
  cs.desc = pd;
  // one case in three: an object with a past.  Drawn from a stream of its own: the circuits / parameters of the other
  // cases are what they were.
  if (k % 3 == 1) {
    vh::Rng gp = vh::Rng::forCase(seed, 7000000 + k);
    if (gp.chance(1, 2)) cs.setupRowsShaped = vc::setupShapedRows(gp, *cs.circ);  // still in the domain: the rows only get wider
    cs.pastRecipe = vc::genPast(gp, *cs.circ);
    cs.past = cs.pastRecipe.text();
  }
  return cs;
}

struct Snapshot { std::vector<int> x, y; bool have = false; };

// progress of the forked child, readable by the parent when the child dies (assert / sanitizer /
// timeout): number of UpperBound callbacks seen so far
static volatile long long *sharedProgress() {
  static volatile long long *p = (volatile long long *)mmap(nullptr, sizeof(long long), PROT_READ | PROT_WRITE, MAP_SHARED | MAP_ANONYMOUS, -1, 0);
  return p;
}

// a double as "mantissa exp2"; "inf 0", "-inf 0", "nan 0" for the non-finite ones
static std::string dyTok(double v) {
  if (std::isnan(v)) return "nan 0";
  if (std::isinf(v)) return v > 0 ? "inf 0" : "-inf 0";
  return vc::exactDouble(v);
}

#ifdef COLOQUINTE_VERIF_HAS_H5
// hook H5: one "H <kind> <values as dyadics>" line per call, written to the child's result stream
static std::ostream *hookOs = nullptr;
static void onGlobalLoopHook(const char *kind, const double *v, int n) {
  if (!hookOs) return;
  *hookOs << "H " << kind;
  for (int i = 0; i < n; ++i) *hookOs << " " << dyTok(v[i]);
  *hookOs << "\n";
}
#endif

// runs in the forked child; writes "F <what>" per failure and one "S ..." statistics line
static void runPlacement(Case &cs, std::ostream &os) {
#ifdef COLOQUINTE_VERIF_HAS_H5
  hookOs = &os;
  coloquinte::verif::onGlobalLoop = &onGlobalLoopHook;
#endif
  std::string seq;  // the callback kinds in order: L(owerBound) U(pperBound) P(enaltyUpdate) D(etailed)
  // the library reports progress on stdout: kept in an unnamed temporary file, read back below for
  // the measured distribution (steps run, zero wirelength) and for the known-finding classifier (a
  // zero-wirelength run is never attributed to KF-C06-1) — never to accept a run
  int logFd = open("/tmp", O_TMPFILE | O_RDWR, 0600);
  if (logFd < 0) logFd = open("/dev/null", O_WRONLY);
  if (logFd >= 0) dup2(logFd, 1);
  uint64_t digest = 1469598103934665603ull;  // of everything exposed (to compare two library builds)
  auto mix = [&](long long v) { for (int b = 0; b < 8; ++b) { digest ^= (unsigned char)(v >> (8 * b)); digest *= 1099511628211ull; } };
  if (!cs.past.empty()) {
    std::string err;
    Circuit lived = vc::livePast(cs.past, *cs.circ, &err);
    if (err.empty()) *cs.circ = lived;  // the copy carries whatever the object remembers
    else os << "P " << err << "\n";
  }
  Circuit &c = *cs.circ;
  const int n = c.nbCells();
  Rectangle box = c.computePlacementArea();  // bounding box of the rows (independent recomputation below)
  {
    long long a = LLONG_MAX, b = LLONG_MIN, lo = LLONG_MAX, hi = LLONG_MIN;
    for (const Row &r : c.rows()) { a = std::min<long long>(a, r.minX); b = std::max<long long>(b, r.maxX); lo = std::min<long long>(lo, r.minY); hi = std::max<long long>(hi, r.maxY); }
    box = Rectangle((int)a, (int)b, (int)lo, (int)hi);
  }
  std::vector<int> fixedX = c.cellX(), fixedY = c.cellY();
  Snapshot lastLB, lastUB;
  int nLB = 0, nUB = 0, nOther = 0, nFail = 0;
  long long maxAbs = 0;
  // "F <UpperBound callbacks seen so far> <1 if raised by / seen right after a lower-bound solve> <what>"
  bool inLB = false;
  auto fail = [&](const std::string &w) { if (nFail++ < 5) os << "F " << nUB << " " << (inLB ? 1 : 0) << " " << w << "\n"; };
  auto sane = [&](const char *when) {
    for (int i = 0; i < n; ++i) {
      for (int v : {c.cellX()[i], c.cellY()[i]}) {
        if (v == INT_MIN || v == INT_MAX || std::llabs((long long)v) > (1ll << 30)) {
          fail(std::string(when) + ": cell " + std::to_string(i) + " has overflowed / non-finite coordinate " + std::to_string(v));
          return;
        }
        if (!c.isFixed(i)) maxAbs = std::max(maxAbs, std::llabs((long long)v));
      }
      if (c.isFixed(i) && (c.cellX()[i] != fixedX[i] || c.cellY()[i] != fixedY[i])) {
        fail(std::string(when) + ": fixed cell " + std::to_string(i) + " moved");
        return;
      }
    }
  };
  auto logStats = [&]() {  // "L <loop steps logged> <1 if every logged UB value is exactly 0> <digest>"
    std::cout.flush();
    fflush(stdout);
    std::string all;
    char buf[65536];
    ssize_t r;
    if (lseek(logFd, 0, SEEK_SET) == 0)
      while ((r = read(logFd, buf, sizeof buf)) > 0) all.append(buf, r);
    int nSteps = 0;
    bool allZero = true;
    for (size_t p = all.find("\tUB "); p != std::string::npos; p = all.find("\tUB ", p + 1)) {
      ++nSteps;
      size_t e = all.find_first_of("\t\n", p + 4);
      if (all.substr(p + 4, e == std::string::npos ? std::string::npos : e - p - 4) != "0") allZero = false;
    }
    os << "L " << nSteps << " " << (nSteps > 0 && allZero ? 1 : 0) << " " << digest << "\n";
  };
  PlacementCallback cb = [&](PlacementStep st) {
    mix((long long)st);
    seq += st == PlacementStep::LowerBound ? 'L' : (st == PlacementStep::UpperBound ? 'U' : (st == PlacementStep::PenaltyUpdate ? 'P' : 'D'));
    for (int i = 0; i < n; ++i) { mix(c.cellX()[i]); mix(c.cellY()[i]); }
    if (st == PlacementStep::LowerBound) {
      ++nLB;
      inLB = true;
      sane("LowerBound callback");
      inLB = false;
      lastLB.x = c.cellX(); lastLB.y = c.cellY(); lastLB.have = true;
    } else if (st == PlacementStep::UpperBound) {
      ++nUB;
      *sharedProgress() = nUB;
      sane("UpperBound callback");
      lastUB.x = c.cellX(); lastUB.y = c.cellY(); lastUB.have = true;
      for (int i = 0; i < n; ++i) {
        if (c.isFixed(i)) continue;
        long long cx2 = 2LL * c.cellX()[i] + c.placedWidth(i), cy2 = 2LL * c.cellY()[i] + c.placedHeight(i);
        if (cx2 < 2LL * box.minX - 1 || cx2 > 2LL * box.maxX + 1 || cy2 < 2LL * box.minY - 1 || cy2 > 2LL * box.maxY + 1) {
          std::ostringstream w;
          w << "UpperBound callback #" << nUB << ": movable cell " << i << " centre (" << cx2 << "/2," << cy2
            << "/2) outside the rows' bounding box [" << box.minX << "," << box.maxX << "]x[" << box.minY << "," << box.maxY << "]";
          fail(w.str());
          break;
        }
      }
    } else {
      ++nOther;
      sane("other callback");
    }
  };
  try {
    c.placeGlobal(cs.params, cb);
  } catch (const std::exception &e) {
    // the only error the statement's domain can meet is the non-finite check after a lower-bound solve
    inLB = std::string(e.what()).find("non-finite") != std::string::npos;
    const bool inLBwas = inLB;  // the error of checkFinitePlacement (raised right after a lower-bound solve)
    fail(std::string("placeGlobal raised ") + vc::exClass(e) + ": " + e.what());
    inLB = false;
    os << "X " << nLB << " " << nUB << "\n";
    os << "Q " << (inLBwas ? "throw" : "other") << " " << seq << "\n";
    os << "S " << nLB << " " << nUB << " " << nOther << " " << maxAbs << " 0\n";
    mix(-1);
    logStats();
    return;
  }
  sane("after return");
  os << "Q ret " << seq << "\n";
  for (int i = 0; i < n; ++i) { mix(c.cellX()[i]); mix(c.cellY()[i]); }
  logStats();
  int moved = 0, nB = 0;
  if (!lastLB.have || !lastUB.have) {
    fail("placeGlobal returned without exposing both a lower-bound and an upper-bound placement");
  } else {
    const float b = (float)cs.params.global.exportBlending;
    const long double bl = b, u4 = 4.0L / 16777216.0L;
    for (int i = 0; i < n && nFail == 0; ++i) {
      if (c.isFixed(i)) continue;
      for (int axis = 0; axis < 2; ++axis) {
        long long ret = axis ? c.cellY()[i] : c.cellX()[i];
        long long lb = axis ? lastLB.y[i] : lastLB.x[i], ub = axis ? lastUB.y[i] : lastUB.x[i];
        long double w2 = 0.5L * (axis ? c.placedHeight(i) : c.placedWidth(i));
        bool ok;
        long double bound = 0, diff = 0;
        if (b == 0.0f) ok = ret == lb;
        else if (b == 1.0f) ok = ret == ub;
        else {
          diff = fabsl((long double)ret - ((1.0L - bl) * lb + bl * ub));
          bound = (fabsl(1.0L - bl) + fabsl(bl) + 1.0L) / 2.0L +
                  u4 * (fabsl(1.0L - bl) * (fabsl((long double)lb) + w2 + 1) + fabsl(bl) * (fabsl((long double)ub) + w2 + 1));
          ok = diff <= bound;
        }
        if (!ok) {
          std::ostringstream w;
          w << "returned " << (axis ? "y" : "x") << " of cell " << i << " = " << ret << " is not the blend (" << vc::exactDouble(b)
            << ") of last LB " << lb << " and last UB " << ub << " (|diff| " << (double)diff << " > bound " << (double)bound << ")";
          fail(w.str());
          break;
        }
        if (lb != ub) ++moved;
        if (nB < 6) { ++nB; os << "B " << lb << " " << ub << " " << (axis ? c.placedHeight(i) : c.placedWidth(i)) << " " << ret << "\n"; }
      }
    }
  }
  os << "S " << nLB << " " << nUB << " " << nOther << " " << maxAbs << " " << moved << "\n";
}

// corpus/C06/*.circ : circuits in the vc::dumpCircuit text format (witnesses of repaired defects)
static std::unique_ptr<Circuit> parseCircuit(const std::vector<std::string> &lines) {
  struct CellL { int w, h, x, y, o, f, ob, p; };
  std::vector<CellL> cells;
  std::vector<Row> rows;
  struct NetL { std::vector<int> c, x, y; };
  std::vector<NetL> nets;
  for (const std::string &ln : lines) {
    std::istringstream is(ln);
    std::string k;
    if (!(is >> k)) continue;
    if (k == "cell") { CellL c; is >> c.w >> c.h >> c.x >> c.y >> c.o >> c.f >> c.ob >> c.p; cells.push_back(c); }
    else if (k == "row") { int a, b, c, d, o; is >> a >> b >> c >> d >> o; rows.emplace_back(a, b, c, d, (CellOrientation)o); }
    else if (k == "net") {
      long long m, e; int np; is >> m >> e >> np;
      NetL n;
      for (int i = 0; i < np; ++i) { int c, x, y; is >> c >> x >> y; n.c.push_back(c); n.x.push_back(x); n.y.push_back(y); }
      nets.push_back(n);
    }
  }
  int n = cells.size();
  std::unique_ptr<Circuit> circ(new Circuit(n));
  std::vector<int> w(n), h(n), xs(n), ys(n);
  std::vector<bool> fx(n), ob(n);
  std::vector<CellOrientation> orr(n);
  std::vector<CellRowPolarity> pol(n);
  for (int i = 0; i < n; ++i) {
    w[i] = cells[i].w; h[i] = cells[i].h; xs[i] = cells[i].x; ys[i] = cells[i].y;
    fx[i] = cells[i].f; ob[i] = cells[i].ob; orr[i] = (CellOrientation)cells[i].o; pol[i] = (CellRowPolarity)cells[i].p;
  }
  circ->setCellWidth(w); circ->setCellHeight(h); circ->setCellX(xs); circ->setCellY(ys);
  circ->setCellIsFixed(fx); circ->setCellIsObstruction(ob); circ->setCellOrientation(orr); circ->setCellRowPolarity(pol);
  circ->setRows(rows);
  for (auto &nt : nets) circ->addNet(nt.c, nt.x, nt.y);
  return circ;
}

// ------------------------------------------------------------------ part (c): the control loop of GlobalPlacer::run

static std::vector<std::string> splitWs(const std::string &l) {
  std::istringstream is(l);
  std::vector<std::string> v;
  std::string t;
  while (is >> t) v.push_back(t);
  return v;
}
struct Tok2 {  // one logged double: its two tokens and its value
  std::string m, e;
  double value() const {
    if (m == "nan") return std::nan("");
    if (m == "inf") return INFINITY;
    if (m == "-inf") return -INFINITY;
    return std::ldexp((double)atoll(m.c_str()), atoi(e.c_str()));
  }
  std::string str() const { return m + " " + e; }
};
static std::vector<Tok2> pairsOf(const std::vector<std::string> &w, size_t from) {
  std::vector<Tok2> v;
  for (size_t i = from; i + 1 < w.size(); i += 2) v.push_back({w[i], w[i + 1]});
  return v;
}
static bool normalFloat(double v) { return std::isfinite(v) && std::fabs(v) >= std::ldexp(1.0, -126); }

// `res`: what the child wrote.  Emits the g* ops and what the implementation answered.
static void emitLoopTie(vh::Out &out, const Case &cs, const std::string &res) {
  const auto &gp = cs.params.global;
  std::string how, seq;
  long long nStepsLog = -1;
  bool haveQ = false;
  std::vector<Tok2> init, exitRec;
  std::vector<std::vector<Tok2>> steps;
  {
    std::istringstream is(res);
    std::string ln;
    while (std::getline(is, ln)) {
      std::vector<std::string> w = splitWs(ln);
      if (w.empty()) continue;
      if (w[0] == "Q" && w.size() >= 2) { haveQ = true; how = w[1]; seq = w.size() >= 3 ? w[2] : ""; }
      else if (w[0] == "L" && w.size() >= 2) nStepsLog = atoll(w[1].c_str());
      else if (w[0] == "H" && w.size() >= 2) {
        if (w[1] == "init") init = pairsOf(w, 2);
        else if (w[1] == "step") steps.push_back(pairsOf(w, 2));
        else if (w[1] == "exit") exitRec = pairsOf(w, 2);
      }
    }
  }
  if (!haveQ || how == "other" || seq.find('D') != std::string::npos) { out.count("loop_cases_skipped"); return; }
  const long long maxIter = gp.maxNbSteps - gp.nbInitialSteps;
  out.ops << "gparams " << gp.nbInitialSteps << " " << gp.maxNbSteps << " " << gp.nbStepsBeforeRoughLegalization;
  for (double v : {gp.gapTolerance, gp.distanceTolerance, gp.penaltyUpdateDistance, gp.penaltyUpdateBackoff, gp.penalty.initialValue,
                   gp.penalty.updateFactor, gp.penalty.cutoffDistance, gp.penalty.cutoffDistanceUpdateFactor,
                   gp.continuousModel.approximationDistance, gp.continuousModel.approximationDistanceUpdateFactor})
    out.ops << " " << vc::exactDouble(v);
  out.ops << "\n";
  // hook-free: callback order, outcome, iterations
  out.ops << "gshape " << seq << " " << how << "\n";
  out.impl << "shape " << seq << " " << (how == "ret" ? "returned" : "threw") << " iterations=" << nStepsLog << "\n";
  out.count("loop_shape_cases");
  // classifier
  {
    long long nU = std::count(seq.begin(), seq.end(), 'U');
    long long first = firstDrift(cs.params, maxIter);
    std::set<long long> ks = {0, std::max(0LL, nU - 2), std::max(0LL, nU - 1), maxIter};
    if (first >= 0) { ks.insert(first); if (first > 0) ks.insert(first - 1); }
    out.ops << "gdrift";
    out.impl << "drift";
    for (long long k : ks) {
      out.ops << " " << k;
      bool v = driftOutOfBox(cs.params, k);
      out.impl << " " << k << ":" << (v ? 1 : 0);
      out.count(v ? "loop_drift_true_points" : "loop_drift_false_points");
    }
    out.ops << "\n";
    out.impl << "\n";
    if (first >= 0) out.count("loop_drift_reached_within_step_limit");
  }
#ifdef COLOQUINTE_VERIF_HAS_H5
  // the H5 log
  if (!init.empty()) {
    out.ops << "ginit";
    for (auto &t : init) out.ops << " " << t.str();
    out.ops << "\n";
  }
  bool finiteInputs = init.size() < 2 || (std::isfinite(init[0].value()) && std::isfinite(init[1].value()));
  bool allNormal = true;
  for (auto &st : steps) {
    if (st.size() != 10) { out.count("loop_bad_step_record"); continue; }
    out.ops << "gstep " << (long long)st[0].value();
    for (int i = 1; i <= 8; ++i) out.ops << " " << st[i].str();
    out.ops << " " << (long long)st[9].value() << "\n";
    for (int i : {1, 2, 3}) finiteInputs = finiteInputs && std::isfinite(st[i].value());
    for (int i : {5, 6, 7}) allNormal = allNormal && normalFloat(st[i].value());
  }
  if (exitRec.size() == 7) {
    out.ops << "gexit " << (long long)exitRec[0].value() << " " << (long long)exitRec[1].value();
    for (int i = 2; i < 7; ++i) out.ops << " " << exitRec[i].str();
    out.ops << "\n";
    finiteInputs = finiteInputs && std::isfinite(exitRec[2].value());
    for (int i : {3, 4, 5}) allNormal = allNormal && normalFloat(exitRec[i].value());
  }
  out.ops << "gend " << seq << " " << how << "\n";
  out.count("loop_replay_cases");
  out.count("loop_replay_steps", (long long)steps.size());
  const long long n = steps.size();
  if (init.empty()) {
    out.impl << "loop " << seq << " exception iterations=0 updates=0 step=- init-none\n";
    out.count("loop_exit_exception_initial");
  } else if (!finiteInputs) {
    out.impl << "loop nonfinite-input\n";
    out.count("loop_nonfinite_input");
  } else {
    std::string ex, stepAt = "-";
    long long updates = 0;
    if (how == "throw") { ex = "exception"; updates = std::max(0LL, n - 1); }
    else if (exitRec.size() == 7 && exitRec[1].value() == 1.0) { ex = "steplimit"; updates = n; stepAt = std::to_string((long long)exitRec[0].value()); }
    else {
      long long why = n > 0 && steps[n - 1].size() == 10 ? (long long)steps[n - 1][9].value() : 0;
      ex = why == 1 ? "stop:nowirelength" : (why == 2 ? "stop:gap" : (why == 3 ? "stop:distance" : "stop:none"));
      updates = std::max(0LL, n - 1);
      if (exitRec.size() == 7) stepAt = std::to_string((long long)exitRec[0].value());
    }
    out.impl << "loop " << seq << " " << ex << " iterations=" << n << " updates=" << updates << " step=" << stepAt
             << " init-equal vars-equal pud-equal gap-equal " << (allNormal ? "bound-ok" : "bound-skipped") << "\n";
    out.count("loop_exit_" + ex);
    out.count(allNormal ? "loop_bound_checked" : "loop_bound_skipped_subnormal_or_overflow");
    if (seq.find('P') != std::string::npos) out.count("loop_with_penalty_update_callbacks");
  }
#else
  (void)init; (void)exitRec; (void)steps;
  out.count("loop_replay_unavailable_no_hook_H5");
#endif
}

// The rounding model of the Lean driver (GlobalLoop.Rounding.ieee) against the FPU, on the three expression shapes
// of GlobalPlacer::run: `f *= d` (float times double, stored to float), `d /= d`, `(ub - lb) / ub` in floats.
static void roundingCase(vh::Out &out, vh::Rng &g) {
  auto rndFloat = [&](int emin, int emax) {
    long long m = g.chance(1, 6) ? (1ll << g.range(0, 23)) : g.range(1, (1ll << 24) - 1);
    float f = std::ldexp((float)m, (int)g.range(emin, emax));
    return g.chance(1, 8) ? -f : f;
  };
  auto rndDouble = [&](int emin, int emax) {
    long long m = g.chance(1, 6) ? (1ll << g.range(0, 52)) : g.range(1, (1ll << 53) - 1);
    if (g.chance(1, 4)) m = (m >> 29) << 29;  // a double that is a float: short products, more ties
    if (m == 0) m = 1;
    double d = std::ldexp((double)m, (int)g.range(emin, emax));
    return g.chance(1, 8) ? -d : d;
  };
  int kind = g.range(0, 2);
  if (kind == 0) {
    int sel = g.range(0, 5);
    // results over the whole float range, subnormal and overflowing ones included
    volatile float a = sel == 0 ? rndFloat(-172, -140) : (sel == 1 ? rndFloat(80, 104) : rndFloat(-60, 60));
    static const double special[] = {1.0, 1.0 + 1.0 / 16777216.0, 1.0 - 1.0 / 33554432.0, 1.5, 0.5 + 1.0 / 33554432.0, 2.0 - 1.0 / 1048576.0, 0.8, 1.2};
    volatile double b = g.chance(1, 4) ? special[g.range(0, 7)] : (sel == 1 ? rndDouble(-30, -20) : rndDouble(-56, -50));
    volatile float r = a;
    r *= b;  // as `penalty_ *= params_.global.penalty.updateFactor`
    out.ops << "gmulfd " << dyTok(a) << " " << dyTok(b) << "\n";
    out.impl << "r " << dyTok(r) << "\n";
    float rr = r;
    out.count(std::isinf(rr) ? "rounding_mul_overflow" : (rr != 0 && std::fabs(rr) < std::ldexp(1.0f, -126) ? "rounding_mul_subnormal" : (rr == 0 ? "rounding_mul_zero" : "rounding_mul_normal")));
  } else if (kind == 1) {
    volatile double a = rndDouble(-70, -30), b = g.chance(1, 3) ? (double)g.range(1, 9) / 2.0 : std::fabs(rndDouble(-53, -50));
    volatile double r = a;
    r /= b;  // as `nextPenaltyUpdateDistance /= params_.global.penaltyUpdateBackoff`
    out.ops << "gdivd " << dyTok(a) << " " << dyTok(b) << "\n";
    out.impl << "r " << dyTok(r) << "\n";
    out.count("rounding_div_double");
  } else {
    volatile float lb = std::fabs(rndFloat(-30, 10)), ub = std::fabs(rndFloat(-30, 10));
    if (g.chance(1, 3)) lb = ub * (1.0f - 1.0f / (float)g.range(2, 5000));
    volatile float gap = (ub - lb) / ub;
    out.ops << "ggap " << dyTok(lb) << " " << dyTok(ub) << "\n";
    out.impl << "r " << dyTok(gap) << "\n";
    out.count("rounding_gap_float");
  }
}

static std::ofstream *digestOut = nullptr;  // "<case> <status> <loop steps> <zero wirelength> <digest>" per end-to-end case

static void oracleCase(vh::Out &out, uint64_t seed, long long k, bool bigger, const std::string &corpusFile = "") {
  Case cs;
  std::string id = "e" + std::to_string(k);
  if (corpusFile.empty()) {
    cs = genCase(seed, k, bigger);
    if (k % 16 == 7) {
      // side margins OUTSIDE the range the parameter check accepts since fix 07db192 (negative: the clipped rows would
      // extend beyond the rows; huge: the int margin overflows).  The property speaks about accepted parameter sets: the
      // set is either refused by ColoquinteParameters::check() (counted, nothing to demand) or the case goes on and
      // everything the property states is demanded of it.
      static const double outside[] = {-20.0, -3.0, -0.5, -1.0e-3, 150.0, 1.0e10};
      double v = outside[(k / 16) % 6];
      cs.params.global.roughLegalization.sideMargin = v;
      cs.desc += " [sideMargin overridden to " + vc::exactDouble(v) + "]";
      bool refused = false;
      try { cs.params.check(); } catch (const std::exception &) { refused = true; }
      if (refused) { out.count("e2e_side_margin_outside_accepted_range_refused_by_check"); return; }
      out.count("e2e_side_margin_outside_documented_range_ACCEPTED_by_check");
    }
  } else {
    std::vector<std::string> lines = vh::readLines(corpusFile);
    cs.circ = parseCircuit(lines);
    cs.params = ColoquinteParameters(3, 0);
    cs.params.global.maxNbSteps = 10;
    cs.effort = 3;
    cs.netKind = -1;
    for (const std::string &ln : lines) {  // optional "param <name> <value>" lines
      std::istringstream is(ln);
      std::string kw, name;
      double v;
      if (!(is >> kw >> name >> v) || kw != "param") continue;
      auto &gp = cs.params.global;
      if (name == "effort") { int sd = cs.params.seed; cs.params = ColoquinteParameters((int)v, sd); cs.params.global.maxNbSteps = 10; cs.effort = (int)v; }
      else if (name == "maxNbSteps") gp.maxNbSteps = (int)v;
      else if (name == "gapTolerance") gp.gapTolerance = v;
      else if (name == "distanceTolerance") gp.distanceTolerance = v;
      else if (name == "penalty.updateFactor") gp.penalty.updateFactor = v;
      else if (name == "penalty.initialValue") gp.penalty.initialValue = v;
    }
    cs.desc = "corpus " + corpusFile.substr(corpusFile.find_last_of('/') + 1) + " seed=0 (effort defaults except the param lines; steps=10 unless given) " +
              describeParams(cs.params, cs.effort, false);
    cs.info.rowHeight = cs.circ->nbRows() ? cs.circ->rows()[0].height() : 0;
    for (int i = 0; i < cs.circ->nbCells(); ++i) {
      if (cs.circ->isFixed(i)) cs.info.nFixed++;
      else { cs.info.nMovable++; if ((long long)cs.circ->cellWidth()[i] * cs.circ->cellHeight()[i] == 0) cs.nZeroArea++; }
    }
    id = "c" + std::to_string(k);
    out.count("e2e_corpus");
  }
  std::string input = "params: " + cs.desc + "\n" + vc::circuitString(*cs.circ) + cs.past;
  out.evaluations++;
  out.ops << "case " << id << "\n";
  out.impl << "case " << id << "\n";
  if (allRowsClippedAway(*cs.circ, cs.params.global.roughLegalization.sideMargin)) out.count("e2e_all_rows_clipped_away");
  std::string res, diag;
  *sharedProgress() = 0;
  std::string st = vh::isolated([&](std::ostream &os) { runPlacement(cs, os); }, res, 300, &diag);
  const auto &gp = cs.params.global;
  out.count("e2e_cases");
  if (!cs.past.empty()) {
    vc::countPast(out, "e2e_", cs.pastRecipe);
    if (cs.setupRowsShaped) out.count("e2e_past_rows_as_setupRows_produces");
  }
  out.count("e2e_effort_" + std::to_string(cs.effort));
  out.count(std::string("e2e_net_") + (gp.continuousModel.netModel == NetModelOption::Star ? "star" : "b2b"));
  out.count("e2e_cost_" + toString(gp.roughLegalization.costModel));
  out.count(std::string("e2e_blend_") + ((float)gp.exportBlending == 0.0f ? "0" : ((float)gp.exportBlending == 1.0f ? "1" : (gp.exportBlending < 0 || gp.exportBlending > 1 ? "outside01" : "inside01"))));
  out.count("e2e_rowheight_" + std::to_string(cs.info.rowHeight));
  out.count("e2e_movable_" + std::string(cs.info.nMovable <= 3 ? "1-3" : (cs.info.nMovable <= 8 ? "4-8" : "9+")));
  {
    static const char *nk[] = {"generic", "none", "degree1_only", "one_cell_per_net", "fixed_cells_only"};
    if (cs.netKind >= 0) out.count(std::string("e2e_nets_") + nk[cs.netKind]);
    int ms = gp.maxNbSteps;
    out.count(std::string("e2e_maxsteps_") + (ms <= 10 ? "1-10" : (ms <= 60 ? "11-60" : (ms < 400 ? "61-399" : "400"))));
    double uf = gp.penalty.updateFactor;
    out.count(std::string("e2e_updatefactor_") + (uf < 1.25 ? "1-1.25" : (uf < 1.5 ? "1.25-1.5" : (uf < 1.9 ? "1.5-1.9" : "1.9-2"))));
    if (gp.gapTolerance == 0.0) out.count("e2e_gap_test_disabled");
    if (gp.distanceTolerance == 0.0) out.count("e2e_distance_test_disabled");
    if (!std::isfinite(penaltyAfter(cs.params, gp.maxNbSteps - gp.nbInitialSteps))) out.count("e2e_penalty_would_overflow_at_step_limit");
  }
  if (cs.info.nFixed) out.count("e2e_with_fixed");
  if (cs.nZeroArea) out.count("e2e_with_zero_area_movable_cells");
  if (cs.redrawn) out.count("e2e_params_redrawn_after_check_rejection", cs.redrawn);
  if (cs.info.utilisation > 1.0) out.count("e2e_overfull");
  if (st != "ok") {
    // the child died: classify with the last progress it published (conservatively one step back)
    long long k = std::max(0LL, (long long)*sharedProgress() - 2);
    Drift d = driftAfter(cs.params, k);
    bool zw = false;  // unknown here (the log died with the child): decided structurally
    zw = cs.netKind == 1 || cs.netKind == 2;
    std::string kf = (d.outOfBox && !zw && st != "timeout") ? "KF-C06-1" : "";
    out.count(kf.empty() ? "e2e_failures_unclassified" : "e2e_failures_after_drift_out_of_numeric_box");
    out.fail(id, "placeGlobal did not complete: " + st + " [after at least " + std::to_string(k) + " updates of the loop variables: " + d.text + "] — " + diag.substr(0, 600), input, kf);
    if (digestOut) *digestOut << id << " " << st << " - - -\n";
    return;
  }
  std::istringstream is(res);
  std::string ln;
  bool stats = false;
  // the log line first: whether the run's wirelength was identically zero
  bool zeroWirelength = false;
  long long xUB = -1;
  {
    std::istringstream xs(res);
    std::string xl;
    while (std::getline(xs, xl)) {
      std::istringstream ss(xl.size() > 2 ? xl.substr(2) : "");
      long long a = 0, b = 0;
      if (xl.rfind("L ", 0) == 0) { ss >> a >> b; zeroWirelength = b != 0; }
      else if (xl.rfind("X ", 0) == 0) { ss >> a >> xUB; }
    }
  }
  emitLoopTie(out, cs, res);
  while (std::getline(is, ln)) {
    if (ln.rfind("F ", 0) == 0) {
      std::istringstream fs(ln.substr(2));
      long long fUB = 0, fLB = 0;
      fs >> fUB >> fLB;
      std::string what;
      std::getline(fs, what);
      if (!what.empty() && what[0] == ' ') what.erase(0, 1);
      // completed executions of the update block of GlobalPlacer::run when the failing state was
      // computed: exactly (UB callbacks - 1) for a lower-bound solve; for the other observation
      // points (UB callback, after return) the state comes from the previous solve: one less
      long long k = std::max(0LL, fLB ? fUB - 1 : fUB - 2);
      Drift d = driftAfter(cs.params, k);
      std::string kf = (d.outOfBox && !zeroWirelength) ? "KF-C06-1" : "";
      // KF-C06-2: the non-finite error raised by one of the solves without penalty (no UpperBound
      // callback yet) on a circuit with a floating group of movable cells
      bool floatingInitial = fLB && fUB == 0 && xUB == 0 && hasFloatingComponent(*cs.circ);
      if (kf.empty() && floatingInitial) kf = "KF-C06-2";
      out.count(kf.empty() ? "e2e_failures_unclassified" : (kf == "KF-C06-1" ? "e2e_failures_after_drift_out_of_numeric_box" : "e2e_failures_initial_solve_floating_group"));
      if (floatingInitial) what += " [raised by a solve without penalty; the circuit has a group of movable cells connected by nets without any fixed pin]";
      what += " [after " + std::to_string(k) + " updates of the loop variables: " + d.text + (zeroWirelength ? "; zero wirelength" : "") + "]";
      out.fail(id, what, input, kf);
    } else if (ln.rfind("L ", 0) == 0) {
      std::istringstream ss(ln.substr(2));
      long long nSteps, zero;
      std::string dg;
      ss >> nSteps >> zero >> dg;
      if (zero) out.count("e2e_zero_wirelength");
      out.count("e2e_loop_steps", nSteps);
      if (nSteps >= gp.maxNbSteps - gp.nbInitialSteps) out.count("e2e_ran_to_step_limit");
      if (nSteps == 1) out.count("e2e_stopped_at_first_step");
      out.dist["e2e_max_loop_steps"] = std::max(out.dist["e2e_max_loop_steps"], nSteps);
      if (xUB >= 0) out.count("e2e_raised");
      if (digestOut) *digestOut << id << " " << (xUB >= 0 ? "raised" : "ok") << " " << nSteps << " " << zero << " " << dg << "\n";
    } else if (ln.rfind("P ", 0) == 0) {
      // harness self-check, expected 0: the object with a past did not reach the case's public state (the case then ran on a fresh object)
      out.count("e2e_past_restore_mismatch");
      out.notes.push_back(id + ": " + ln.substr(2));
    } else if (ln.rfind("B ", 0) == 0) {
      out.ops << "blend " << dyadic((float)gp.exportBlending) << " " << ln.substr(2) << "\n";
      out.impl << "within\n";
    } else if (ln.rfind("S ", 0) == 0) {
      std::istringstream ss(ln.substr(2));
      long long nLB, nUB, nOther, maxAbs, moved;
      ss >> nLB >> nUB >> nOther >> maxAbs >> moved;
      stats = true;
      out.count("e2e_LB_callbacks", nLB);
      out.count("e2e_UB_callbacks", nUB);
      out.count("e2e_penalty_callbacks", nOther);
      out.dist["e2e_max_abs_coordinate"] = std::max(out.dist["e2e_max_abs_coordinate"], maxAbs);
      if (nUB >= 2 && moved > 0) out.nontrivial(vh::hashStr(input));
      if (moved > 0) out.count("e2e_LB_differs_from_UB");
    }
  }
  if (!stats) out.fail(id, "child produced no statistics line", input);
  out.sample(id + ": " + cs.desc);
}

int main(int argc, char **argv) {
  vh::Args a = vh::parseArgs(argc, argv);
  vh::Out out(a.out);
  // the streams (a), (a''), grid and rounding call the real code in-process: a sanitizer report or a failed assertion
  // there becomes an oracle failure naming the case (replayed by its id and the seed)
  vh::installCrashHandler(&out);
  out.rule = "(a) spreadCoordX/Y on generated grids/views/bin assignments (exact: power-of-two bin demand, rationals must be equal; "
             "approx: |float - rat| <= 2^-18(|lo|+|hi|+1)); non-trivial = a bin with >= 2 cells, distinct by op text. "
             "(a'') spreadCoordX/Y against the binary32 model SpreadF, every float compared exactly (families small/mixed/drift/witness, "
             "limits up to 2^22, demands up to INT_MAX, up to 301 cells per bin; non-trivial = a bin with >= 2 positive-demand cells; "
             "oracle: every positive-demand cell of a bin in the closed bin, every other cell in the placement area; witnesses of "
             "corpus/C06/kf3-spread-drift.txt replayed first; measured: spreadf_family_*, spreadf_coord_*_bin, spreadf_cells_in_no_bin). "
             "(b) Circuit::placeGlobal with callback on vc::genCircuit circuits whose rows are all >= 4 row heights wide (nets: generic / none / "
             "degree 1 / one cell per net / fixed cells only), parameters over all efforts/net models/cost models/window sizes/blendings, "
             "penalty.updateFactor over (1,2) with step limits up to the default 400, stop tolerances down to 0, distance update factors "
             "over [0.8,1.2], numerical knobs in the C06 box; non-trivial = at least two UB callbacks and last LB != last UB for some "
             "movable cell; distinct by circuit+parameter text; measured: e2e_zero_wirelength, e2e_stopped_at_first_step, "
             "e2e_ran_to_step_limit, e2e_penalty_would_overflow_at_step_limit, e2e_failures_*; one generated case in three on an object with a "
             "past (e2e_past_cases: built in a perturbed state, observers computeRows/computePlacementArea/hpwl/rowHeight/check called, "
             "restored through only the needed setters — e2e_past_only_<class>, e2e_past_restored_by_<setter>, "
             "e2e_past_restored_by_setupRows_alone —, same oracle). "
             "(c) per end-to-end case the control loop of GlobalPlacer::run against the Lean model GlobalLoop.run: callback order / outcome / "
             "iterations (loop_shape_cases), KF-C06-1 classifier verdicts (loop_drift_*), and with hook H5 the bit-for-bit replay of the "
             "logged floats (loop_replay_cases, loop_exit_*; loop_replay_unavailable_no_hook_H5 otherwise); rounding model vs FPU (rounding_*)";
  // replay: only the named case
  long long only = a.only;
  std::string onlyKind;
  if (!a.replay.empty()) {
    std::string all;
    for (auto &l : vh::readLines(a.replay)) all += l + "\n";
    size_t p = all.find("\"case\"");
    if (p != std::string::npos) {
      size_t q = all.find('"', all.find(':', p));
      size_t r = all.find('"', q + 1);
      std::string cid = all.substr(q + 1, r - q - 1);
      if (!cid.empty()) { onlyKind = cid.substr(0, 1); only = atoll(cid.c_str() + 1); }
    }
    size_t s = all.find("\"seed\"");
    if (s != std::string::npos) a.seed = strtoull(all.c_str() + all.find(':', s) + 1, nullptr, 10);
  }
  // (a)
  long long na = a.thorough() ? 20000 : (a.search() ? 3000 : 3000);
  for (long long i = 0; i < na; ++i) {
    if (only >= 0 && !(onlyKind == "s" && only == i)) continue;
    vh::Rng g = vh::Rng::forCase(a.seed, i);
    bool exact = (i % 2 == 0);
    std::string id = "s" + std::to_string(i);
    out.ops << "case " << id << "\n";
    out.impl << "case " << id << "\n";
    out.evaluations++;
    vh::setCase(id, "in-process case " + id + " of seed " + std::to_string(a.seed) + " (regenerated from its id)");
    out.beginCase();
    spreadCase(out, id, g, exact);
    out.endCase();
  }
  // (a'') binary32-exact spreading
  long long nf = a.thorough() ? 12000 : (a.search() ? 1500 : 1500);
  if (!a.corpus.empty()) loadSpreadWitnesses(a.corpus + "/kf3-spread-drift.txt");
  for (long long i = 0; i < nf; ++i) {
    if (only >= 0 && !(onlyKind == "f" && only == i)) continue;
    vh::Rng g = vh::Rng::forCase(a.seed, 4000000 + i);
    std::string id = "f" + std::to_string(i);
    out.ops << "case " << id << "\n";
    out.impl << "case " << id << "\n";
    out.evaluations++;
    vh::setCase(id, "in-process case " + id + " of seed " + std::to_string(a.seed) + " (regenerated from its id)");
    out.beginCase();
    spreadFCase(out, id, i, g);
    out.endCase();
  }
  // grid
  long long ng = a.thorough() ? 20000 : 2000;
  for (long long i = 0; i < ng; ++i) {
    if (only >= 0 && !(onlyKind == "g" && only == i)) continue;
    vh::Rng g = vh::Rng::forCase(a.seed, 2000000 + i);
    std::string id = "g" + std::to_string(i);
    out.ops << "case " << id << "\n";
    out.impl << "case " << id << "\n";
    out.evaluations++;
    vh::setCase(id, "in-process case " + id + " of seed " + std::to_string(a.seed) + " (regenerated from its id)");
    out.beginCase();
    gridCase(out, id, g);
    out.endCase();
  }
  // rounding model
  long long nr = a.thorough() ? 40000 : 4000;
  for (long long i = 0; i < nr; ++i) {
    if (only >= 0 && !(onlyKind == "r" && only == i)) continue;
    vh::Rng g = vh::Rng::forCase(a.seed, 3000000 + i);
    std::string id = "r" + std::to_string(i);
    out.ops << "case " << id << "\n";
    out.impl << "case " << id << "\n";
    out.evaluations++;
    vh::setCase("r" + std::to_string(i), "in-process case r" + std::to_string(i) + " of seed " + std::to_string(a.seed) + " (regenerated from its id)");
    roundingCase(out, g);
  }
  // (b) corpus witnesses first
  std::ofstream digestFile(a.out + "/e2e_digest.txt");
  digestOut = &digestFile;
  if (!a.corpus.empty()) {
    static const char *files[] = {"all-rows-clipped-away.circ", "tall-cell-rows-5H.circ", "zero-width-movable-cell.circ",
                                  "no-nets-400-steps.circ", "penalty-overflow-no-stop-test.circ",
                                  "floating-self-nets-default-params.circ"};
    long long ci = 0;
    for (const char *f : files) {
      std::string path = a.corpus + "/" + f;
      if (vh::readLines(path).empty()) { ++ci; continue; }
      if (only < 0 || (onlyKind == "c" && only == ci)) oracleCase(out, a.seed, ci, false, path);
      ++ci;
    }
  }
  // (b) generated cases; every case is seeded by (seed, k) alone, so the split over worker processes
  // (each with its own output directory, merged below) does not change what is run
  long long nb = a.thorough() ? 40000 : (a.search() ? 8000 : 5000);
  auto isBigger = [&](long long k) { return a.thorough() ? (k / 16) % 4 == 3 : (k / 16) % 8 == 7; };  // spread evenly over 16 workers
  if (only >= 0) {
    for (long long k = 0; k < nb; ++k)
      if (onlyKind == "e" && only == k) oracleCase(out, a.seed, k, isBigger(k));
  } else {
    int W = std::max(1u, std::min(16u, std::thread::hardware_concurrency()));
    out.ops.flush(); out.impl.flush(); out.oracle.flush(); digestFile.flush();
    std::vector<pid_t> pids;
    for (int w = 0; w < W; ++w) {
      std::string wd = a.out + "/w" + std::to_string(w);
      mkdir(wd.c_str(), 0700);
      pid_t pid = fork();
      if (pid == 0) {
        vh::Out wout(wd);
        std::ofstream wdig(wd + "/digest.txt");
        digestOut = &wdig;
        for (long long k = w; k < nb; k += W) oracleCase(wout, a.seed, k, isBigger(k));
        std::ofstream ex(wd + "/extras.txt");
        ex << "E " << wout.evaluations << "\n";
        for (auto &kv : wout.dist) ex << "D " << kv.second << " " << kv.first << "\n";
        for (uint64_t h : wout.distinctNontrivial) ex << "N " << h << "\n";
        for (auto &sm : wout.samples) ex << "S " << sm << "\n";
        ex.close();
        wdig.close();
        wout.finish();
        _exit(0);
      }
      pids.push_back(pid);
    }
    bool workersOk = true;
    for (pid_t pid : pids) { int st = 0; waitpid(pid, &st, 0); if (!(WIFEXITED(st) && WEXITSTATUS(st) == 0)) workersOk = false; }
    digestOut = &digestFile;
    for (int w = 0; w < W; ++w) {
      std::string wd = a.out + "/w" + std::to_string(w);
      for (auto &l : vh::readLines(wd + "/ops.txt")) out.ops << l << "\n";
      for (auto &l : vh::readLines(wd + "/impl.txt")) out.impl << l << "\n";
      for (auto &l : vh::readLines(wd + "/oracle.txt")) if (!l.empty()) { out.oracle << l << "\n"; ++out.failures; }
      for (auto &l : vh::readLines(wd + "/digest.txt")) digestFile << l << "\n";
      bool haveExtras = false;
      for (auto &l : vh::readLines(wd + "/extras.txt")) {
        haveExtras = true;
        std::istringstream is(l);
        std::string kw;
        is >> kw;
        if (kw == "E") { long long e; is >> e; out.evaluations += e; }
        else if (kw == "D") {
          long long v; std::string key; is >> v >> key;
          if (key.rfind("e2e_max_", 0) == 0) out.dist[key] = std::max(out.dist[key], v); else out.dist[key] += v;
        } else if (kw == "N") { uint64_t h; is >> h; out.nontrivial(h); }
        else if (kw == "S") out.sample(l.substr(2));
      }
      if (!haveExtras) workersOk = false;
      for (const char *f : {"/ops.txt", "/impl.txt", "/oracle.txt", "/digest.txt", "/extras.txt", "/stats.json"}) unlink((wd + f).c_str());
      rmdir(wd.c_str());
    }
    if (!workersOk) out.fail("workers", "an end-to-end worker process of the harness did not finish", "");
  }
  out.finish();
  return 0;
}
