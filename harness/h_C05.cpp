// C05 — detailed placement never worsens wirelength.
//
// End to end: Circuit::placeDetailed with a callback on random circuits of the C01 domain (all
// parameter sets, reordering on every other case).  Direct oracle: Circuit::hpwl() of the placements
// exposed at successive Detailed callbacks never increases, the returned placement's HPWL does not
// exceed the last callback's, nor the legalized one's (first Detailed callback = the legalized
// placement detailed placement starts from).
//
// One generated case in three runs Circuit::placeDetailed on an object with a PAST (common/past.hpp; family: state kept
// inside the Circuit between calls that a setter forgets to refresh, e.g. a memoised computeRows() / hpwl() not invalidated
// by setupRows / setNetWeights): built in a perturbed state, observers called, brought to the case's public state through
// only the needed setters.  legalize alone and the direct run (the references) stay on fresh objects, so the same oracle and
// the same correspondence apply (in particular: same move history as the direct run).  The recipe is part of the failure
// input and read back by --replay.
//
// Known finding KF-C05-1 (classifier `orientation_changing_move`): the optimiser's incremental net
// model freezes the pin offsets when it is built, although DetailedPlacement::place re-orients
// SAME/OPPOSITE cells that change rows.  An increase between an earlier and a later state is
// attributed to the finding iff the HPWL of the later state recomputed with every cell's *previous*
// orientation (the earlier state's) does not exceed the earlier HPWL.  Anything else is a violation.
//
// Correspondence: `hpwl0` lines tie the model's Circuit.hpwl to Circuit::hpwl() on every exposed
// placement; with hook H3 compiled in, the optimiser's move history is replayed on the model of the
// whole DetailedPlacer object (placement + the two IncrNetModels, Model/DetIncr.lean) and at every
// replayed step the model's incrementally maintained value, the from-scratch HPWL of its export and
// the "no orientation changed since construction" flag are compared with DetailedPlacer::value(),
// Circuit::hpwl() of the real export and the real flag (`val` / `hp` lines), in addition to the HPWL
// observed through Circuit::placeDetailed at every callback and on return (`hpwl` lines).
//
// The real values at every step come from a second, *direct* run of the body of DetailedPlacer::place
// (legalize; construct; run with the callback; check) on the same input, which gives the hook access
// to the DetailedPlacer object; its move log must be the one of the Circuit::placeDetailed run.
//
// Pass level (this replaces the move-by-move replay on cases with a usable direct run): the driver is
// not given the logged moves; it is told which pass starts (`pass_swaps a b`, `pass_reorder a b w`, and for the
// extra pass driven after run(), `pass_inserts a b`) and *generates* the moves with the model of the candidate
// enumeration (RowNeighbourhood, windows, scan: Model/DetSearch.lean) and of RowReordering's enumeration
// (Model/DetReorder.lean, DetReorderPass.lean).  The logged moves of the same pass are printed on the
// implementation side, so every move the real loops perform must be the move the model performs, in order,
// with the same value()/hpwl()/flag before it.  Shifts are still replayed from the log (lemon is not
// modelled), but the driver checks that every logged shift is on exactly the cells of the next window of
// runShifts as modelled (row groups, cells sorted by x when the group starts, overlapping windows).  With hook H3b (`h_window`, fixes/hook-h3b-reorder-log.diff) every reordering window — also
// those without a better order — is compared: registered cells, regions with their boundaries, number of
// evaluated leaves, best value, decision.  DetailedPlacer::run() never calls runInserts: the direct run
// drives `runInserts(localSearchNbRows, localSearchNbNeighbours)` once after run() (markers extra_inserts/extra_end).
//
// Second oracle (the classifier boundary of KF-C05-1 seen from the objective): whenever no cell has
// another orientation than at construction, DetailedPlacer::value() must equal Circuit::hpwl() of the
// export — at every callback and at every primitive move; and no logged shift may increase value()
// (the NetworkSimplex-optimality assumption of `Accepted.shift`).
#include <algorithm>
#include <climits>

#include "common/circuit.hpp"
#include "common/harness.hpp"
// the direct run reads placement_ / sets callback_ the way DetailedPlacer::place does
#define private public
#include "place_detailed/place_detailed.hpp"
#undef private
#include "detailed_common.hpp"

using namespace coloquinte;

// ------------------------------------------------------------------ the direct run

struct DirectRun {
  std::string status;              // ok | throw:… | abort | … | nohook
  std::vector<std::string> log;    // op lines, "cb", "val V H K", "hp H K"
};

#ifdef COLOQUINTE_VERIF_DETAILED_OPLOG
namespace direct {
static DetailedPlacer *placer = nullptr;
static Circuit *circuit = nullptr;
static std::vector<int> orient0;
static std::vector<std::string> *log = nullptr;

static std::string state(bool withValue) {
  Circuit tmp = *circuit;
  tmp.isInUse_ = false;
  placer->placement_.exportPlacement(tmp);
  bool kept = true;
  for (int i = 0; i < tmp.nbCells(); ++i)
    if ((int)tmp.cellOrientation_[i] != orient0[i]) kept = false;
  std::ostringstream os;
  if (withValue) os << "val " << placer->value() << " ";
  else os << "hp ";
  os << tmp.hpwl() << " " << (kept ? 1 : 0);
  return os.str();
}

static void hook(const char *kind, const int *args, int n) {
  if (!log || !placer) return;
  std::ostringstream os;
  os << kind;
  for (int i = 0; i < n; ++i) os << " " << args[i];
  std::string k = kind;
  // swap / insert / reorder are announced before the move, shift after it
  if (k == "h_swap" || k == "h_insert") log->push_back(state(true));
  else if (k == "h_reorder") log->push_back(state(false));  // the two models are mid-enumeration here
  log->push_back(os.str());
  if (k == "h_shift" || k == "h_window") log->push_back(state(true));  // h_window comes after writeback: in sync
}
}  // namespace direct
#endif

static DirectRun directRun(const Circuit &input, const vd::Params &prm, int timeoutSec = 120) {
  DirectRun r;
#ifdef COLOQUINTE_VERIF_DETAILED_OPLOG
  std::string txt, diag;
  std::string st = vh::isolated(
      [&](std::ostream &os) {
        vd::silenceStdout();
        Circuit c = input;
        std::vector<std::string> log;
        direct::log = &log;
        direct::circuit = &c;
        coloquinte::verif::onDetailedOp = &direct::hook;
        PlacementCallback cb = [&](PlacementStep s) {
          if (s != PlacementStep::Detailed) return;
          log.push_back("cb");
          if (direct::placer) {
            std::ostringstream v;
            bool kept = true;
            for (int i = 0; i < c.nbCells(); ++i)
              if ((int)c.cellOrientation_[i] != direct::orient0[i]) kept = false;
            // here the circuit *is* the export (DetailedPlacer::callback exported it)
            v << "val " << direct::placer->value() << " " << c.hpwl() << " " << (kept ? 1 : 0);
            log.push_back(v.str());
          }
        };
        std::string status = "ok";
        try {
          // the body of DetailedPlacer::place
          DetailedPlacer::legalize(c, prm.p, cb);
          prm.p.check();
          DetailedPlacer pl(c, prm.p);
          direct::orient0.clear();
          for (auto o : c.cellOrientation_) direct::orient0.push_back((int)o);
          direct::placer = &pl;
          log.push_back(direct::state(true));
          pl.callback_ = cb;
          pl.check();
          pl.run();
          pl.check();
          log.push_back(direct::state(true));
          {
            // extra: a pass run() never calls, on the state run() left
            std::ostringstream ex;
            ex << "extra_inserts " << prm.p.detailed.localSearchNbRows << " " << prm.p.detailed.localSearchNbNeighbours;
            log.push_back(ex.str());
            pl.runInserts(prm.p.detailed.localSearchNbRows, prm.p.detailed.localSearchNbNeighbours);
            log.push_back("extra_end");
            pl.check();
            log.push_back(direct::state(true));
          }
          direct::placer = nullptr;
          pl.exportPlacement(c);
        } catch (const std::exception &e) {
          status = vc::exClass(e);
        }
        os << "status " << status << "\n";
        for (auto &l : log) os << "log " << l << "\n";
      },
      txt, timeoutSec, &diag);
  r.status = st;
  if (st != "ok") return r;
  std::istringstream is(txt);
  std::string line;
  while (std::getline(is, line)) {
    if (line.rfind("status ", 0) == 0) r.status = line.substr(7);
    else if (line.rfind("log ", 0) == 0) r.log.push_back(line.substr(4));
  }
#else
  (void)input; (void)prm; (void)timeoutSec;
  r.status = "nohook";
#endif
  return r;
}

struct Runner {
  vh::Out &out;
  // pass-level tie (the model generates the moves) instead of the move-by-move replay
  bool usePassLevel = true;
  explicit Runner(vh::Out &o) : out(o) {}

  static Circuit mix(const Circuit &input, const vd::Snap &pos, const vd::Snap &orient) {
    vd::Snap s = pos;
    s.o = orient.o;
    return vd::withSnap(input, s);
  }

  // wantDirect: also do the direct run (value()/hpwl() at every move); every case in the quick and search
  // tiers, corpus and replays, every other pair of cases in the thorough tier (time budget)
  // Does this case get as far as the direct run?  (same tests as in `run` below)
  static bool reachesDirectRun(const Circuit &input, const vd::Run &r) {
    if (r.legalizeStatus != "ok") return false;
    if (!vc::checkLegal(vd::withSnap(input, r.legalized), false).empty()) return false;
    if (r.detailedStatus != "ok" || r.callbacks.empty()) return false;
    return r.hasHook;
  }

  // the forked part of a case as one string (computed by a worker process in the main loop)
  static std::string compute(const Circuit &input, const vd::Params &prm, bool wantDirect, const std::string &past = "") {
    vd::Run r = vd::runCase(input, prm, 120, past);
    std::string blob = vd::serializeRun(r);
    std::ostringstream os;
    os << blob.size() << "\n" << blob;
    if (wantDirect && reachesDirectRun(input, r)) {
      DirectRun d = directRun(input, prm);
      os << "direct " << d.status << "\n";
      for (auto &l : d.log) os << l << "\n";
    } else os << "nodirect\n";
    return os.str();
  }

  static bool parseBlob(const std::string &blob, vd::Run &r, bool &hasDirect, DirectRun &d) {
    size_t p1 = blob.find('\n');
    if (p1 == std::string::npos) return false;
    size_t len = (size_t)atoll(blob.substr(0, p1).c_str());
    if (p1 + 1 + len > blob.size()) return false;
    if (!vd::parseRun(blob.substr(p1 + 1, len), r)) return false;
    std::istringstream is(blob.substr(p1 + 1 + len));
    std::string line;
    if (!std::getline(is, line)) return false;
    hasDirect = line.rfind("direct ", 0) == 0;
    d = DirectRun();
    if (hasDirect) {
      d.status = line.substr(7);
      while (std::getline(is, line)) d.log.push_back(line);
    }
    return true;
  }

  void run(const std::string &id, const Circuit &input, const vd::Params &prm, bool wantDirect = true, const std::string &past = "") {
    run(id, input, prm, wantDirect, vd::runCase(input, prm, 120, past), nullptr, past);
  }

  // `r` = vd::runCase(input, prm); `pre` = directRun(input, prm) if it has been computed already
  // `past`: the recipe the placeDetailed run of `r` was given ("" = fresh object); it is part of the failure input
  void run(const std::string &id, const Circuit &input, const vd::Params &prm, bool wantDirect, const vd::Run &r,
           const DirectRun *pre, const std::string &past = "") {
    out.evaluations++;
    std::string inp = vd::caseString(input, prm) + past;
    if (!r.pastNote.empty()) {  // harness self-check, expected 0
      out.count("past_restore_mismatch");
      out.notes.push_back(id + ": " + r.pastNote);
    }
    out.count("legalize_" + r.legalizeStatus);
    out.count(prm.nonDefault ? "params_nondefault" : "params_effort");
    if (r.legalizeStatus != "ok") return;
    if (!vc::checkLegal(vd::withSnap(input, r.legalized), false).empty()) {
      out.count("skipped_legalization_result_illegal");
      return;
    }
    out.count("detailed_" + r.detailedStatus);
    if (r.detailedStatus != "ok" || r.callbacks.empty()) return;  // C02's business
    std::vector<const vd::Snap *> st;
    for (auto &s : r.callbacks) st.push_back(&s);
    st.push_back(&r.final);
    std::vector<long long> h;
    for (auto *s : st) h.push_back(vd::withSnap(input, *s).hpwl());
    bool anyOrientChange = false;
    for (size_t k = 1; k < st.size(); ++k)
      if (st[k]->o != st[0]->o) anyOrientChange = true;
    if (anyOrientChange) out.count("runs_with_orientation_change");
    // pairs to compare: successive states, and legalized vs returned
    std::vector<std::pair<size_t, size_t>> pairs;
    for (size_t k = 0; k + 1 < st.size(); ++k) pairs.push_back({k, k + 1});
    pairs.push_back({0, st.size() - 1});
    bool reported = false;
    for (auto &pr : pairs) {
      size_t a = pr.first, b = pr.second;
      out.count("hpwl_comparisons");
      if (h[b] <= h[a]) continue;
      std::string where = (b + 1 == st.size() ? std::string("on return") : "at Detailed callback " + std::to_string(b)) +
                          " vs " + (a == 0 ? std::string("the legalized placement") : "callback " + std::to_string(a));
      long long frozen = mix(input, *st[b], *st[a]).hpwl();
      std::ostringstream os;
      os << "HPWL increases from " << h[a] << " to " << h[b] << " " << where << " (with the previous orientations: " << frozen << ")";
      if (frozen <= h[a]) {
        out.count("kf_c05_1_increase");
        if (!reported) out.fail(id, os.str(), inp, "KF-C05-1");
      } else {
        // second chance within the same finding: orientations already differ from the ones the incremental
        // model was built with (state 0), and the model's own value (positions of the state, orientations of
        // state 0) did not increase
        long long fa = mix(input, *st[a], *st[0]).hpwl(), fb = mix(input, *st[b], *st[0]).hpwl();
        bool stale = st[a]->o != st[0]->o || st[b]->o != st[0]->o;
        if (stale && fb <= fa) {
          out.count("kf_c05_1_increase_stale_offsets");
          os << "; offsets frozen at construction: " << fa << " -> " << fb;
          if (!reported) out.fail(id, os.str(), inp, "KF-C05-1");
        } else {
          out.count("violation_increase");
          out.fail(id, os.str() + " — not explained by an orientation change", inp);
        }
      }
      reported = true;
    }
    if (h.back() < h[0]) {
      out.nontrivial(vh::hashStr(inp));
      out.count("runs_hpwl_decreased");
    } else if (h.back() == h[0]) out.count("runs_hpwl_unchanged");
    // ---- correspondence
    out.ops << "case " << id << "\n";
    out.impl << "case " << id << "\n";
    if (r.hasHook) {
      out.count("replayed_histories");
      // the direct run gives the real value() / hpwl() / orientation flag at every step; its move log
      // must be the one of the Circuit::placeDetailed run
      DirectRun d;
      if (wantDirect) d = pre ? *pre : directRun(input, prm);
      else d.status = "skipped";
      std::vector<std::string> movesOnly;
      for (const std::string &l : d.log) {
        if (l.rfind("extra_inserts", 0) == 0) break;  // what follows is not part of placeDetailed
        if (l.rfind("val ", 0) != 0 && l.rfind("hp ", 0) != 0) movesOnly.push_back(l);
      }
      bool useDirect = d.status == "ok" && movesOnly == r.oplog;
      out.count(useDirect ? "direct_run_same_history" : "direct_run_unusable_" + d.status);
      if (!useDirect && d.status == "ok")
        out.fail(id, "the move history of the body of DetailedPlacer::place differs from the one of Circuit::placeDetailed on the same input", inp);
      const std::vector<std::string> &lg = useDirect ? d.log : r.oplog;
      vc::dumpCircuit(out.ops, vd::withSnap(input, *st[0]));
      out.ops << "init\nhpwl\n";
      out.impl << "init ok\nhpwl " << h[0] << "\n";
      size_t cb = 0;
      bool haveLast = false, valueFailed = false;
      long long lastV = 0;
      bool lastWasShift = false;
      // the oracle on one "val V H K" line of the direct run
      auto checkVal = [&](const std::string &l) {
        long long V, H;
        int K;
        std::istringstream ls(l.substr(4));
        ls >> V >> H >> K;
        out.count("value_samples");
        if (K) {
          out.count("value_samples_orient_kept");
          if (V != H) {
            out.count("violation_value_ne_hpwl");
            if (!valueFailed)
              out.fail(id, "DetailedPlacer::value() = " + std::to_string(V) + " differs from Circuit::hpwl() = " + std::to_string(H) +
                               " of the exported placement although no cell's orientation changed since construction", inp);
            valueFailed = true;
          }
        } else if (V != H) out.count("value_ne_hpwl_after_orientation_change");
        if (lastWasShift) {
          out.count("shift_samples");
          if (haveLast && V > lastV) {
            out.count("violation_shift_increases_value");
            if (!valueFailed)
              out.fail(id, "a shift pass wrote positions that increase DetailedPlacer::value() from " + std::to_string(lastV) + " to " +
                               std::to_string(V) + " (NetworkSimplex optimality assumption)", inp);
            valueFailed = true;
          }
        }
        lastV = V;
        haveLast = true;
        lastWasShift = false;
      };
      // "h_window n c*n m (row pred next minPos maxPos)*m nbLeaves improvement hi lo" -> the driver's `win` line
      auto winLine = [&](const std::string &l) {
        std::istringstream ls(l.substr(9));
        std::vector<long long> a;
        long long x;
        while (ls >> x) a.push_back(x);
        std::ostringstream os;
        os << "win";
        if (a.size() >= 4) {
          for (size_t q = 0; q + 2 < a.size(); ++q) os << " " << a[q];
          os << " " << (a[a.size() - 2] * 2147483648LL + a[a.size() - 1]);
        }
        return os.str();
      };
      bool genPasses = useDirect && usePassLevel;
      bool finalDone = false;
      if (genPasses) {
        out.count("pass_level_histories");
        // the passes of DetailedPlacer::run(), each closed by a callback
        std::vector<char> phases;
        for (int i = 1; i <= prm.p.detailed.nbPasses; ++i) {
          phases.push_back('S');
          if (prm.p.detailed.shiftMaxNbCells >= 2) phases.push_back('H');
          if (prm.p.detailed.reorderingMaxNbCells >= 2) phases.push_back('R');
        }
        bool hasWin = false;
        for (const std::string &l : lg)
          if (l.rfind("h_window", 0) == 0) hasWin = true;
#ifdef COLOQUINTE_VERIF_DETAILED_OPLOG_WINDOWS
        hasWin = true;
#endif
        int phase = -1;          // index in `phases` of the running phase, -1 before run(), phases.size() after
        char kind = 0;           // kind of the running phase, 'I' for the extra runInserts pass, 0 none
        bool startAfterVal = false;
        long long moves = 0, windows = 0, shifts = 0;
        auto closePhase = [&]() {
          if (kind == 'S') out.impl << "pass_swaps done " << moves << "\n";
          else if (kind == 'I') out.impl << "pass_inserts done " << moves << "\n";
          else if (kind == 'R') out.impl << "pass_reorder done " << (hasWin ? windows : moves) << "\n";
          else if (kind == 'H') {
            // every runShiftsOnCells call of the pass was matched against the modelled windows
            out.ops << "pass_shifts_end\n";
            out.impl << "pass_shifts done " << shifts << "\n";
          }
          kind = 0;
        };
        auto startPhase = [&]() {
          ++phase;
          moves = windows = shifts = 0;
          if (phase >= (int)phases.size()) { kind = 0; return; }
          kind = phases[phase];
          // run() hands (localSearchNbNeighbours, localSearchNbRows) to runSwaps(int nbRows, int nbNeighbours)
          if (kind == 'S')
            out.ops << "pass_swaps " << prm.p.detailed.localSearchNbNeighbours << " " << prm.p.detailed.localSearchNbRows << "\n";
          else if (kind == 'H')
            out.ops << "pass_shifts " << prm.p.detailed.shiftNbRows << " " << prm.p.detailed.shiftMaxNbCells << "\n";
          else if (kind == 'R')
            out.ops << "pass_reorder " << prm.p.detailed.reorderingNbRows << " " << prm.p.detailed.reorderingMaxNbCells << " "
                    << (hasWin ? 1 : 0) << "\n";
          out.count(std::string("pass_") + kind);
        };
        for (const std::string &l : lg) {
          if (l == "cb") {
            closePhase();
            if (cb > 0 && cb < h.size()) {
              out.ops << "hpwl\n";
              out.impl << "hpwl " << h[cb] << "\n";
            }
            ++cb;
            lastWasShift = false;
            startAfterVal = true;
          } else if (l.rfind("val ", 0) == 0) {
            // inside a generated pass the driver prints the line itself; elsewhere it is asked for it
            bool generated = (kind == 'S' || kind == 'I' || kind == 'R') && !startAfterVal;
            if (!generated) out.ops << "val\n";
            out.impl << l << "\n";
            checkVal(l);
            if (startAfterVal) {
              startAfterVal = false;
              startPhase();
            }
          } else if (l.rfind("hp ", 0) == 0) {
            out.impl << l << "\n";   // generated by pass_reorder
          } else if (l.rfind("extra_inserts ", 0) == 0) {
            closePhase();
            // run() is over: the model's export is the returned placement
            out.ops << "hpwl\n";
            out.impl << "hpwl " << h.back() << "\n";
            finalDone = true;
            kind = 'I';
            moves = 0;
            out.ops << "pass_inserts " << l.substr(14) << "\n";
            out.count("pass_I");
          } else if (l == "extra_end") {
            closePhase();
          } else if (l.rfind("h_window", 0) == 0) {
            ++windows;
            out.count("reorder_windows");
            out.impl << winLine(l) << "\n";
          } else if (l.rfind("h_shift", 0) == 0) {
            out.ops << l << "\n";
            lastWasShift = true;
            ++shifts;
            out.count("logged_shifts");
          } else if (l.rfind("h_", 0) == 0) {
            // a move of a generated pass: the driver must produce it itself
            ++moves;
            out.count("generated_" + l.substr(2, l.find(' ') - 2));
            out.impl << "mv " << l.substr(2) << "\n";
          }
        }
        closePhase();
      } else
      for (const std::string &l : lg) {
        if (l.rfind("extra_", 0) == 0) break;
        if (l == "cb") {
          if (cb > 0 && cb < h.size()) {
            out.ops << "hpwl\n";
            out.impl << "hpwl " << h[cb] << "\n";
          }
          ++cb;
          lastWasShift = false;
        } else if (l.rfind("val ", 0) == 0 || l.rfind("hp ", 0) == 0) {
          bool isVal = l[0] == 'v';
          out.ops << (isVal ? "val" : "hp") << "\n";
          out.impl << l << "\n";
          if (!isVal) continue;
          checkVal(l);
        } else {
          out.ops << l << "\n";
          lastWasShift = l.rfind("h_shift", 0) == 0;
        }
      }
      if (!finalDone) {
      out.ops << "hpwl\n";
      out.impl << "hpwl " << h.back() << "\n";
      }
    } else {
      // value function only: the model's Circuit.hpwl on (a sample of) the exposed placements
      for (size_t k = 0; k < st.size(); k += std::max<size_t>(1, st.size() / 3)) {
        vc::dumpCircuit(out.ops, vd::withSnap(input, *st[k]));
        out.ops << "hpwl0\n";
        out.impl << "hpwl " << h[k] << "\n";
      }
    }
    out.sample(id + ": " + prm.str() + " hpwl " + std::to_string(h[0]) + " -> " + std::to_string(h.back()));
  }
};

static vc::GenOpts optsFor(long long k) {
  vc::GenOpts o;
  int m = k % 8;
  if (m == 1) { o.multiRow = false; o.turned = false; }
  if (m == 2) { o.turned = false; }
  if (m == 3) { o.polarities = false; }  // no orientation change possible: any increase is a violation
  if (m == 4) { o.maxCells = 8; o.maxRows = 3; }
  if (m == 5) { o.fixedCells = false; }
  if (m == 6) { o.maxUtil = 0.8; o.turned = false; }
  return o;
}

int main(int argc, char **argv) {
  vh::Args a = vh::parseArgs(argc, argv);
  vh::Out out(a.out);
  out.rule =
      "random circuit of the C01 domain with nets of degree 1..5 (repeated cells, pins outside the cell, fixed pins) "
      "+ parameters (effort 1..9 / non-default with reordering on alternate cases); placeDetailed with a callback; "
      "with hook H3 a second, direct run of the body of DetailedPlacer::place gives DetailedPlacer::value(), Circuit::hpwl() of "
      "the export and the orientation flag at every primitive move and callback (value_samples; value_samples_orient_kept must "
      "all have value == hpwl; shift_samples must not increase value); "
      "pass level (pass_level_histories): the driver is given only `pass_swaps/pass_reorder/pass_inserts` + the pass arguments and "
      "generates the moves with the model of the candidate enumeration and of RowReordering (generated_swap / generated_insert / "
      "generated_reorder = logged moves that the model had to reproduce, in order, with the value before each); the extra pass "
      "runInserts(localSearchNbRows, localSearchNbNeighbours) is driven after run() (pass_I); with hook H3b reorder_windows = windows "
      "whose cells, region boundaries, number of evaluated leaves, best value and decision were compared; "
      "one generated case in three runs placeDetailed on an object with a past (past_cases: built in a perturbed state, observers "
      "computeRows/computePlacementArea/hpwl/rowHeight/check called, restored through only the needed setters — past_only_<class>, "
      "past_restored_by_<setter>, past_restored_by_setupRows_alone; half of them on rows as setupRows produces them; legalize alone "
      "and the direct run stay on fresh objects), same oracle, correspondence and replay; "
      "non-trivial = the returned HPWL is strictly below the legalized one; distinct by input text";
  Runner rn(out);
  auto runText = [&](const std::string &id, const std::string &text) {
    Circuit c(0);
    vd::Params p;
    if (!vd::parseCase(text, c, p)) {
      out.notes.push_back("could not parse case " + id);
      return;
    }
    rn.run(id, c, p, true, vc::pastBlock(text));
  };
  if (!a.replay.empty()) {
    std::string text = vd::jsonField(vd::readFile(a.replay), "input");
    if (text.empty()) text = vd::readFile(a.replay);
    runText("replay", text);
    out.finish();
    return 0;
  }
  if (!a.corpus.empty()) {
    for (int i = 0; i < 200; ++i) {
      std::string text = vd::readFile(a.corpus + "/w" + std::to_string(i) + ".txt");
      if (text.empty()) break;
      long long before = out.dist["kf_c05_1_increase"] + out.dist["kf_c05_1_increase_stale_offsets"];
      runText("corpus-w" + std::to_string(i), text);
      long long after = out.dist["kf_c05_1_increase"] + out.dist["kf_c05_1_increase_stale_offsets"];
      out.count("corpus");
      if (i == 0 && after == before)
        out.notes.push_back("the KF-C05-1 witness corpus/C05/w0.txt no longer shows an HPWL increase (finding repaired?)");
    }
  }
  long long n = a.thorough() ? 40000 : (a.search() ? 15000 : 2500);
  // The forked part of every case runs in worker processes on all cores (vd::ParallelBlobs); the parent
  // consumes the results in case order, so the streams are those of a sequential run.
  struct PastOf { bool has = false, shaped = false; vc::Past recipe; std::string text; };
  auto genCase = [&](long long k, Circuit &c, vd::Params &p, PastOf &po) {
    vh::Rng g = vh::Rng::forCase(a.seed ^ 0xc05, k);
    vc::GenOpts o = optsFor(k);
    c = vc::genCircuit(g, o);
    p = vd::genParams(g, k % 2 == 1);
    // one case in eight lives far from the origin (|offset| up to 2^26, beyond the 2^24 integers a binary32 holds):
    // the property is about every circuit of the C01 domain, and wirelength bookkeeping must not depend on where the die is
    if (k % 8 == 5) {
      long long dx = g.range(-(1ll << 26), 1ll << 26), dy = g.range(-(1ll << 26), 1ll << 26);
      std::vector<int> x = c.cellX(), y = c.cellY();
      for (auto &v : x) v += dx;
      for (auto &v : y) v += dy;
      std::vector<Row> rows = c.rows();
      for (auto &r : rows) { r.minX += dx; r.maxX += dx; r.minY += dy; r.maxY += dy; }
      c.setCellX(x); c.setCellY(y); c.setRows(rows);
    }
    // one case in four: net weights other than 1, zero included (accepted by addNet/setNets/setNetWeights).  The property is
    // about the half-perimeter wirelength, which counts every net once whatever its weight: a detailed placer that leaves
    // zero-weight nets out of its objective moves cells against them
    if (k % 4 == 3 && c.nbNets() > 0) {
      vh::Rng gw = vh::Rng::forCase(a.seed ^ 0x3e167ull, k);
      static const float ws[] = {0.0f, 0.0f, 0.25f, 1.0f, 2.75f};
      std::vector<float> w(c.nbNets());
      for (auto &v : w) v = ws[gw.range(0, 4)];
      w[gw.range(0, (long long)w.size() - 1)] = 0.0f;
      c.setNetWeights(w);
    }
    // one case in three: an object with a past, from a stream of its own (the circuits of the other cases are what they
    // were); half of them on rows as setupRows produces them (still the C01 domain: uniform disjoint rows, only wider)
    po = PastOf();
    if (k % 3 == 1) {
      vh::Rng gp = vh::Rng::forCase(a.seed ^ 0x9a57c05ull, k);
      po.has = true;
      po.shaped = gp.chance(1, 2) && vc::setupShapedRows(gp, c);
      po.recipe = vc::genPast(gp, c);
      po.text = po.recipe.text();
    }
  };
  auto countPastOf = [&](const PastOf &po) {
    if (!po.has) return;
    vc::countPast(out, "", po.recipe);
    if (po.shaped) out.count("past_rows_as_setupRows_produces");
  };
  auto wantDirect = [&](long long k) { return !a.thorough() || ((k >> 1) & 1) == 0; };
  if (a.only >= 0) {
    if (a.only < n) {
      Circuit c(0);
      vd::Params p;
      PastOf po;
      genCase(a.only, c, p, po);
      countPastOf(po);
      rn.run("h" + std::to_string(a.only), c, p, wantDirect(a.only), po.text);
    }
  } else {
    vd::ParallelBlobs par(a.out + "/par-h-", n, vd::ParallelBlobs::defaultWorkers(), [&](long long k) {
      Circuit c(0);
      vd::Params p;
      PastOf po;
      genCase(k, c, p, po);
      return Runner::compute(c, p, wantDirect(k), po.text);
    });
    for (long long k = 0; k < n; ++k) {
      Circuit c(0);
      vd::Params p;
      PastOf po;
      genCase(k, c, p, po);
      countPastOf(po);
      std::string blob;
      vd::Run r;
      DirectRun d;
      bool hasDirect = false;
      if (par.get(k, blob) && Runner::parseBlob(blob, r, hasDirect, d))
        rn.run("h" + std::to_string(k), c, p, wantDirect(k), r, hasDirect ? &d : nullptr, po.text);
      else {
        out.count("recomputed_in_parent");
        rn.run("h" + std::to_string(k), c, p, wantDirect(k), po.text);
      }
    }
  }
  out.finish();
  return 0;
}
