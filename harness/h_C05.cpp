// C05 — detailed placement never worsens wirelength.
//
// End to end: Circuit::placeDetailed with a callback on random circuits of the C01 domain (all
// parameter sets, reordering on every other case).  Direct oracle: Circuit::hpwl() of the placements
// exposed at successive Detailed callbacks never increases, the returned placement's HPWL does not
// exceed the last callback's, nor the legalized one's (first Detailed callback = the legalized
// placement detailed placement starts from).
//
// Known finding KF-C05-1 (classifier `orientation_changing_move`): the optimiser's incremental net
// model freezes the pin offsets when it is built, although DetailedPlacement::place re-orients
// SAME/OPPOSITE cells that change rows.  An increase between an earlier and a later state is
// attributed to the finding iff the HPWL of the later state recomputed with every cell's *previous*
// orientation (the earlier state's) does not exceed the earlier HPWL.  Anything else is a violation.
//
// Correspondence: `hpwl0` lines tie the model's Circuit.hpwl to Circuit::hpwl() on every exposed
// placement; with hook H3 compiled in, the optimiser's move history is replayed on the DetPlace model
// and the HPWL of the model's export is compared at every callback and on return.
#include <algorithm>
#include <climits>

#include "common/circuit.hpp"
#include "common/harness.hpp"
#include "detailed_common.hpp"

using namespace coloquinte;

struct Runner {
  vh::Out &out;
  explicit Runner(vh::Out &o) : out(o) {}

  static Circuit mix(const Circuit &input, const vd::Snap &pos, const vd::Snap &orient) {
    vd::Snap s = pos;
    s.o = orient.o;
    return vd::withSnap(input, s);
  }

  void run(const std::string &id, const Circuit &input, const vd::Params &prm) {
    out.evaluations++;
    std::string inp = vd::caseString(input, prm);
    vd::Run r = vd::runCase(input, prm);
    out.count("legalize_" + r.legalizeStatus);
    out.count(prm.nonDefault ? "params_nondefault" : "params_effort");
    if (r.legalizeStatus != "ok") return;
    if (!vc::checkLegal(vd::withSnap(input, r.legalized), false).empty()) {
      out.count("skipped_legalization_result_illegal");
      return;
    }
    out.count("detailed_" + r.detailedStatus);
    if (r.detailedStatus != "ok" || r.callbacks.empty()) return;  // C02's business
    std::vector<const vd::Snap *> st;
    for (auto &s : r.callbacks) st.push_back(&s);
    st.push_back(&r.final);
    std::vector<long long> h;
    for (auto *s : st) h.push_back(vd::withSnap(input, *s).hpwl());
    bool anyOrientChange = false;
    for (size_t k = 1; k < st.size(); ++k)
      if (st[k]->o != st[0]->o) anyOrientChange = true;
    if (anyOrientChange) out.count("runs_with_orientation_change");
    // pairs to compare: successive states, and legalized vs returned
    std::vector<std::pair<size_t, size_t>> pairs;
    for (size_t k = 0; k + 1 < st.size(); ++k) pairs.push_back({k, k + 1});
    pairs.push_back({0, st.size() - 1});
    bool reported = false;
    for (auto &pr : pairs) {
      size_t a = pr.first, b = pr.second;
      out.count("hpwl_comparisons");
      if (h[b] <= h[a]) continue;
      std::string where = (b + 1 == st.size() ? std::string("on return") : "at Detailed callback " + std::to_string(b)) +
                          " vs " + (a == 0 ? std::string("the legalized placement") : "callback " + std::to_string(a));
      long long frozen = mix(input, *st[b], *st[a]).hpwl();
      std::ostringstream os;
      os << "HPWL increases from " << h[a] << " to " << h[b] << " " << where << " (with the previous orientations: " << frozen << ")";
      if (frozen <= h[a]) {
        out.count("kf_c05_1_increase");
        if (!reported) out.fail(id, os.str(), inp, "KF-C05-1");
      } else {
        // second chance within the same finding: orientations already differ from the ones the incremental
        // model was built with (state 0), and the model's own value (positions of the state, orientations of
        // state 0) did not increase
        long long fa = mix(input, *st[a], *st[0]).hpwl(), fb = mix(input, *st[b], *st[0]).hpwl();
        bool stale = st[a]->o != st[0]->o || st[b]->o != st[0]->o;
        if (stale && fb <= fa) {
          out.count("kf_c05_1_increase_stale_offsets");
          os << "; offsets frozen at construction: " << fa << " -> " << fb;
          if (!reported) out.fail(id, os.str(), inp, "KF-C05-1");
        } else {
          out.count("violation_increase");
          out.fail(id, os.str() + " — not explained by an orientation change", inp);
        }
      }
      reported = true;
    }
    if (h.back() < h[0]) {
      out.nontrivial(vh::hashStr(inp));
      out.count("runs_hpwl_decreased");
    } else if (h.back() == h[0]) out.count("runs_hpwl_unchanged");
    // ---- correspondence
    out.ops << "case " << id << "\n";
    out.impl << "case " << id << "\n";
    if (r.hasHook) {
      out.count("replayed_histories");
      vc::dumpCircuit(out.ops, vd::withSnap(input, *st[0]));
      out.ops << "init\nhpwl\n";
      out.impl << "init ok\nhpwl " << h[0] << "\n";
      size_t cb = 0;
      for (const std::string &l : r.oplog) {
        if (l == "cb") {
          if (cb > 0) {
            out.ops << "hpwl\n";
            out.impl << "hpwl " << h[cb] << "\n";
          }
          ++cb;
        } else out.ops << l << "\n";
      }
      out.ops << "hpwl\n";
      out.impl << "hpwl " << h.back() << "\n";
    } else {
      // value function only: the model's Circuit.hpwl on (a sample of) the exposed placements
      for (size_t k = 0; k < st.size(); k += std::max<size_t>(1, st.size() / 3)) {
        vc::dumpCircuit(out.ops, vd::withSnap(input, *st[k]));
        out.ops << "hpwl0\n";
        out.impl << "hpwl " << h[k] << "\n";
      }
    }
    out.sample(id + ": " + prm.str() + " hpwl " + std::to_string(h[0]) + " -> " + std::to_string(h.back()));
  }
};

static vc::GenOpts optsFor(long long k) {
  vc::GenOpts o;
  int m = k % 8;
  if (m == 1) { o.multiRow = false; o.turned = false; }
  if (m == 2) { o.turned = false; }
  if (m == 3) { o.polarities = false; }  // no orientation change possible: any increase is a violation
  if (m == 4) { o.maxCells = 8; o.maxRows = 3; }
  if (m == 5) { o.fixedCells = false; }
  if (m == 6) { o.maxUtil = 0.8; o.turned = false; }
  return o;
}

int main(int argc, char **argv) {
  vh::Args a = vh::parseArgs(argc, argv);
  vh::Out out(a.out);
  out.rule =
      "random circuit of the C01 domain with nets of degree 1..5 (repeated cells, pins outside the cell, fixed pins) "
      "+ parameters (effort 1..9 / non-default with reordering on alternate cases); placeDetailed with a callback; "
      "non-trivial = the returned HPWL is strictly below the legalized one; distinct by input text";
  Runner rn(out);
  auto runText = [&](const std::string &id, const std::string &text) {
    Circuit c(0);
    vd::Params p;
    if (!vd::parseCase(text, c, p)) {
      out.notes.push_back("could not parse case " + id);
      return;
    }
    rn.run(id, c, p);
  };
  if (!a.replay.empty()) {
    std::string text = vd::jsonField(vd::readFile(a.replay), "input");
    if (text.empty()) text = vd::readFile(a.replay);
    runText("replay", text);
    out.finish();
    return 0;
  }
  if (!a.corpus.empty()) {
    for (int i = 0; i < 200; ++i) {
      std::string text = vd::readFile(a.corpus + "/w" + std::to_string(i) + ".txt");
      if (text.empty()) break;
      long long before = out.dist["kf_c05_1_increase"] + out.dist["kf_c05_1_increase_stale_offsets"];
      runText("corpus-w" + std::to_string(i), text);
      long long after = out.dist["kf_c05_1_increase"] + out.dist["kf_c05_1_increase_stale_offsets"];
      out.count("corpus");
      if (i == 0 && after == before)
        out.notes.push_back("the KF-C05-1 witness corpus/C05/w0.txt no longer shows an HPWL increase (finding repaired?)");
    }
  }
  long long n = a.thorough() ? 40000 : (a.search() ? 15000 : 2500);
  for (long long k = 0; k < n; ++k) {
    if (a.only >= 0 && k != a.only) continue;
    vh::Rng g = vh::Rng::forCase(a.seed ^ 0xc05, k);
    vc::GenOpts o = optsFor(k);
    Circuit c = vc::genCircuit(g, o);
    vd::Params p = vd::genParams(g, k % 2 == 1);
    rn.run("h" + std::to_string(k), c, p);
  }
  out.finish();
  return 0;
}
