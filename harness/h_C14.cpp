// C14 — correspondence + direct oracle for Transportation1d (src/place_global/transportation_1d.*).
//
// For each generated instance (u, v, s, d) the real code runs, inside a forked
// child (batches; a sanitizer abort or signal is attributed to the case that was
// running and becomes an oracle failure with the instance as replay):
//     [balanceDemand();]  solve();  assign();
// and prints the answers; the Lean driver replays the same op lines on the model
// (and, on `cert`, checks its own plan against the verified optimality certificate; on `loc` —
// every case — checks the positions of the sweep against the verified local certificate `ivCertOk`).
// Direct oracle (independent code, evaluates the statement of C14):
//   * balanceDemand: total demand >= total supply afterwards, demands only grow, nothing else changes
//   * solve: entries in range and positive, every supply met exactly, no demand exceeded,
//     total cost == exact optimum computed by an independent algorithm (non-crossing DP over
//     unit supplies/unit slots sorted by position; for instances scaled by K, K * optimum of the base)
//   * assign: one entry per source, each a sink of positive demand (when one exists); every source
//     with positive supply that the plan sends to a single sink gets that sink or one at the same position
//   * no sanitizer report / crash / unexpected exception
//
// Self-checks (`Model/Transp1dChecks.lean`).  On every instance the op `full` compares `solve()` WITH
// its internal checks (`check`, `solver.check`, `checkSolutionValid`, `checkSolutionOptimal`) with the
// model's `solveFull`, including WHICH exception is thrown (the message is mapped to a site tag).
// A second stream of "raw" cases (`rpb`: the four vectors may have different sizes) drives the check
// functions themselves with malformed inputs — size mismatches, negative supplies/demands, supply >
// demand, unsorted positions, zero capacities, empty sides, several defects at once (order of the
// tests) — through `Transportation1d::check()` (`chk`), `Transportation1dSolver(u,v,s,d).check()`
// (`schk`, no sorter in front) and `solve()` (`full`); and, on valid sorted zero-free instances,
// `checkSolutionValid` (`val`) / `checkSolutionOptimal` (`opt`) with the solver's own solution and
// mutations of it (dropped / duplicated entries, amounts +-1, entries moved to a neighbouring sink or
// another source, the reverse greedy plan).  Only calls that are memory-safe by inspection are made
// (indices of mutated solutions stay in range; `opt` only with all demands positive, where the
// LLONG_MIN sentinel is never read); everything runs in the forked child anyway.
// Oracle on raw cases (nothing is demanded on malformed input): a valid instance must pass check()
// and solve(); the solver's own solution must pass both solution checks.
#include <algorithm>
#include <climits>
#include <numeric>

#include "common/harness.hpp"
#include "place_global/transportation_1d.hpp"

typedef long long ll;

struct Inst {
  std::string id;
  std::vector<ll> u, v, s, d;
  bool balance = false;
  bool cert = false;
  bool raw = false;       // raw check case: sizes of u, v, s, d are independent
  uint64_t mseed = 0;     // raw: seed of the solution mutations (drawn in the child)
  ll scale = 1;  // quantities are `scale` times those of a base instance (for the optimum oracle)
  bool huge = false;  // scaled so that the totals pass 2^31
  bool extreme = false;  // totals between 2^62 and 2^63
  std::string str() const {
    std::ostringstream os;
    if (raw) {
      os << "raw " << mseed << " " << u.size() << " " << v.size() << " " << s.size() << " " << d.size() << " " << vh::join(u)
         << " | " << vh::join(v) << " | " << vh::join(s) << " | " << vh::join(d);
      return os.str();
    }
    os << u.size() << " " << v.size() << " " << vh::join(u) << " | " << vh::join(v) << " | " << vh::join(s) << " | "
       << vh::join(d) << (balance ? " | balance" : "");
    return os.str();
  }
  std::string pbLine() const {
    std::ostringstream os;
    if (raw) os << "rpb " << u.size() << " " << v.size() << " " << s.size() << " " << d.size();
    else os << "pb " << u.size() << " " << v.size();
    for (ll x : u) os << " " << x;
    for (ll x : v) os << " " << x;
    for (ll x : s) os << " " << x;
    for (ll x : d) os << " " << x;
    return os.str();
  }
};

static ll sum(const std::vector<ll> &a) { return std::accumulate(a.begin(), a.end(), 0ll); }

// Exact optimum of  min sum a_ij |u_i - v_j|, rows = s, columns <= d  (needs sum s <= sum d):
// split into unit supplies / unit slots, sort both by position; for the convex cost |x - y| some
// optimal matching of the units into the slots is order preserving, so
//   f[a][b] = min(f[a][b-1], f[a-1][b-1] + |x_a - y_b|).
// Quantities are divided by `scale` first (they are all multiples of it); returns -1 when too large.
static ll exactOptimum(const Inst &in, const std::vector<ll> &d, ll limit) {
  std::vector<ll> xs, ys;
  ll K = in.scale;
  ll ts = sum(in.s) / K, td = sum(d) / K;
  if (ts * (td + 1) > limit) return -1;
  for (size_t i = 0; i < in.u.size(); ++i)
    for (ll k = 0; k < in.s[i] / K; ++k) xs.push_back(in.u[i]);
  for (size_t j = 0; j < in.v.size(); ++j)
    for (ll k = 0; k < d[j] / K; ++k) ys.push_back(in.v[j]);
  std::sort(xs.begin(), xs.end());
  std::sort(ys.begin(), ys.end());
  const ll INF = LLONG_MAX / 4;
  size_t A = xs.size(), B = ys.size();
  std::vector<ll> prev(B + 1, 0), cur(B + 1);
  for (size_t a = 1; a <= A; ++a) {
    cur[0] = INF;
    for (size_t b = 1; b <= B; ++b) {
      ll best = cur[b - 1];
      if (prev[b - 1] < INF) best = std::min(best, prev[b - 1] + std::llabs(xs[a - 1] - ys[b - 1]));
      cur[b] = best;
    }
    prev = cur;
  }
  return prev[B] >= INF ? -2 : prev[B] * K;
}

// message of the exception -> site tag (constructor names of `Site` in Model/Transp1dChecks.lean)
static std::string siteOf(const std::string &w) {
  static const char *tab[][2] = {
      {"Inconsistant source positions", "srcPosSize"}, {"Inconsistant sink positions", "snkPosSize"},
      {"Inconsistant supplies", "supSize"}, {"Inconsistant demands", "demSize"},
      {"Supplies must be non-negative", "supNeg"}, {"Demands must be non-negative", "demNeg"},
      {"The supply should be no larger than the demand", "supGtDem"},
      {"Inconsistant total supplies", "totSupSize"}, {"Inconsistant total demands", "totDemSize"},
      {"Too many positions computed", "tooManyPos"}, {"Source positions should be sorted", "srcUnsorted"},
      {"Sink positions should be sorted", "snkUnsorted"}, {"Supplies must be non-zero", "supZero"},
      {"Demands must be non-zero", "demZero"}, {"Allocation should be positive", "allocNonPos"},
      {"Supply is not met", "supNotMet"}, {"Demand is not met", "demExceeded"},
      {"Found an improving right move", "improvingRight"}, {"Found an improving left move", "improvingLeft"}};
  for (auto &t : tab)
    if (w == t[0]) return t[1];
  return "unknown:" + w;
}

// run `f`, report `tag ok` or `tag throw:runtime_error <site>`; returns the site ("" when no throw)
template <class F>
static std::string guarded(std::ostream &os, const std::string &tag, const std::string &cnt, F f) {
  try {
    f();
    os << "I " << tag << " ok\n";
    os << "C " << cnt << "_ok\n";
    return "";
  } catch (const std::runtime_error &e) {
    std::string st = siteOf(e.what());
    os << "I " << tag << " throw:runtime_error " << st << "\n";
    os << "C " << cnt << "_throw_" << st << "\n";
    return st;
  }
}

typedef Transportation1d::Solution Sol;

static std::string solWords(const Sol &sol) {
  std::ostringstream l;
  l << sol.size();
  for (auto [i, j, a] : sol) l << " " << i << " " << j << " " << a;
  return l.str();
}

// raw check case (see the header)
static void runRaw(const Inst &in, std::ostream &os) {
  os << "I case " << in.id << "\n";
  auto fail = [&](const std::string &w) { os << "F " << w << "\n"; };
  size_t n = in.u.size(), m = in.v.size();
  bool sizes = in.s.size() == n && in.d.size() == m;
  bool nonneg = true, pos = true, sorted = true;
  for (ll c : in.s) { nonneg = nonneg && c >= 0; pos = pos && c > 0; }
  for (ll c : in.d) { nonneg = nonneg && c >= 0; pos = pos && c > 0; }
  for (size_t i = 0; i + 1 < n; ++i) sorted = sorted && in.u[i] <= in.u[i + 1];
  for (size_t j = 0; j + 1 < m; ++j) sorted = sorted && in.v[j] <= in.v[j + 1];
  bool inDomain = sizes && nonneg && sum(in.s) <= sum(in.d);
  os << "C " << (inDomain ? (sorted && pos ? "raw_valid_sorted_zero_free" : "raw_valid") : "raw_malformed") << "\n";
  std::string st = guarded(os, "chk", "raw_chk", [&] { Transportation1d(in.u, in.v, in.s, in.d).check(); });
  if (inDomain && !st.empty()) fail("check() rejected a valid instance: " + st);
  guarded(os, "schk", "raw_schk", [&] {
    Transportation1dSolver sv(std::vector<ll>(in.u), std::vector<ll>(in.v), std::vector<ll>(in.s), std::vector<ll>(in.d));
    sv.check();
  });
  try {
    Sol sol = Transportation1d(in.u, in.v, in.s, in.d).solve();
    os << "I full";
    for (auto [i, j, a] : sol) os << " " << i << " " << j << " " << a;
    os << "\n";
    os << "C raw_full_ok\n";
  } catch (const std::runtime_error &e) {
    std::string s2 = siteOf(e.what());
    os << "I full throw:runtime_error " << s2 << "\n";
    os << "C raw_full_throw_" << s2 << "\n";
    if (inDomain) fail("solve() threw on a valid instance: " + s2);
  }
  if (!(inDomain && sorted && pos && n > 0 && m > 0)) { os << "E\n"; return; }
  // the solver's own solution and mutations of it
  Transportation1dSolver sv(std::vector<ll>(in.u), std::vector<ll>(in.v), std::vector<ll>(in.s), std::vector<ll>(in.d));
  sv.run();
  Sol base = sv.computeSolution();
  {
    // the solver object is a public class: running it again must give the same (optimal) plan and assignment --
    // nothing may be left over from the previous sweep
    std::vector<int> asg = sv.computeAssignment();
    sv.run();
    os << "C solver_object_run_twice\n";
    if (sv.computeSolution() != base) fail("Transportation1dSolver::run() called a second time on the same object returns a different plan");
    if (sv.computeAssignment() != asg) fail("Transportation1dSolver::run() called a second time on the same object returns a different assignment");
    sv.run();
    if (sv.computeSolution() != base) fail("Transportation1dSolver::run() called a third time on the same object returns a different plan");
  }
  vh::Rng g = vh::Rng::forCase(in.mseed, 0);
  auto mutate = [&](Sol sol) {
    int k = g.range(1, 3);
    for (int t = 0; t < k; ++t) {
      int what = g.range(0, 6);
      if (sol.empty()) { sol.emplace_back((int)g.range(0, n - 1), (int)g.range(0, m - 1), g.range(-1, 3)); continue; }
      size_t e = g.range(0, sol.size() - 1);
      auto &[i, j, a] = sol[e];
      if (what == 0) sol.erase(sol.begin() + e);
      else if (what == 1) a += g.chance(1, 2) ? 1 : -1;
      else if (what == 2) j = j + 1 < (int)m ? j + 1 : j;
      else if (what == 3) j = j > 0 ? j - 1 : j;
      else if (what == 4) i = (int)g.range(0, n - 1);
      else if (what == 5) sol.push_back(sol[e]);
      else j = (int)g.range(0, m - 1);
    }
    return sol;
  };
  // reverse greedy: sources in order, sinks filled from the last one (valid, usually not optimal)
  auto reverseGreedy = [&] {
    Sol sol;
    std::vector<ll> left = in.d;
    int j = (int)m - 1;
    for (size_t i = 0; i < n; ++i) {
      ll need = in.s[i];
      while (need > 0 && j >= 0) {
        ll a = std::min(need, left[j]);
        if (a > 0) { sol.emplace_back((int)i, j, a); need -= a; left[j] -= a; }
        if (left[j] == 0) --j;
      }
    }
    return sol;
  };
  std::vector<std::pair<Sol, bool>> sols;  // (solution, is the solver's own)
  sols.emplace_back(base, true);
  sols.emplace_back(reverseGreedy(), false);
  int extra = g.range(2, 5);
  for (int t = 0; t < extra; ++t) sols.emplace_back(mutate(g.chance(1, 4) ? sols[1].first : base), false);
  for (auto &[sol, own] : sols) {
    std::string w = solWords(sol);
    os << "O val " << w << "\n";
    std::string s1 = guarded(os, "val", "raw_val", [&] { sv.checkSolutionValid(sol); });
    os << "O opt " << w << "\n";
    std::string s2 = guarded(os, "opt", "raw_opt", [&] { sv.checkSolutionOptimal(sol); });
    if (own && !s1.empty()) fail("checkSolutionValid rejects the solver's own solution: " + s1);
    if (own && !s2.empty()) fail("checkSolutionOptimal rejects the solver's own solution: " + s2);
    if (!own && s1.empty() && !s2.empty()) os << "C raw_valid_plan_flagged_not_optimal\n";
  }
  os << "N\nE\n";
}

// ---- child side: run the real code on one instance, emit tagged lines -------------------------
//   I <impl line>    F <oracle failure>    C <count key>    N (non-trivial)    E (case complete)
static void runCase(const Inst &in, std::ostream &os, ll dpLimit) {
  if (in.raw) { runRaw(in, os); return; }
  os << "I case " << in.id << "\n";
  auto fail = [&](const std::string &w) { os << "F " << w << "\n"; };
  size_t n = in.u.size(), m = in.v.size();
  Transportation1d pb(in.u, in.v, in.s, in.d);
  std::vector<ll> d = in.d;
  if (in.balance) {
    pb.balanceDemand();
    d = pb.sinkDemand();
    os << "I " << ("balance " + vh::join(d)).c_str() << "\n";
    if (d.size() != m) fail("balanceDemand changed the number of sinks");
    else {
      for (size_t j = 0; j < m; ++j)
        if (d[j] < in.d[j]) fail("balanceDemand decreased a demand");
      if (sum(d) < sum(in.s)) fail("after balanceDemand the total demand is still below the total supply");
      if (sum(in.d) >= sum(in.s) && d != in.d) fail("balanceDemand changed demands although supply <= demand");
    }
    if (pb.sourcePosition() != in.u || pb.sinkPosition() != in.v || pb.sourceSupply() != in.s)
      fail("balanceDemand changed something else than the demands");
  }
  bool nonneg = true;
  for (ll c : in.s) nonneg = nonneg && c >= 0;
  for (ll c : d) nonneg = nonneg && c >= 0;
  bool inDomain = nonneg && sum(in.s) <= sum(d);
  os << "C " << (inDomain ? "in_domain" : "outside_domain_expect_throw") << "\n";

  // solve
  Transportation1d::Solution sol;
  bool solved = false;
  try {
    sol = pb.solve();
    solved = true;
    std::ostringstream l;
    l << "solve";
    for (auto [i, j, a] : sol) l << " " << i << " " << j << " " << a;
    os << "I " << l.str() << "\n";
    os << "I full" << l.str().substr(5) << "\n";
  } catch (const std::runtime_error &e) {
    os << "I solve throw:runtime_error\n";
    os << "I full throw:runtime_error " << siteOf(e.what()) << "\n";
    os << "C full_throw_" << siteOf(e.what()) << "\n";
    if (inDomain) fail(std::string("solve() threw on a valid instance: ") + e.what());
  }
  if (!inDomain && solved) fail("solve() accepted an instance outside the domain");
  bool split = false, offNearest = false;
  std::vector<int> single(n, -1);
  if (solved && inDomain) {
    std::vector<ll> row(n, 0), col(m, 0);
    std::vector<int> cnt(n, 0);
    bool ok = true;
    ll cst = 0;
    for (auto [i, j, a] : sol) {
      if (i < 0 || (size_t)i >= n || j < 0 || (size_t)j >= m) { fail("plan entry out of range"); ok = false; break; }
      if (a <= 0) fail("plan entry not positive");
      row[i] += a; col[j] += a; cnt[i]++; single[i] = j;
      cst += a * std::llabs(in.u[i] - in.v[j]);
      for (size_t jj = 0; jj < m; ++jj)
        if (d[jj] > 0 && std::llabs(in.u[i] - in.v[jj]) < std::llabs(in.u[i] - in.v[j])) offNearest = true;
    }
    if (ok) {
      for (size_t i = 0; i < n; ++i) {
        if (row[i] != in.s[i]) fail("plan does not meet the supply of source " + std::to_string(i));
        if (cnt[i] != 1) single[i] = -1;
        if (cnt[i] > 1) split = true;
      }
      for (size_t j = 0; j < m; ++j)
        if (col[j] > d[j]) fail("plan exceeds the demand of sink " + std::to_string(j));
      ll opt = exactOptimum(in, d, dpLimit);
      if (opt >= 0) {
        os << "C optimum_checked\n";
        if (cst != opt) fail("plan cost " + std::to_string(cst) + " != exact optimum " + std::to_string(opt));
      } else os << "C optimum_by_certificate_only\n";
    }
  }
  // assign
  try {
    std::vector<int> as = pb.assign();
    os << "I assign" << (as.empty() ? "" : " ") << vh::join(as) << "\n";
    if (!inDomain) fail("assign() accepted an instance outside the domain");
    else {
      if (as.size() != n) fail("assignment has " + std::to_string(as.size()) + " entries for " + std::to_string(n) + " sources");
      bool anyPos = false;
      for (ll c : d) anyPos = anyPos || c > 0;
      for (size_t i = 0; i < as.size() && i < n; ++i) {
        if (anyPos && (as[i] < 0 || (size_t)as[i] >= m || d[as[i]] <= 0)) {
          fail("source " + std::to_string(i) + " is not assigned to a sink of positive demand");
          continue;
        }
        if (solved && in.s[i] > 0 && single[i] >= 0 && in.v[as[i]] != in.v[single[i]])
          fail("unsplit source " + std::to_string(i) + " is not assigned to the plan's sink");
      }
    }
  } catch (const std::runtime_error &e) {
    os << "I assign throw:runtime_error\n";
    if (inDomain) fail(std::string("assign() threw on a valid instance: ") + e.what());
  }
  if (in.cert) {
    if (solved) os << "I cert ok\nC certificate_checked_in_lean\n";
    else os << "I cert throw:runtime_error\n";
  }
  // every case: the model's positions must pass the verified local certificate (`ivCertOk`)
  if (solved) os << "I loc ok\nC local_certificate_checked_in_lean\n";
  else os << "I loc throw:runtime_error\n";
  if (split) os << "C some_source_split\n";
  if (offNearest) os << "C some_source_not_at_nearest_sink\n";
  if (inDomain && (split || offNearest)) os << "N\n";
  os << "E\n";
}

struct Runner {
  vh::Out &out;
  ll dpLimit;
  std::vector<Inst> pending;
  int crashes = 0;
  bool gaveUp = false;
  Runner(vh::Out &o, ll l) : out(o), dpLimit(l) {}

  void add(Inst in) {
    if (in.u.size() <= 6 && in.v.size() <= 6) in.cert = true;
    pending.push_back(std::move(in));
    if (pending.size() >= 4000) flush();
  }
  void stats(const Inst &in) {
    out.evaluations++;
    if (in.raw) { out.count("raw_check_cases"); out.sample(in.str()); return; }
    bool z = false, zd = false, dupS = false, unsorted = false;
    for (ll c : in.s) z = z || c == 0;
    for (ll c : in.d) zd = zd || c == 0;
    for (size_t i = 0; i + 1 < in.u.size(); ++i) { if (in.u[i + 1] < in.u[i]) unsorted = true; if (in.u[i + 1] == in.u[i]) dupS = true; }
    for (size_t i = 0; i + 1 < in.v.size(); ++i) { if (in.v[i + 1] < in.v[i]) unsorted = true; if (in.v[i + 1] == in.v[i]) dupS = true; }
    if (z) out.count("has_zero_supply");
    if (zd) out.count("has_zero_demand");
    if (dupS) out.count("has_adjacent_duplicate_position");
    if (unsorted) out.count("unsorted");
    if (in.balance) out.count("via_balanceDemand");
    if (in.scale > 1) out.count("quantities_scaled");
    if (in.huge) out.count("quantities_total_above_2^31");
    if (in.extreme) out.count("quantities_total_above_2^62");
    ll ts = sum(in.s), td = sum(in.d);
    out.count(ts == td ? "exact_balance" : (ts < td ? "slack" : "deficit"));
    out.count("sources_" + std::string(in.u.size() <= 4 ? std::to_string(in.u.size()) : (in.u.size() <= 12 ? "5-12" : "13+")));
    out.sample(in.str());
  }
  void writeOps(const Inst &in) {
    out.ops << "case " << in.id << "\n" << in.pbLine() << "\n";
    if (in.raw) { out.ops << "chk\nschk\nfull\n"; return; }  // `val` / `opt` lines come from the child
    if (in.balance) out.ops << "balance\n";
    out.ops << "solve\nfull\nassign\n";
    if (in.cert) out.ops << "cert\n";
    out.ops << "loc\n";
  }
  // dispatch the tagged lines of the cases starting at index k; returns the index after the last complete case
  size_t dispatch(const std::string &output, size_t k, bool &open) {
    std::istringstream is(output);
    std::string ln;
    open = false;
    while (std::getline(is, ln)) {
      if (ln.size() < 1) continue;
      char t = ln[0];
      std::string body = ln.size() > 2 ? ln.substr(2) : "";
      if (t == 'I') {
        if (body.rfind("case ", 0) == 0) { open = true; writeOps(pending[k]); stats(pending[k]); }
        out.impl << body << "\n";
      } else if (t == 'O') out.ops << body << "\n";
      else if (t == 'F') out.fail(pending[k].id, body, pending[k].str());
      else if (t == 'C') out.count(body);
      else if (t == 'N') out.nontrivial(vh::hashStr(pending[k].str()));
      else if (t == 'E') { open = false; ++k; }
    }
    return k;
  }
  void crashed(size_t k, const std::string &res, const std::string &diag) {
    writeOps(pending[k]); stats(pending[k]);
    out.impl << "case " << pending[k].id << "\ncrash:" << res << "\n";
    std::string what = "the real code died (" + res + ")";
    size_t p = diag.find("ERROR: AddressSanitizer");
    if (p == std::string::npos) p = diag.find("runtime error");
    if (p != std::string::npos) what += ": " + diag.substr(p, diag.find('\n', p) - p);
    out.fail(pending[k].id, what, pending[k].str());
    out.count("crash_" + res);
    if (++crashes >= 40) { gaveUp = true; out.notes.push_back("stopped running the real code after 40 crashes"); }
  }
  // Batches run in one forked child (its output only arrives when it ends normally); when a batch
  // dies, its cases are re-run one per child until the dying one is found, then batching resumes.
  void flush() {
    size_t from = 0;
    bool open;
    while (from < pending.size() && !gaveUp) {
      std::string output, diag;
      size_t start = from;
      std::string res = vh::isolated([&](std::ostream &os) {
        for (size_t k = start; k < pending.size(); ++k) runCase(pending[k], os, dpLimit);
      }, output, 900, &diag);
      if (res == "ok") { dispatch(output, from, open); from = pending.size(); break; }
      bool found = false;
      for (size_t k = from; k < pending.size(); ++k) {
        std::string o1, d1;
        std::string r1 = vh::isolated([&](std::ostream &os) { runCase(pending[k], os, dpLimit); }, o1, 120, &d1);
        if (r1 == "ok") { dispatch(o1, k, open); continue; }
        crashed(k, r1, d1);
        from = k + 1;
        found = true;
        break;
      }
      if (!found) {
        out.fail(pending[start].id, "a batch of cases died (" + res + ") but no single case of it does: " + diag.substr(0, 300), pending[start].str());
        from = pending.size();
      }
    }
    pending.clear();
  }
};

// ---- generators ------------------------------------------------------------------------------
static void exhaustive(Runner &r, int nMax, int mMax, int posMax, int sMax, int dMax, ll &k, int nMin = 1, int mMin = 1) {
  for (int n = nMin; n <= nMax; ++n)
    for (int m = mMin; m <= mMax; ++m) {
      std::vector<ll> x(2 * n + 2 * m, 0);
      std::vector<int> hi;
      for (int i = 0; i < n + m; ++i) hi.push_back(posMax);
      for (int i = 0; i < n; ++i) hi.push_back(sMax);
      for (int i = 0; i < m; ++i) hi.push_back(dMax);
      while (true) {
        Inst in;
        in.u.assign(x.begin(), x.begin() + n);
        in.v.assign(x.begin() + n, x.begin() + n + m);
        in.s.assign(x.begin() + n + m, x.begin() + 2 * n + m);
        in.d.assign(x.begin() + 2 * n + m, x.end());
        in.balance = sum(in.s) > sum(in.d);
        in.id = "x" + std::to_string(k++);
        r.add(std::move(in));
        size_t p = 0;
        while (p < x.size() && x[p] == hi[p]) x[p++] = 0;
        if (p == x.size()) break;
        ++x[p];
      }
    }
}

static Inst randomInst(vh::Rng &g) {
  Inst in;
  int shape = g.range(0, 9);
  int n = shape < 6 ? g.range(1, 6) : (shape < 9 ? g.range(1, 14) : g.range(10, 40));
  int m = shape < 6 ? g.range(1, 5) : (shape < 9 ? g.range(1, 10) : g.range(4, 30));
  if (g.chance(1, 60)) n = 0;
  int pm = g.range(0, 5);
  ll lo = 0, hi = 10;
  if (pm == 1) hi = 3;
  if (pm == 2) hi = 1000;
  if (pm == 3) hi = 100000000ll;
  if (pm == 4) { lo = -100000000ll; hi = 100000000ll; }
  bool grid = pm == 5;  // legalizer-like: sinks on a regular grid scaled to 1e8, sources around them
  ll pitch = grid ? 100000000ll / std::max(1, m) : 0;
  for (int j = 0; j < m; ++j) in.v.push_back(grid ? pitch / 2 + j * pitch : g.range(lo, hi));
  for (int i = 0; i < n; ++i) in.u.push_back(grid ? g.range(0, 100000000ll) : (g.chance(1, 4) && m > 0 ? in.v[g.range(0, m - 1)] : g.range(lo, hi)));
  int order = g.range(0, 3);
  if (order == 0 || grid) { std::sort(in.u.begin(), in.u.end()); }
  if (order == 0) std::sort(in.v.begin(), in.v.end());
  if (order == 1) { std::sort(in.u.rbegin(), in.u.rend()); std::sort(in.v.rbegin(), in.v.rend()); }
  // quantities
  int qm = g.range(0, 4);
  ll smax = qm == 0 ? 1 : (qm == 1 ? 3 : (qm == 2 ? 8 : (qm == 3 ? 40 : 1000000)));
  int zeroS = g.range(0, 3), zeroD = g.range(0, 3);
  for (int i = 0; i < n; ++i) in.s.push_back((zeroS == 0 && g.chance(1, 3)) || (zeroS == 1 && g.chance(1, 8)) ? 0 : g.range(qm == 0 ? 0 : 1, smax));
  ll ts = sum(in.s);
  int bal = g.range(0, 5);
  // demands: roughly ts / m each, modulated
  ll avg = m > 0 ? ts / m + 1 : 0;
  for (int j = 0; j < m; ++j) {
    ll c = (zeroD == 0 && g.chance(1, 3)) || (zeroD == 1 && g.chance(1, 8)) ? 0 : g.range(0, 2 * avg + (bal == 1 ? 3 * avg : 0));
    in.d.push_back(c);
  }
  if (m > 0) {
    ll td = sum(in.d);
    if (bal == 0 || bal == 1) {            // guarantee supply <= demand by topping up random sinks
      while (td < ts) { ll add = std::min(ts - td, g.range(1, avg + 1)); in.d[g.range(0, m - 1)] += add; td += add; }
    } else if (bal == 2 || bal == 3) {     // exact balance
      while (td < ts) { ll add = std::min(ts - td, g.range(1, avg + 1)); in.d[g.range(0, m - 1)] += add; td += add; }
      for (int guard = 0; td > ts && guard < 100000; ++guard) { int j = g.range(0, m - 1); ll sub = std::min(in.d[j], td - ts); in.d[j] -= sub; td -= sub; }
    } else {                               // whatever came out; balanceDemand() repairs a deficit
      in.balance = true;
    }
    if (g.chance(1, 6)) in.balance = true;
    if (!in.balance && sum(in.d) < ts) in.balance = !g.chance(1, 10);  // a few instances outside the domain: check() must throw
  } else {
    // no sink: only valid when every supply is zero
    if (g.chance(3, 4)) for (auto &c : in.s) c = 0;
  }
  if (g.chance(1, 300) && n > 0) in.s[g.range(0, n - 1)] = -1;  // outside the domain
  // optional common scaling of all quantities (optimum scales with it)
  if (qm <= 2 && g.chance(1, 3)) {
    ll K = g.chance(1, 2) ? g.range(2, 1000) : g.range(1000, 3000000);
    // balanceDemand does not commute with scaling unless the deficit is spread evenly: only scale balanced ones
    if (!in.balance) { in.scale = K; for (auto &c : in.s) c *= K; for (auto &c : in.d) c *= K; }
  } else if (qm <= 2 && !in.balance && n > 0 && m > 0 && g.chance(1, 12)) {
    // extreme quantities: running totals between 2^62 and 2^63 (the top of the long long range the API accepts);
    // positions collapse to {0, 1} so that total x distance still fits
    for (auto &x : in.u) x = g.range(0, 1);
    for (auto &x : in.v) x = g.range(0, 1);
    ll td = std::max<ll>(1, sum(in.d));
    ll kmin = (1ll << 62) / td + 1, kmax = (LLONG_MAX - 16) / td;
    if (kmax >= kmin && sum(in.s) <= sum(in.d)) {
      ll K = g.range(kmin, kmax);
      in.scale = K;
      in.huge = true;
      in.extreme = true;
      for (auto &c : in.s) c *= K;
      for (auto &c : in.d) c *= K;
    }
  } else if (qm <= 2 && !in.balance && g.chance(1, 4)) {
    // huge quantities (the API takes long long: cell and bin areas of a real design exceed 2^31): the totals pass 2^31
    // and 2^32 while total x position span stays below 2^60, so that no long long cost overflows
    ll tot = std::max<ll>(1, std::max(sum(in.s), sum(in.d))), lo2 = 0, hi2 = 0;
    for (ll x : in.u) { lo2 = std::min(lo2, x); hi2 = std::max(hi2, x); }
    for (ll x : in.v) { lo2 = std::min(lo2, x); hi2 = std::max(hi2, x); }
    ll span = hi2 - lo2 + 1;
    ll kmin = (1ll << 31) / tot + 1, kmax = (1ll << 60) / span / tot;
    if (kmax > kmin) {
      ll K = g.range(kmin, std::min(kmax, kmin * 40));
      in.scale = K;
      in.huge = true;
      for (auto &c : in.s) c *= K;
      for (auto &c : in.d) c *= K;
    }
  }
  return in;
}

// raw check cases: a valid sorted zero-free base instance, then (classes 0..5) one or several defects
static Inst randomRaw(vh::Rng &g) {
  Inst in;
  in.raw = true;
  in.mseed = g.next() >> 1;
  int n = g.range(1, g.chance(1, 5) ? 12 : 5), m = g.range(1, g.chance(1, 5) ? 10 : 5);
  int pm = g.range(0, 3);
  ll hi = pm == 0 ? 3 : (pm == 1 ? 10 : (pm == 2 ? 1000 : 100000000ll));
  for (int i = 0; i < n; ++i) in.u.push_back(g.range(pm == 3 ? -hi : 0, hi));
  for (int j = 0; j < m; ++j) in.v.push_back(g.range(pm == 3 ? -hi : 0, hi));
  std::sort(in.u.begin(), in.u.end());
  std::sort(in.v.begin(), in.v.end());
  ll smax = g.chance(1, 2) ? 3 : (g.chance(1, 2) ? 40 : 1000000);
  for (int i = 0; i < n; ++i) in.s.push_back(g.range(1, smax));
  ll ts = sum(in.s), avg = ts / m + 1;
  for (int j = 0; j < m; ++j) in.d.push_back(g.range(1, 2 * avg));
  int bal = g.range(0, 2);  // 0: slack, 1: exact balance, 2: little slack
  ll td = sum(in.d);
  while (td < ts) { ll add = std::min(ts - td, g.range(1, avg + 1)); in.d[g.range(0, m - 1)] += add; td += add; }
  if (bal >= 1)
    for (int guard = 0; td > ts + (bal == 2 ? 1 : 0) && guard < 100000; ++guard) {
      int j = g.range(0, m - 1);
      ll sub = std::min(in.d[j] - 1, td - ts);
      in.d[j] -= sub; td -= sub;
    }
  int cls = g.range(0, 9);
  if (cls > 5) return in;  // valid: the solution checks run on it
  auto defect = [&](int k) {
    if (k == 0) {  // size mismatch
      auto &w = g.chance(1, 2) ? in.s : in.d;
      if (g.chance(1, 2) || w.empty()) w.push_back(g.range(0, 3)); else w.pop_back();
    } else if (k == 1) {  // negative quantity
      auto &w = g.chance(1, 2) ? in.s : in.d;
      if (!w.empty()) w[g.range(0, w.size() - 1)] = -g.range(1, 3);
    } else if (k == 2) {  // supply > demand
      if (!in.s.empty()) in.s[g.range(0, in.s.size() - 1)] += sum(in.d) - sum(in.s) + g.range(1, 3);
    } else if (k == 3) {  // unsorted positions
      auto &w = g.chance(1, 2) ? in.u : in.v;
      if (w.size() >= 2) { size_t a = g.range(0, w.size() - 2); if (w[a] == w[a + 1]) w[a + 1] += 1; std::swap(w[a], w[a + 1]); }
    } else if (k == 4) {  // zero capacity
      auto &w = g.chance(1, 2) ? in.s : in.d;
      if (!w.empty()) w[g.range(0, w.size() - 1)] = 0;
    } else {  // empty side(s)
      int e = g.range(0, 3);
      if (e == 0 || e == 2) { in.u.clear(); in.s.clear(); }
      if (e == 1 || e == 2) { in.v.clear(); in.d.clear(); }
      if (e == 3) { in.v.clear(); in.d.clear(); for (auto &c : in.s) c = 0; }
    }
  };
  defect(cls);
  while (g.chance(1, 3)) defect(g.range(0, 5));  // several defects: the order of the tests matters
  return in;
}

static bool parseInst(const std::string &ln, Inst &in) {
  // "<n> <m> u.. | v.. | s.. | d.. [| balance]"   or   "raw <mseed> <nu> <nv> <ns> <nd> u.. | v.. | s.. | d.."
  std::string t = ln;
  for (char &c : t) if (c == '|') c = ' ';
  std::istringstream is(t);
  auto rd = [&](std::vector<ll> &a, size_t k) { a.resize(k); for (auto &x : a) if (!(is >> x)) return false; return true; };
  if (t.rfind("raw ", 0) == 0) {
    std::string w;
    size_t nu, nv, ns, nd;
    if (!(is >> w >> in.mseed >> nu >> nv >> ns >> nd)) return false;
    in.raw = true;
    return rd(in.u, nu) && rd(in.v, nv) && rd(in.s, ns) && rd(in.d, nd);
  }
  size_t n, m;
  if (!(is >> n >> m)) return false;
  if (!rd(in.u, n) || !rd(in.v, m) || !rd(in.s, n) || !rd(in.d, m)) return false;
  std::string w;
  if (is >> w && w == "balance") in.balance = true;
  return true;
}

int main(int argc, char **argv) {
  vh::Args a = vh::parseArgs(argc, argv);
  vh::Out out(a.out);
  out.rule = "instances = (source positions u, sink positions v, supplies s, demands d [, balanceDemand first]); exhaustive over "
             "small bounds (zeros, duplicates, every order) then random (positions to 1e8, unsorted/duplicate positions, zero "
             "supplies/demands, slack / exact balance / deficit repaired by balanceDemand, legalizer-like grids); non-trivial = "
             "in the domain and the optimal plan splits a source or sends one to a sink that is not its nearest positive-demand "
             "sink (a capacity is binding); distinct by canonical text of the instance";
  Runner r(out, a.thorough() ? 400000 : 40000);
  ll k = 0;
  if (!a.replay.empty()) {
    // replay file written by check.py: JSON with "input": "<instance text>"
    std::ifstream f(a.replay);
    std::string all((std::istreambuf_iterator<char>(f)), std::istreambuf_iterator<char>());
    size_t p = all.find("\"input\"");
    Inst in;
    if (p != std::string::npos) {
      size_t q = all.find('"', all.find(':', p)), e = all.find('"', q + 1);
      if (parseInst(all.substr(q + 1, e - q - 1), in)) { in.id = "replay"; r.add(in); }
    }
    r.flush();
    out.finish();
    return 0;
  }
  if (!a.corpus.empty()) {
    for (auto &ln : vh::readLines(a.corpus + "/instances.txt")) {
      Inst in;
      if (ln.empty() || ln[0] == '#' || !parseInst(ln, in)) continue;
      in.id = "c" + std::to_string(k++);
      r.add(in);
      out.count("corpus");
    }
  }
  k = 0;
  if (a.thorough()) {
    exhaustive(r, 2, 2, 5, 2, 3, k);          // <=2x2, positions 0..5, supplies 0..2, demands 0..3
    exhaustive(r, 3, 3, 2, 2, 2, k, 3, 1);    // 3 sources, <=3 sinks, positions 0..2, quantities 0..2
    exhaustive(r, 2, 3, 2, 2, 2, k, 1, 3);    // <=2 sources, 3 sinks
    exhaustive(r, 4, 4, 1, 1, 1, k, 4, 1);    // 4 sources, positions 0..1, quantities 0..1
    exhaustive(r, 3, 4, 1, 1, 1, k, 1, 4);
    out.notes.push_back("enumerated completely: <=2x2 pos 0..5 s 0..2 d 0..3; 3x<=3 and <=2x3 pos 0..2 s,d 0..2; 4x<=4 and <=3x4 pos,s,d 0..1: " + std::to_string(k) + " instances");
  } else {
    exhaustive(r, 2, 2, 4, 2, 3, k);          // <=2x2, positions 0..4, supplies 0..2, demands 0..3
    exhaustive(r, 3, 2, 2, 2, 2, k, 3, 1);    // 3 sources, <=2 sinks, positions 0..2, quantities 0..2
    exhaustive(r, 2, 3, 2, 2, 2, k, 1, 3);    // <=2 sources, 3 sinks, positions 0..2, quantities 0..2
    exhaustive(r, 3, 3, 1, 1, 1, k, 3, 3);    // 3x3, everything 0..1
    out.notes.push_back("enumerated completely: <=2x2 pos 0..4 s 0..2 d 0..3; 3x<=2 and <=2x3 pos 0..2 s,d 0..2; 3x3 pos,s,d 0..1: " + std::to_string(k) + " instances");
  }
  out.count("exhaustive_instances", k);
  ll nr = a.thorough() ? 1500000 : (a.search() ? 150000 : 100000);
  for (ll i = 0; i < nr; ++i) {
    vh::Rng g = vh::Rng::forCase(a.seed, i);
    Inst in = randomInst(g);
    in.id = "r" + std::to_string(i);
    if (in.u.size() > 6 || in.v.size() > 6) in.cert = (i % 4 == 0);
    r.add(std::move(in));
    out.count("random_instances");
  }
  // raw check cases (self-checks driven directly, malformed inputs)
  ll nraw = a.thorough() ? 300000 : (a.search() ? 40000 : 25000);
  for (ll i = 0; i < nraw; ++i) {
    vh::Rng g = vh::Rng::forCase(a.seed, 1000000000ll + i);
    Inst in = randomRaw(g);
    in.id = "k" + std::to_string(i);
    r.add(std::move(in));
  }
  r.flush();
  out.finish();
  return 0;
}
