// C10 — busy-circuit protocol and exception safety of placement calls.
//
// For each random instance (vc::genCircuit) and each stage (placeGlobal, legalize,
// placeDetailed):
//   1. a clean run counts the callbacks N of the stage;
//   2. for EVERY k < N the run is repeated with the callback throwing at index k
//      (std::runtime_error / std::logic_error / a non-std `int`, by k mod 3);
//   3. inside every callback every structural setter is called with valid arguments:
//      it must throw and leave the circuit equal (all public members compared);
//   4. after the call ended (return or exception) every structural setter must be
//      accepted, Circuit::check() must pass, and a further placement call must run;
//   5. invalid parameter sets and infeasible legalizations are driven through the same
//      protocol; after a failed legalization the placement must be exactly as before.  The
//      infeasible circuits are of several kinds (too dense; a multi-row block taller than the
//      rows / wider than every row / with no stack of adjacent rows; a cell lower than a row;
//      a height that is not a multiple of the row height; a polarity no row accepts; a
//      standard cell wider than every row), each with movable off-grid cells before AND after
//      the unplaceable one in index order (a legalizer that exports before it has checked
//      would have moved them);
//   6. nested placement calls: at every callback index of an outer call a callback makes
//      another placement call on the same circuit (valid or invalid parameters, with or
//      without its own probing/throwing callback); after the nested call returned or threw
//      the structural setters must STILL be refused until the outer call has ended.
// Correspondence: the observed trace of each call (callbacks, setter calls with their
// argument shapes, throw points, how the stage ended) is replayed by lean/Driver/C10.lean
// on the IR semantics of Model/Busy.lean over the translated Gen/Api.lean; the model
// predicts each setter's outcome and the final in-use flag.
// Sizes: for every setter call made (inside callbacks: refused or accepted; after calls: accepted) the line
//   szset <name> <busy> <rows_.size() after> <14 member lengths + netLimits_.back() before> <argument shapes>
// is answered by the driver with the outcome and the 15 numbers after the call, computed by the size semantics
// (Model/BusySizes.lean) over Gen/ApiSizes.lean; the direct oracle checks after every setter call and after every
// placement call (nested or not, returned or thrown) that every per-cell getter returns nbCells() entries.
#include <cstdio>

#include "common/circuit.hpp"
#include "common/harness.hpp"

using namespace coloquinte;

namespace {

// ---------------------------------------------------------------- snapshots
std::string snap(const Circuit &c) {
  std::ostringstream os;
  auto vi = [&](const char *n, const std::vector<int> &v) { os << n << ":" << vh::join(v, ",") << ";"; };
  vi("nl", c.netLimits_); vi("pc", c.pinCells_); vi("px", c.pinXOffsets_); vi("py", c.pinYOffsets_);
  os << "nw:";
  for (float w : c.netWeights_) os << vc::exactDouble(w) << ",";
  os << ";";
  vi("w", c.cellWidth_); vi("h", c.cellHeight_); vi("x", c.cellX_); vi("y", c.cellY_);
  os << "f:"; for (bool b : c.cellIsFixed_) os << (int)b; os << ";";
  os << "o:"; for (bool b : c.cellIsObstruction_) os << (int)b; os << ";";
  os << "p:"; for (auto p : c.cellRowPolarity_) os << (int)p << ","; os << ";";
  os << "or:"; for (auto p : c.cellOrientation_) os << (int)p << ","; os << ";";
  os << "r:"; for (const Row &r : c.rows_) os << r.minX << "," << r.maxX << "," << r.minY << "," << r.maxY << "," << (int)r.orientation << "|";
  return os.str();
}

std::string placementOf(const Circuit &c) { return vc::solutionString(c); }

// sizes of the member vectors in the order of Model/BusySizes.lean `reported`, then netLimits_.back()
std::string sizesOf(const Circuit &c) {
  std::ostringstream os;
  os << c.cellWidth_.size() << " " << c.cellHeight_.size() << " " << c.cellIsFixed_.size() << " " << c.cellIsObstruction_.size() << " "
     << c.cellRowPolarity_.size() << " " << c.cellX_.size() << " " << c.cellY_.size() << " " << c.cellOrientation_.size() << " "
     << c.netLimits_.size() << " " << c.netWeights_.size() << " " << c.pinCells_.size() << " " << c.pinXOffsets_.size() << " "
     << c.pinYOffsets_.size() << " " << c.rows_.size() << " " << (c.netLimits_.empty() ? 0 : c.netLimits_.back());
  return os.str();
}

// direct oracle of "internally consistent" at the level of the public getters: every per-cell getter returns a
// vector of nbCells() entries.  "" when it holds, else the first getter that does not.
std::string perCellGetterMismatch(const Circuit &c) {
  size_t n = (size_t)c.nbCells();
  if (c.cellWidth().size() != n) return "cellWidth";
  if (c.cellHeight().size() != n) return "cellHeight";
  if (c.cellX().size() != n) return "cellX";
  if (c.cellY().size() != n) return "cellY";
  if (c.cellIsFixed().size() != n) return "cellIsFixed";
  if (c.cellIsObstruction().size() != n) return "cellIsObstruction";
  if (c.cellRowPolarity().size() != n) return "cellRowPolarity";
  if (c.cellOrientation().size() != n) return "cellOrientation";
  return "";
}

// size correspondence (`szset` lines): collected per instance, written after the traces so that the Lean driver
// answers them outside any recorded call
std::vector<std::pair<std::string, std::string>> g_szLines;

// ---------------------------------------------------------------- setter ops
// argument shapes of a setter call, in the order of the C++ parameters:
//   v <len> 0            a vector of which only the length matters
//   v <len> 1 <values>   an int vector whose values matter (pin cells, net limits)
//   i <value>            a scalar
struct SetterCall {
  std::string name;
  std::string args;  // shape text
  std::function<void(Circuit &)> run;
};

std::string vecShape(size_t len) { return "v " + std::to_string(len) + " 0"; }
std::string vecVals(const std::vector<int> &v) {
  std::string s = "v " + std::to_string(v.size()) + " 1";
  for (int x : v) s += " " + std::to_string(x);
  return s;
}

// the seven structural setters with arguments that are valid for `c` (so the only reason
// to refuse them is the busy flag)
std::vector<SetterCall> structuralSetters(const Circuit &c) {
  std::vector<SetterCall> r;
  int n = c.nbCells();
  {
    std::vector<int> cells, xs, ys;
    if (n > 0) { cells = {0, n - 1}; xs = {0, 1}; ys = {0, 0}; }
    r.push_back({"addNet", vecVals(cells) + " " + vecShape(xs.size()) + " " + vecShape(ys.size()) + " i 0",
                 [=](Circuit &k) { k.addNet(cells, xs, ys); }});
  }
  {
    auto l = c.netLimits_; auto pc = c.pinCells_; auto px = c.pinXOffsets_; auto py = c.pinYOffsets_; auto w = c.netWeights_;
    r.push_back({"setNets", vecVals(l) + " " + vecVals(pc) + " " + vecShape(px.size()) + " " + vecShape(py.size()) + " " + vecShape(w.size()),
                 [=](Circuit &k) { k.setNets(l, pc, px, py, w); }});
  }
  {
    auto rows = c.rows_;
    r.push_back({"setRows", vecShape(rows.size()), [=](Circuit &k) { k.setRows(rows); }});
  }
  {
    Rectangle area = c.nbRows() > 0 ? c.computePlacementArea() : Rectangle(0, 10, 0, 10);
    int rh = c.nbRows() > 0 ? c.rows_[0].height() : 2;
    if (rh <= 0) rh = 1;
    r.push_back({"setupRows", "i 0 i " + std::to_string(rh) + " i 1 i 1", [=](Circuit &k) { k.setupRows(area, rh); }});
  }
  {
    auto f = c.cellIsFixed_;
    r.push_back({"setCellIsFixed", vecShape(f.size()), [=](Circuit &k) { k.setCellIsFixed(f); }});
  }
  {
    auto f = c.cellIsObstruction_;
    r.push_back({"setCellIsObstruction", vecShape(f.size()), [=](Circuit &k) { k.setCellIsObstruction(f); }});
  }
  {
    auto f = c.cellRowPolarity_;
    r.push_back({"setCellRowPolarity", vecShape(f.size()), [=](Circuit &k) { k.setCellRowPolarity(f); }});
  }
  return r;
}

// non-structural setters that are allowed during a placement call and do not perturb it
// when given the current values
std::vector<SetterCall> harmlessSetters(const Circuit &c) {
  std::vector<SetterCall> r;
  auto x = c.cellX_; auto y = c.cellY_; auto o = c.cellOrientation_;
  r.push_back({"setCellX", vecShape(x.size()), [=](Circuit &k) { k.setCellX(x); }});
  r.push_back({"setCellY", vecShape(y.size()), [=](Circuit &k) { k.setCellY(y); }});
  r.push_back({"setCellOrientation", vecShape(o.size()), [=](Circuit &k) { k.setCellOrientation(o); }});
  return r;
}

struct Sink {  // lines produced by one (forked) instance
  std::ostream &os;
  void op(const std::string &s) { os << "O " << s << "\n"; }
  void impl(const std::string &s) { os << "I " << s << "\n"; }
  void fail(const std::string &caseId, const std::string &what) { os << "F " << caseId << "\t" << what << "\n"; }
  void count(const std::string &k, long long n = 1) { os << "C " << k << " " << n << "\n"; }
  void eval() { os << "E\n"; }
  void sizes(const std::string &caseId, const Circuit &c, const std::string &where) {
    std::string m = perCellGetterMismatch(c);
    if (!m.empty()) fail(caseId, "getter " + m + "() does not return nbCells() entries " + where);
    count("size_oracle_checks");
  }
};

// run one setter on the real circuit, log the op and the observed outcome
// returns true when it threw
bool runSetter(Sink &s, const std::string &id, Circuit &c, const SetterCall &sc, bool expectThrow, const std::string &where) {
  std::string before = snap(c);
  int nc = c.nbCells(), nn = c.nbNets();
  std::string szBefore = sizesOf(c);
  bool busy = c.isInUse_;
  std::string outcome = "ok";
  try {
    sc.run(c);
  } catch (const std::exception &e) {
    outcome = vc::exClass(e);
  } catch (...) {
    outcome = "throw:other";
  }
  bool changed = snap(c) != before;
  // sizes: the model (Gen/ApiSizes under Model/BusySizes) must predict the outcome and every member length
  g_szLines.push_back({"szset " + sc.name + " " + (busy ? "1 " : "0 ") + std::to_string(c.rows_.size()) + " " + szBefore + " " + sc.args, "sz " + outcome + " " + sizesOf(c)});
  s.sizes(id, c, std::string("after setter ") + sc.name + " (" + outcome + ") " + where);
  s.op("set " + sc.name + " " + std::to_string(nc) + " " + std::to_string(nn) + " " + sc.args);
  // the model prints the outcome and, for a throw, the number of members written before it (must be 0)
  s.impl("set " + sc.name + " " + outcome + (outcome == "ok" ? "" : (changed ? " changed" : " w=0")));
  s.eval();
  if (expectThrow) {
    if (outcome == "ok") s.fail(id, std::string("structural setter ") + sc.name + " was accepted " + where);
    else if (changed) s.fail(id, std::string("refused setter ") + sc.name + " modified the circuit " + where);
  } else {
    if (outcome != "ok") s.fail(id, std::string("setter ") + sc.name + " refused (" + outcome + ") " + where);
  }
  return outcome != "ok";
}

// ---------------------------------------------------------------- value histories of the net arrays (`nv*` lines)
// A fresh Circuit(n) is driven through a history of addNet / setNets calls, mostly valid, some malformed in exactly one
// way.  After every call the real netLimits_ / pinCells_ and the lengths of the offset / weight vectors are printed and
// must equal what Model/NetsValue.lean computes; the direct oracle evaluates "internally consistent" on the real object
// independently (limits start at 0, non-decreasing, end at the pin count; pins name cells; Circuit::check() passes; every
// getter index in range) and "a refused call changes nothing".
std::string nvState(bool ok, const Circuit &c, bool wf) {
  std::string r = std::string("nv ") + (ok ? "ok" : "throw") + (wf ? " 1" : " 0") + " L " + vh::join(c.netLimits_, " ") + " P " + vh::join(c.pinCells_, " ") + " S " +
         std::to_string(c.pinXOffsets_.size()) + " " + std::to_string(c.pinYOffsets_.size()) + " " + std::to_string(c.netWeights_.size());
  // what the real inline getters return, net by net (only read when the arrays are well formed: they do not check)
  if (!wf) return r + " G ?";
  std::vector<int> g;
  for (int n = 0; n < c.nbNets(); ++n) {
    g.push_back(c.nbPinsNet(n));
    for (int i = 0; i < c.nbPinsNet(n); ++i) g.push_back(c.pinCell(n, i));
  }
  return r + " G " + std::to_string(c.nbNets()) + " " + vh::join(g, " ");
}

// independent evaluation of the value invariant on the real members; "" when it holds
std::string netsIllFormed(const Circuit &c) {
  const auto &l = c.netLimits_;
  if (l.empty()) return "netLimits_ is empty";
  if (l.front() != 0) return "netLimits_ does not start at 0";
  for (size_t i = 0; i + 1 < l.size(); ++i) if (l[i + 1] < l[i]) return "netLimits_ decreases at " + std::to_string(i);
  if ((size_t)l.back() != c.pinCells_.size()) return "netLimits_.back() != pinCells_.size()";
  if (c.pinXOffsets_.size() != c.pinCells_.size() || c.pinYOffsets_.size() != c.pinCells_.size()) return "offset vectors do not match the pins";
  if (c.netWeights_.size() + 1 != l.size()) return "netWeights_ does not have one entry per net";
  for (int pc : c.pinCells_) if (pc < 0 || pc >= c.nbCells()) return "a pin names cell " + std::to_string(pc) + " of " + std::to_string(c.nbCells());
  return "";
}

void netsHistory(Sink &s, const std::string &id, vh::Rng &g) {
  int nc = (int)g.range(0, 6);
  Circuit c(nc);
  s.op("nvnew " + std::to_string(nc));
  s.impl(nvState(true, c, netsIllFormed(c).empty()));
  s.eval();
  int nops = (int)g.range(5, 14);
  auto cellIn = [&]() { return nc > 0 ? (int)g.range(0, nc - 1) : 0; };
  auto cellOut = [&]() { int k = (int)g.range(0, 3); return k == 0 ? -1 : k == 1 ? nc : k == 2 ? nc + (int)g.range(1, 5) : -(int)g.range(2, 9); };
  for (int t = 0; t < nops; ++t) {
    std::string before = snap(c);
    std::string opLine, kind;
    bool threw = false;
    std::string exc;
    if (g.chance(1, 7)) {
      // setNetWeights: the right number of weights two times in three, else one too many / too few / none
      int nn = c.nbNets();
      int nw = nn;
      kind = "weights_valid";
      if (g.chance(1, 3)) {
        int m = (int)g.range(0, 2);
        nw = m == 0 ? nn + 1 : (m == 1 ? std::max(0, nn - 1) : 0);
        kind = nw == nn ? "weights_valid" : "weights_length";
      }
      opLine = "nvweights " + std::to_string(nw);
      std::vector<float> ws(nw, 0.75f);
      try { c.setNetWeights(ws); } catch (const std::exception &e) { threw = true; exc = vc::exClass(e); } catch (...) { threw = true; exc = "throw:other"; }
    } else if (g.chance(11, 20)) {
      int k = (int)g.range(0, 4);
      std::vector<int> cells;
      for (int i = 0; i < k; ++i) cells.push_back(cellIn());
      size_t nx = k, ny = k;
      kind = "add_valid";
      if (nc == 0 && k > 0) kind = "add_pin_of_empty_circuit";
      int m = (int)g.range(0, 9);
      if (m == 0 && k > 0) { cells[g.range(0, k - 1)] = cellOut(); kind = "add_pin_out_of_range"; }
      else if (m == 1) { nx = k + (g.chance(1, 2) || k == 0 ? 1 : -1); kind = "add_x_length"; }
      else if (m == 2) { ny = k + (g.chance(1, 2) || k == 0 ? 1 : -1); kind = "add_y_length"; }
      if (k == 0 && kind == "add_valid") kind = "add_empty_net";
      opLine = "nvadd " + std::to_string(k) + (k ? " " : "") + vh::join(cells, " ") + " " + std::to_string(nx) + " " + std::to_string(ny);
      std::vector<int> xs(nx, 1), ys(ny, -2);
      try { c.addNet(cells, xs, ys, 1.5f); } catch (const std::exception &e) { threw = true; exc = vc::exClass(e); } catch (...) { threw = true; exc = "throw:other"; }
    } else {
      int m = (int)g.range(0, 4);
      std::vector<int> limits{0}, cells;
      for (int i = 0; i < m; ++i) {
        int k = (int)g.range(0, 3);
        for (int j = 0; j < k; ++j) cells.push_back(cellIn());
        limits.push_back((int)cells.size());
      }
      size_t nx = cells.size(), ny = cells.size(), nw = g.chance(1, 2) ? 0 : (size_t)m;
      kind = "set_valid";
      if (nc == 0 && !cells.empty()) kind = "set_pin_of_empty_circuit";
      int bad = (int)g.range(0, 24);
      if (bad == 0) { limits.clear(); kind = "set_limits_empty"; }
      else if (bad == 1) { for (int &v : limits) v += 1; kind = "set_front_not_zero"; }
      else if (bad == 2 && limits.size() >= 3 && limits[limits.size() - 2] != limits.back()) { std::swap(limits[limits.size() - 2], limits[limits.size() - 1]); kind = "set_unsorted"; }
      else if (bad == 3 && limits.size() >= 3 && limits[1] != limits[2]) { std::swap(limits[1], limits[2]); kind = "set_unsorted"; }
      else if (bad == 4 && !cells.empty()) { cells.pop_back(); nx = ny = cells.size(); kind = "set_back_mismatch"; }
      else if (bad == 5) { cells.push_back(cellIn()); nx = ny = cells.size(); kind = "set_back_mismatch"; }
      else if (bad == 6) { nx += 1; kind = "set_x_length"; }
      else if (bad == 7) { ny += 1; kind = "set_y_length"; }
      else if (bad == 8) { nw = m + 1; kind = "set_weights_length"; }
      else if (bad == 9 && m >= 2) { nw = m - 1; kind = "set_weights_length"; }
      else if (bad == 10 && !cells.empty()) { cells[g.range(0, (long long)cells.size() - 1)] = cellOut(); kind = "set_pin_out_of_range"; }
      else if (bad == 11) { limits[0] = -1; kind = "set_front_not_zero"; }
      opLine = "nvset " + std::to_string(limits.size()) + (limits.empty() ? "" : " ") + vh::join(limits, " ") + " " + std::to_string(cells.size()) + (cells.empty() ? "" : " ") +
               vh::join(cells, " ") + " " + std::to_string(nx) + " " + std::to_string(ny) + " " + std::to_string(nw);
      std::vector<int> xs(nx, 3), ys(ny, 4);
      std::vector<float> ws(nw, 0.25f);
      try { c.setNets(limits, cells, xs, ys, ws); } catch (const std::exception &e) { threw = true; exc = vc::exClass(e); } catch (...) { threw = true; exc = "throw:other"; }
    }
    std::string ill = netsIllFormed(c);
    s.op(opLine);
    s.impl(nvState(!threw, c, ill.empty()));
    s.eval();
    s.count("nv_" + kind + (threw ? "_refused" : "_accepted"));
    std::string where = "after `" + opLine + "` (" + (threw ? exc : "ok") + ") as call " + std::to_string(t) + " of a net history on Circuit(" + std::to_string(nc) + ")";
    if (!ill.empty()) s.fail(id, "the circuit is not internally consistent: " + ill + " " + where);
    if (threw && snap(c) != before) s.fail(id, "a refused net call modified the circuit " + where);
    if (threw && exc != "throw:runtime_error") s.fail(id, "a net call ended with " + exc + " " + where);
    bool checkThrew = false;
    try { c.check(); } catch (...) { checkThrew = true; }
    if (checkThrew) s.fail(id, "Circuit::check() throws " + where);
    if (ill.empty()) {
      // every read of the getters (ASan sees an out-of-bounds index; the returned cell must exist)
      long long pinsSeen = 0;
      for (int n = 0; n < c.nbNets(); ++n) {
        if (c.nbPinsNet(n) < 0) s.fail(id, "nbPinsNet < 0 " + where);
        for (int i = 0; i < c.nbPinsNet(n); ++i) {
          int pc = c.pinCell(n, i);
          (void)c.pinXOffsets_[c.netLimits_[n] + i];
          ++pinsSeen;
          if (pc < 0 || pc >= c.nbCells()) s.fail(id, "pinCell names no cell " + where);
        }
      }
      if (pinsSeen != c.nbPins()) s.fail(id, "the nets do not partition the pins " + where);
    }
  }
  s.count("nv_histories");
}

enum Stage { GLOBAL = 0, LEGALIZE = 1, DETAILED = 2 };
const char *stageName(int st) { return st == GLOBAL ? "placeGlobal" : st == LEGALIZE ? "legalize" : "placeDetailed"; }

void callStage(Circuit &c, int st, const ColoquinteParameters &p, const std::optional<PlacementCallback> &cb) {
  if (st == GLOBAL) c.placeGlobal(p, cb);
  else if (st == LEGALIZE) c.legalize(p, cb);
  else c.placeDetailed(p, cb);
}

struct CallResult {
  int callbacks = 0;
  std::string outcome;     // ok | throw:<class>
  bool callbackThrew = false;
  bool inUseAfter = false;
};

// a nested placement call made from callback `atCallback` of the observed call
struct Nest {
  int atCallback = -1;
  int stage = LEGALIZE;
  ColoquinteParameters params{1};
  bool withCallback = false;  // the nested call gets its own probing callback ...
  int throwAt = -1;           // ... which throws at this index
  bool propagate = false;     // the outer callback lets the nested call's exception escape
  std::string what;
};

// set when a structural setter was accepted inside a callback: the protocol is broken, the
// callbacks end the run at once (the failure has been recorded)
bool g_bail = false;

// One placement call under observation.  throwAt = -1: never throw from the callback.
// probe: call the setters inside callbacks.  depth > 0: the call is made from a callback.
CallResult observedCall(Sink &s, const std::string &id, Circuit &c, int st, const ColoquinteParameters &p, int throwAt,
                        bool useCallback, bool probe, const Nest *nest = nullptr, int depth = 0,
                        const std::string &ctx = "") {
  CallResult r;
  s.op(std::string("begin ") + stageName(st));
  std::string here = std::string("inside a callback of ") + stageName(st) + ctx;
  auto probeAll = [&](const std::string &where) {
    for (auto &sc : structuralSetters(c)) {
      bool threw = runSetter(s, id, c, sc, true, where);
      if (!threw) { g_bail = true; return; }
    }
    for (auto &sc : harmlessSetters(c)) runSetter(s, id, c, sc, false, where + " (non-structural)");
  };
  PlacementCallback cb = [&](PlacementStep) {
    int j = r.callbacks++;
    s.op("cb");
    if (probe && !g_bail) probeAll(here);
    if (nest && j == nest->atCallback && !g_bail) {
      std::string nctx = std::string(" (nested in callback ") + std::to_string(j) + " of " + stageName(st) + ", " + nest->what + ")";
      CallResult n = observedCall(s, id, c, nest->stage, nest->params, nest->throwAt, nest->withCallback, true, nullptr,
                                  depth + 1, nctx);
      s.count(std::string("nested_") + stageName(nest->stage) + "_in_" + stageName(st) + (n.outcome == "ok" ? "_ok" : "_throws"));
      s.count("nested_calls");
      if (!g_bail) probeAll(std::string("inside a callback of ") + stageName(st) + " after a nested " + stageName(nest->stage) +
                            " call (" + nest->what + ") " + (n.outcome == "ok" ? "returned" : "threw"));
      if (n.outcome != "ok" && nest->propagate && !g_bail) {
        r.callbackThrew = true;
        s.op("cbthrow");
        throw std::runtime_error("nested placement call failed");
      }
    }
    // The protocol is per circuit: a placement call on ANOTHER, independent circuit made from this callback (a trial
    // legalization of a copy, say) must protect that circuit inside its own callbacks, and must leave this one busy.
    // Oracle only (the model follows one circuit): first callback of every observed outermost call with a callback.
    if (depth == 0 && j == 0 && !g_bail) {
      Circuit other = c;          // a copy is an independent circuit; copying must not carry the busy state of a running call
      other.isInUse_ = false;     // (what a freshly built circuit with the same data has)
      int cbs2 = 0;
      std::string accepted;
      PlacementCallback cb2 = [&](PlacementStep) {
        ++cbs2;
        for (auto &sc2 : structuralSetters(other)) {
          std::string before2 = snap(other);
          try { sc2.run(other); accepted = sc2.name; } catch (...) {}
          if (snap(other) != before2 && accepted.empty()) accepted = sc2.name + " (refused but modified)";
        }
      };
      try { other.legalize(ColoquinteParameters(1), cb2); } catch (...) {}
      s.count("other_circuit_calls");
      if (cbs2 > 0) s.count("other_circuit_calls_with_callbacks");
      s.eval();
      if (!accepted.empty())
        s.fail(id, "a placement call on another, independent circuit made from " + here + " did not protect that circuit: its callback got structural setter " + accepted + " accepted");
      if (!c.isInUse_) s.fail(id, "a placement call on another circuit made from " + here + " released this circuit while its own call is still running");
    }
    if (g_bail) {
      r.callbackThrew = true;
      s.op("cbthrow");
      throw std::runtime_error("harness: busy protocol broken, run abandoned");
    }
    if (j == throwAt) {
      r.callbackThrew = true;
      s.op("cbthrow");
      if (j % 3 == 0) throw std::runtime_error("callback failure");
      if (j % 3 == 1) throw std::logic_error("callback failure");
      throw 42;
    }
    s.op("cbend");
  };
  try {
    if (useCallback) callStage(c, st, p, cb); else callStage(c, st, p, {});
    r.outcome = "ok";
  } catch (const std::exception &e) {
    r.outcome = vc::exClass(e);
  } catch (...) {
    r.outcome = "throw:other";
  }
  // how the stage ended, as seen by the model: a throw that did not come from the callback
  // is the stage's own
  if (r.outcome == "ok") s.op("stagereturn");
  else if (!r.callbackThrew) s.op("stagethrow");
  s.op("end");
  // observed in-use flag: a structural setter with the current value is accepted iff the flag is clear
  bool inUse = false;
  {
    auto rows = c.rows_;
    try { c.setRows(rows); } catch (...) { inUse = true; }
  }
  r.inUseAfter = inUse;
  s.impl(std::string("end ") + (r.outcome == "ok" ? "ok" : "throw") + " inuse=" + (inUse ? "1" : "0"));
  s.eval();
  s.sizes(id, c, std::string("after ") + stageName(st) + ctx + " ended (" + r.outcome + ")");
  if (depth > 0 && !inUse)
    s.fail(id, std::string("a ") + stageName(st) + " call" + ctx + " released the circuit when it " +
                   (r.outcome == "ok" ? "returned" : "threw") + ": the outer call is still in progress but structural setters are accepted");
  if (depth == 0 && inUse)
    s.fail(id, std::string("the circuit is still in use after ") + stageName(st) + " ended (" + r.outcome + ")");
  return r;
}

// after a call: everything the property promises
void afterCall(Sink &s, const std::string &id, Circuit &c, const std::string &what) {
  try {
    c.check();
  } catch (...) {
    s.fail(id, "Circuit::check() fails " + what);
  }
  // every structural setter must be accepted again (setupRows last: it rewrites the rows)
  Circuit k = c;
  for (auto &sc : structuralSetters(k)) runSetter(s, id, k, sc, false, what);
  try {
    k.check();
  } catch (...) {
    s.fail(id, "Circuit::check() fails after the setters " + what);
  }
}

ColoquinteParameters smallParams(vh::Rng &g) {
  ColoquinteParameters p(g.range(1, 9));
  p.global.maxNbSteps = g.range(1, 4);
  p.detailed.nbPasses = g.range(0, 2);
  p.seed = g.range(0, 1000);
  return p;
}

ColoquinteParameters invalidParams(vh::Rng &g, std::string &which) {
  ColoquinteParameters p = smallParams(g);
  switch (g.range(0, 7)) {
    case 0: p.legalization.orderingY = 1.0; which = "legalization.orderingY=1"; break;
    case 1: p.detailed.nbPasses = -1; which = "detailed.nbPasses=-1"; break;
    case 2: p.global.gapTolerance = -0.5; which = "global.gapTolerance=-0.5"; break;
    case 3: p.global.roughLegalization.binSize = 0.5; which = "global.roughLegalization.binSize=0.5"; break;
    case 4: p.global.penalty.updateFactor = 1.0; which = "global.penalty.updateFactor=1"; break;
    case 5: p.global.continuousModel.maxNbConjugateGradientSteps = 0; which = "global.continuousModel.maxNbConjugateGradientSteps=0"; break;
    case 6: p.legalization.costModel = LegalizationModel::L2; which = "legalization.costModel=L2"; break;
    default: p.detailed.shiftNbRows = 0; which = "detailed.shiftNbRows=0"; break;
  }
  return p;
}

// make the legalization infeasible: widen the movable cells until they cannot fit
void makeInfeasible(Circuit &c, vh::Rng &g) {
  long long rowW = 0;
  for (const Row &r : c.rows_) rowW += r.width();
  std::vector<int> w = c.cellWidth_, h = c.cellHeight_;
  int mode = g.range(0, 1);
  for (int i = 0; i < c.nbCells(); ++i) {
    if (c.cellIsFixed_[i]) continue;
    bool turn = isTurn(c.cellOrientation_[i]);
    int &placedW = turn ? h[i] : w[i];
    if (mode == 0) placedW = (int)rowW + 5;       // wider than every row
    else placedW = std::max<long long>(placedW, rowW / std::max(1, c.nbCells() / 2) + 3);  // too much area
  }
  c.setCellWidth(w);
  c.setCellHeight(h);
}

// ---------------------------------------------------------------- infeasible circuits
// A circuit whose legalization must fail because of ONE cell (the victim), with movable
// off-grid cells before and after it in index order.
enum InfKind { TALL = 0, WIDE_BLOCK, NO_STACK, LOW, NON_MULTIPLE, POLARITY, POLARITY_BLOCK, WIDE_STD, NB_INF_KINDS };
const char *infKindName(int k) {
  static const char *n[] = {"block_taller_than_rows", "block_wider_than_rows", "block_without_row_stack", "cell_lower_than_row",
                            "height_not_multiple", "polarity_forbidden", "polarity_forbidden_block", "cell_wider_than_rows"};
  return n[k];
}

struct Infeasible {
  Circuit c{0};
  int victim = -1;
  int kind = 0;
  int rowHeight = 0;
};

Infeasible genInfeasible(vh::Rng &g) {
  Infeasible inf;
  int kind = g.range(0, NB_INF_KINDS - 1);
  inf.kind = kind;
  int H = g.range(2, 8);
  inf.rowHeight = H;
  int nRows = g.range(1, 4);
  if ((kind == NO_STACK || kind == POLARITY_BLOCK) && nRows < 2) nRows = g.range(2, 4);
  int W = g.range(12, 40);
  int x0 = g.range(-20, 20), y0 = g.range(-20, 20);
  bool polKind = kind == POLARITY || kind == POLARITY_BLOCK;
  bool victimSE = g.chance(1, 2);  // rows N/FN and an SE victim, or rows S/FS and an NW victim
  int pattern = g.range(0, 2);
  static const std::vector<CellOrientation> unturned = {CellOrientation::N, CellOrientation::S, CellOrientation::FN, CellOrientation::FS};
  std::vector<Row> rows;
  int y = y0, maxRowW = 0;
  long long totalW = 0;
  for (int r = 0; r < nRows; ++r) {
    if (r > 0 && (kind == NO_STACK || g.chance(1, 10))) y += H * g.range(1, 2);
    CellOrientation ro;
    if (polKind) ro = victimSE ? (g.chance(1, 2) ? CellOrientation::N : CellOrientation::FN) : (g.chance(1, 2) ? CellOrientation::S : CellOrientation::FS);
    else if (pattern == 0) ro = (r % 2 == 0) ? CellOrientation::N : CellOrientation::FS;
    else if (pattern == 1) ro = CellOrientation::N;
    else ro = g.pick(unturned);
    int a = x0 + (g.chance(1, 4) ? g.range(-3, 3) : 0);
    int b = x0 + W + (g.chance(1, 4) ? g.range(-3, 3) : 0);
    if (kind != WIDE_BLOCK && kind != WIDE_STD && g.chance(1, 8)) {  // split row
      int m1 = g.range(a + 3, b - 4), m2 = g.range(m1, m1 + 2);
      rows.emplace_back(a, m1, y, y + H, ro);
      rows.emplace_back(m2, b, y, y + H, ro);
      maxRowW = std::max(maxRowW, std::max(m1 - a, b - m2));
      totalW += (m1 - a) + (b - m2);
    } else {
      rows.emplace_back(a, b, y, y + H, ro);
      maxRowW = std::max(maxRowW, b - a);
      totalW += b - a;
    }
    y += H;
  }
  int yTop = y;
  int levels = (yTop - y0) / H;
  struct C { int pw, ph; int x, y; CellOrientation orient; bool fixed, obs; CellRowPolarity pol; bool victim; };
  std::vector<C> cells;
  long long used = 0;
  auto normal = [&]() {
    C c{};
    int pw = g.range(1, 4), rh = 1;
    if (nRows >= 2 && kind != NO_STACK && g.chance(1, 6)) rh = 2;
    if ((used + (long long)pw * rh) * 5 > totalW * 2) { pw = 1; rh = 1; }
    used += (long long)pw * rh;
    c.pw = pw; c.ph = rh * H;
    c.pol = CellRowPolarity::ANY;
    if (g.chance(1, 3)) c.pol = g.chance(1, 2) ? CellRowPolarity::SAME : CellRowPolarity::OPPOSITE;
    c.orient = (c.pol == CellRowPolarity::ANY && g.chance(1, 5)) ? (CellOrientation)g.range(0, 7) : g.pick(unturned);
    if (g.chance(1, 8)) { c.x = g.range(-150, 150); c.y = g.range(-150, 150); }
    else { c.x = g.range(x0 - 4, x0 + W + 2); c.y = g.range(y0 - 3, yTop + 2); }
    if ((c.y - y0) % H == 0) c.y += 1;  // off-grid: a successful legalization has to move it
    c.obs = g.chance(1, 2);
    return c;
  };
  auto fixedCell = [&]() {
    C c{};
    c.fixed = true;
    c.obs = g.chance(1, 2);
    c.pw = g.range(1, 3); c.ph = g.range(1, H);
    c.orient = g.pick(unturned);
    c.pol = CellRowPolarity::ANY;
    c.x = g.range(x0 - 3, x0 + W); c.y = g.range(y0 - H, yTop);
    return c;
  };
  int nBefore = g.range(1, 3), nAfter = g.range(1, 3);
  for (int i = 0; i < nBefore; ++i) { if (g.chance(1, 4)) cells.push_back(fixedCell()); cells.push_back(normal()); }
  {
    C v{};
    v.victim = true;
    v.pol = CellRowPolarity::ANY;
    v.pw = g.range(1, 4); v.ph = H;
    switch (kind) {
      case TALL: v.ph = (levels + g.range(1, 2)) * H; break;
      case WIDE_BLOCK: v.ph = g.range(2, 3) * H; v.pw = maxRowW + g.range(1, 5); break;
      case NO_STACK: v.ph = 2 * H; v.pw = g.range(1, 3); break;
      case LOW: v.ph = g.range(1, H - 1); break;
      case NON_MULTIPLE: v.ph = H + g.range(1, H - 1); break;
      case POLARITY: v.pol = victimSE ? CellRowPolarity::SE : CellRowPolarity::NW; break;
      case POLARITY_BLOCK: v.pol = victimSE ? CellRowPolarity::SE : CellRowPolarity::NW; v.ph = 2 * H; break;
      case WIDE_STD: v.pw = maxRowW + g.range(1, 5); break;
    }
    v.orient = (v.pol == CellRowPolarity::ANY && g.chance(1, 5)) ? (CellOrientation)g.range(0, 7) : g.pick(unturned);
    v.x = g.range(x0 - 4, x0 + W + 2); v.y = g.range(y0 - 3, yTop + 2);
    v.obs = g.chance(1, 2);
    inf.victim = cells.size();
    cells.push_back(v);
  }
  for (int i = 0; i < nAfter; ++i) { cells.push_back(normal()); if (g.chance(1, 4)) cells.push_back(fixedCell()); }
  int n = cells.size();
  Circuit circ(n);
  std::vector<int> w(n), h(n), xs(n), ys(n);
  std::vector<bool> fx(n), ob(n);
  std::vector<CellOrientation> orr(n);
  std::vector<CellRowPolarity> pol(n);
  for (int i = 0; i < n; ++i) {
    bool turn = isTurn(cells[i].orient);
    w[i] = turn ? cells[i].ph : cells[i].pw; h[i] = turn ? cells[i].pw : cells[i].ph;
    xs[i] = cells[i].x; ys[i] = cells[i].y;
    fx[i] = cells[i].fixed; ob[i] = cells[i].obs; orr[i] = cells[i].orient; pol[i] = cells[i].pol;
  }
  circ.setCellWidth(w); circ.setCellHeight(h); circ.setCellX(xs); circ.setCellY(ys);
  circ.setCellIsFixed(fx); circ.setCellIsObstruction(ob); circ.setCellOrientation(orr); circ.setCellRowPolarity(pol);
  circ.setRows(rows);
  int nn = g.range(0, n + 2);
  for (int k = 0; k < nn; ++k) {
    int deg = g.range(1, 4);
    std::vector<int> pc, px, py;
    for (int d = 0; d < deg; ++d) { pc.push_back(g.range(0, n - 1)); px.push_back(g.range(-1, 3)); py.push_back(g.range(-1, 3)); }
    circ.addNet(pc, px, py);
  }
  inf.c = circ;
  return inf;
}

// the victim becomes an ordinary standard cell
void repairVictim(Circuit &c, const Infeasible &inf) {
  std::vector<int> w = c.cellWidth_, h = c.cellHeight_;
  bool turn = isTurn(c.cellOrientation_[inf.victim]);
  w[inf.victim] = turn ? inf.rowHeight : 1;
  h[inf.victim] = turn ? 1 : inf.rowHeight;
  c.setCellWidth(w);
  c.setCellHeight(h);
  std::vector<CellRowPolarity> p = c.cellRowPolarity_;
  p[inf.victim] = CellRowPolarity::ANY;
  c.setCellRowPolarity(p);
}

// what a legalizer that ignored the victim would do: is the rest feasible, and does it move a
// movable cell of lower index than the victim?  (measures the sensitivity of the "unchanged
// after a failed legalization" oracle to an export that happens before the failure is detected)
void measureSensitivity(Sink &s, const Infeasible &inf, const ColoquinteParameters &params) {
  Circuit ref = inf.c;
  std::vector<bool> fx = ref.cellIsFixed_, ob = ref.cellIsObstruction_;
  fx[inf.victim] = true; ob[inf.victim] = false;
  ref.setCellIsFixed(fx); ref.setCellIsObstruction(ob);
  std::string before = placementOf(ref);
  std::vector<int> x0 = ref.cellX_, y0 = ref.cellY_;
  try {
    ref.legalize(params);
  } catch (...) {
    s.count("infeasible_rest_also_infeasible");
    return;
  }
  s.count("infeasible_rest_feasible");
  bool lower = false, higher = false;
  for (int i = 0; i < ref.nbCells(); ++i) {
    if (ref.cellIsFixed_[i]) continue;
    if (ref.cellX_[i] != x0[i] || ref.cellY_[i] != y0[i]) (i < inf.victim ? lower : higher) = true;
  }
  if (lower) s.count("infeasible_lower_index_cell_would_move");
  if (higher) s.count("infeasible_higher_index_cell_would_move");
}

// after a failed call: the placement and every member must be as before
void checkFailedUnchanged(Sink &s, const std::string &id, const Circuit &d, const std::string &pl, const std::string &before,
                          const std::string &what) {
  if (placementOf(d) != pl) s.fail(id, "failed legalization inside " + what + " changed the placement: before " + pl + " after " + placementOf(d));
  else if (snap(d) != before) s.fail(id, "failed legalization inside " + what + " changed the circuit");
}

void runInstance(Sink &s, uint64_t seed, long long k, const std::string &id) {
  vh::Rng g = vh::Rng::forCase(seed, k);
  vc::GenOpts o;
  o.maxRows = 4;
  o.maxCells = 8;
  vc::GenInfo gi;
  Circuit base = vc::genCircuit(g, o, &gi);
  ColoquinteParameters params = smallParams(g);
  s.op("case " + id);
  s.impl("case " + id);
  // 0..4 callback faults, 5..6 invalid params, 7 infeasible (too dense), 8..10 infeasible (one unplaceable cell),
  // 11..13 nested placement calls
  int scenario = g.range(0, 13);
  std::string desc = "seed=" + std::to_string(seed) + " k=" + std::to_string(k) + " scenario=" + std::to_string(scenario);
  s.os << "D " << desc << "\n";
  uint64_t hashOverride = 0;
  const char *scName = scenario <= 4 ? "callback_faults" : scenario <= 6 ? "invalid_params" : scenario <= 7 ? "infeasible_dense"
                       : scenario <= 10 ? "infeasible_one_cell" : "nested_calls";

  if (scenario <= 4) {
    for (int st = 0; st < 3; ++st) {
      // 1. clean run
      Circuit c0 = base;
      s.op("fresh");
      CallResult clean = observedCall(s, id, c0, st, params, -1, true, false);
      s.count(std::string("clean_") + stageName(st) + (clean.outcome == "ok" ? "_ok" : "_throws"));
      s.count("callbacks_total", clean.callbacks);
      afterCall(s, id, c0, std::string("after a clean ") + stageName(st) + " (" + clean.outcome + ")");
      int N = clean.callbacks;
      // 2. every throw point
      for (int kk = 0; kk < N; ++kk) {
        Circuit c = base;
        s.op("fresh");
        CallResult r = observedCall(s, id, c, st, params, kk, true, true);
        s.count("throw_points");
        std::string what = std::string("after ") + stageName(st) + " whose callback threw at index " + std::to_string(kk);
        if (r.outcome == "ok") s.fail(id, std::string("exception thrown by callback ") + std::to_string(kk) + " of " + stageName(st) + " was swallowed");
        afterCall(s, id, c, what);
        // 4. a further placement call on the same circuit
        int st2 = g.range(0, 2);
        CallResult r2 = observedCall(s, id, c, st2, params, -1, g.chance(1, 2), true);
        s.count(std::string("further_") + stageName(st2) + (r2.outcome == "ok" ? "_ok" : "_throws"));
        afterCall(s, id, c, what + " and a further " + stageName(st2));
      }
    }
  } else if (scenario <= 6) {
    std::string which;
    ColoquinteParameters bad = invalidParams(g, which);
    for (int st = 0; st < 3; ++st) {
      Circuit c = base;
      s.op("fresh");
      std::string before = snap(c);
      CallResult r = observedCall(s, id, c, st, bad, -1, true, true);
      s.count("invalid_params_calls");
      if (r.outcome == "ok") s.fail(id, std::string(stageName(st)) + " accepted invalid parameters " + which);
      if (r.callbacks != 0) s.fail(id, std::string(stageName(st)) + " invoked a callback although the parameters are invalid: " + which);
      if (snap(c) != before) s.fail(id, std::string(stageName(st)) + " modified the circuit although it rejected the parameters " + which);
      afterCall(s, id, c, std::string("after ") + stageName(st) + " rejected parameters " + which);
      CallResult r2 = observedCall(s, id, c, LEGALIZE, params, -1, true, true);
      s.count(std::string("further_legalize") + (r2.outcome == "ok" ? "_ok" : "_throws"));
      afterCall(s, id, c, "after rejected parameters and a further legalize");
    }
  } else if (scenario <= 7) {
    Circuit c = base;
    makeInfeasible(c, g);
    for (int st = 1; st < 3; ++st) {
      Circuit d = c;
      s.op("fresh");
      std::string pl = placementOf(d), before = snap(d);
      CallResult r = observedCall(s, id, d, st, params, -1, true, true);
      if (r.outcome != "ok" && r.callbacks == 0) {
        s.count("failed_legalizations");
        s.count("failed_legalizations_dense");
        checkFailedUnchanged(s, id, d, pl, before, std::string(stageName(st)) + " (too dense)");
      } else {
        s.count("infeasible_attempt_was_feasible");
      }
      afterCall(s, id, d, std::string("after an infeasible ") + stageName(st));
      // repair and place again
      d.setCellWidth(base.cellWidth_);
      d.setCellHeight(base.cellHeight_);
      CallResult r2 = observedCall(s, id, d, st, params, -1, true, true);
      s.count(std::string("further_") + stageName(st) + (r2.outcome == "ok" ? "_ok" : "_throws"));
      afterCall(s, id, d, "after an infeasible legalization, repair and a further call");
    }
  } else if (scenario <= 10) {
    Infeasible inf = genInfeasible(g);
    std::string kn = infKindName(inf.kind);
    s.os << "D " << desc << " kind=" << kn << " victim=" << inf.victim << " circuit: " << vh::jsonEscape(vc::circuitString(inf.c)) << "\n";
    s.count(std::string("infeasible_kind_") + kn);
    hashOverride = vh::hashStr(snap(inf.c));
    measureSensitivity(s, inf, params);
    // a height that is not a multiple of the row height is placed by the Tetris stage (rounded up):
    // legalize may succeed, and the detailed placer is not specified on such a cell -> legalize only
    int lastStage = inf.kind == NON_MULTIPLE ? LEGALIZE : DETAILED;
    for (int st = 1; st <= lastStage; ++st) {
      Circuit d = inf.c;
      s.op("fresh");
      std::string pl = placementOf(d), before = snap(d);
      CallResult r = observedCall(s, id, d, st, params, -1, true, true);
      if (r.outcome != "ok" && r.callbacks == 0) {
        s.count("failed_legalizations");
        s.count(std::string("failed_") + stageName(st) + "_" + kn);
        checkFailedUnchanged(s, id, d, pl, before, std::string(stageName(st)) + " (" + kn + ", unplaceable cell " + std::to_string(inf.victim) + ")");
      } else {
        s.count("infeasible_attempt_was_feasible");
        s.count(std::string("feasible_after_all_") + kn);
      }
      afterCall(s, id, d, std::string("after an infeasible ") + stageName(st) + " (" + kn + ")");
      // repair and place again
      repairVictim(d, inf);
      CallResult r2 = observedCall(s, id, d, st, params, -1, true, true);
      s.count(std::string("further_") + stageName(st) + (r2.outcome == "ok" ? "_ok" : "_throws"));
      afterCall(s, id, d, "after an infeasible legalization (" + kn + "), repair and a further call");
    }
  } else {
    std::string which;
    ColoquinteParameters bad = invalidParams(g, which);
    for (int st = 0; st < 3; ++st) {
      Circuit c0 = base;
      s.op("fresh");
      CallResult clean = observedCall(s, id, c0, st, params, -1, true, false);
      int N = clean.callbacks;
      // every callback index of the outer call (at most 6 of them: first 3, last 3)
      std::vector<int> idx;
      for (int j = 0; j < N; ++j) if (N <= 6 || j < 3 || j >= N - 3) idx.push_back(j);
      for (int j : idx) {
        Nest n;
        n.atCallback = j;
        n.stage = g.range(0, 2);
        bool invalid = g.chance(2, 5);
        n.params = invalid ? bad : params;
        n.withCallback = g.chance(1, 2);
        n.throwAt = n.withCallback && g.chance(1, 2) ? g.range(0, 2) : -1;
        n.propagate = g.chance(1, 3);
        n.what = invalid ? "invalid parameters " + which : n.withCallback ? (n.throwAt >= 0 ? "with a callback throwing at " + std::to_string(n.throwAt) : "with a callback") : "no callback";
        Circuit c = base;
        s.op("fresh");
        g_bail = false;
        CallResult r = observedCall(s, id, c, st, params, -1, true, true, &n);
        s.count(std::string("outer_") + stageName(st) + (r.outcome == "ok" ? "_ok" : "_throws"));
        std::string what = std::string("after ") + stageName(st) + " whose callback " + std::to_string(j) + " made a nested " + stageName(n.stage) + " call (" + n.what + ")";
        afterCall(s, id, c, what);
        CallResult r2 = observedCall(s, id, c, LEGALIZE, params, -1, true, true);
        s.count(std::string("further_legalize") + (r2.outcome == "ok" ? "_ok" : "_throws"));
        afterCall(s, id, c, what + " and a further legalize");
      }
    }
  }
  g_bail = false;
  for (int h = 0; h < 3; ++h) netsHistory(s, id, g);
  for (auto &ln : g_szLines) { s.op(ln.first); s.impl(ln.second); s.eval(); }
  s.count("size_correspondence_lines", (long long)g_szLines.size());
  g_szLines.clear();
  s.count(std::string("scenario_") + scName);
  s.os << "N " << (hashOverride ? hashOverride : vh::hashStr(snap(base))) << "\n";
}

}  // namespace

int main(int argc, char **argv) {
  vh::Args a = vh::parseArgs(argc, argv);
  // the library reports progress on stdout
  if (!freopen("/dev/null", "w", stdout)) return 3;
  vh::Out out(a.out);
  out.rule = "instance = random circuit (<=4 rows, <=8 movable cells + fixed) x parameters (effort 1..9, 1..4 global steps, "
             "0..2 detailed passes); scenarios: callback throws at EVERY index of each of the three stages (exhaustive per "
             "instance) / invalid parameter set / infeasible legalization, too dense or with ONE unplaceable cell of 8 kinds "
             "(block taller than the rows, wider than every row, without a stack of adjacent rows; cell lower than a row; height "
             "not a multiple of the row height; polarity no row accepts, std cell or block; std cell wider than every row) "
             "between movable off-grid cells of lower and higher index (distribution: infeasible_kind_*, "
             "infeasible_lower_index_cell_would_move = a legalizer ignoring the victim moves a lower-index cell) / nested "
             "placement calls made from EVERY callback index (<= 6 per stage) of each stage, with valid or invalid parameters, "
             "with their own probing/throwing callback, caught or propagated; every callback calls the 7 structural setters "
             "(must throw, circuit equal), also after a nested call returned or threw, and 3 non-structural ones; after each "
             "call all structural setters, Circuit::check() and a further placement call; after a failed legalization all "
             "members compared; after every setter call (accepted or refused) and every placement call (nested or not, "
             "returned or thrown) every per-cell getter must return nbCells() entries (size_oracle_checks), and the size "
             "semantics must predict all member lengths (size_correspondence_lines); three value histories of the net arrays per instance (5..14 addNet/setNets/setNetWeights calls on a fresh Circuit(0..6), valid or malformed in one of 13 ways: nv_* counts; the real netLimits_/pinCells_ equal the model's after every call; oracle: value invariant, Circuit::check(), every getter index in range, refused call changes nothing).  non-trivial = instance that executed at least one placement call ending by an exception; "
             "distinct by hash of the circuit";
  long long n = a.thorough() ? 3000 : (a.search() ? 600 : 300);
  std::vector<std::pair<uint64_t, long long>> ks;  // (seed, k)
  if (!a.replay.empty()) {
    // replay file: JSON written by check.py; its input text contains "seed=<s> k=<k>"
    std::ifstream f(a.replay);
    std::string all((std::istreambuf_iterator<char>(f)), std::istreambuf_iterator<char>());
    size_t p = all.find("seed=");
    size_t q = p == std::string::npos ? p : all.find(" k=", p);
    if (q != std::string::npos) ks.push_back({strtoull(all.c_str() + p + 5, nullptr, 10), atoll(all.c_str() + q + 3)});
  } else {
    if (!a.corpus.empty()) {
      for (auto &ln : vh::readLines(a.corpus + "/cases.txt")) {  // "<seed> <k>" per line
        std::istringstream is(ln);
        uint64_t sd; long long k;
        if (is >> sd >> k) { ks.push_back({sd, k}); out.count("corpus"); }
      }
    }
    for (long long k = 0; k < n; ++k) ks.push_back({a.seed, k});
  }
  if (a.only >= 0) ks = {{a.seed, a.only}};
  long long aborted = 0;
  for (auto &sk : ks) {
    long long k = sk.second;
    std::string id = (sk.first == a.seed ? "r" : "c" + std::to_string(sk.first) + "_") + std::to_string(k);
    std::string output, diag;
    std::string st = vh::isolated([&](std::ostream &os) { Sink s{os}; runInstance(s, sk.first, k, id); }, output, 300, &diag);
    if (st != "ok") {
      // an abort inside a placement call is not a C10 matter (C07 owns it); it is counted, the
      // instance contributes nothing
      ++aborted;
      out.count("instance_lost_" + st);
      if (out.notes.size() < 5) out.notes.push_back("instance " + id + " lost (" + st + "): " + diag.substr(0, 300));
      continue;
    }
    std::istringstream is(output);
    std::string ln, desc;
    bool anyThrow = false;
    uint64_t h = 0;
    while (std::getline(is, ln)) {
      if (ln.size() < 1) continue;
      char t = ln[0];
      std::string rest = ln.size() > 2 ? ln.substr(2) : "";
      if (t == 'O') out.ops << rest << "\n";
      else if (t == 'I') { out.impl << rest << "\n"; if (rest.rfind("end throw", 0) == 0) anyThrow = true; }
      else if (t == 'E') out.evaluations++;
      else if (t == 'D') desc = rest;
      else if (t == 'N') h = strtoull(rest.c_str(), nullptr, 10);
      else if (t == 'C') {
        std::istringstream cs(rest);
        std::string key; long long v;
        cs >> key >> v;
        out.count(key, v);
      } else if (t == 'F') {
        size_t tab = rest.find('\t');
        out.fail(rest.substr(0, tab), rest.substr(tab + 1), desc + " (rerun: h_C10 --seed <seed> --only <k>)");
      }
    }
    if (anyThrow) out.nontrivial(h);
    out.sample(desc);
  }
  if (aborted * 2 > (long long)ks.size())
    out.fail("lost", "more than half of the instances were lost to aborts/sanitizer reports inside the library", "see notes");
  out.finish();
  return 0;
}
