// C20 — file export and Python layer are faithful to the circuit.
//
// Two halves, orchestrated here:
//  (1) `Circuit::exportIspd` is called on generated circuits into <out>/ispd/<k>/d.*; the files are
//      tokenised by an independent parser below into records, printed to impl.txt and compared with
//      `Ispd.write` (op `export` of lean/Driver/C20.lean);
//  (2) harness/c20_reader.py (python3, stdlib only) imports /repo/pycoloquinte/coloquinte.py against
//      the pure-Python stand-in harness/pystub/coloquinte_pybind.py, reads the same files with
//      `Circuit.read_ispd` and prints the re-read circuit (or the exception class); compared with
//      `Ispd.read` (ops `readback` / `read`).  A stream of *mutated* files (written by this harness
//      from the parsed records) exercises the reader outside the writer's image.
// Text level (Model/IspdText.lean): for every unmutated case the *whole text* of the five exported files is
// compared line by line with `auxText/nodesText/plText/netsText/sclText` (op `exporttext`), and the Python
// result with `Text.readIspd` on the model's own file system (`readbackfs`).  The mutated record files are
// also given to the model as raw text (`fsreset/file/l/readispd`), and a stream `tmut` applies *textual*
// mutations (comments, blank lines, padding, dropped/extra/junk tokens, glued colons, upper-cased keys,
// duplicated headers, damaged .aux files; opened by .aux path, by prefix without suffix, or by directory).
// Stream `rel` (F18): export to *relative* prefixes (bare, `sub/d`, `a/b/d`, `./d`) and to an absolute one from a
// working directory of its own, compare the .aux text, and read back by .aux path, by bare prefix and by directory;
// every read must reproduce the circuit (direct oracle) and equal `Text.readIspd` on the model's file system.
// `write_placement`/`load_placement` of coloquinte.py: stream through c20_reader.py jobs `wplp` (write, then
// load into a blanked circuit) and `lp` (load a harness-made .pl with /FIXED markers, missing cells, …).
// Direct oracle (in-domain, unmutated cases): the re-read circuit equals the original field by field
// (sizes, fixed flags, positions, orientations, connectivity, pin offsets, row rectangles, row
// orientations) and the wirelength computed independently in Python on the re-read circuit equals
// `Circuit::hpwl()` of the original; every Python-visible enum value of the stand-in (built from the
// text of module.cpp) equals the C++ enumerator of the same name.
#include <sys/stat.h>
#include <unistd.h>

#include "common/circuit.hpp"
#include "common/harness.hpp"

#ifndef C20_VERIF_DIR
#define C20_VERIF_DIR "/verif"
#endif
#ifndef C20_REPO_DIR
#define C20_REPO_DIR "/repo"
#endif

using namespace coloquinte;

// ------------------------------------------------------------------ records
struct NodeRec { std::string name, w, h; bool terminal = false; };
struct PlRec { std::string name, x, y, orient; bool fixedMarker = false; };
struct PinRec { std::string cell, dx, dy; };  // dx, dy: decimal tokens as found in the file
struct NetRec { std::string degree, name; std::vector<PinRec> pins; };
struct RowRec { std::string coordinate, height, sitewidth = "1", origin, numsites, siteorient; };
struct Files {
  std::string numNodes = "none", numTerminals = "none", numNets = "none", numPins = "none", numRows = "none";
  std::vector<NodeRec> nodes;
  std::vector<PlRec> pl;
  std::vector<NetRec> nets;
  std::vector<RowRec> rows;
  bool bad = false;  // the tokeniser met a line it does not understand
};

static std::vector<std::string> toks(std::string line, bool colonIsSpace) {
  if (colonIsSpace) for (char &c : line) if (c == ':') c = ' ';
  std::vector<std::string> r;
  std::istringstream is(line);
  std::string t;
  while (is >> t) r.push_back(t);
  return r;
}

static bool startsWith(const std::string &s, const char *p) { return s.rfind(p, 0) == 0; }

// a line or path as one token of the driver protocol (see lean/Driver/C20.lean)
static std::string esc(const std::string &l) {
  if (l.empty()) return "\\e";
  std::string r;
  for (unsigned char c : l) {
    if (c == ' ') r += "\\s";
    else if (c == '\t') r += "\\t";
    else if (c == '\\') r += "\\\\";
    else if (c < 33 || c > 126) r += "\\u" + std::to_string((int)c) + ";";
    else r += (char)c;
  }
  return r;
}

static std::vector<std::string> rawLines(const std::string &path) {
  std::vector<std::string> r;
  std::ifstream in(path);
  std::string line;
  while (std::getline(in, line)) r.push_back(line);
  return r;
}

static void writeLines(const std::string &path, const std::vector<std::string> &ls) {
  std::ofstream o(path);
  for (auto &l : ls) o << l << "\n";
}

static void tagged(std::ostream &os, const char *tag, const std::vector<std::string> &ls) {
  for (auto &l : ls) os << tag << " " << esc(l) << "\n";
}

// `file`/`l` ops that give one real file to the model's file system
static void fsFile(std::ostream &ops, const std::string &path) {
  ops << "file " << esc(path) << "\n";
  for (auto &l : rawLines(path)) ops << "l " << esc(l) << "\n";
}

// exact value of a decimal token ([-]ddd[.ddd][e[+-]dd]) as a reduced fraction "num/den"
static std::string decToRat(const std::string &t) {
  size_t i = 0;
  bool neg = false;
  if (i < t.size() && (t[i] == '-' || t[i] == '+')) { neg = t[i] == '-'; ++i; }
  __int128 num = 0, den = 1;
  bool any = false, frac = false;
  for (; i < t.size(); ++i) {
    char c = t[i];
    if (c >= '0' && c <= '9') { num = num * 10 + (c - '0'); if (frac) den *= 10; any = true; }
    else if (c == '.' && !frac) frac = true;
    else break;
  }
  if (!any) return "bad:" + t;
  if (i < t.size()) {
    if (t[i] != 'e' && t[i] != 'E') return "bad:" + t;
    ++i;
    bool eneg = false;
    if (i < t.size() && (t[i] == '-' || t[i] == '+')) { eneg = t[i] == '-'; ++i; }
    int e = 0;
    bool eany = false;
    for (; i < t.size() && t[i] >= '0' && t[i] <= '9'; ++i) { e = e * 10 + (t[i] - '0'); eany = true; }
    if (!eany || i != t.size() || e > 18) return "bad:" + t;
    for (int k = 0; k < e; ++k) { if (eneg) den *= 10; else num *= 10; }
  }
  __int128 a = num, b = den;
  while (b != 0) { __int128 r = a % b; a = b; b = r; }
  if (a != 0) { num /= a; den /= a; }
  auto str = [](__int128 v) { std::string s; if (v == 0) return std::string("0"); while (v > 0) { s.insert(s.begin(), char('0' + (int)(v % 10))); v /= 10; } return s; };
  return std::string(neg && num != 0 ? "-" : "") + str(num) + "/" + str(den);
}

static Files parseFiles(const std::string &prefix) {
  Files f;
  std::string line;
  {
    std::ifstream in(prefix + ".nodes");
    bool first = true;
    while (std::getline(in, line)) {
      auto t = toks(line, true);
      if (t.empty() || t[0][0] == '#') continue;
      if (first && t[0] == "UCLA") { first = false; continue; }
      if (t[0] == "NumNodes" && t.size() == 2) { f.numNodes = t[1]; continue; }
      if (t[0] == "NumTerminals" && t.size() == 2) { f.numTerminals = t[1]; continue; }
      if (t.size() == 3 || (t.size() == 4 && t[3] == "terminal")) f.nodes.push_back({t[0], t[1], t[2], t.size() == 4});
      else f.bad = true;
    }
  }
  {
    std::ifstream in(prefix + ".pl");
    bool first = true;
    while (std::getline(in, line)) {
      auto t = toks(line, true);
      if (t.empty() || t[0][0] == '#') continue;
      if (first && t[0] == "UCLA") { first = false; continue; }
      if (t.size() == 4 || (t.size() == 5 && t[4] == "/FIXED")) f.pl.push_back({t[0], t[1], t[2], t[3], t.size() == 5});
      else f.bad = true;
    }
  }
  {
    std::ifstream in(prefix + ".nets");
    bool first = true;
    while (std::getline(in, line)) {
      auto t = toks(line, true);
      if (t.empty() || t[0][0] == '#') continue;
      if (first && t[0] == "UCLA") { first = false; continue; }
      if (t[0] == "NumNets" && t.size() == 2) { f.numNets = t[1]; continue; }
      if (t[0] == "NumPins" && t.size() == 2) { f.numPins = t[1]; continue; }
      if (t[0] == "NetDegree" && t.size() == 3) { f.nets.push_back({t[1], t[2], {}}); continue; }
      if (t.size() == 4 && !f.nets.empty()) f.nets.back().pins.push_back({t[0], t[2], t[3]});
      else f.bad = true;
    }
  }
  {
    std::ifstream in(prefix + ".scl");
    bool inRow = false;
    std::vector<std::string> d;
    auto flush = [&]() {
      RowRec r;
      for (size_t i = 0; i + 1 < d.size(); i += 2) {
        const std::string &k = d[i], &v = d[i + 1];
        if (k == "Coordinate") r.coordinate = v;
        else if (k == "Height") r.height = v;
        else if (k == "Sitewidth") r.sitewidth = v;
        else if (k == "SubrowOrigin") r.origin = v;
        else if (k == "NumSites") r.numsites = v;
        else if (k == "Siteorient") r.siteorient = v;
        else if (k != "Sitespacing" && k != "Sitesymmetry") f.bad = true;
      }
      if (d.size() % 2) f.bad = true;
      f.rows.push_back(r);
    };
    while (std::getline(in, line)) {
      auto t = toks(line, true);
      if (t.empty()) continue;
      if (t[0] == "NumRows" && t.size() == 2) { f.numRows = t[1]; continue; }
      if (t[0] == "CoreRow") { inRow = true; d.clear(); continue; }
      if (t[0] == "End") { if (inRow) flush(); inRow = false; continue; }
      if (inRow) d.insert(d.end(), t.begin(), t.end());
    }
  }
  return f;
}

// the records as lines (same syntax in impl.txt after `export` and in ops.txt inside `files … endfiles`)
static void printFiles(std::ostream &os, const Files &f) {
  os << "hdr " << f.numNodes << " " << f.numTerminals << " " << f.numNets << " " << f.numPins << " " << f.numRows << "\n";
  for (auto &n : f.nodes) os << "node " << n.name << " " << n.w << " " << n.h << " " << (int)n.terminal << "\n";
  for (auto &p : f.pl) os << "pl " << p.name << " " << p.x << " " << p.y << " " << p.orient << " " << (int)p.fixedMarker << "\n";
  for (auto &n : f.nets) {
    os << "netdeg " << n.degree << " " << n.name << "\n";
    for (auto &p : n.pins) os << "pin " << p.cell << " " << decToRat(p.dx) << " " << decToRat(p.dy) << "\n";
  }
  for (auto &r : f.rows)
    os << "row " << r.coordinate << " " << r.height << " " << r.sitewidth << " " << r.origin << " " << r.numsites << " " << r.siteorient << "\n";
  if (f.bad) os << "unparsed-line\n";
}

// our own Bookshelf writer, for the mutated files (layout differs from export.cpp on purpose:
// comments, blank lines, different spacing)
static void writeTextFiles(const std::string &prefix, const Files &f) {
  { std::ofstream o(prefix + ".aux"); o << "RowBasedPlacement :  " << prefix << ".nodes " << prefix << ".nets " << prefix << ".pl " << prefix << ".scl\n"; }
  {
    std::ofstream o(prefix + ".nodes");
    o << "UCLA nodes 1.0\n# mutated by h_C20\n\n";
    if (f.numNodes != "none") o << "NumNodes : " << f.numNodes << "\n";
    if (f.numTerminals != "none") o << "NumTerminals : " << f.numTerminals << "\n";
    for (auto &n : f.nodes) o << "  " << n.name << " " << n.w << "   " << n.h << (n.terminal ? " terminal" : "") << "\n";
  }
  {
    std::ofstream o(prefix + ".pl");
    o << "UCLA pl 1.0\n\n# comment\n";
    for (auto &p : f.pl) o << p.name << " " << p.x << " " << p.y << " : " << p.orient << (p.fixedMarker ? " /FIXED" : "") << "\n";
  }
  {
    std::ofstream o(prefix + ".nets");
    o << "UCLA nets 1.0\n";
    if (f.numNets != "none") o << "NumNets : " << f.numNets << "\n";
    if (f.numPins != "none") o << "NumPins : " << f.numPins << "\n";
    for (auto &n : f.nets) {
      o << "NetDegree : " << n.degree << "   " << n.name << "\n";
      for (auto &p : n.pins) o << "    " << p.cell << " B : " << p.dx << "  " << p.dy << "\n";
    }
  }
  {
    std::ofstream o(prefix + ".scl");
    o << "UCLA scl 1.0\n# rows\n";
    if (f.numRows != "none") o << "NumRows : " << f.numRows << "\n";
    for (auto &r : f.rows) {
      o << "CoreRow Horizontal\n Coordinate : " << r.coordinate << "\n Height : " << r.height << "\n Sitewidth : " << r.sitewidth
        << "\n Sitespacing : " << r.sitewidth << "\n Siteorient : " << r.siteorient << "\n Sitesymmetry : Y\n SubrowOrigin : " << r.origin
        << " NumSites : " << r.numsites << "\nEnd\n";
    }
  }
}

// ------------------------------------------------------------------ domain of the format (independent of the model)
static bool inDomain(const Circuit &c) {
  for (int i = 0; i < c.nbCells(); ++i) if ((int)c.cellOrientation_[i] < 0 || (int)c.cellOrientation_[i] > 7) return false;
  for (auto &r : c.rows_) if ((int)r.orientation < 0 || (int)r.orientation > 7) return false;
  if (c.rows_.empty()) return false;
  int H = c.rows_[0].height();
  if (H == 0) return false;
  for (auto &r : c.rows_) if (r.height() != H) return false;
  for (int n = 0; n + 1 < (int)c.netLimits_.size(); ++n) {
    if (c.netLimits_[n + 1] <= c.netLimits_[n]) return false;
    for (int p = c.netLimits_[n]; p < c.netLimits_[n + 1]; ++p) {
      int cell = c.pinCells_[p];
      if (cell < 0 || cell >= c.nbCells()) return false;
      long long ax = 2LL * c.pinXOffsets_[p] - c.cellWidth_[cell], ay = 2LL * c.pinYOffsets_[p] - c.cellHeight_[cell];
      if (std::llabs(ax) >= 200000 || std::llabs(ay) >= 200000) return false;
    }
  }
  return true;
}

// ------------------------------------------------------------------ cases
struct Case {
  std::string id, stream;
  // impl.txt of the case: literal text produced by the C++ half, interleaved with blocks printed by Python
  std::vector<std::pair<bool, std::string>> segs;   // (is a Python block id, text or id)
  void lit(const std::string &t) { segs.emplace_back(false, t); }
  void blk(const std::string &id) { segs.emplace_back(true, id); }
  std::vector<std::string> oracleBlocks;   // Python blocks that must reproduce the original circuit
  std::string input;      // circuit text, for replays
  bool oracle = false;    // in-domain, unmutated: the property applies
  bool hasCircuit = false;
  Circuit circuit{0};
  long long hpwl = 0;
};

static void mkdirs(const std::string &p) { mkdir(p.c_str(), 0777); }

static Circuit rebuild(const Circuit &c, bool placed, int orientMode, vh::Rng &g) {
  // copy of c with (optionally) default positions/orientations, or orientations redrawn among all eight
  Circuit r(c.nbCells());
  r.setCellWidth(c.cellWidth_); r.setCellHeight(c.cellHeight_); r.setCellIsFixed(c.cellIsFixed_);
  r.setCellIsObstruction(c.cellIsObstruction_); r.setCellRowPolarity(c.cellRowPolarity_);
  if (placed) {
    r.setCellX(c.cellX_); r.setCellY(c.cellY_);
    std::vector<CellOrientation> o = c.cellOrientation_;
    if (orientMode == 1) for (auto &x : o) x = (CellOrientation)g.range(0, 7);
    r.setCellOrientation(o);
  }
  std::vector<Row> rows = c.rows_;
  if (orientMode == 1) for (auto &row : rows) if (g.chance(1, 3)) row.orientation = (CellOrientation)g.range(0, 7);
  r.setRows(rows);
  r.setNets(c.netLimits_, c.pinCells_, c.pinXOffsets_, c.pinYOffsets_, c.netWeights_);
  return r;
}

static Circuit smallCircuit(vh::Rng &g, long long mag, bool allEight) {
  // n cells (the first eight with the eight orientations when allEight), a few nets, 1-3 uniform rows
  int n = allEight ? 8 + g.range(0, 3) : g.range(0, 5);
  Circuit c(n);
  std::vector<int> w(n), h(n), x(n), y(n);
  std::vector<bool> fx(n), ob(n);
  std::vector<CellOrientation> o(n);
  std::vector<CellRowPolarity> pol(n);
  for (int i = 0; i < n; ++i) {
    w[i] = g.range(0, mag); h[i] = g.range(0, mag);
    x[i] = g.range(-mag, mag); y[i] = g.range(-mag, mag);
    fx[i] = g.chance(1, 3); ob[i] = g.chance(1, 2);
    o[i] = (allEight && i < 8) ? (CellOrientation)i : (CellOrientation)g.range(0, 7);
    pol[i] = (CellRowPolarity)g.range(0, 4);
  }
  c.setCellWidth(w); c.setCellHeight(h); c.setCellX(x); c.setCellY(y); c.setCellIsFixed(fx); c.setCellIsObstruction(ob);
  c.setCellOrientation(o); c.setCellRowPolarity(pol);
  int H = g.range(1, std::max<long long>(1, mag / 4)), nr = g.range(1, 3), y0 = g.range(-mag, mag);
  std::vector<Row> rows;
  for (int r = 0; r < nr; ++r) {
    int a = g.range(-mag, mag);
    rows.emplace_back(a, a + (int)g.range(0, mag), y0 + r * H, y0 + (r + 1) * H, (CellOrientation)g.range(0, 7));
  }
  c.setRows(rows);
  if (n > 0) {
    int nn = g.range(0, 2 * n);
    for (int k = 0; k < nn; ++k) {
      int deg = g.range(1, 4);
      std::vector<int> pc, px, py;
      for (int d = 0; d < deg; ++d) {
        int cell = (allEight && k < 8) ? k : g.range(0, n - 1);
        pc.push_back(cell);
        px.push_back(g.chance(1, 8) ? g.range(-mag / 2, mag) : g.range(0, w[cell]));
        py.push_back(g.chance(1, 8) ? g.range(-mag / 2, mag) : g.range(0, h[cell]));
      }
      c.addNet(pc, px, py, g.chance(1, 4) ? 0.5f : 1.0f);
    }
  }
  return c;
}

static void mutate(Files &f, vh::Rng &g, std::string &what) {
  int m = g.range(0, 17);
  auto pick = [&](size_t n) { return (size_t)g.range(0, (long long)n - 1); };
  switch (m) {
    case 0: what = "shuffle-pl"; for (size_t i = f.pl.size(); i > 1; --i) std::swap(f.pl[i - 1], f.pl[pick(i)]); break;
    case 1: what = "dup-pl"; if (!f.pl.empty()) { PlRec p = f.pl[pick(f.pl.size())]; p.x = std::to_string(g.range(-50, 50)); p.orient = "FW"; f.pl.push_back(p); } break;
    case 2: what = "drop-pl"; if (!f.pl.empty()) f.pl.erase(f.pl.begin() + pick(f.pl.size())); break;
    case 3: what = "bad-orient"; if (!f.pl.empty()) f.pl[pick(f.pl.size())].orient = g.chance(1, 2) ? "R90" : "INVALID"; break;
    case 4: what = "numnodes"; f.numNodes = std::to_string(f.nodes.size() + 1); break;
    case 5: what = "degree"; if (!f.nets.empty()) { auto &n = f.nets[pick(f.nets.size())]; n.degree = std::to_string(n.pins.size() + 1); } break;
    case 6: what = "unknown-pin-cell"; if (!f.nets.empty()) { auto &n = f.nets[pick(f.nets.size())]; if (!n.pins.empty()) n.pins[pick(n.pins.size())].cell = "zz9"; } break;
    case 7: what = "siteorient-token"; for (auto &r : f.rows) if (g.chance(1, 2)) r.siteorient = g.chance(1, 2) ? "1" : "Y"; break;
    case 8: what = "sitewidth"; for (auto &r : f.rows) r.sitewidth = std::to_string(g.range(0, 3)); break;
    case 9: what = "fraction"; for (auto &n : f.nets) for (auto &p : n.pins) {
        static const char *fr[] = {".25", ".75", ".5", ".0", ".125"};
        auto add = [&](std::string &s) { if (s.find('.') == std::string::npos && s.find('e') == std::string::npos) s += fr[g.range(0, 4)]; };
        if (g.chance(1, 2)) add(p.dx);
        if (g.chance(1, 2)) add(p.dy);
      } break;
    case 10: what = "numpins"; f.numPins = std::to_string(g.range(0, 3)); break;
    case 11: what = "dup-node"; if (!f.nodes.empty()) { NodeRec n = f.nodes[pick(f.nodes.size())]; n.w = "7"; f.nodes.push_back(n); f.numNodes = std::to_string(f.nodes.size());
                                 long long t = 0; for (auto &x : f.nodes) t += x.terminal; f.numTerminals = std::to_string(t); } break;
    case 12: what = "no-headers"; f.numNodes = f.numTerminals = f.numNets = f.numPins = f.numRows = "none"; break;
    case 13: what = "numterminals"; f.numTerminals = std::to_string(f.nodes.size() + 2); break;
    case 14: what = "fixed-marker"; for (auto &p : f.pl) if (g.chance(1, 2)) p.fixedMarker = true; break;
    case 15: what = "row-height"; if (!f.rows.empty()) f.rows[pick(f.rows.size())].height = std::to_string(g.range(0, 9)); break;
    case 16: what = "no-rows"; f.rows.clear(); break;
    default: what = "unknown-pl-cell"; if (!f.pl.empty()) f.pl[pick(f.pl.size())].name = "q1"; break;
  }
}

// parse the re-read circuit printed by c20_reader.py (dumpCircuit format)
struct Reread {
  bool ok = false;
  std::string err;
  std::vector<std::vector<long long>> cells, rows;
  std::vector<std::vector<long long>> nets;  // deg, then (cell, xo, yo)*
  long long hpwl = 0;
  bool hasHpwl = false;
  std::vector<long long> py;  // nb_cells nb_nets nb_rows nb_pins row_height hpwl() as seen through the bindings
};

static Reread parseReread(const std::vector<std::string> &lines) {
  Reread r;
  for (auto &l : lines) {
    auto t = toks(l, false);
    if (t.empty()) continue;
    if (startsWith(t[0], "throw:")) { r.err = t[0]; return r; }
    auto nums = [&](size_t from) { std::vector<long long> v; for (size_t i = from; i < t.size(); ++i) v.push_back(atoll(t[i].c_str())); return v; };
    if (t[0] == "cell") r.cells.push_back(nums(1));
    else if (t[0] == "row") r.rows.push_back(nums(1));
    else if (t[0] == "net") r.nets.push_back(nums(3));
    else if (t[0] == "hpwl") { r.hpwl = atoll(t[1].c_str()); r.hasHpwl = true; }
    else if (t[0] == "py") r.py = nums(1);
    else if (t[0] == "end") r.ok = true;
  }
  return r;
}

// the property, field by field; "" when it holds
static std::string compareRoundTrip(const Circuit &c, long long hp, const Reread &r) {
  std::ostringstream e;
  if (!r.ok) return "the package's reader failed on the exported files: " + (r.err.empty() ? std::string("no output") : r.err);
  if ((int)r.cells.size() != c.nbCells()) return "number of cells differs";
  for (int i = 0; i < c.nbCells(); ++i) {
    const auto &v = r.cells[i];
    if (v[0] != c.cellWidth_[i] || v[1] != c.cellHeight_[i]) { e << "size of cell " << i << " read back as " << v[0] << "x" << v[1] << ", was " << c.cellWidth_[i] << "x" << c.cellHeight_[i]; return e.str(); }
    if (v[2] != c.cellX_[i] || v[3] != c.cellY_[i]) { e << "position of cell " << i << " read back as (" << v[2] << "," << v[3] << "), was (" << c.cellX_[i] << "," << c.cellY_[i] << ")"; return e.str(); }
    if (v[4] != (int)c.cellOrientation_[i]) { e << "orientation of cell " << i << " read back as " << v[4] << ", was " << (int)c.cellOrientation_[i]; return e.str(); }
    if (v[5] != (int)c.cellIsFixed_[i]) { e << "fixed flag of cell " << i << " read back as " << v[5]; return e.str(); }
  }
  if ((int)r.rows.size() != c.nbRows()) return "number of rows differs";
  for (int i = 0; i < c.nbRows(); ++i) {
    const Row &row = c.rows_[i];
    const auto &v = r.rows[i];
    if (v[0] != row.minX || v[1] != row.maxX || v[2] != row.minY || v[3] != row.maxY) { e << "geometry of row " << i << " differs after the round trip"; return e.str(); }
    if (v[4] != (int)row.orientation) { e << "orientation of row " << i << " read back as " << v[4] << ", was " << (int)row.orientation; return e.str(); }
  }
  if ((int)r.nets.size() != c.nbNets()) return "number of nets differs";
  for (int n = 0; n < c.nbNets(); ++n) {
    const auto &v = r.nets[n];
    if (v.empty() || v[0] != c.nbPinsNet(n) || (long long)v.size() != 1 + 3LL * c.nbPinsNet(n)) { e << "degree of net " << n << " differs"; return e.str(); }
    for (int p = 0; p < c.nbPinsNet(n); ++p) {
      int k = c.netLimits_[n] + p;
      if (v[1 + 3 * p] != c.pinCells_[k]) { e << "net " << n << " pin " << p << " connects cell " << v[1 + 3 * p] << ", was " << c.pinCells_[k]; return e.str(); }
      if (v[2 + 3 * p] != c.pinXOffsets_[k] || v[3 + 3 * p] != c.pinYOffsets_[k]) {
        e << "net " << n << " pin " << p << " (cell " << c.pinCells_[k] << ", orientation " << (int)c.cellOrientation_[c.pinCells_[k]] << ") offset read back as ("
          << v[2 + 3 * p] << "," << v[3 + 3 * p] << "), was (" << c.pinXOffsets_[k] << "," << c.pinYOffsets_[k] << ")";
        return e.str();
      }
    }
  }
  {
    // read-only properties and hpwl() of the Python object are bound to the C++ entities of the same name
    const char *names[] = {"nb_cells", "nb_nets", "nb_rows", "nb_pins", "row_height", "hpwl()"};
    long long want[] = {c.nbCells(), c.nbNets(), c.nbRows(), c.nbPins(), c.rowHeight(), hp};
    if (r.py.size() != 6) return "the re-read circuit does not report its counts";
    for (int i = 0; i < 6; ++i)
      if (r.py[i] != want[i]) { e << "Python-visible " << names[i] << " of the re-read circuit is " << r.py[i] << ", the C++ value on the original is " << want[i]; return e.str(); }
  }
  if (!r.hasHpwl || r.hpwl != hp) { e << "wirelength of the re-read circuit is " << r.hpwl << ", Circuit::hpwl() of the original is " << hp; return e.str(); }
  return "";
}

// a circuit in dumpCircuit format
static bool parseCircuit(const std::string &text, Circuit &res) {
  std::istringstream is(text);
  std::string line;
  std::vector<int> w, h, x, y, lim{0}, pc, px, py;
  std::vector<bool> fx, ob;
  std::vector<CellOrientation> o;
  std::vector<CellRowPolarity> pol;
  std::vector<Row> rows;
  std::vector<float> wt;
  bool seen = false;
  while (std::getline(is, line)) {
    auto t = toks(line, false);
    if (t.empty()) continue;
    auto I = [&](size_t i) { return i < t.size() ? atoi(t[i].c_str()) : 0; };
    if (t[0] == "circuit") seen = true;
    else if (t[0] == "cell" && t.size() == 9) {
      w.push_back(I(1)); h.push_back(I(2)); x.push_back(I(3)); y.push_back(I(4)); o.push_back((CellOrientation)I(5));
      fx.push_back(I(6)); ob.push_back(I(7)); pol.push_back((CellRowPolarity)I(8));
    } else if (t[0] == "row" && t.size() == 6) rows.emplace_back(I(1), I(2), I(3), I(4), (CellOrientation)I(5));
    else if (t[0] == "net" && t.size() >= 4) {
      int deg = I(3);
      if ((int)t.size() != 4 + 3 * deg) return false;
      for (int d = 0; d < deg; ++d) { pc.push_back(I(4 + 3 * d)); px.push_back(I(5 + 3 * d)); py.push_back(I(6 + 3 * d)); }
      lim.push_back(lim.back() + deg);
      wt.push_back((float)std::ldexp((double)atoll(t[1].c_str()), I(2)));
    }
  }
  if (!seen) return false;
  Circuit c((int)w.size());
  c.setCellWidth(w); c.setCellHeight(h); c.setCellX(x); c.setCellY(y); c.setCellIsFixed(fx); c.setCellIsObstruction(ob);
  c.setCellOrientation(o); c.setCellRowPolarity(pol); c.setRows(rows); c.setNets(lim, pc, px, py, wt);
  res = c;
  return true;
}

// the "input" string of a replay JSON written by tools/check.py
static std::string replayInput(const std::string &path) {
  std::ifstream in(path);
  std::stringstream ss;
  ss << in.rdbuf();
  std::string s = ss.str(), key = "\"input\":";
  size_t i = s.find(key);
  if (i == std::string::npos) return s;  // a bare circuit dump
  i = s.find('"', i + key.size());
  std::string r;
  for (++i; i < s.size() && s[i] != '"'; ++i) {
    if (s[i] == '\\' && i + 1 < s.size()) { ++i; r += s[i] == 'n' ? '\n' : s[i] == 't' ? '\t' : s[i]; }
    else r += s[i];
  }
  return r;
}

// ------------------------------------------------------------------ textual mutations (stream `tmut`)
static std::string textMutate(std::map<std::string, std::vector<std::string>> &files, vh::Rng &g) {
  static const char *names[] = {"nodes", "nets", "pl", "scl", "aux"};
  int fi = g.range(0, 9);
  std::string fn = names[fi >= 5 ? g.range(0, 3) : fi];
  std::vector<std::string> &ls = files[fn];
  auto pickLine = [&]() { return (size_t)g.range(0, (long long)ls.size() - 1); };
  auto tokens = [&](const std::string &l) { return toks(l, false); };
  auto join = [&](const std::vector<std::string> &t, const std::string &sep) { std::string r; for (size_t i = 0; i < t.size(); ++i) r += (i ? sep : "") + t[i]; return r; };
  int m = g.range(0, 14);
  if (ls.empty()) { ls.push_back("# only line"); return fn + ":was-empty"; }
  switch (m) {
    case 0: { static const char *c[] = {"# a comment", "#", "", "   ", "\t# indented comment", " \t "}; ls.insert(ls.begin() + g.range(0, (long long)ls.size()), c[g.range(0, 5)]); return "insert-comment-or-blank"; }
    case 1: { size_t i = pickLine(); ls[i] = std::string(g.chance(1, 2) ? "  \t" : " ") + ls[i] + (g.chance(1, 2) ? " \t " : "\t"); return "pad-whitespace"; }
    case 2: { size_t i = pickLine(); ls.insert(ls.begin() + i, ls[i]); return "duplicate-line"; }
    case 3: { size_t i = pickLine(); ls.erase(ls.begin() + i); return "drop-line"; }
    case 4: { size_t i = pickLine(); auto t = tokens(ls[i]); if (t.size() > 0) { t.erase(t.begin() + g.range(0, (long long)t.size() - 1)); ls[i] = join(t, g.chance(1, 2) ? " " : "\t"); } return "drop-token"; }
    case 5: {
      size_t i = pickLine(); auto t = tokens(ls[i]);
      static const char *junk[] = {"abc", "1.5", "+7", "-0", "0x10", "1e3", "007", "--1", "1.", ".5", "5.", "1e+2", "2E-1", "-.25", "e5", "1e", ".", "+", "-", "12a", "N", "FS", "terminal", ":", "#", "1.5e1", "+1e+1", "-3.e0"};
      if (t.size() > 0) { t[g.range(0, (long long)t.size() - 1)] = junk[g.range(0, 27)]; ls[i] = join(t, " "); }
      return "junk-token";
    }
    case 6: { size_t i = pickLine(); for (char &ch : ls[i]) ch = g.chance(1, 2) ? (char)toupper((unsigned char)ch) : (char)tolower((unsigned char)ch); return "change-case"; }
    case 7: { size_t i = pickLine(); std::string r; for (size_t j = 0; j < ls[i].size(); ++j) { if (ls[i][j] == ':') { while (!r.empty() && (r.back() == ' ' || r.back() == '\t')) r.pop_back(); r += ':'; while (j + 1 < ls[i].size() && ls[i][j + 1] == ' ') ++j; } else r += ls[i][j]; } ls[i] = r; return "glue-colon"; }
    case 8: { size_t i = pickLine(), j = pickLine(); std::swap(ls[i], ls[j]); return "swap-lines"; }
    case 9: { size_t i = pickLine(); static const char *x[] = {" X", " terminal", " /FIXED", " 7", " : 3", "\tterminal_NI"}; ls[i] += x[g.range(0, 5)]; return "extra-token"; }
    case 10: { if (fn == "nodes" || fn == "pl") { size_t i = pickLine(); auto t = tokens(ls[i]); if (t.size() > 1) { t[1] = g.chance(1, 2) ? "1_0" : "1__0"; ls[i] = join(t, " "); } } return "underscore-int"; }
    case 11: { if (fn == "aux") { static const char *x[] = {" extra.txt", " other.nodes", " b.pl", "\nsecond.line", " t.nodes"}; std::string add = x[g.range(0, 4)]; if (add[0] == '\n') ls.push_back(add.substr(1)); else ls[0] += add; } else { ls.insert(ls.begin(), "UCLA again 1.0"); } return fn == "aux" ? "aux-extra-name" : "second-ucla-line"; }
    case 12: { if (fn == "aux") { auto t = tokens(ls[0]); if (t.size() > 2) { t.erase(t.begin() + 2 + g.range(0, (long long)t.size() - 3)); ls[0] = join(t, " "); } return "aux-drop-name"; } size_t i = pickLine(); auto t = tokens(ls[i]); if (t.size() >= 2) ls[i] = t[0] + " " + t[1]; return "two-tokens"; }
    case 13: {
      // error precedence inside one pin line: float() of a bad offset (ValueError) comes before the assert on an
      // unknown cell (AssertionError); with good offsets the unknown cell is an AssertionError
      std::vector<std::string> &nl = files["nets"];
      std::vector<size_t> pinLines;
      for (size_t i = 0; i < nl.size(); ++i) if (!nl[i].empty() && nl[i][0] == '\t') pinLines.push_back(i);
      static const char *bad[] = {"\tzz9 I : abc 1", "\tzz9 I : 1 x7", "\tzz9 I : 1 2", "\tzz9 B", "\to0 I : 1.5.2 0", "\tzz9 I : 1e 2"};
      std::string line = bad[g.range(0, 5)];
      if (pinLines.empty()) { nl.push_back("NetDegree : 1 nx"); nl.push_back(line); }
      else nl[pinLines[g.range(0, (long long)pinLines.size() - 1)]] = line;
      return "pin-bad-float-unknown-cell";
    }
    default: { if (fn == "nodes") { ls.push_back("  dummy" + std::to_string(g.range(0, 3)) + (g.chance(1, 2) ? " terminal" : "")); return "dummy-node"; } ls.push_back(ls[pickLine()]); return "repeat-line-at-end"; }
  }
}

int main(int argc, char **argv) {
  vh::Args a = vh::parseArgs(argc, argv);
  vh::Out out(a.out);
  out.rule = "in-domain circuit with at least one net and at least one cell whose orientation is not N (the F17 branch), or at least one row whose orientation is not N (F16); or (stream rel, F18) an in-domain circuit exported to a relative prefix";
  vh::installCrashHandler(&out);
  const std::string root = a.out + "/ispd";
  mkdirs(root);

  int nGen = a.quick() ? 260 : a.thorough() ? 12000 : 1500;
  int nEight = a.quick() ? 60 : a.thorough() ? 2500 : 300;
  int nBig = a.search() ? 0 : a.quick() ? 40 : 1200;
  int nEdge = a.search() ? 0 : a.quick() ? 40 : 800;
  int nMut = a.search() ? 0 : a.quick() ? 160 : 8000;
  int nTextMut = a.search() ? 0 : a.quick() ? 400 : 20000;
  int nLoadPl = a.search() ? 0 : a.quick() ? 80 : 3000;
  int nRel = a.search() ? 150 : a.quick() ? 100 : 4000;

  std::vector<Case> cases;
  std::ofstream jobs(a.out + "/pyjobs.txt");
  jobs << "bindings\n";
  long long k = 0;
  char cwd0[4096];
  if (!getcwd(cwd0, sizeof cwd0)) cwd0[0] = 0;
  const std::string absRoot = root[0] == '/' ? root : std::string(cwd0) + "/" + root;
  enum Mode { PLAIN = 0, RECMUT = 1, TEXTMUT = 2, LOADPL = 3, RELPREFIX = 4 };
  int forceForm = -1;   // --replay: every form of relative prefix on the replayed circuit
  auto addCase = [&](const std::string &stream, const Circuit &c, int mode, vh::Rng &g) {
    const bool mut = mode == RECMUT;
    Case cs;
    cs.id = std::to_string(k);
    cs.stream = stream;
    cs.input = vc::circuitString(c);
    vh::setCase(cs.id, cs.input);
    const std::string dir = root + "/" + cs.id;
    mkdirs(dir);
    std::string prefix = dir + "/d";
    out.ops << "case " << cs.id << "\n" << cs.input;
    bool dom = inDomain(c);
    if (mode == RELPREFIX) {
      // export from a working directory of its own, to a relative prefix (or an absolute one below it)
      const std::string wd = absRoot + "/" + cs.id;
      if (chdir(wd.c_str()) != 0) { out.fail(cs.id, "cannot chdir to " + wd, cs.input); return; }
      int form = forceForm >= 0 ? forceForm : (int)g.range(0, 4);
      std::string dpart;   // directory part as given to read_ispd for the directory read ("" = none)
      std::string pre;
      if (form == 0) pre = "d";
      else if (form == 1) { mkdirs("sub"); dpart = "sub"; pre = "sub/d"; }
      else if (form == 2) { mkdirs("a"); mkdirs("a/b"); dpart = "a/b"; pre = "a/b/d"; }
      else if (form == 3) { pre = "./d"; }
      else { mkdirs("abs"); dpart = wd + "/abs"; pre = wd + "/abs/d"; }
      static const char *formName[] = {"bare", "one-directory", "two-directories", "dot-slash", "absolute"};
      out.count(std::string("rel:") + formName[form]);
      c.exportIspd(pre);
      jobs << "cd " << wd << "\n";
      std::ostringstream it;
      out.ops << "exporttext " << esc(pre) << "\n";
      tagged(it, "aux", rawLines(pre + ".aux"));
      tagged(it, "nodes", rawLines(pre + ".nodes"));
      tagged(it, "pl", rawLines(pre + ".pl"));
      tagged(it, "nets", rawLines(pre + ".nets"));
      tagged(it, "scl", rawLines(pre + ".scl"));
      cs.lit(it.str());
      cs.oracle = dom;
      cs.hasCircuit = true;
      cs.circuit = c;
      cs.hpwl = c.hpwl();
      auto rd = [&](const std::string &suffix, const std::string &kind, const std::string &arg, const std::string &entries) {
        out.ops << "readfs " << kind << " " << esc(pre) << " " << esc(arg) << entries << "\n";
        jobs << cs.id << suffix << " " << arg << "\n";
        cs.blk(cs.id + suffix);
        if (dom) cs.oracleBlocks.push_back(cs.id + suffix);
      };
      rd(".a", "exists", pre + ".aux", "");
      rd(".b", "missing", pre, "");
      if (!dpart.empty()) rd(".c", "dir", dpart + (g.chance(1, 3) ? "/" : ""), " d.aux d.nets d.nodes d.pl d.scl");
      if (chdir(cwd0) != 0) {}
      out.count("stream:" + stream);
      out.count(dom ? "in-domain" : "out-of-domain");
      if (dom && form != 4) out.nontrivial(vh::hashStr(cs.input + formName[form]));
      ++out.evaluations;
      cases.push_back(std::move(cs));
      ++k;
      return;
    }
    c.exportIspd(prefix);
    Files f = parseFiles(prefix);
    std::ostringstream ia;
    if (mode == PLAIN) {
      out.ops << "export\n";
      printFiles(ia, f);
      ia << "indomain " << (int)dom << "\n";
      out.ops << "readback\n";
      cs.lit(ia.str());
      cs.blk(cs.id);
      cs.oracle = dom;
      cs.hasCircuit = true;
      cs.circuit = c;
      cs.hpwl = c.hpwl();
      if (dom) cs.oracleBlocks.push_back(cs.id);
      jobs << cs.id << " " << prefix << ".aux\n";
      // text level: the five files, whole text; the same Python result against the model's file-level reader
      std::ostringstream it;
      out.ops << "exporttext " << esc(prefix) << "\n";
      tagged(it, "aux", rawLines(prefix + ".aux"));
      tagged(it, "nodes", rawLines(prefix + ".nodes"));
      tagged(it, "pl", rawLines(prefix + ".pl"));
      tagged(it, "nets", rawLines(prefix + ".nets"));
      tagged(it, "scl", rawLines(prefix + ".scl"));
      cs.lit(it.str());
      out.ops << "readbackfs " << esc(prefix) << "\n";
      cs.blk(cs.id);
      // write_placement, then load_placement into a blanked copy
      if (stream != "big") {
        out.ops << "writeplacement\nloadback\n";
        jobs << "wplp " << cs.id << " " << prefix << ".aux " << dir << "/w.sol.pl\n";
        cs.blk(cs.id + ".wp");
        cs.blk(cs.id + ".lp");
        if (dom) cs.oracleBlocks.push_back(cs.id + ".lp");
        out.count("write-load-placement");
      }
    } else if (mode == RECMUT) {
      std::string what;
      mutate(f, g, what);
      out.count("mutation:" + what);
      prefix = dir + "/m";
      writeTextFiles(prefix, f);
      out.ops << "files\n";
      printFiles(out.ops, f);
      out.ops << "endfiles\nread\n";
      cs.blk(cs.id);
      jobs << cs.id << " " << prefix << ".aux\n";
      // the same files as raw text
      out.ops << "fsreset\n";
      for (const char *ext : {".aux", ".nodes", ".nets", ".pl", ".scl"}) fsFile(out.ops, prefix + ext);
      out.ops << "readispd exists " << esc(prefix + ".aux") << "\n";
      cs.blk(cs.id);
    } else if (mode == TEXTMUT) {
      // textual mutation of the exported files, in a directory of their own: <dir>/t/t.*
      const std::string tdir = dir + "/t";
      mkdirs(tdir);
      std::map<std::string, std::vector<std::string>> files;
      for (const char *ext : {"nodes", "nets", "pl", "scl"}) files[ext] = rawLines(prefix + "." + ext);
      bool absNames = g.chance(1, 4);
      std::string an = absNames ? tdir + "/t" : std::string("t");
      files["aux"] = {"RowBasedPlacement : " + an + ".nodes " + an + ".nets " + an + ".pl " + an + ".scl"};
      int nm = g.chance(1, 3) ? 2 : 1;
      for (int m = 0; m < nm; ++m) {
        std::string what = textMutate(files, g);
        out.count("textmut:" + what);
      }
      std::vector<std::string> entries;
      for (auto &kv : files) { writeLines(tdir + "/t." + kv.first, kv.second); entries.push_back("t." + kv.first); }
      int kind = g.range(0, 5);   // 0-2 the .aux path, 3 the prefix without suffix, 4-5 the directory
      bool extraAux = kind >= 4 && g.chance(1, 2);
      if (extraAux) { writeLines(tdir + "/a.aux", {"nothing here"}); entries.push_back("a.aux"); }
      if (kind == 5 && extraAux && g.chance(1, 3)) {   // two .aux files, none with the directory's name
        rename((tdir + "/t.aux").c_str(), (tdir + "/b.aux").c_str());
        for (auto &e : entries) if (e == "t.aux") e = "b.aux";
        out.count("open:directory-no-default-aux");
      }
      out.ops << "fsreset\n";
      for (auto &e : entries) fsFile(out.ops, tdir + "/" + e);
      std::string arg;
      if (kind <= 2) { arg = tdir + "/t.aux"; out.ops << "readispd exists " << esc(arg) << "\n"; out.count("open:aux-path"); }
      else if (kind == 3) { arg = tdir + "/t"; out.ops << "readispd missing " << esc(arg) << "\n"; out.count("open:prefix"); }
      else {
        arg = tdir;
        if (g.chance(1, 3)) arg += "/";
        out.ops << "readispd dir " << esc(arg);
        std::sort(entries.begin(), entries.end());
        for (auto &e : entries) out.ops << " " << esc(e);
        out.ops << "\n";
        out.count(extraAux ? "open:directory-two-aux" : "open:directory");
      }
      cs.blk(cs.id);
      jobs << cs.id << " " << arg << "\n";
    } else {
      // LOADPL: read the exported files, then load a hand-made placement file
      jobs << cs.id << " " << prefix << ".aux\n";
      out.ops << "readbackfs " << esc(prefix) << "\n";
      cs.blk(cs.id);
      std::vector<std::string> pl = {"UCLA pl 1.0", "# made by h_C20", ""};
      std::string what = "plain";
      int m = g.range(0, 7);
      for (int i = 0; i < c.nbCells(); ++i) {
        std::string o = toString((CellOrientation)g.range(0, 7));
        std::string name = "o" + std::to_string(i);
        if (m == 1 && i == 0) { what = "missing-cell"; continue; }
        if (m == 2 && i == 0) { what = "bad-orientation"; o = "R90"; }
        if (m == 3 && i == 0) { what = "unknown-cell"; name = "zz"; }
        if (m == 4 && i == 0) { what = "three-tokens"; pl.push_back(name + " 1 2"); continue; }
        if (m == 5 && i == 0) { what = "float-coordinate"; pl.push_back(name + " 1.5 2 : N"); continue; }
        std::string fixedMark = g.chance(1, 3) ? " /FIXED" : "";
        std::string sep = g.chance(1, 2) ? "\t" : "  ";
        pl.push_back(name + sep + std::to_string(g.range(-99, 99)) + sep + std::to_string(g.range(-99, 99)) + (g.chance(1, 2) ? "\t: " : " :") + o + fixedMark);
        if (m == 6 && i == 0) { what = "duplicate-line"; pl.push_back(name + " 7 7 : FW"); }
      }
      if (m == 7) { what = "shuffled"; for (size_t i = pl.size(); i > 4; --i) std::swap(pl[i - 1], pl[3 + g.range(0, (long long)i - 4)]); }
      out.count("loadpl:" + what);
      writeLines(dir + "/h.pl", pl);
      out.ops << "fsreset\n";
      fsFile(out.ops, dir + "/h.pl");
      out.ops << "loadplacement " << esc(dir + "/h.pl") << "\n";
      jobs << "lp " << cs.id << " " << prefix << ".aux " << dir << "/h.pl\n";
      cs.blk(cs.id + ".lp");
    }
    // distribution
    out.count("stream:" + stream);
    out.count(dom ? "in-domain" : "out-of-domain");
    if (mode == PLAIN) {
      for (int i = 0; i < c.nbCells(); ++i) out.count("cell-orient:" + toString(c.cellOrientation_[i]));
      for (auto &r : c.rows_) out.count("row-orient:" + toString(r.orientation));
      bool nonN = false, rowNonN = false, allZero = true;
      for (int i = 0; i < c.nbCells(); ++i) { nonN |= c.cellOrientation_[i] != CellOrientation::N; allZero &= c.cellX_[i] == 0 && c.cellY_[i] == 0; }
      for (auto &r : c.rows_) rowNonN |= r.orientation != CellOrientation::N;
      out.count(allZero ? "unplaced" : "placed");
      out.count("pins", c.nbPins());
      if (dom && c.nbNets() > 0 && (nonN || rowNonN)) out.nontrivial(vh::hashStr(cs.input));
      if (dom) out.sample(cs.input.substr(0, 300));
    }
    ++out.evaluations;
    cases.push_back(std::move(cs));
    ++k;
  };

  // corpus and --replay: circuits in dumpCircuit format (a replay file is the JSON written by check.py,
  // whose "input" field is such a dump)
  {
    std::vector<std::string> texts;
    if (!a.replay.empty()) texts.push_back(replayInput(a.replay));
    else if (!a.corpus.empty()) {
      for (int i = 0; i < 64; ++i) {
        std::ifstream in(a.corpus + "/" + std::to_string(i) + ".txt");
        if (!in) break;
        std::stringstream ss; ss << in.rdbuf(); texts.push_back(ss.str());
      }
    }
    for (auto &t : texts) {
      vh::Rng g = vh::Rng::forCase(a.seed, k);
      Circuit c(0);
      if (parseCircuit(t, c)) {
        addCase("corpus", c, PLAIN, g); out.count("corpus-cases");
        if (!a.replay.empty()) { for (forceForm = 0; forceForm <= 4; ++forceForm) addCase("rel", c, RELPREFIX, g); forceForm = -1; }
      }
    }
    if (!a.replay.empty()) nGen = nEight = nBig = nEdge = nMut = nTextMut = nLoadPl = nRel = 0;
  }
  for (int i = 0; i < nGen; ++i) {
    vh::Rng g = vh::Rng::forCase(a.seed, k);
    vc::GenOpts o;
    o.scale = g.chance(1, 5) ? g.range(2, 400) : 1;   // coordinates up to ~8*10^4
    Circuit c = vc::genCircuit(g, o);
    int mode = g.range(0, 3);  // 0 as generated, 1 orientations among all eight (cells and rows), 2 unplaced, 3 as generated
    Circuit d = rebuild(c, mode != 2, mode == 1 ? 1 : 0, g);
    addCase("gen", d, PLAIN, g);
  }
  for (int i = 0; i < nEight; ++i) {
    vh::Rng g = vh::Rng::forCase(a.seed, k);
    long long mag = g.chance(1, 3) ? 99999 : g.range(1, 60);
    addCase("eight", smallCircuit(g, mag, true), PLAIN, g);
  }
  for (int i = 0; i < nBig; ++i) {  // beyond six significant digits: ties the number formatting of the model (fmt6)
    vh::Rng g = vh::Rng::forCase(a.seed, k);
    static const long long mags[] = {100001, 250000, 1000001, 3000000, 40000000};
    addCase("big", smallCircuit(g, mags[g.range(0, 4)], false), PLAIN, g);
  }
  for (int i = 0; i < nEdge; ++i) {  // outside the domain: the reader must fail (or drop things) as the model says
    vh::Rng g = vh::Rng::forCase(a.seed, k);
    Circuit c = smallCircuit(g, 30, false);
    int m = g.range(0, 5);
    if (m == 0 && c.nbCells() > 0) { auto o = c.cellOrientation_; o[g.range(0, c.nbCells() - 1)] = g.chance(1, 2) ? CellOrientation::INVALID : CellOrientation::UNKNOWN; c.setCellOrientation(o); }
    else if (m == 1) c.setRows({});
    else if (m == 2) { auto r = c.rows_; r.emplace_back(0, 5, 100, 100 + (int)g.range(0, 9), CellOrientation::N); c.setRows(r); }
    else if (m == 3) {  // zero row height: `h % row_height` raises unless every cell has h > 0
      std::vector<Row> r; r.emplace_back(0, 5, 3, 3, CellOrientation::S); c.setRows(r);
      if (c.nbCells() > 0 && g.chance(2, 3)) { auto hh = c.cellHeight_; hh[g.range(0, c.nbCells() - 1)] = g.range(-2, 0); c.setCellHeight(hh); }
    }
    else if (m == 4) { auto r = c.rows_; r[0].orientation = g.chance(1, 2) ? CellOrientation::INVALID : CellOrientation::UNKNOWN; c.setRows(r); }
    else {  // an empty net (setNets allows it): written as `NetDegree : 0`, dropped by add_net
      auto l = c.netLimits_;
      size_t j = g.range(0, (long long)l.size() - 1);
      l.insert(l.begin() + j, l[j]);
      auto w = c.netWeights_;
      w.push_back(1.0f);
      c.setNets(l, c.pinCells_, c.pinXOffsets_, c.pinYOffsets_, w);
    }
    addCase("edge", c, PLAIN, g);
  }
  for (int i = 0; i < nMut; ++i) {
    vh::Rng g = vh::Rng::forCase(a.seed, k);
    Circuit c = g.chance(1, 2) ? smallCircuit(g, 40, g.chance(1, 2)) : vc::genCircuit(g, vc::GenOpts());
    addCase("mut", c, RECMUT, g);
  }
  for (int i = 0; i < nTextMut; ++i) {
    vh::Rng g = vh::Rng::forCase(a.seed, k);
    addCase("tmut", smallCircuit(g, g.chance(1, 4) ? 2000 : 12, g.chance(1, 3)), TEXTMUT, g);
  }
  for (int i = 0; i < nRel; ++i) {
    vh::Rng g = vh::Rng::forCase(a.seed, k);
    addCase("rel", smallCircuit(g, 30, g.chance(1, 3)), RELPREFIX, g);
  }
  for (int i = 0; i < nLoadPl; ++i) {
    vh::Rng g = vh::Rng::forCase(a.seed, k);
    addCase("loadpl", smallCircuit(g, 12, g.chance(1, 3)), LOADPL, g);
  }
  jobs.close();
  out.ops.flush();

  // ---- Python half
  const std::string py = a.out + "/py.txt";
  std::string cmd = std::string("COLOQUINTE_REPO='") + C20_REPO_DIR + "' python3 '" + C20_VERIF_DIR + "/harness/c20_reader.py' '" + a.out +
                    "/pyjobs.txt' > '" + py + "' 2> '" + a.out + "/py.err'";
  fflush(nullptr);
  int rc = system(cmd.c_str());
  std::map<std::string, std::vector<std::string>> blocks;
  {
    std::string cur;
    for (auto &l : vh::readLines(py)) {
      if (startsWith(l, "== ")) { cur = l.substr(3); blocks[cur]; continue; }
      blocks[cur].push_back(l);
    }
  }
  if (rc != 0) {
    std::string err;
    for (auto &l : vh::readLines(a.out + "/py.err")) err += l + "\n";
    out.fail("python", "the Python reader step failed to run (exit " + std::to_string(rc) + "): " + err.substr(0, 1500), cmd);
  }

  // ---- bindings: enum values visible from Python vs the C++ enumerators of the same name
  {
    std::map<std::string, int> cpp = {
        {"CellOrientation.N", (int)CellOrientation::N}, {"CellOrientation.S", (int)CellOrientation::S}, {"CellOrientation.W", (int)CellOrientation::W},
        {"CellOrientation.E", (int)CellOrientation::E}, {"CellOrientation.FN", (int)CellOrientation::FN}, {"CellOrientation.FS", (int)CellOrientation::FS},
        {"CellOrientation.FW", (int)CellOrientation::FW}, {"CellOrientation.FE", (int)CellOrientation::FE},
        {"CellRowPolarity.ANY", (int)CellRowPolarity::ANY}, {"CellRowPolarity.SAME", (int)CellRowPolarity::SAME}, {"CellRowPolarity.OPPOSITE", (int)CellRowPolarity::OPPOSITE},
        {"CellRowPolarity.NW", (int)CellRowPolarity::NW}, {"CellRowPolarity.SE", (int)CellRowPolarity::SE},
        {"LegalizationModel.L1", (int)LegalizationModel::L1}, {"LegalizationModel.L2", (int)LegalizationModel::L2}, {"LegalizationModel.LInf", (int)LegalizationModel::LInf},
        {"LegalizationModel.L1Squared", (int)LegalizationModel::L1Squared}, {"LegalizationModel.L2Squared", (int)LegalizationModel::L2Squared},
        {"LegalizationModel.LInfSquared", (int)LegalizationModel::LInfSquared},
        {"NetModel.BoundToBound", (int)NetModelOption::BoundToBound}, {"NetModel.Star", (int)NetModelOption::Star}, {"NetModel.Clique", (int)NetModelOption::Clique},
        {"NetModel.LightStar", (int)NetModelOption::LightStar},
        {"PlacementStep.LowerBound", (int)PlacementStep::LowerBound}, {"PlacementStep.UpperBound", (int)PlacementStep::UpperBound},
        {"PlacementStep.Detailed", (int)PlacementStep::Detailed}, {"PlacementStep.PenaltyUpdate", (int)PlacementStep::PenaltyUpdate}};
    int seen = 0;
    for (auto &l : blocks["bindings"]) {
      auto t = toks(l, false);
      if (t.size() != 4 || t[0] != "enum") continue;
      ++seen;
      ++out.evaluations;
      std::string key = t[1] + "." + t[2];
      auto it = cpp.find(key);
      if (it == cpp.end()) out.fail("bindings", "Python enum value " + key + " has no C++ enumerator of the same name", l);
      else if (it->second != atoi(t[3].c_str()))
        out.fail("bindings", "Python enum value " + key + " has value " + t[3] + ", the C++ enumerator of the same name has value " + std::to_string(it->second), l);
    }
    out.count("python-enum-values", seen);
    if (rc == 0 && seen < 20) out.fail("bindings", "the stand-in module exposes only " + std::to_string(seen) + " enum values", "");
  }

  // ---- assemble impl.txt and evaluate the oracle
  for (auto &cs : cases) {
    out.impl << "case " << cs.id << "\n";
    std::vector<std::string> none;
    auto block = [&](const std::string &id) -> const std::vector<std::string> & {
      auto it = blocks.find(id);
      return it == blocks.end() ? none : it->second;
    };
    for (auto &sg : cs.segs) {
      if (!sg.first) { out.impl << sg.second; continue; }
      const std::vector<std::string> &b = block(sg.second);
      bool silent = sg.second.size() > 3 && (sg.second.substr(sg.second.size() - 3) == ".wp" || sg.second.substr(sg.second.size() - 3) == ".lp");
      if (b.empty() && !silent) out.impl << "no-python-output\n";
      for (auto &l : b) out.impl << l << "\n";
    }
    const std::vector<std::string> &b = block(cs.id);
    if (!b.empty() && startsWith(b[0], "throw:")) out.count("python:" + b[0]); else out.count("python:ok");
    if (cs.stream == "loadpl") {
      const std::vector<std::string> &lb = block(cs.id + ".lp");
      out.count(!lb.empty() && startsWith(lb[0], "throw:") ? "load_placement:" + lb[0] : "load_placement:ok");
    }
    if (cs.oracle) {
      for (auto &bid : cs.oracleBlocks) {
        Reread r = parseReread(block(bid));
        std::string why = compareRoundTrip(cs.circuit, cs.hpwl, r);
        if (!why.empty())
          out.fail(cs.id, (bid == cs.id ? std::string("") : cs.stream == "rel" ? "exported to a relative prefix, read back by " + std::string(bid.back() == 'a' ? ".aux path" : bid.back() == 'b' ? "bare prefix" : "directory") + ": "
                           : std::string("after write_placement + load_placement into a blanked circuit: ")) + why, cs.input);
      }
    }
  }
  out.notes.push_back("python step: " + std::string(rc == 0 ? "ok" : "failed") + "; repo " + C20_REPO_DIR);
  out.finish();
  return 0;
}
