// C02 — exhaustive stream "x<k>" (thorough tier): every sequence of feasible swap / insert operations of
// length <= DEPTH from every legal placement of a small instance, through the REAL DetailedPlacement public
// API (canSwap / positionsOnSwap / swap / canInsert / positionOnInsert / insert / check), compared line for
// line with the Lean model (drv_C02: ops `mark` / `reset` / `drop` backtrack the model, the real side
// backtracks by copying the object) and checked by a direct oracle on the real object after every move.
//
// Included by h_C02.cpp after detailed_placement.hpp; uses the public API only.
//
// One case = one initial placement ("root") of one instance.  From a state with `remaining` moves left:
//   mark
//   canSwapAll      the real canSwap answer 0 | 1 | T(hrow) for every ordered pair (a, b) of cell indices (ignored
//                   cells and a == b included), one character each, in one line
//   canInsertAll    likewise canInsert for every cell c, every row r of the data structure, every pred in {-1} + cells of r
//   for every pair answering 1:  posSwap a b, swap a b, state, [check, inv], <oracle>, <recurse with remaining - 1>, reset
//     the first pair answering 0: swap a b (must throw runtime_error; the real state must be unchanged)
//   for every (c, r, pred) answering 1: likewise, with posInsert / insert
//   drop
// [check, inv] are asked of the model the first time a move produces that state line in the instance (they are
// functions of the state; the real check() runs after every move inside the oracle).
// Both sides are functions of the printed state line (every field of the object that the operations read is
// printed; rows and polarities are constants of the instance), so the search is memoised per instance on
// (state line, remaining): a state is expanded again only with a larger `remaining` than before.  Every legal
// placement of the instance is itself a root expanded with remaining = DEPTH; in instances with more than
// `deepLimit` roots this fact is used up front (all roots are registered as "expanded with DEPTH" before the
// search), so that there the per-root search stops at states that are roots (every reached state that is not
// one is counted and expanded).  Instances are searched in parallel (fork), streams concatenated in order.
#pragma once
#include <fcntl.h>
#include <sys/stat.h>

#include <algorithm>
#include <memory>
#include <string>
#include <unordered_map>
#include <unordered_set>
#include <vector>

#include "common/circuit.hpp"
#include "common/harness.hpp"
#include "detailed_common.hpp"
#include "place_detailed/detailed_placement.hpp"

namespace c02x {
using namespace coloquinte;

constexpr int DEPTH = 4;
constexpr int ROW_H = 2;

struct CellSpec {
  int w;
  CellRowPolarity pol;
};

struct Instance {
  std::string family;
  std::vector<Row> rows;        // circuit rows
  std::vector<CellSpec> cells;  // movable cells, by increasing circuit index
  // optional fixed obstruction (splits a row): circuit index `fixedIdx` (movable cells take the other indices)
  int fixedIdx = -1, fixedX = 0, fixedY = 0, fixedW = 0;
  int nbCircuitCells() const { return (int)cells.size() + (fixedIdx >= 0 ? 1 : 0); }
  std::string describe() const {
    std::string s = family + " rows";
    for (const Row &r : rows)
      s += " [" + std::to_string(r.minX) + "," + std::to_string(r.maxX) + ")@y" + std::to_string(r.minY) + "/o" +
           std::to_string((int)r.orientation);
    s += " cells";
    for (const CellSpec &c : cells) s += " w" + std::to_string(c.w) + "p" + std::to_string((int)c.pol);
    if (fixedIdx >= 0)
      s += " fixed#" + std::to_string(fixedIdx) + "@" + std::to_string(fixedX) + "," + std::to_string(fixedY) + "w" +
           std::to_string(fixedW);
    return s;
  }
};

// orientation given to a cell of polarity ANY (kept by every move): varies with the index, unturned
inline CellOrientation anyOrient(int i) {
  static const CellOrientation t[4] = {CellOrientation::N, CellOrientation::FS, CellOrientation::S, CellOrientation::FN};
  return t[i % 4];
}

struct Placed {
  int row, x;
};

// ---------------------------------------------------------------------------------------------- instances

inline Row mkRow(int minX, int len, int k) {
  // row 0: y = 0, orientation N; row 1: y = ROW_H, orientation FS
  return Row(minX, minX + len, k * ROW_H, (k + 1) * ROW_H, k == 0 ? CellOrientation::N : CellOrientation::FS);
}

// Row 0 starts at x = -3, row 1 at x = -2: the sites have negative and positive coordinates, so that the
// truncating division of the midpoints is exercised on both signs, and the two rows are staggered.
constexpr int X0_ROW0 = -3, X0_ROW1 = -2;

inline std::vector<std::vector<Row>> rowConfigs(int maxLen, bool allPairs) {
  std::vector<std::vector<Row>> r;
  for (int l = 1; l <= maxLen; ++l) r.push_back({mkRow(X0_ROW0, l, 0)});
  for (int a = 1; a <= maxLen; ++a)
    for (int b = 1; b <= maxLen; ++b)
      if (allPairs || a == b) r.push_back({mkRow(X0_ROW0, a, 0), mkRow(X0_ROW1, b, 1)});
  return r;
}

inline void widthTuples(int n, int maxW, std::vector<int> &cur, std::vector<std::vector<int>> &out) {
  if ((int)cur.size() == n) {
    out.push_back(cur);
    return;
  }
  for (int w = 1; w <= maxW; ++w) {
    cur.push_back(w);
    widthTuples(n, maxW, cur, out);
    cur.pop_back();
  }
}

inline std::vector<Instance> allInstances() {
  std::vector<Instance> v;
  const CellRowPolarity A = CellRowPolarity::ANY, S = CellRowPolarity::SAME, O = CellRowPolarity::OPPOSITE,
                        NW = CellRowPolarity::NW, SE = CellRowPolarity::SE;
  // ---- family "plain": 1..4 cells, widths in {1,2}^n, polarity ANY; one row of length 1..6 or two rows of
  //      lengths (a, b) in {1..6}^2
  for (auto &rows : rowConfigs(6, true))
    for (int n = 1; n <= 4; ++n) {
      std::vector<std::vector<int>> ws;
      std::vector<int> cur;
      widthTuples(n, 2, cur, ws);
      for (auto &w : ws) {
        Instance I;
        I.family = "plain";
        I.rows = rows;
        for (int x : w) I.cells.push_back({x, A});
        v.push_back(I);
      }
    }
  // ---- family "wide": at least one cell of width 3 (widths in {1,2,3}^n, n <= 3), rows of equal length 4..6
  for (auto &rows : rowConfigs(6, false)) {
    if (rows[0].width() < 4) continue;
    for (int n = 1; n <= 3; ++n) {
      std::vector<std::vector<int>> ws;
      std::vector<int> cur;
      widthTuples(n, 3, cur, ws);
      for (auto &w : ws) {
        if (std::find(w.begin(), w.end(), 3) == w.end()) continue;
        Instance I;
        I.family = "wide";
        I.rows = rows;
        for (int x : w) I.cells.push_back({x, A});
        v.push_back(I);
      }
    }
  }
  // ---- family "polar": polarised cells (isRowAllowed and the orientation update matter); rows N / FS
  {
    std::vector<std::vector<CellSpec>> sets = {
        {{1, S}},
        {{2, NW}},
        {{1, NW}, {1, A}},
        {{2, SE}, {1, S}},
        {{1, O}, {2, NW}},
        {{1, S}, {1, A}, {2, A}},
        {{1, O}, {2, S}, {1, A}},
        {{1, NW}, {1, A}, {1, SE}},
        {{2, NW}, {1, NW}, {1, A}},
        {{1, SE}, {1, O}, {1, NW}},
        {{1, S}, {1, S}, {1, S}},
        {{1, NW}, {1, SE}, {1, S}, {1, A}},
        {{1, O}, {1, A}, {1, SE}, {2, A}},
    };
    std::vector<std::vector<Row>> rcs = {{mkRow(X0_ROW0, 5, 0), mkRow(X0_ROW1, 5, 1)},
                                         {mkRow(X0_ROW0, 6, 0), mkRow(X0_ROW1, 3, 1)},
                                         {mkRow(X0_ROW0, 4, 0)}};
    for (auto &rows : rcs)
      for (auto &cs : sets) {
        Instance I;
        I.family = "polar";
        I.rows = rows;
        I.cells = cs;
        v.push_back(I);
      }
  }
  // ---- family "obstr": one fixed obstruction of width 1 splits row 0 (the data structure has one more row and
  //      an ignored cell in the middle of the index range); 1..3 movable cells of widths {1,2}
  {
    std::vector<std::vector<Row>> rcs = {{mkRow(X0_ROW0, 6, 0)}, {mkRow(X0_ROW0, 6, 0), mkRow(X0_ROW1, 4, 1)}};
    for (auto &rows : rcs)
      for (int n = 1; n <= 3; ++n) {
        std::vector<std::vector<int>> ws;
        std::vector<int> cur;
        widthTuples(n, 2, cur, ws);
        for (auto &w : ws) {
          Instance I;
          I.family = "obstr";
          I.rows = rows;
          for (int x : w) I.cells.push_back({x, A});
          I.fixedIdx = n >= 2 ? 1 : 0;
          I.fixedX = X0_ROW0 + 2;
          I.fixedY = 0;
          I.fixedW = 1;
          v.push_back(I);
        }
      }
  }
  return v;
}

// ---------------------------------------------------------------------------------------------- placements

// All legal placements of the movable cells (labelled): cell by cell, every allowed row, every x such that the
// cell is inside the row, off the obstruction and off the cells already put down.
struct PlacementEnum {
  const Instance &I;
  std::vector<std::vector<Placed>> all;
  std::vector<Placed> cur;
  std::vector<unsigned> occ;  // per row, bit (x - minX)
  explicit PlacementEnum(const Instance &i) : I(i) {
    occ.assign(I.rows.size(), 0);
    if (I.fixedIdx >= 0)
      for (size_t r = 0; r < I.rows.size(); ++r)
        if (I.rows[r].minY == I.fixedY)
          for (int x = I.fixedX; x < I.fixedX + I.fixedW; ++x)
            if (x >= I.rows[r].minX && x < I.rows[r].maxX) occ[r] |= 1u << (x - I.rows[r].minX);
    rec(0);
  }
  void rec(size_t i) {
    if (i == I.cells.size()) {
      all.push_back(cur);
      return;
    }
    for (size_t r = 0; r < I.rows.size(); ++r) {
      if (cellOrientationInRow(I.cells[i].pol, I.rows[r].orientation) == CellOrientation::INVALID) continue;
      int w = I.cells[i].w;
      for (int x = I.rows[r].minX; x + w <= I.rows[r].maxX; ++x) {
        unsigned m = ((1u << w) - 1u) << (x - I.rows[r].minX);
        if (occ[r] & m) continue;
        occ[r] |= m;
        cur.push_back({(int)r, x});
        rec(i + 1);
        cur.pop_back();
        occ[r] &= ~m;
      }
    }
  }
};

inline Circuit buildCircuit(const Instance &I, const std::vector<Placed> &pl) {
  int n = I.nbCircuitCells();
  std::vector<int> w(n), h(n, ROW_H), x(n), y(n);
  std::vector<bool> fx(n, false), ob(n, false);
  std::vector<CellOrientation> orr(n, CellOrientation::N);
  std::vector<CellRowPolarity> pol(n, CellRowPolarity::ANY);
  size_t k = 0;
  for (int i = 0; i < n; ++i) {
    if (i == I.fixedIdx) {
      w[i] = I.fixedW; x[i] = I.fixedX; y[i] = I.fixedY; fx[i] = true; ob[i] = true;
      continue;
    }
    const CellSpec &c = I.cells[k];
    const Row &row = I.rows[pl[k].row];
    w[i] = c.w; x[i] = pl[k].x; y[i] = row.minY; pol[i] = c.pol;
    CellOrientation o = cellOrientationInRow(c.pol, row.orientation);
    orr[i] = o == CellOrientation::UNKNOWN ? anyOrient(i) : o;
    ++k;
  }
  Circuit c(n);
  c.setCellWidth(w); c.setCellHeight(h); c.setCellX(x); c.setCellY(y);
  c.setCellIsFixed(fx); c.setCellIsObstruction(ob); c.setCellOrientation(orr); c.setCellRowPolarity(pol);
  c.setRows(I.rows);
  return c;
}

// ---------------------------------------------------------------------------------------------- printing

inline void app(std::string &s, int v) {
  s += ' ';
  s += std::to_string(v);
}

// same text as stateLine() of the primitives stream
inline std::string stateLine(const DetailedPlacement &p) {
  std::string s = "st";
  for (int r = 0; r < p.nbRows(); ++r) {
    s += " r";
    app(s, p.rowFirstCell(r));
    app(s, p.rowLastCell(r));
    s += " [";
    int guard = 0;
    for (int c = p.rowFirstCell(r); c != -1 && guard <= p.nbCells(); c = p.cellNext(c), ++guard) app(s, c);
    s += " ]";
  }
  for (int c = 0; c < p.nbCells(); ++c) {
    s += " c";
    app(s, p.cellWidth(c)); app(s, p.cellRow(c)); app(s, p.cellPred(c)); app(s, p.cellNext(c));
    app(s, p.cellX(c)); app(s, p.cellY(c)); app(s, (int)p.cellOrientation(c));
  }
  return s;
}

inline std::string checkResult(const DetailedPlacement &p) {
  try {
    p.check();
    return "ok";
  } catch (const std::exception &e) {
    return vc::exClass(e);
  }
}

// ---------------------------------------------------------------------------------------------- direct oracle
// Independent of check(): walks the public accessors.  "" when fine.
inline std::string oracle(DetailedPlacement q, const Circuit &base) {
  try {
    q.check();
  } catch (const std::exception &e) {
    return std::string("check() throws: ") + e.what();
  }
  int n = q.nbCells(), R = q.nbRows();
  std::vector<int> seen(n, 0);
  for (int r = 0; r < R; ++r) {
    const Row &row = q.rows()[r];
    long long prevEnd = row.minX;
    int guard = 0, prev = -1;
    for (int c = q.rowFirstCell(r); c != -1; c = q.cellNext(c)) {
      if (++guard > n) return "the list of row " + std::to_string(r) + " does not end";
      if (c < 0 || c >= n) return "row " + std::to_string(r) + " lists the invalid cell " + std::to_string(c);
      std::string cs = "cell " + std::to_string(c);
      if (q.isIgnored(c)) return cs + " is not optimised but is listed in row " + std::to_string(r);
      if (seen[c]++) return cs + " is listed twice";
      if (q.cellRow(c) != r) return cs + " is listed in row " + std::to_string(r) + " but cellRow says " + std::to_string(q.cellRow(c));
      if (q.cellPred(c) != prev) return cs + " has predecessor " + std::to_string(q.cellPred(c)) + ", the list says " + std::to_string(prev);
      if (q.cellY(c) != row.minY) return cs + " has y " + std::to_string(q.cellY(c)) + " in the row at y " + std::to_string(row.minY);
      if (q.cellWidth(c) <= 0) return cs + " has width " + std::to_string(q.cellWidth(c));
      if (q.cellX(c) < prevEnd)
        return cs + " at x " + std::to_string(q.cellX(c)) +
               (prev == -1 ? " starts before its row (" + std::to_string(row.minX) + ")"
                           : " overlaps / precedes cell " + std::to_string(prev) + " ending at " + std::to_string(prevEnd));
      prevEnd = (long long)q.cellX(c) + q.cellWidth(c);
      prev = c;
    }
    if (prevEnd > row.maxX) return "cell " + std::to_string(prev) + " ends at " + std::to_string(prevEnd) + " beyond its row (" + std::to_string(row.maxX) + ")";
    if (q.rowLastCell(r) != prev) return "row " + std::to_string(r) + " last cell is " + std::to_string(q.rowLastCell(r)) + ", the list ends with " + std::to_string(prev);
  }
  for (int c = 0; c < n; ++c) {
    if (q.isIgnored(c)) continue;
    if (!q.isPlaced(c) || !seen[c]) return "optimised cell " + std::to_string(c) + " is not placed";
  }
  Circuit ex = base;
  q.exportPlacement(ex);
  std::string why = vc::checkLegal(ex, false);
  if (!why.empty()) return "exported placement is illegal: " + why;
  for (int c = 0; c < base.nbCells(); ++c)
    if (base.isFixed(c) && (ex.cellX()[c] != base.cellX()[c] || ex.cellY()[c] != base.cellY()[c]))
      return "fixed cell " + std::to_string(c) + " moved";
  return "";
}

// ---------------------------------------------------------------------------------------------- the search

struct Failure {
  std::string caseId, what, input;
};

struct Sink {
  std::string ops, impl;  // text of the two streams
  std::map<std::string, long long> cnt;
  std::vector<Failure> fails;
  long long evaluations = 0;
  bool nontrivial = false;
  void O(const std::string &l) { ops += l; ops += '\n'; }
  void I(const std::string &l) { impl += l; impl += '\n'; }
  void OI(const std::string &o, const std::string &i) { O(o); I(i); }
  void count(const std::string &k, long long n = 1) { cnt[k] += n; }
};

// context of the move being executed, for the crash handler of the child
struct CrashInfo {
  const std::string *caseId = nullptr, *rootText = nullptr;
  const std::vector<std::string> *path = nullptr;
  const char *pending = nullptr;
  int metaFd = -1;
};
inline CrashInfo &crashInfo() {
  static CrashInfo c;
  return c;
}

struct Search {
  const Instance &I;
  Sink &out;
  int deepLimit;
  std::unordered_map<std::string, int> memo;  // state line -> largest `remaining` it was expanded with (0: seen only)
  std::unordered_set<std::string> resultChecked;  // state lines produced by a move for which check / inv were asked
  Circuit base{0};
  std::string caseId, rootText;
  std::vector<std::string> path;
  int maxLevel = 0;
  long long feasibleMoves = 0;
  bool preclaimed = false;

  Search(const Instance &i, Sink &o, int deep) : I(i), out(o), deepLimit(deep) {}

  std::string input() const {
    std::string s = "c02x " + I.describe() + "\n" + rootText;
    for (auto &m : path) s += m + "\n";
    return s;
  }
  void fail(const std::string &what) {
    if (out.fails.size() < 50) out.fails.push_back({caseId, what, input()});
    out.count("x_oracle_failures");
  }

  // the state of q was produced by the move path.back(); level = number of moves from the root
  void afterMove(const DetailedPlacement &q, int remaining, int level) {
    std::string st = stateLine(q);
    out.OI("state", st);
    auto it = memo.find(st);
    bool firstAsResult = resultChecked.insert(st).second;
    if (firstAsResult) {
      // check() and Inv are functions of the state: asked of the model the first time a move produces this state
      // line in this instance (the real check() runs after every move, in the oracle)
      out.OI("check", "check " + checkResult(q));
      out.OI("inv", "inv true");
      out.count("x_inv_evaluated");
    }
    std::string bad = oracle(q, base);
    if (!bad.empty()) {
      fail("after " + path.back() + " (move " + std::to_string(level) + " from the initial placement): " + bad);
      return;
    }
    maxLevel = std::max(maxLevel, level);
    if (it == memo.end()) {
      it = memo.emplace(st, 0).first;
      if (preclaimed) out.count("x_reached_state_that_is_not_an_initial_placement");
    }
    if (remaining > 0 && it->second < remaining) {
      it->second = remaining;
      expand(q, remaining, level);
    } else if (remaining > 0) {
      out.count("x_memo_hits");
    }
  }

  template <class F>
  static std::string guarded(F f) {
    try {
      f();
      return "ok";
    } catch (const std::exception &e) {
      return vc::exClass(e);
    }
  }

  void expand(const DetailedPlacement &p, int remaining, int level) {
    out.count("x_nodes");
    out.count("x_nodes_remaining_" + std::to_string(remaining));
    out.evaluations++;
    int n = p.nbCells(), R = p.nbRows();
    out.O("mark");
    bool triedBadSwap = false, triedBadInsert = false;
    // every canSwap / canInsert answer of the node, compared in two lines (one character per query, in the order of
    // the loops below); the moves follow
    auto canChar = [](const std::string &can) { return can == "1" ? '1' : can == "0" ? '0' : 'T'; };
    {
      std::string all;
      for (int a = 0; a < n; ++a)
        for (int b = 0; b < n; ++b) {
          std::string can;
          try { can = p.canSwap(a, b) ? "1" : "0"; } catch (const std::exception &e) { can = vc::exClass(e); }
          all += canChar(can);
        }
      out.OI("canSwapAll", "canSwapAll " + all);
      all.clear();
      for (int c = 0; c < n; ++c)
        for (int r = 0; r < R; ++r) {
          std::vector<int> preds = {-1};
          for (int k : p.rowCells(r)) preds.push_back(k);
          for (int pred : preds) {
            std::string can;
            try { can = p.canInsert(c, r, pred) ? "1" : "0"; } catch (const std::exception &e) { can = vc::exClass(e); }
            all += canChar(can);
          }
        }
      out.OI("canInsertAll", "canInsertAll " + all);
    }
    for (int a = 0; a < n; ++a)
      for (int b = 0; b < n; ++b) {
        std::string sa = std::to_string(a) + " " + std::to_string(b);
        std::string can;
        try { can = p.canSwap(a, b) ? "1" : "0"; } catch (const std::exception &e) { can = vc::exClass(e); }
        out.count("x_canSwap_" + can);
        if (can == "1") {
          auto pos = p.positionsOnSwap(a, b);
          out.OI("posSwap " + sa, "posSwap " + std::to_string(pos.first.x) + " " + std::to_string(pos.first.y) + " " +
                                      std::to_string(pos.second.x) + " " + std::to_string(pos.second.y));
          const char *kind = p.cellPred(a) == b   ? "x_swap_adjacent_b_before_a"
                             : p.cellPred(b) == a ? "x_swap_adjacent_a_before_b"
                             : p.cellRow(a) == p.cellRow(b) ? "x_swap_apart_same_row"
                                                            : "x_swap_two_rows";
          out.count(kind);
          path.push_back("swap " + sa);
          DetailedPlacement q = p;
          std::string res = guarded([&] { q.swap(a, b); });
          out.OI("swap " + sa, "swap " + res);
          ++feasibleMoves;
          if (res != "ok") fail("swap " + sa + " fails (" + res + ") although canSwap answered true");
          else {
            // the promised positions are the ones taken
            if (q.cellX(a) != pos.first.x || q.cellY(a) != pos.first.y || q.cellX(b) != pos.second.x || q.cellY(b) != pos.second.y)
              fail("swap " + sa + " does not put the cells at positionsOnSwap");
            afterMove(q, remaining - 1, level + 1);
          }
          path.pop_back();
          out.O("reset");
        } else if (can == "0" && !triedBadSwap) {
          // an infeasible swap must be refused and leave the state unchanged (once per node)
          triedBadSwap = true;
          DetailedPlacement q = p;
          std::string res = guarded([&] { q.swap(a, b); });
          out.OI("swap " + sa, "swap " + res);
          out.count("x_infeasible_swap_" + res);
          if (res == "ok" || stateLine(q) != stateLine(p)) {
            path.push_back("swap " + sa);
            fail("swap " + sa + " with canSwap false: " + (res == "ok" ? "accepted" : "refused but the state changed"));
            path.pop_back();
          }
        }
      }
    for (int c = 0; c < n; ++c)
      for (int r = 0; r < R; ++r) {
        std::vector<int> preds = {-1};
        for (int k : p.rowCells(r)) preds.push_back(k);
        for (int pred : preds) {
          std::string sa = std::to_string(c) + " " + std::to_string(r) + " " + std::to_string(pred);
          std::string can;
          try { can = p.canInsert(c, r, pred) ? "1" : "0"; } catch (const std::exception &e) { can = vc::exClass(e); }
          out.count("x_canInsert_" + can);
          if (can == "1") {
            Point pt = p.positionOnInsert(c, r, pred);
            out.OI("posInsert " + sa, "posInsert " + std::to_string(pt.x) + " " + std::to_string(pt.y));
            out.count(p.cellRow(c) == r ? "x_insert_same_row" : "x_insert_other_row");
            path.push_back("insert " + sa);
            DetailedPlacement q = p;
            std::string res = guarded([&] { q.insert(c, r, pred); });
            out.OI("insert " + sa, "insert " + res);
            ++feasibleMoves;
            if (res != "ok") fail("insert " + sa + " fails (" + res + ") although canInsert answered true");
            else {
              if (q.cellX(c) != pt.x || q.cellY(c) != pt.y) fail("insert " + sa + " does not put the cell at positionOnInsert");
              afterMove(q, remaining - 1, level + 1);
            }
            path.pop_back();
            out.O("reset");
          } else if (can == "0" && !triedBadInsert) {
            triedBadInsert = true;
            DetailedPlacement q = p;
            std::string res = guarded([&] { q.insert(c, r, pred); });
            out.OI("insert " + sa, "insert " + res);
            out.count("x_infeasible_insert_" + res);
            if (res == "ok" || stateLine(q) != stateLine(p)) {
              path.push_back("insert " + sa);
              fail("insert " + sa + " with canInsert false: " + (res == "ok" ? "accepted" : "refused but the state changed"));
              path.pop_back();
            }
          }
        }
      }
    out.O("drop");
  }

  // One root.  Returns false when the real code refused the legal placement.
  void root(const std::string &id, const std::vector<Placed> &pl, bool first) {
    caseId = id;
    base = buildCircuit(I, pl);
    rootText = vc::circuitString(base);
    path.clear();
    out.count("x_initial_placements");
    out.OI("case " + id, "case " + id);
    out.ops += rootText;
    std::string legal = vc::checkLegal(base, true);
    if (!legal.empty()) {  // generator bug, not a property failure
      out.count("x_generator_produced_illegal_placement");
      return;
    }
    std::unique_ptr<DetailedPlacement> pp;
    std::string res = guarded([&] { pp.reset(new DetailedPlacement(DetailedPlacement::fromIspdCircuit(base))); });
    out.OI("init", "init " + res);
    if (res != "ok") {
      fail("DetailedPlacement::fromIspdCircuit refuses a legal placement (" + res + ")");
      return;
    }
    const DetailedPlacement &p = *pp;
    out.OI("inv", "inv true");
    out.count("x_inv_evaluated");
    if (first) {
      std::string rl = "rows";
      for (const Row &r : p.rows()) { app(rl, r.minX); app(rl, r.maxX); app(rl, r.minY); app(rl, r.maxY); app(rl, (int)r.orientation); }
      out.OI("rows", rl);
    }
    std::string st = stateLine(p);
    out.OI("state", st);
    out.OI("check", "check " + checkResult(p));
    {
      Circuit ex = base;
      DetailedPlacement q = p;
      q.exportPlacement(ex);
      out.OI("export", vc::solutionString(ex));
    }
    std::string bad = oracle(p, base);
    if (!bad.empty()) {
      fail("initial state: " + bad);
      return;
    }
    int &m = memo[st];
    if (preclaimed || m < DEPTH) {
      m = DEPTH;
      expand(p, DEPTH, 0);
    } else {
      out.count("x_root_already_expanded");
    }
  }

  void run(long long firstCaseNumber) {
    PlacementEnum pe(I);
    out.count("x_instances");
    out.count("x_instances_" + I.family);
    out.count("x_cells_" + std::to_string(I.cells.size()));
    out.count("x_rows_" + std::to_string(I.rows.size()));
    if (pe.all.empty()) {
      out.count("x_instances_without_legal_placement");
      return;
    }
    bool shortcut = (long long)pe.all.size() > deepLimit;
    out.count(shortcut ? "x_instances_roots_registered_up_front" : "x_instances_plain_memo");
    if (shortcut) {
      // register every root as "expanded with DEPTH" (each one is, below)
      for (size_t j = 0; j < pe.all.size(); ++j) {
        Circuit c = buildCircuit(I, pe.all[j]);
        try {
          DetailedPlacement p = DetailedPlacement::fromIspdCircuit(c);
          memo[stateLine(p)] = DEPTH;
        } catch (const std::exception &) {
        }
      }
      preclaimed = true;
    }
    for (size_t k = 0; k < pe.all.size(); ++k)
      root("x" + std::to_string(firstCaseNumber + (long long)k), pe.all[k], k == 0);
    out.count("x_distinct_states", (long long)memo.size());
    out.count("x_feasible_moves", feasibleMoves);
    out.count("x_max_moves_from_root_" + std::to_string(maxLevel));
    if (feasibleMoves > 0) out.nontrivial = true;
  }
};

// ---------------------------------------------------------------------------------------------- driver

inline void writeAll(const std::string &path, const std::string &s) {
  std::ofstream f(path, std::ios::binary);
  f.write(s.data(), (std::streamsize)s.size());
}

inline std::string metaEscape(const std::string &s) {
  std::string o;
  for (char c : s) {
    if (c == '\n') o += "\\n";
    else if (c == '\\') o += "\\\\";
    else o += c;
  }
  return o;
}
inline std::string metaUnescape(const std::string &s) {
  std::string o;
  for (size_t i = 0; i < s.size(); ++i) {
    if (s[i] == '\\' && i + 1 < s.size()) {
      ++i;
      o += s[i] == 'n' ? '\n' : s[i];
    } else o += s[i];
  }
  return o;
}

inline void appendFile(std::ofstream &dst, const std::string &path) {
  std::ifstream f(path, std::ios::binary);
  std::vector<char> buf(1 << 20);
  while (f) {
    f.read(buf.data(), (std::streamsize)buf.size());
    std::streamsize n = f.gcount();
    if (n > 0) dst.write(buf.data(), n);
  }
}

// Runs the whole enumeration, instances in parallel (one forked child per instance, at most `jobs` at a
// time); the children's streams are concatenated in instance order, so the output is deterministic.
inline void runAll(vh::Out &out, int deepLimit = 120) {
  if (const char *e = getenv("C02_EXH_DEEP")) deepLimit = atoi(e);  // development only
  std::vector<Instance> inst = allInstances();
  // case numbers: consecutive over (instance, root)
  std::vector<long long> firstCase(inst.size() + 1, 0);
  for (size_t i = 0; i < inst.size(); ++i) firstCase[i + 1] = firstCase[i] + (long long)PlacementEnum(inst[i]).all.size();
  std::string dir = out.dir + "/xparts";
  mkdir(dir.c_str(), 0777);
  int jobs = (int)sysconf(_SC_NPROCESSORS_ONLN);
  if (jobs < 1) jobs = 1;
  if (jobs > 32) jobs = 32;
  // largest instances first (better packing); results are consumed in index order anyway
  std::vector<size_t> order(inst.size());
  for (size_t i = 0; i < order.size(); ++i) order[i] = i;
  std::stable_sort(order.begin(), order.end(), [&](size_t a, size_t b) {
    return firstCase[a + 1] - firstCase[a] > firstCase[b + 1] - firstCase[b];
  });
  std::map<pid_t, size_t> running;
  std::vector<int> status(inst.size(), -1);
  auto reap = [&]() {
    int st = 0;
    pid_t pid = wait(&st);
    if (pid <= 0) return;
    auto it = running.find(pid);
    if (it == running.end()) return;
    status[it->second] = st;
    running.erase(it);
  };
  fflush(nullptr);
  for (size_t oi = 0; oi < order.size(); ++oi) {
    size_t i = order[oi];
    while ((int)running.size() >= jobs) reap();
    pid_t pid = fork();
    if (pid < 0) { perror("fork"); exit(3); }
    if (pid == 0) {
      vd::silenceStdout();
      std::string base = dir + "/" + std::to_string(i);
      Sink sink;
      Search s(inst[i], sink, deepLimit);
      // a crash inside the real code (assert / sanitizer -> SIGABRT): leave the replay in <i>.crash
      static Search *cur;
      static std::string crashPath;
      cur = &s;
      crashPath = base + ".crash";
      signal(SIGABRT, [](int) {
        std::string t = cur->caseId + "\n" + cur->input();
        int fd = open(crashPath.c_str(), O_WRONLY | O_CREAT | O_TRUNC, 0666);
        if (fd >= 0) {
          ssize_t w = write(fd, t.data(), t.size());
          (void)w;
          close(fd);
        }
        _exit(97);
      });
      s.run(firstCase[i]);
      writeAll(base + ".ops", sink.ops);
      writeAll(base + ".impl", sink.impl);
      std::string meta;
      meta += "E " + std::to_string(sink.evaluations) + "\n";
      if (sink.nontrivial) meta += "N\n";
      for (auto &kv : sink.cnt) meta += "C " + kv.first + " " + std::to_string(kv.second) + "\n";
      for (auto &f : sink.fails) meta += "F " + f.caseId + "\t" + metaEscape(f.what) + "\t" + metaEscape(f.input) + "\n";
      writeAll(base + ".meta", meta);
      _exit(0);
    }
    running[pid] = i;
  }
  while (!running.empty()) reap();
  for (size_t i = 0; i < inst.size(); ++i) {
    std::string base = dir + "/" + std::to_string(i);
    int st = status[i];
    if (!(WIFEXITED(st) && WEXITSTATUS(st) == 0)) {
      std::string crash = vd::readFile(base + ".crash");
      std::string id = "x" + std::to_string(firstCase[i]), input = "c02x " + inst[i].describe() + "\n";
      size_t nl = crash.find('\n');
      if (nl != std::string::npos) { id = crash.substr(0, nl); input = crash.substr(nl + 1); }
      out.count("x_child_crashed");
      out.fail(id, "crash (assertion failure, sanitizer report or signal) inside the real code during the exhaustive "
                   "swap/insert enumeration; the input ends with the move being executed; wait status " + std::to_string(st), input);
    } else {
      appendFile(out.ops, base + ".ops");
      appendFile(out.impl, base + ".impl");
      std::istringstream is(vd::readFile(base + ".meta"));
      std::string l;
      while (std::getline(is, l)) {
        if (l.rfind("E ", 0) == 0) out.evaluations += atoll(l.c_str() + 2);
        else if (l == "N") out.nontrivial(vh::hashStr("c02x " + inst[i].describe()));
        else if (l.rfind("C ", 0) == 0) {
          size_t sp = l.rfind(' ');
          out.count(l.substr(2, sp - 2), atoll(l.c_str() + sp + 1));
        } else if (l.rfind("F ", 0) == 0) {
          size_t t1 = l.find('\t'), t2 = l.find('\t', t1 + 1);
          if (t1 != std::string::npos && t2 != std::string::npos)
            out.fail(l.substr(2, t1 - 2), metaUnescape(l.substr(t1 + 1, t2 - t1 - 1)), metaUnescape(l.substr(t2 + 1)));
        }
      }
    }
    for (const char *ext : {".ops", ".impl", ".meta", ".crash"}) unlink((base + ext).c_str());
  }
  rmdir(dir.c_str());
  out.count("x_reached_state_that_is_not_an_initial_placement", 0);
  // the max-depth counters are per instance: fold them into one number
  int maxLevel = 0;
  for (int d = 0; d <= DEPTH; ++d)
    if (out.dist.count("x_max_moves_from_root_" + std::to_string(d))) maxLevel = d;
  out.count("x_max_depth_reached", maxLevel);
}

// Replay of an oracle failure of this stream: "c02x …\n<circuit dump>\n(swap a b | insert c r p)*"
inline bool isReplayText(const std::string &text) { return text.rfind("c02x", 0) == 0; }

inline void replay(vh::Out &out, const std::string &text) {
  std::istringstream is(text);
  std::string first;
  std::getline(is, first);
  Circuit c(0);
  if (!vd::parseCircuit(is, c)) {
    out.notes.push_back("could not parse the c02x replay");
    return;
  }
  out.evaluations++;
  std::string txt, diag;
  std::string st = vh::isolated(
      [&](std::ostream &os) {
        vd::silenceStdout();
        std::unique_ptr<DetailedPlacement> pp;
        try {
          pp.reset(new DetailedPlacement(DetailedPlacement::fromIspdCircuit(c)));
        } catch (const std::exception &e) {
          os << "DetailedPlacement::fromIspdCircuit refuses the placement: " << e.what() << "\n";
          return;
        }
        std::string bad = oracle(*pp, c);
        if (!bad.empty()) { os << "initial state: " << bad << "\n"; return; }
        std::string l;
        int k = 0;
        while (std::getline(is, l)) {
          std::istringstream ls(l);
          std::string op;
          int a = 0, b = 0, d = 0;
          if (!(ls >> op)) continue;
          ++k;
          try {
            if (op == "swap" && (ls >> a >> b)) pp->swap(a, b);
            else if (op == "insert" && (ls >> a >> b >> d)) pp->insert(a, b, d);
            else continue;
          } catch (const std::exception &e) {
            os << l << " throws: " << e.what() << "\n";
            return;
          }
          bad = oracle(*pp, c);
          if (!bad.empty()) { os << "after " << l << " (move " << k << "): " << bad << "\n"; return; }
        }
      },
      txt, 120, &diag);
  if (st != "ok") out.fail("replay", "crash inside the real code (" + st + "): " + (diag.size() > 400 ? diag.substr(diag.size() - 400) : diag), text);
  else if (!txt.empty()) out.fail("replay", txt.substr(0, txt.find('\n')), text);
}

}  // namespace c02x
